/-
Call-stack balance of the evaluator model, part 1: the judgments.
`Quiet m`  — `m` leaves the call stack and the current module alone and never ends with a loop signal (all the
             functions outside the mutual block except the frame primitives);
`Bal m`    — frames are only added above the stack `m` starts from (`Ext`), and when `m` ends normally or with a loop
             signal the stack is the starting one up to the top frame's `line` / `ret` (`SameStack`); `csModuleID` stays
             the module of the top frame;
`BalNS m`  — `Bal m` and `m` never ends with a loop signal (expressions, calls, method bodies);
`BalIn m`  — code that runs right after a `pushFrame`: on normal exit it has popped that frame.
-/
import ZnVerif.Proofs.Handlers
set_option linter.unusedSectionVars false
set_option linter.unusedSimpArgs false
set_option linter.unusedVariables false

namespace ZnVerif.Proofs.StackBal
open ZnVerif.Model ZnVerif.Proofs.Calls

variable {ν : Type} [NumOps ν]

/-! ## outcomes and stacks -/

def isSig : Err → Bool
  | .sigBreak => true
  | .sigContinue => true
  | _ => false

def resIsOk {α} : Res α → Bool
  | .ok _ => true
  | _ => false

def resIsSig {α} : Res α → Bool
  | .err e => isSig e
  | _ => false

def okOrSig {α} (r : Res α) : Bool := resIsOk r || resIsSig r

/-- a frame without the two fields statements update in place -/
def core (fr : Frame) : Frame := { fr with line := 0, ret := none, started := false }

def norm : List Frame → List Frame
  | [] => []
  | f :: r => core f :: r

/-- the same stack up to `line` / `ret` of the top frame; the frames below are literally the same -/
def SameStack (st st' : List Frame) : Prop := norm st' = norm st

/-- frames are only added above: `st'` is `st` (up to `line` / `ret` of what was its top frame) with `extra` on top -/
def Ext (st st' : List Frame) : Prop := ∃ extra base, st' = extra ++ base ∧ norm base = norm st

/-- the current module is the module of the frame on top (−1 without frames) -/
def CsInv (s : VM ν) : Prop := s.csModuleID = topModule s.stack

theorem norm_length (st : List Frame) : (norm st).length = st.length := by cases st <;> rfl

theorem norm_cons_eq {f : Frame} {r : List Frame} {st : List Frame} (h : norm st = norm (f :: r)) :
    ∃ f', st = f' :: r ∧ core f' = core f := by
  cases st with
  | nil => cases h
  | cons f' r' =>
    simp only [norm, List.cons.injEq] at h
    exact ⟨f', by rw [h.2], h.1⟩

theorem topModule_norm {st st' : List Frame} (h : norm st' = norm st) : topModule st' = topModule st := by
  cases st with
  | nil => cases st' with
    | nil => rfl
    | cons _ _ => cases h
  | cons f r =>
    obtain ⟨f', rfl, hc⟩ := norm_cons_eq h
    have : (core f').moduleId = (core f).moduleId := by rw [hc]
    exact this

theorem SameStack.refl (st : List Frame) : SameStack st st := rfl
theorem SameStack.trans {a b c : List Frame} (h1 : SameStack a b) (h2 : SameStack b c) : SameStack a c :=
  Eq.trans h2 h1
theorem SameStack.ext {a b : List Frame} (h : SameStack a b) : Ext a b := ⟨[], b, rfl, h⟩
theorem Ext.refl (st : List Frame) : Ext st st := (SameStack.refl st).ext

theorem Ext.of_same_left {a b c : List Frame} (h : SameStack a b) (h2 : Ext b c) : Ext a c := by
  obtain ⟨e, base, rfl, hb⟩ := h2
  exact ⟨e, base, rfl, hb.trans h⟩

theorem Ext.trans {a b c : List Frame} (h1 : Ext a b) (h2 : Ext b c) : Ext a c := by
  obtain ⟨e1, base1, rfl, hb1⟩ := h1
  obtain ⟨e2, base2, rfl, hb2⟩ := h2
  cases e1 with
  | nil => exact ⟨e2, base2, rfl, hb2.trans hb1⟩
  | cons f e1' =>
    obtain ⟨f', rfl, _⟩ := norm_cons_eq (f := f) (r := e1' ++ base1) hb2
    exact ⟨e2 ++ f' :: e1', base1, by simp, hb1⟩

theorem Ext.push {a b : List Frame} (fr : Frame) (h : Ext (fr :: a) b) : Ext a b := by
  obtain ⟨e, base, rfl, hb⟩ := h
  obtain ⟨f', rfl, _⟩ := norm_cons_eq hb
  exact ⟨e ++ [f'], a, by simp, rfl⟩

theorem Ext.cons (fr : Frame) (a : List Frame) : Ext a (fr :: a) := ⟨[fr], a, rfl, rfl⟩

theorem Ext.length {a b : List Frame} (h : Ext a b) : a.length ≤ b.length := by
  obtain ⟨e, base, rfl, hb⟩ := h
  have := congrArg List.length hb
  rw [norm_length, norm_length] at this
  simp; omega

theorem sameStack_setTop (f : Frame → Frame) (hf : ∀ fr, core (f fr) = core fr) (fr : Frame) (rest : List Frame) :
    SameStack (fr :: rest) (f fr :: rest) := by
  show norm _ = norm _
  simp [norm, hf]

/-! ## `Quiet` -/

structure Quiet {α} (m : M ν α) : Prop where
  stack : ∀ s, (m s).2.stack = s.stack
  cs : ∀ s, (m s).2.csModuleID = s.csModuleID
  nosig : ∀ s, resIsSig (m s).1 = false

syntax "quiet_prim" : tactic

section quiet
variable {α β : Type}

theorem Quiet.pure (a : α) : Quiet (pure a : M ν α) := ⟨fun _ => rfl, fun _ => rfl, fun _ => rfl⟩
theorem Quiet.bind {m : M ν α} {f : α → M ν β} (hm : Quiet m) (hf : ∀ a, Quiet (f a)) : Quiet (m >>= f) := by
  refine ⟨fun s => ?_, fun s => ?_, fun s => ?_⟩ <;>
  · rw [M_bind_def]
    have h1 := hm.stack s; have h2 := hm.cs s; have h3 := hm.nosig s
    rcases h : m s with ⟨r, s'⟩
    rw [h] at h1 h2 h3
    cases r <;> simp only <;> first
      | exact h1 | exact h2 | exact h3
      | (rw [(hf _).stack s']; exact h1) | (rw [(hf _).cs s']; exact h2) | exact (hf _).nosig s'
theorem Quiet.tryCatch {m : M ν α} {k : Res α → M ν β} (hm : Quiet m) (hk : ∀ r, Quiet (k r)) :
    Quiet (Model.tryCatch m k) :=
  ⟨fun s => by unfold Model.tryCatch; rw [(hk _).stack, hm.stack],
   fun s => by unfold Model.tryCatch; rw [(hk _).cs, hm.cs],
   fun s => by unfold Model.tryCatch; exact (hk _).nosig _⟩
theorem Quiet.const (r : Res α) (h : resIsSig r = false) : Quiet (fun s => (r, s) : M ν α) :=
  ⟨fun _ => rfl, fun _ => rfl, fun _ => h⟩
theorem Quiet.rtErr (c : Nat) : Quiet (rtErr c : M ν α) := Quiet.const _ rfl
theorem Quiet.goPanic : Quiet (goPanic : M ν α) := Quiet.const _ rfl
theorem Quiet.outOfFuel : Quiet (outOfFuel : M ν α) := Quiet.const _ rfl
theorem Quiet.notModelled : Quiet (notModelled : M ν α) := Quiet.const _ rfl
theorem Quiet.throwSem (c : Nat) : Quiet (throwE (.sem c) : M ν α) := Quiet.const _ rfl
theorem Quiet.throwExcErr (a : Addr) : Quiet (throwE (.excErr a) : M ν α) := Quiet.const _ rfl
theorem Quiet.throwSigExc (a : Addr) : Quiet (throwE (.sigExc a) : M ν α) := Quiet.const _ rfl
theorem Quiet.throwE {e : Err} (h : isSig e = false) : Quiet (Model.throwE e : M ν α) := Quiet.const _ h
theorem Quiet.getVM : Quiet (getVM : M ν _) := ⟨fun _ => rfl, fun _ => rfl, fun _ => rfl⟩
/-- a state function that returns `ok` and keeps stack and module -/
theorem Quiet.ofOk {m : M ν α} (h1 : ∀ s, (m s).2.stack = s.stack) (h2 : ∀ s, (m s).2.csModuleID = s.csModuleID)
    (h3 : ∀ s, resIsSig (m s).1 = false) : Quiet m := ⟨h1, h2, h3⟩

theorem Quiet.mapM {f : α → M ν β} (h : ∀ a, Quiet (f a)) : ∀ l : List α, Quiet (l.mapM f)
  | [] => by rw [mapM_nil]; exact Quiet.pure _
  | a :: l => by
    rw [mapM_cons]
    exact Quiet.bind (h a) fun _ => Quiet.bind (Quiet.mapM h l) fun _ => Quiet.pure _

theorem Quiet.forM {f : α → M ν PUnit} (h : ∀ a, Quiet (f a)) : ∀ l : List α, Quiet (l.forM f)
  | [] => by show Quiet (Pure.pure PUnit.unit); exact Quiet.pure _
  | a :: l => by
    show Quiet (f a >>= fun _ => l.forM f)
    exact Quiet.bind (h a) fun _ => Quiet.forM h l

theorem Quiet.foldlM {f : β → α → M ν β} (h : ∀ b a, Quiet (f b a)) : ∀ (l : List α) (b : β), Quiet (l.foldlM f b)
  | [], b => by rw [List.foldlM_nil]; exact Quiet.pure _
  | a :: l, b => by
    rw [List.foldlM_cons]
    exact Quiet.bind (h b a) fun _ => Quiet.foldlM h l _

theorem Quiet.allM {f : α → M ν Bool} (h : ∀ a, Quiet (f a)) : ∀ l : List α, Quiet (allM f l)
  | [] => Quiet.pure _
  | a :: l => by
    unfold Model.allM
    refine Quiet.bind (h a) fun b => ?_
    cases b
    · exact Quiet.pure _
    · exact Quiet.allM h l

end quiet

macro_rules | `(tactic| quiet_prim) => `(tactic| with_reducible (first
  | apply Quiet.pure | apply Quiet.bind | apply Quiet.tryCatch | apply Quiet.rtErr | apply Quiet.goPanic
  | apply Quiet.outOfFuel | apply Quiet.notModelled | apply Quiet.throwSem | apply Quiet.throwExcErr
  | apply Quiet.throwSigExc | apply Quiet.getVM | apply Quiet.mapM | apply Quiet.forM | apply Quiet.foldlM
  | apply Quiet.allM))

macro "quiet_tac" : tactic => `(tactic| repeat' (first | assumption | quiet_prim | intro _ | split | dsimp only))

section leaves
variable {α β : Type}

theorem Quiet.alloc (c : Cell ν) : Quiet (alloc c) := ⟨fun _ => rfl, fun _ => rfl, fun _ => rfl⟩
theorem Quiet.getCell (a : Addr) : Quiet (getCell (ν := ν) a) := by
  refine ⟨fun s => ?_, fun s => ?_, fun s => ?_⟩ <;> (unfold Model.getCell; split <;> rfl)
theorem Quiet.setCell (a : Addr) (c : Cell ν) : Quiet (setCell a c) := by
  refine ⟨fun s => ?_, fun s => ?_, fun s => ?_⟩ <;> (unfold Model.setCell; split <;> rfl)
theorem Quiet.newNull : Quiet (newNull (ν := ν)) := Quiet.alloc _
theorem Quiet.newBool (b : Bool) : Quiet (newBool (ν := ν) b) := Quiet.alloc _
theorem Quiet.newNum (x : ν) : Quiet (newNum x) := Quiet.alloc _
theorem Quiet.newStr (x : String) : Quiet (newStr (ν := ν) x) := Quiet.alloc _
theorem Quiet.topFrame : Quiet (topFrame (ν := ν)) := ⟨fun _ => rfl, fun _ => rfl, fun _ => rfl⟩
theorem Quiet.stackDepth : Quiet (stackDepth (ν := ν)) := ⟨fun _ => rfl, fun _ => rfl, fun _ => rfl⟩
theorem Quiet.currentScope : Quiet (currentScope (ν := ν)) := ⟨fun _ => rfl, fun _ => rfl, fun _ => rfl⟩
theorem Quiet.emit (l : String) : Quiet (emit (ν := ν) l) := ⟨fun _ => rfl, fun _ => rfl, fun _ => rfl⟩
theorem Quiet.currentModule : Quiet (currentModule (ν := ν)) := by
  refine ⟨fun s => ?_, fun s => ?_, fun s => ?_⟩ <;>
    (unfold Model.currentModule; split <;> first | rfl | (split <;> rfl))
theorem Quiet.addExport (i : Nat) (name : String) (v : Addr) : Quiet (addExport (ν := ν) i name v) := by
  refine ⟨fun s => ?_, fun s => ?_, fun s => ?_⟩ <;>
    (unfold Model.addExport; split <;> first | rfl | (split <;> rfl))

theorem declare_error {sc : Scope} {name : String} {v : Addr} {c : Bool} {ext : Option Int} {e : Err}
    (h : sc.declare name v c ext = .error e) : e = .rt 43 := by
  unfold Scope.declare at h
  split at h
  · cases h; rfl
  · cases h

theorem set_go_error (name : String) (v : Addr) :
    ∀ (l : List Sym) (e : Err), Scope.set.go name v l = some (.error e) → e = .rt 44
  | [], e, h => by simp [Scope.set.go] at h
  | sy :: rest, e, h => by
    unfold Scope.set.go at h
    split at h
    · split at h
      · cases h; rfl
      · cases h
    · split at h
      · cases h
      · rename_i e' hr
        cases h
        exact set_go_error name v rest _ hr
      · cases h

theorem set_error {sc : Scope} {name : String} {v : Addr} {e : Err} (h : sc.set name v = .error e) :
    isSig e = false := by
  unfold Scope.set at h
  split at h
  · cases h; rfl
  · rename_i e' hg
    cases h
    rw [set_go_error name v _ _ hg]; rfl
  · cases h

theorem Quiet.declareElement (name : String) (v : Addr) (c : Bool) (ext : Option Int) :
    Quiet (declareElement (ν := ν) name v c ext) := by
  refine ⟨fun s => ?_, fun s => ?_, fun s => ?_⟩ <;>
  · unfold Model.declareElement
    have hcs : Model.currentScope s = (.ok (getScope s.csModuleID s), s) := rfl
    rw [bind_ok hcs]
    cases getScope s.csModuleID s with
    | none => rfl
    | some sc =>
      simp only
      have hg : Model.getVM s = (.ok s, s) := rfl
      rw [bind_ok hg]
      cases lookup name s.globals with
      | some _ => rfl
      | none =>
        simp only
        cases hd : sc.declare name v c ext with
        | error e => first | rfl | (rw [declare_error hd]; rfl)
        | ok sc' => first | exact putScope_stack _ _ _ | exact putScope_cs _ _ _ | rfl

theorem Quiet.setElement (name : String) (v : Addr) : Quiet (setElement (ν := ν) name v) := by
  refine ⟨fun s => ?_, fun s => ?_, fun s => ?_⟩ <;>
  · unfold Model.setElement
    have hcs : Model.currentScope s = (.ok (getScope s.csModuleID s), s) := rfl
    rw [bind_ok hcs]
    cases getScope s.csModuleID s with
    | none => rfl
    | some sc =>
      simp only
      cases hd : sc.set name v with
      | error e => first | rfl | exact set_error hd
      | ok sc' => first | exact putScope_stack _ _ _ | exact putScope_cs _ _ _ | rfl

theorem Quiet.withScope {body : M ν α} (hb : Quiet body) : Quiet (withScope body) := by
  refine ⟨fun s => ?_, fun s => ?_, fun s => ?_⟩ <;> rw [withScope_run] <;> simp only
  · rw [(exitScope_frame s _).1, hb.stack, (enterScope_frame s).1]
  · rw [(exitScope_frame s _).2.1, hb.cs, (enterScope_frame s).2.1]
  · exact hb.nosig _

theorem Quiet.loopSignalToException (e : Err) : Quiet (loopSignalToException (ν := ν) e) := by
  unfold Model.loopSignalToException
  cases e <;> first | exact Quiet.pure _ | exact Quiet.bind (Quiet.alloc _) fun _ => Quiet.pure _

macro_rules | `(tactic| quiet_prim) => `(tactic| with_reducible (first
  | apply Quiet.alloc | apply Quiet.getCell | apply Quiet.setCell | apply Quiet.newNull | apply Quiet.newBool
  | apply Quiet.newNum | apply Quiet.newStr | apply Quiet.topFrame | apply Quiet.stackDepth | apply Quiet.currentScope
  | apply Quiet.emit | apply Quiet.currentModule | apply Quiet.addExport | apply Quiet.declareElement
  | apply Quiet.setElement | apply Quiet.withScope | apply Quiet.loopSignalToException))

theorem Quiet.getThis : Quiet (getThis (ν := ν)) := by unfold Model.getThis; quiet_tac
theorem Quiet.getReturnValue : Quiet (getReturnValue (ν := ν)) := by unfold Model.getReturnValue; quiet_tac
theorem Quiet.matchIDType (lit : String) : Quiet (matchIDType (ν := ν) lit) := by unfold Model.matchIDType; quiet_tac
macro_rules | `(tactic| quiet_prim) => `(tactic| with_reducible (apply Quiet.matchIDType))
theorem Quiet.matchIDName (lit : String) : Quiet (matchIDName (ν := ν) lit) := by
  unfold Model.matchIDName; quiet_tac
macro_rules | `(tactic| quiet_prim) => `(tactic| with_reducible (apply Quiet.matchIDName))
theorem Quiet.matchIDNameOpt (i : Option Ident) : Quiet (matchIDNameOpt (ν := ν) i) := by
  unfold Model.matchIDNameOpt; quiet_tac
theorem Quiet.findElement (name : String) : Quiet (findElement (ν := ν) name) := by unfold Model.findElement; quiet_tac
theorem Quiet.findElementWithModule (name : String) : Quiet (findElementWithModule (ν := ν) name) := by
  unfold Model.findElementWithModule; quiet_tac
theorem Quiet.validateOne (a : Addr) (ty : String) : Quiet (validateOne (ν := ν) a ty) := by
  unfold Model.validateOne; quiet_tac

macro_rules | `(tactic| quiet_prim) => `(tactic| with_reducible (first
  | apply Quiet.getThis | apply Quiet.getReturnValue | apply Quiet.matchIDType | apply Quiet.matchIDName
  | apply Quiet.matchIDNameOpt | apply Quiet.findElement | apply Quiet.findElementWithModule | apply Quiet.validateOne))

theorem Quiet.validateExact (vals : List Addr) (tys : List String) : Quiet (validateExact (ν := ν) vals tys) := by
  unfold Model.validateExact; quiet_tac
theorem Quiet.validateAll (vals : List Addr) (ty : String) : Quiet (validateAll (ν := ν) vals ty) := by
  unfold Model.validateAll; quiet_tac

theorem Quiet.dup : ∀ (n : Nat) (a : Addr), Quiet (dup (ν := ν) n a)
  | 0, a => Quiet.outOfFuel
  | n+1, a => by
    unfold Model.dup
    have ih : ∀ a, Quiet (Model.dup (ν := ν) n a) := Quiet.dup n
    quiet_tac <;> exact ih _

theorem Quiet.display : ∀ (n : Nat) (a : Addr), Quiet (display (ν := ν) n a)
  | 0, a => Quiet.outOfFuel
  | n+1, a => by
    unfold Model.display
    have ih : ∀ a, Quiet (Model.display (ν := ν) n a) := Quiet.display n
    quiet_tac <;> exact ih _

theorem Quiet.compareXEQ : ∀ (n : Nat) (a b : Addr), Quiet (compareXEQ (ν := ν) n a b)
  | 0, a, b => Quiet.outOfFuel
  | n+1, a, b => by
    unfold Model.compareXEQ
    have ih : ∀ a b, Quiet (Model.compareXEQ (ν := ν) n a b) := Quiet.compareXEQ n
    quiet_tac <;> exact ih _ _

macro_rules | `(tactic| quiet_prim) => `(tactic| with_reducible (first
  | apply Quiet.validateExact | apply Quiet.validateAll | apply Quiet.dup | apply Quiet.display | apply Quiet.compareXEQ))

theorem Quiet.getProperty (n : Nat) (a : Addr) (name : String) : Quiet (getProperty (ν := ν) n a name) := by
  unfold Model.getProperty; quiet_tac
theorem Quiet.setProperty (a : Addr) (name : String) (v : Addr) : Quiet (setProperty (ν := ν) a name v) := by
  unfold Model.setProperty; quiet_tac

theorem Quiet.goContains (n : Nat) (x : Addr) : ∀ l : List Addr, Quiet (builtinMethod.goContains (ν := ν) n x l)
  | [] => by unfold builtinMethod.goContains; exact Quiet.pure _
  | i :: rest => by
    unfold builtinMethod.goContains
    have ih := Quiet.goContains n x rest
    quiet_tac

theorem Quiet.goFind (n : Nat) (x : Addr) : ∀ (l : List Addr) (k : Int), Quiet (builtinMethod.goFind (ν := ν) n x l k)
  | [], k => by unfold builtinMethod.goFind; exact Quiet.pure _
  | i :: rest, k => by
    unfold builtinMethod.goFind
    have ih := Quiet.goFind n x rest
    quiet_tac
    exact ih _

theorem Quiet.goGet : ∀ (l : List Addr) (cur : Addr), Quiet (builtinMethod.goGet (ν := ν) cur l)
  | [], cur => by unfold builtinMethod.goGet; exact Quiet.pure _
  | k :: rest, cur => by
    unfold builtinMethod.goGet
    have ih : ∀ c, Quiet (builtinMethod.goGet (ν := ν) c rest) := Quiet.goGet rest
    quiet_tac
    exact ih _

theorem Quiet.goArith (op : ν → ν → ν) (cz : Bool) : ∀ (l : List Addr) (acc : ν), Quiet (builtinMethod.goArith op cz acc l)
  | [], acc => by unfold builtinMethod.goArith; exact Quiet.pure _
  | v :: rest, acc => by
    unfold builtinMethod.goArith
    have ih := Quiet.goArith op cz rest
    quiet_tac
    exact ih _

macro_rules | `(tactic| quiet_prim) => `(tactic| with_reducible (first
  | apply Quiet.getProperty | apply Quiet.setProperty | apply Quiet.goContains | apply Quiet.goFind | apply Quiet.goGet
  | apply Quiet.goArith))

theorem Quiet.builtinMethod (n : Nat) (a : Addr) (name : String) (vals : List Addr) :
    Quiet (builtinMethod (ν := ν) n a name vals) := by
  unfold Model.builtinMethod
  quiet_tac

end leaves

end ZnVerif.Proofs.StackBal
