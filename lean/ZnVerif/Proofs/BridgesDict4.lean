/-
Bridge (A) ↔ (C), dictionaries: histories of *evaluator calls* (monadic level).  `DictCalls n a s ops s'`: from state `s`
a sequence of successful mutating calls on the dictionary cell `a` — 写入, 移除, `D#k = v` as the evaluator makes them
(`builtinMethod`, `reduceLHS`), interleaved with any steps that leave the cell as it is (reads, other evaluation) — leads
to `s'`; `ops` records what was done, in (C)'s vocabulary, with the key texts and the values actually stored (for 写入
the `dup` result).  `dictCalls_spec`: the cell's association list follows the insertion-ordered map through the whole
history and the invariant holds at the end.
-/
import ZnVerif.Proofs.BridgesDict3
set_option linter.unusedSectionVars false
set_option linter.unusedVariables false

namespace ZnVerif.Proofs.Bridges
open ZnVerif ZnVerif.Model
open ZnVerif.Model.Containers (DictOp OpResult)

variable {ν : Type} [NumOps ν]

inductive DictCalls (n : Nat) (a : Addr) : VM ν → List (DictOp Addr) → VM ν → Prop
  | done (s : VM ν) : DictCalls n a s [] s
  /-- any step that leaves cell `a` as it is (reads, evaluation of other expressions, allocation) -/
  | other {s s1 s2 : VM ν} {ops : List (DictOp Addr)} : s1.heap[a]? = s.heap[a]? →
      DictCalls n a s1 ops s2 → DictCalls n a s ops s2
  /-- `D之（写入：k，v）` succeeded; `v'` is the copy `dup` made of `v` -/
  | set {s sd s1 s2 : VM ν} {k v v' r : Addr} {key : String} {ops : List (DictOp Addr)} :
      s.heap[k]? = some (.str key) → dup n v s = (.ok v', sd) → builtinMethod n a "写入" [k, v] s = (.ok r, s1) →
      DictCalls n a s1 ops s2 → DictCalls n a s (.set key v' :: ops) s2
  /-- `D之（移除：k）` succeeded -/
  | delete {s s1 s2 : VM ν} {k r : Addr} {key : String} {ops : List (DictOp Addr)} :
      s.heap[k]? = some (.str key) → builtinMethod n a "移除" [k] s = (.ok r, s1) →
      DictCalls n a s1 ops s2 → DictCalls n a s (.delete key :: ops) s2
  /-- `D#key = v` succeeded -/
  | ivWrite {s s1 s2 : VM ν} {v : Addr} {key : String} {idx : Int} {ops : List (DictOp Addr)} :
      reduceLHS (2, a, key, idx) v s = (.ok (), s1) →
      DictCalls n a s1 ops s2 → DictCalls n a s (.ivWrite key v :: ops) s2

theorem get_set!_self (h : Array (Cell ν)) (a : Addr) (c : Cell ν) (hlt : a < h.size) : (h.set! a c)[a]? = some c := by
  simp [Array.set!, hlt]

/-- the ordered map after a history of abstract operations (the answers are not needed for the state) -/
def omapAfter (sub : Addr → String → Option Addr) (m : Spec.OrderedMap.OMap Addr) (ops : List (DictOp Addr)) :
    Spec.OrderedMap.OMap Addr :=
  ops.foldl (fun m op => (Spec.CollHistory.dictStep sub m op).1) m

/-- every history of successful evaluator calls on a dictionary cell with the invariant: at the end the cell holds a
dictionary with the invariant whose association list is the spec's ordered map after the recorded operations -/
theorem dictCalls_spec (sub : Addr → String → Option Addr) (n : Nat) (a : Addr) {s s' : VM ν} {ops : List (DictOp Addr)}
    (h : DictCalls n a s ops s') : ∀ (vals : List (String × Addr)) (order : List String),
    s.heap[a]? = some (.hm vals order) → dictWF vals order →
    ∃ order', s'.heap[a]? = some (.hm (omapAfter sub vals ops) order') ∧ dictWF (omapAfter sub vals ops) order' := by
  induction h with
  | done s => intro vals order hc hwf; exact ⟨order, hc, hwf⟩
  | @other s s1 s2 ops hsame _ ih => intro vals order hc hwf; exact ih vals order (by rw [hsame]; exact hc) hwf
  | @set s sd s1 s2 k v v' r key ops hk hd hcall _ ih =>
    intro vals order hc hwf
    obtain ⟨v'', s1', hd', hlt, hs1, _⟩ := bm_hm_set_ok' n a vals order s k v key r s1 hc hk hcall
    rw [hd] at hd'
    injection hd' with e1 e2
    injection e1 with e1
    subst e1; subst e2
    obtain ⟨hstep, hwf'⟩ := dictStepI_spec sub (st := (vals, order)) hwf (.set key v')
    have hc1 : s1.heap[a]? = some (.hm (hmAppend vals order key v').1 (hmAppend vals order key v').2) := by
      rw [hs1]; exact get_set!_self _ _ _ hlt
    obtain ⟨order', h1, h2⟩ := ih _ _ hc1 hwf'
    refine ⟨order', ?_, ?_⟩
    · simp only [omapAfter, List.foldl_cons, hstep] at h1 ⊢; exact h1
    · simp only [omapAfter, List.foldl_cons, hstep] at h2 ⊢; exact h2
  | @delete s s1 s2 k r key ops hk hcall _ ih =>
    intro vals order hc hwf
    have hlt := lt_size_of_getElem? hc
    have hv : validateExact [k] ["string"] s = (.ok (), s) := by
      simp [validateExact, bind, validateOne_string hk, pure]
    obtain ⟨hstep, hwf'⟩ := dictStepI_spec sub (st := (vals, order)) hwf (.delete key)
    have hc1 : s1.heap[a]? = some (.hm (dictStepI sub (vals, order) (.delete key)).1.1
        (dictStepI sub (vals, order) (.delete key)).1.2) := by
      unfold builtinMethod at hcall
      simp only [bind, getCell, hc, hv, hk] at hcall
      cases hl : lookup key vals with
      | none =>
        simp only [hl, newNull, alloc] at hcall
        injection hcall with _ e2
        simp only [dictStepI, hl]
        rw [← e2]
        show (s.heap.push Cell.null)[a]? = _
        rw [Array.getElem?_push_lt hlt, ← hc]
        simp [hlt]
      | some v0 =>
        simp only [hl, setCell, hlt, if_true, pure] at hcall
        injection hcall with _ e2
        simp only [dictStepI, hl]
        rw [← e2]
        exact get_set!_self _ _ _ hlt
    obtain ⟨order', h1, h2⟩ := ih _ _ hc1 hwf'
    refine ⟨order', ?_, ?_⟩
    · simp only [omapAfter, List.foldl_cons, hstep] at h1 ⊢; exact h1
    · simp only [omapAfter, List.foldl_cons, hstep] at h2 ⊢; exact h2
  | @ivWrite s s1 s2 v key idx ops hcall _ ih =>
    intro vals order hc hwf
    obtain ⟨hstep, hwf'⟩ := dictStepI_spec sub (st := (vals, order)) hwf (.ivWrite key v)
    have hc1 : s1.heap[a]? = some (.hm (hmAppend vals order key v).1 (hmAppend vals order key v).2) := by
      have h21 : ((2 : Nat) == 1) = false := by decide
      simp only [reduceLHS] at hcall
      simp only [h21, Bool.false_eq_true, if_false, beq_self_eq_true, if_true] at hcall
      simp only [bind, getCell, hc] at hcall
      obtain ⟨hlt, rfl⟩ := setCell_ok_inv hcall
      exact get_set!_self _ _ _ hlt
    obtain ⟨order', h1, h2⟩ := ih _ _ hc1 hwf'
    refine ⟨order', ?_, ?_⟩
    · simp only [omapAfter, List.foldl_cons, hstep] at h1 ⊢; exact h1
    · simp only [omapAfter, List.foldl_cons, hstep] at h2 ⊢; exact h2

end ZnVerif.Proofs.Bridges
