/-
The names an import statement binds are constants of the importer's scope: the induction along the two loops of
`bindImports` (all exports in sorted order / the listed names in list order), with `Handlers.ConstBound.declare` as the step.
-/
import ZnVerif.Proofs.LoaderInv
import ZnVerif.Proofs.Handlers
import ZnVerif.Proofs.Heap
set_option linter.unusedSectionVars false
set_option linter.unusedSimpArgs false
set_option linter.unusedVariables false

namespace ZnVerif.Proofs.Balance
open ZnVerif.Model ZnVerif.Proofs.Calls

variable {ν : Type} [NumOps ν]

theorem ConstBound.mono {names names' : List String} {s : VM ν} (h : ConstBound names s)
    (hsub : ∀ x ∈ names', x ∈ names) : ConstBound names' s :=
  fun x hx => h x (hsub x hx)

/-- a loop whose every pass either declares a constant under the name `key a` (`bound a`) or leaves the machine alone -/
theorem forM_constBound {α : Type} (g : α → M ν Unit) (key : α → String) (bound : α → Bool)
    (hg : ∀ a s s', g a s = (.ok (), s') →
      (bound a = true ∧ ∃ v ext, declareElement (key a) v true ext s = (.ok (), s')) ∨ (bound a = false ∧ s' = s)) :
    ∀ (l : List α) (names : List String) (s s' : VM ν), ConstBound names s → l.forM g s = (.ok (), s') →
      ConstBound (((l.filter bound).map key) ++ names) s'
  | [], names, s, s', hb, h => by
    have : s' = s := by
      have h' : (pure PUnit.unit : M ν PUnit) s = (.ok (), s') := h
      cases h'; rfl
    subst this
    simpa using hb
  | a :: l, names, s, s', hb, h => by
    have h' : (g a >>= fun _ => l.forM g) s = (.ok (), s') := h
    obtain ⟨u, s1, h1, h2⟩ := bind_ok_inv _ _ _ _ _ h'
    rcases hg a s s1 h1 with ⟨hba, v, ext, hd⟩ | ⟨hba, rfl⟩
    · have hb1 := hb.declare hd
      have ih := forM_constBound g key bound hg l _ s1 s' hb1 h2
      refine ConstBound.mono ih ?_
      intro x hx
      simp only [List.filter_cons, hba, if_true, List.map_cons, List.cons_append, List.mem_cons, List.mem_append] at hx
      simp only [List.mem_append, List.mem_cons]
      rcases hx with rfl | hx | hx
      · exact Or.inr (Or.inl rfl)
      · exact Or.inl hx
      · exact Or.inr (Or.inr hx)
    · have ih := forM_constBound g key bound hg l _ s1 s' hb h2
      refine ConstBound.mono ih ?_
      intro x hx
      simpa [List.filter_cons, hba] using hx

theorem mem_insertName (x y : String) : ∀ l : List String, y ∈ insertName x l ↔ y = x ∨ y ∈ l
  | [] => by simp [insertName]
  | z :: zs => by
    unfold insertName
    split
    · simp
    · simp only [List.mem_cons, mem_insertName x y zs]
      constructor
      · rintro (h | h | h)
        · exact Or.inr (Or.inl h)
        · exact Or.inl h
        · exact Or.inr (Or.inr h)
      · rintro (h | h | h)
        · exact Or.inr (Or.inl h)
        · exact Or.inl h
        · exact Or.inr (Or.inr h)

theorem mem_sortNames (y : String) : ∀ l : List String, y ∈ sortNames l ↔ y ∈ l
  | [] => by simp [sortNames]
  | x :: xs => by
    have ih := mem_sortNames y xs
    unfold sortNames at ih ⊢
    rw [List.foldr_cons, mem_insertName, ih]
    simp

/-- the names an import statement binds: all exports of the module, or the listed names the module exports -/
def boundNames (m : Module) (items : List Ident) : List String :=
  if items.isEmpty then m.exports.map (·.1)
  else (items.map (·.lit)).filter fun n => (lookup n m.exports).isSome

/-- after a successful `bindImports` every name it bound — and every name that was a bound constant before — is a bound constant -/
theorem bindImports_constBound (ext : Nat) (items : List Ident) (names : List String) (s s' : VM ν) (m : Module)
    (hm : s.modules[ext]? = some m) (hb : ConstBound names s) (h : bindImports ext items s = (.ok (), s')) :
    ConstBound (boundNames m items ++ names) s' := by
  unfold bindImports at h
  rw [bind_ok (show getVM s = (.ok s, s) from rfl)] at h
  simp only [hm] at h
  unfold boundNames
  split at h
  · rename_i hemp
    simp only [hemp, if_true]
    have := forM_constBound (ν := ν)
      (fun name => match lookup name m.exports with
        | some v => declareElement name v true (some (ext : Int))
        | none => goPanic) id (fun _ => true)
      (by
        intro a t t' ht
        left
        refine ⟨rfl, ?_⟩
        cases hl : lookup a m.exports with
        | none => simp only [hl] at ht; cases ht
        | some v => simp only [hl] at ht; exact ⟨v, _, ht⟩)
      _ names s s' hb h
    refine ConstBound.mono this ?_
    intro x hx
    simp only [List.mem_append] at hx ⊢
    rcases hx with hx | hx
    · left
      have := (mem_sortNames x _).2 hx
      simpa using this
    · exact Or.inr hx
  · rename_i hemp
    simp only [hemp, Bool.false_eq_true, if_false]
    have := forM_constBound (ν := ν)
      (fun (id : Ident) => match lookup id.lit m.exports with
        | some v => declareElement id.lit v true (some (ext : Int))
        | none => pure ()) (·.lit) (fun id => (lookup id.lit m.exports).isSome)
      (by
        intro a t t' ht
        cases hl : lookup a.lit m.exports with
        | none =>
          right
          simp only [hl] at ht
          refine ⟨by simp [hl], ?_⟩
          cases ht; rfl
        | some v =>
          left
          simp only [hl] at ht
          exact ⟨by simp [hl], v, _, ht⟩)
      _ names s s' hb h
    refine ConstBound.mono this ?_
    intro x hx
    simp only [List.mem_append, List.mem_filter, List.mem_map] at hx ⊢
    rcases hx with ⟨⟨a, ha, rfl⟩, hs⟩ | hx
    · exact Or.inl ⟨a, ⟨ha, hs⟩, rfl⟩
    · exact Or.inr hx

end ZnVerif.Proofs.Balance
