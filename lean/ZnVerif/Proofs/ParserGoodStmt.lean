/-
`step_good`, part 3: statements, blocks, exec blocks, the program.
-/
import ZnVerif.Proofs.ParserGoodCall

namespace ZnVerif.Proofs.ParserGood
open ZnVerif.Model ZnVerif.Model.Parser ZnVerif.Generated.Tokens ZnVerif.Generated.ParserTables
open ZnVerif.Spec.Grammar ZnVerif.Proofs.ParserHoare

variable {σ : Type} {ops : LexOps σ} {B : Nat} {μ : σ → Nat} {I : σ → Prop}

theorem inv_flag {s : PState σ} (b : Bool) (h : Inv ops B I s) : Inv ops B I { s with flag := b } :=
  ⟨h.lex, h.p2, h.p1, h.lines, h.nonempty⟩

theorem mem_snoc {α : Type} {P : α → Prop} {l : List α} {a : α} (hl : ∀ x ∈ l, P x) (ha : P a) : ∀ x ∈ l ++ [a], P x := by
  intro x hx
  simp only [List.mem_append, List.mem_singleton] at hx
  rcases hx with hx | rfl
  · exact hl x hx
  · exact ha

theorem branch_complete {st : BrSt} {acc : BranchAcc} (h : BranchPre st acc) (hst : st ≠ .init) : CStmt acc.toStmt := by
  obtain ⟨h1, h2, h3, h4⟩ := h
  obtain ⟨hie, ib, hib, hibc⟩ := h4 hst
  unfold BranchAcc.toStmt
  rw [hib, h1, h2]
  refine .branch _ _ _ _ _ _ hie hibc (fun o ho => (h3 o ho).1) (fun o ho => ?_) (fun o ho b hb => ?_) rfl (fun b hb => by cases hb)
  · obtain ⟨l, hl, _⟩ := (h3 o ho).2
    simp [hl]
  · obtain ⟨l, hl, hlc⟩ := (h3 o ho).2
    rw [hl] at hb
    cases hb
    exact hlc

theorem branch_complete_else {st : BrSt} {acc : BranchAcc} (h : BranchPre st acc) (hst : st ≠ .init)
    {blk : List Stmt} (hb : ∀ s ∈ blk, CStmt s) :
    CStmt ({ acc with hasElse := true, elseB := some blk } : BranchAcc).toStmt := by
  obtain ⟨h1, h2, h3, h4⟩ := h
  obtain ⟨hie, ib, hib, hibc⟩ := h4 hst
  unfold BranchAcc.toStmt
  simp only [hib]
  refine .branch _ _ _ _ _ _ hie hibc (fun o ho => (h3 o ho).1) (fun o ho => ?_) (fun o ho b hb => ?_) rfl
    (fun b hb' => by cases hb'; exact hb)
  · obtain ⟨l, hl, _⟩ := (h3 o ho).2
    simp [hl]
  · obtain ⟨l, hl, hlc⟩ := (h3 o ho).2
    rw [hl] at hb
    cases hb
    exact hlc

variable (hl : LexOK ops B μ I) {n : Nat} {rec : Rec σ} (hg : Good ops B μ I n rec)
include hl hg

theorem pStatement_good (s : PState σ) (hs : Inv ops B I s) :
    Sat (pStatement Variant.fixed ops n rec s) (Post ops B μ I .statement s) (ErrOK B) (n + 1 < need μ .statement s) := by
  unfold pStatement
  simp only [sat_bind, sat_unsetFlag]
  have hm0 : m μ ({ s with flag := false } : PState σ) = m μ s := rfl
  have hq0 : q ({ s with flag := false } : PState σ) = q s := rfl
  apply tryConsume_sat hl (inv_flag false hs) (by decide)
  · intro s1 hi1 hm1 hq1 _
    simp only [sat_bind]
    apply hg.callS (.expr true) rfl hi1 trivial
    · intro e s2 hi2 hm2 hq2 hc2
      apply endOfStmt_sat hi2
      simp only [sat_pure]
      exact post_lt hi2 (by omega) (by omega) (.expr _ hc2)
    · fuel_tac
  · intro tk s1 hi1 hm1 hq1 hmem _
    simp only
    rw [sat_ite]
    refine ⟨fun _ => ?_, fun _ => ?_⟩
    · simp only [sat_pure]
      exact post_lt hi1 (by omega) (by omega) (.empty _)
    simp only [sat_bind]
    have fin : ∀ st s2, Inv ops B I s2 → m μ s2 ≤ m μ s1 → 1 ≤ q s2 → CStmt st →
        Sat ((do let l ← lineOf ops tk; endOfStmt Variant.fixed; pure (st.setLine l) : PM σ Stmt) s2)
          (Post ops B μ I .statement s) (ErrOK B) (n + 1 < need μ .statement s) := by
      intro st s2 hi2 hm2 hq2 hc
      simp only [sat_bind]
      apply lineOf_sat
      intro l
      apply endOfStmt_sat hi2
      simp only [sat_pure]
      exact post_lt hi2 (by omega) hq2 (cstmt_setLine l hc)
    simp only [sat_bind] at fin
    rw [sat_ite]
    refine ⟨fun _ => ?_, fun _ => ?_⟩
    · apply hg.callS .varDecl rfl hi1 trivial
      · intro st s2 hi2 hm2 hq2 hc2
        exact fin st s2 hi2 (by omega) (by omega) hc2
      · fuel_tac
    rw [sat_ite]
    refine ⟨fun _ => ?_, fun _ => ?_⟩
    · apply hg.callS .branch rfl hi1 trivial
      · intro st s2 hi2 hm2 hq2 hc2
        exact fin st s2 hi2 (by omega) (by omega) hc2
      · fuel_tac
    rw [sat_ite]
    refine ⟨fun _ => ?_, fun _ => ?_⟩
    · simp only [sat_bind]
      apply tryConsume_sat hl hi1 (by decide)
      · intro s2 hi2 hm2 hq2 _
        simp only [sat_bind]
        apply hg.callS .functionBlock rfl hi2 trivial
        · intro r s3 hi3 hm3 hq3 hc3
          simp only [sat_pure]
          exact fin _ s3 hi3 (by omega) (by omega) (.funcDecl _ _ _ _ (by decide) hc3)
        · fuel_tac
      · intro tk2 s2 hi2 hm2 hq2 _ _
        simp only [sat_bind]
        apply hg.callS .functionBlock rfl hi2 trivial
        · intro r s3 hi3 hm3 hq3 hc3
          simp only [sat_pure]
          exact fin _ s3 hi3 (by omega) (by omega) (.funcDecl _ _ _ _ (by decide) hc3)
        · fuel_tac
      · fuel_tac
    rw [sat_ite]
    refine ⟨fun _ => ?_, fun _ => ?_⟩
    · simp only [sat_bind]
      apply hg.callS (.expr true) rfl hi1 trivial
      · intro e s2 hi2 hm2 hq2 hc2
        simp only [sat_pure]
        exact fin _ s2 hi2 (by omega) (by omega) (.ret _ _ hc2)
      · fuel_tac
    rw [sat_ite]
    refine ⟨fun _ => ?_, fun _ => ?_⟩
    · apply hg.callS .whileLoop rfl hi1 trivial
      · intro st s2 hi2 hm2 hq2 hc2
        exact fin st s2 hi2 (by omega) (by omega) hc2
      · fuel_tac
    rw [sat_ite]
    refine ⟨fun _ => ?_, fun _ => ?_⟩
    · apply hg.callS .varOneLead rfl hi1 trivial
      · intro st s2 hi2 hm2 hq2 hc2
        exact fin st s2 hi2 (by omega) (by omega) hc2
      · fuel_tac
    rw [sat_ite]
    refine ⟨fun _ => ?_, fun _ => ?_⟩
    · apply hg.callS (.iteratorRest []) rfl hi1 (by simp [PreC])
      · intro st s2 hi2 hm2 hq2 hc2
        exact fin st s2 hi2 (by omega) (by omega) hc2
      · fuel_tac
    rw [sat_ite]
    refine ⟨fun _ => ?_, fun _ => ?_⟩
    · apply hg.callS .classDecl rfl hi1 trivial
      · intro st s2 hi2 hm2 hq2 hc2
        exact fin st s2 hi2 (by omega) (by omega) hc2
      · fuel_tac
    rw [sat_ite]
    refine ⟨fun _ => ?_, fun _ => ?_⟩
    · apply hg.callS .throwStmt rfl hi1 trivial
      · intro st s2 hi2 hm2 hq2 hc2
        exact fin st s2 hi2 (by omega) (by omega) hc2
      · fuel_tac
    rw [sat_ite]
    refine ⟨fun _ => ?_, fun _ => ?_⟩
    · simp only [sat_pure]
      exact fin _ s1 hi1 (Nat.le_refl _) (by omega) (.break _)
    rw [sat_ite]
    refine ⟨fun _ => ?_, fun _ => ?_⟩
    · simp only [sat_pure]
      exact fin _ s1 hi1 (Nat.le_refl _) (by omega) (.continue _)
    · -- unreachable: the token type is one of the twelve
      exfalso
      simp only [stmtValidTypes, List.mem_cons, List.not_mem_nil, or_false] at hmem
      simp only [cTypeStmtSep, cTypeDeclareW, cTypeCondW, cTypeFuncW, cTypeReturnW, cTypeWhileLoopW, cTypeVarOneW,
        cTypeIteratorW, cTypeObjDefineW, cTypeThrowErrorW, cTypeBreakW, cTypeContinueW] at *
      omega
  · fuel_tac

theorem pVdPair_good (s : PState σ) (hs : Inv ops B I s) :
    Sat (pVdPair Variant.fixed ops n rec s) (Post ops B μ I .vdPair s) (ErrOK B) (n + 1 < need μ .vdPair s) := by
  unfold pVdPair
  simp only [sat_bind]
  apply hg.callS (.commaIds []) rfl hs trivial
  · intro ids s1 hi1 hm1 hq1 hc1
    apply tryConsume_sat hl hi1 (by decide)
    · intro s2 hi2 _ _ _
      exact errPeek_sat hi2 (by decide)
    · intro tk s2 hi2 hm2 hq2 _ _
      simp only [sat_bind]
      apply hg.callS (.expr true) rfl hi2 trivial
      · intro e s3 hi3 hm3 hq3 hc3
        simp only [sat_pure]
        refine post_lt hi3 (by omega) (by omega) ⟨?_, hc1, hc3⟩
        show (if tk.type = cTypeAssignConstW then cVDTypeAssignConst else cVDTypeAssign) = 1 ∨
          (if tk.type = cTypeAssignConstW then cVDTypeAssignConst else cVDTypeAssign) = 3
        split <;> decide
      · fuel_tac
    · fuel_tac
  · fuel_tac

theorem pVarDecl_good (s : PState σ) (hs : Inv ops B I s) :
    Sat (pVarDecl Variant.fixed ops n rec s) (Post ops B μ I .varDecl s) (ErrOK B) (n + 1 < need μ .varDecl s) := by
  unfold pVarDecl
  simp only [sat_bind]
  apply tryConsume_sat hl hs (by decide)
  · intro s1 hi1 hm1 hq1 _
    simp only [sat_bind]
    apply hg.callS .vdPair rfl hi1 trivial
    · intro p s2 hi2 hm2 hq2 hc2
      simp only [sat_pure]
      refine post_lt hi2 (by omega) (by omega) (.varDecl _ _ ?_ ?_)
      · intro x hx; simp at hx; subst hx; exact ⟨hc2.1, hc2.2.1⟩
      · intro x hx; simp at hx; subst hx; exact hc2.2.2
    · fuel_tac
  · intro tk s1 hi1 hm1 hq1 _ _
    simp only [sat_bind]
    apply expectBlockIndent_sat hi1 hq1
    intro r
    cases r with
    | none => exact errCurr_sat hi1
    | some bi =>
      simp only [sat_bind]
      apply hg.callN (.varDeclLoop bi []) hi1 (by intro p hp; simp at hp)
      · intro ps s2 hi2 hm2 hq2 hc2
        simp only [sat_pure]
        exact post_lt hi2 (by omega) (by omega)
          (.varDecl _ _ (fun p hp => ⟨(hc2 p hp).1, (hc2 p hp).2.1⟩) (fun p hp => (hc2 p hp).2.2))
      · fuel_tac
  · fuel_tac

theorem pVarDeclLoop_good (indent : Nat) (pairs : List (Nat × List Ident × Expr)) (s : PState σ) (hs : Inv ops B I s)
    (hpre : ∀ p ∈ pairs, PairOK p) :
    Sat (pVarDeclLoop Variant.fixed ops n rec indent pairs s) (Post ops B μ I (.varDeclLoop indent pairs) s) (ErrOK B)
      (n + 1 < need μ (.varDeclLoop indent pairs) s) := by
  unfold pVarDeclLoop
  simp only [sat_bind, sat_getS]
  rw [sat_ite]
  refine ⟨fun _ => ?_, fun _ => ?_⟩
  · simp only [sat_bind, sat_unsetFlag]
    have hm0 : m μ ({ s with flag := false } : PState σ) = m μ s := rfl
    have hq0 : q ({ s with flag := false } : PState σ) = q s := rfl
    apply tryConsume_sat hl (inv_flag false hs) (by decide)
    · intro s1 hi1 hm1 hq1 _
      simp only [sat_bind]
      apply hg.callS .vdPair rfl hi1 trivial
      · intro p s2 hi2 hm2 hq2 hc2
        apply endOfStmt_sat hi2
        apply hg.callN (.varDeclLoop indent _) hi2 (mem_snoc hpre hc2)
        · intro r s3 hi3 hm3 hq3 hc3
          exact post_le rfl hi3 (by omega) (by have := q_le_one s; omega) (fun h => h.elim) hc3
        · fuel_tac
      · fuel_tac
    · intro tk s1 hi1 hm1 hq1 _ _
      apply hg.callN (.varDeclLoop indent pairs) hi1 hpre
      · intro r s2 hi2 hm2 hq2 hc2
        exact post_le rfl hi2 (by omega) (by have := q_le_one s; omega) (fun h => h.elim) hc2
      · fuel_tac
    · fuel_tac
  · simp only [sat_pure]
    exact post_le rfl hs (Nat.le_refl _) (Nat.le_refl _) (fun h => h.elim) hpre

end ZnVerif.Proofs.ParserGood
