/-
C18, line table of the lexer — the invariant, stated once.

`At l k`: the start indices recorded in `l.lines`, followed by the physical line starts of the part of the text
from position `k` on, are all physical line starts of the text.  Between tokens it holds with `k = l.cursor`
(the cursor is on the first character not yet consumed); inside the loops of `parseString`, `parseComment`,
`parseVarQuote`, `parseIdentifier` and the back-tick machine, whose passes begin with `l.Next()`, it holds with
`k = l.cursor + 1` (the cursor is on the last consumed character).  `Frame k l l'` is the frame rule of every
scanner that never consumes a line break: same text, same recorded start indices, and only non-break characters between
the two cursors.  Core Lean only.
-/
import ZnVerif.Proofs.LexLines

namespace ZnVerif.Model
open ZnVerif.Generated ZnVerif.Generated.Tokens
open Spec.Lines

namespace LinesInv

/-! ### characters -/

/-- `Lexer.getChar` as a function of the text alone -/
def charAt (src : Array Nat) (i : Nat) : Nat := if h : i < src.size then src[i] else 0

theorem getChar_eq (l : Lexer) (i : Nat) : l.getChar i = charAt l.src i := rfl
theorem cur_eq (l : Lexer) : l.cur = charAt l.src l.cursor := rfl
theorem peek_eq (l : Lexer) : l.peek = charAt l.src (l.cursor + 1) := rfl
theorem peek2_eq (l : Lexer) : l.peek2 = charAt l.src (l.cursor + 2) := rfl

theorem charAt_ge {src : Array Nat} {i : Nat} (h : src.size ≤ i) : charAt src i = 0 := by
  unfold charAt; simp [Nat.not_lt.mpr h]

theorem lt_of_charAt_ne_zero {src : Array Nat} {i : Nat} (h : charAt src i ≠ 0) : i < src.size := by
  apply Classical.byContradiction
  intro hn
  exact h (charAt_ge (Nat.le_of_not_lt hn))

theorem break_eq (c : Nat) : (c == runeCR || c == runeLF) = isBreak c := rfl
theorem pair_eq (c d : Nat) : ((c == runeCR && d == runeLF) || (c == runeLF && d == runeCR)) = isPair c d := rfl

theorem isBreak_cases {c : Nat} (h : isBreak c = true) : c = 0x0D ∨ c = 0x0A := by
  simpa [isBreak] using h

/-- a character class that contains neither CR nor LF contains no line break -/
theorem nb_of_pred (P : Nat → Bool) (h13 : P 0x0D = false) (h10 : P 0x0A = false) {c : Nat} (h : P c = true) :
    isBreak c = false := by
  cases hb : isBreak c with
  | false => rfl
  | true =>
    rcases isBreak_cases hb with e | e
    · rw [e, h13] at h; cases h
    · rw [e, h10] at h; cases h

theorem nb_of_eq {c k : Nat} (h : (c == k) = true) (hk : isBreak k = false) : isBreak c = false := by
  have : c = k := by simpa using h
  rw [this]; exact hk

theorem nb_of_not (c : Nat) (h : (c == runeCR || c == runeLF) = false) : isBreak c = false := h

theorem nb_zero : isBreak 0 = false := by decide

theorem pair_break_left {c d : Nat} (h : isPair c d = true) : isBreak c = true := by
  simp only [isPair, isBreak, Bool.or_eq_true, Bool.and_eq_true, beq_iff_eq] at h ⊢
  rcases h with ⟨a, _⟩ | ⟨a, _⟩
  · exact Or.inl a
  · exact Or.inr a

theorem pair_break_right {c d : Nat} (h : isPair c d = true) : isBreak d = true := by
  simp only [isPair, isBreak, Bool.or_eq_true, Bool.and_eq_true, beq_iff_eq] at h ⊢
  rcases h with ⟨_, a⟩ | ⟨_, a⟩
  · exact Or.inr a
  · exact Or.inl a

theorem pair_false_of_nb {c d : Nat} (h : isBreak c = false) : isPair c d = false := by
  cases hp : isPair c d with
  | false => rfl
  | true => rw [pair_break_left hp] at h; cases h

/-! ### the physical line starts from a position on -/

/-- the physical line starts of the part of the text from position `k` on -/
def tail (src : Array Nat) (k : Nat) : List Nat := lineStarts k (src.toList.drop k)

theorem drop_eq_cons (src : Array Nat) (k : Nat) (h : k < src.size) :
    src.toList.drop k = charAt src k :: src.toList.drop (k + 1) := by
  have h' : k < src.toList.length := by simpa using h
  rw [List.drop_eq_getElem_cons h']
  simp [charAt, h]

theorem tail_ge (src : Array Nat) (k : Nat) (h : src.size ≤ k) : tail src k = [] := by
  unfold tail
  rw [List.drop_eq_nil_of_le (by simpa using h)]
  rfl

theorem tail_plain1 (src : Array Nat) (k : Nat) (h : isBreak (charAt src k) = false) :
    tail src k = tail src (k + 1) := by
  by_cases hk : k < src.size
  · unfold tail
    rw [drop_eq_cons src k hk]
    exact lineStarts_plain k _ _ h
  · rw [tail_ge src k (by omega), tail_ge src (k + 1) (by omega)]

theorem tail_pair (src : Array Nat) (k : Nat) (h : isPair (charAt src k) (charAt src (k + 1)) = true) :
    tail src k = (k + 2) :: tail src (k + 2) := by
  have h1 : charAt src k ≠ 0 := by
    intro e; have := pair_break_left h; rw [e] at this; revert this; decide
  have h2 : charAt src (k + 1) ≠ 0 := by
    intro e; have := pair_break_right h; rw [e] at this; revert this; decide
  unfold tail
  rw [drop_eq_cons src k (lt_of_charAt_ne_zero h1), drop_eq_cons src (k + 1) (lt_of_charAt_ne_zero h2)]
  exact lineStarts_pair k _ _ _ h

theorem lineStarts_single (pos c : Nat) (t : List Nat) (h1 : isBreak c = true)
    (h2 : ∀ d r, t = d :: r → isPair c d = false) :
    lineStarts pos (c :: t) = (pos + 1) :: lineStarts (pos + 1) t := by
  cases t with
  | nil => simp [lineStarts, h1]
  | cons d r => simp [lineStarts, h1, h2 d r rfl]

theorem tail_single (src : Array Nat) (k : Nat) (h1 : isBreak (charAt src k) = true)
    (h2 : isPair (charAt src k) (charAt src (k + 1)) = false) :
    tail src k = (k + 1) :: tail src (k + 1) := by
  have h0 : charAt src k ≠ 0 := by
    intro e; rw [e] at h1; revert h1; decide
  unfold tail
  rw [drop_eq_cons src k (lt_of_charAt_ne_zero h0)]
  apply lineStarts_single k _ _ h1
  intro d r hdr
  by_cases hk : k + 1 < src.size
  · rw [drop_eq_cons src (k + 1) hk] at hdr
    cases hdr
    exact h2
  · rw [List.drop_eq_nil_of_le (by simpa using Nat.le_of_not_lt hk)] at hdr
    cases hdr

/-- no line break at the positions `a ≤ i < b` -/
def Plain (src : Array Nat) (a b : Nat) : Prop := ∀ i, a ≤ i → i < b → isBreak (charAt src i) = false

theorem Plain.empty (src : Array Nat) (a : Nat) : Plain src a a := by
  intro i h1 h2; omega

theorem Plain.append {src : Array Nat} {a b c : Nat} (h1 : Plain src a b) (h2 : Plain src b c) : Plain src a c := by
  intro i hi1 hi2
  by_cases h : i < b
  · exact h1 i hi1 h
  · exact h2 i (by omega) hi2

theorem Plain.one {src : Array Nat} {a : Nat} (h : isBreak (charAt src a) = false) : Plain src a (a + 1) := by
  intro i h1 h2
  have : i = a := by omega
  rw [this]; exact h

theorem Plain.snoc {src : Array Nat} {a b : Nat} (h1 : Plain src a b) (h : isBreak (charAt src b) = false) :
    Plain src a (b + 1) := h1.append (Plain.one h)

theorem tail_of_plain (src : Array Nat) (a d : Nat) (h : Plain src a (a + d)) : tail src a = tail src (a + d) := by
  induction d with
  | zero => rfl
  | succ d ih =>
    have h1 : Plain src a (a + d) := fun i h1 h2 => h i h1 (by omega)
    rw [ih h1, tail_plain1 src (a + d) (h (a + d) (by omega) (by omega))]
    rfl

theorem tail_of_plain' (src : Array Nat) (a b : Nat) (hab : a ≤ b) (h : Plain src a b) : tail src a = tail src b := by
  obtain ⟨d, rfl⟩ := Nat.exists_eq_add_of_le hab
  exact tail_of_plain src a d h

/-! ### the invariant -/

/-- the recorded start indices -/
def starts (l : Lexer) : List Nat := l.lines.toList.map (·.startIdx)

/-- THE INVARIANT: recorded starts, then the physical line starts from position `k` on, are the physical line
starts of the whole text -/
def At (l : Lexer) (k : Nat) : Prop := starts l ++ tail l.src k = physicalLineStarts l.src.toList

theorem starts_pushLine (l : Lexer) (li : LineInfo) : starts (l.pushLine li) = starts l ++ [li.startIdx] := by
  simp [starts]

theorem starts_modify (l : Lexer) (i : Nat) (f : LineInfo → LineInfo) (hf : ∀ x, (f x).startIdx = x.startIdx) :
    starts { l with lines := l.lines.modify i f } = starts l :=
  modify_startIdx l.lines i f hf

theorem starts_congr {l l' : Lexer} (h : l'.lines = l.lines) : starts l' = starts l := by
  unfold starts; rw [h]

/-- moving over non-break characters -/
theorem At.plain {l l' : Lexer} {a b : Nat} (h : At l a) (hsrc : l'.src = l.src) (hst : starts l' = starts l)
    (hab : a ≤ b) (hp : Plain l.src a b) : At l' b := by
  unfold At at h ⊢
  rw [hsrc, hst, ← tail_of_plain' l.src a b hab hp]
  exact h

theorem At.same {l l' : Lexer} {a : Nat} (h : At l a) (hsrc : l'.src = l.src) (hst : starts l' = starts l) :
    At l' a := h.plain hsrc hst (Nat.le_refl a) (Plain.empty _ _)

/-- consuming a one-character line break at `a` and recording the line that starts after it -/
theorem At.single {l l' : Lexer} {a : Nat} (h : At l a) (hsrc : l'.src = l.src)
    (hst : starts l' = starts l ++ [a + 1])
    (h1 : isBreak (charAt l.src a) = true) (h2 : isPair (charAt l.src a) (charAt l.src (a + 1)) = false) :
    At l' (a + 1) := by
  unfold At at h ⊢
  rw [hsrc, hst, ← h, tail_single l.src a h1 h2]
  simp

/-- consuming a two-character line break at `a` and recording the line that starts after it -/
theorem At.pair {l l' : Lexer} {a : Nat} (h : At l a) (hsrc : l'.src = l.src)
    (hst : starts l' = starts l ++ [a + 2])
    (h1 : isPair (charAt l.src a) (charAt l.src (a + 1)) = true) :
    At l' (a + 2) := by
  unfold At at h ⊢
  rw [hsrc, hst, ← h, tail_pair l.src a h1]
  simp

/-- at the end of the text the table is complete -/
theorem At.complete {l : Lexer} {k : Nat} (h : At l k) (hk : l.src.size ≤ k) :
    starts l = physicalLineStarts l.src.toList := by
  unfold At at h
  rw [tail_ge l.src k hk] at h
  simpa using h

/-! ### the frame rule of scanners that consume no line break -/

/-- `l'` is `l` moved forward over non-break characters; `k = 0`: cursors on the next character to consume,
`k = 1`: cursors on the last consumed character -/
structure Frame (k : Nat) (l l' : Lexer) : Prop where
  src : l'.src = l.src
  sts : starts l' = starts l
  bl : l'.beginLex = l.beginLex
  le : l.cursor ≤ l'.cursor
  plain : Plain l.src (l.cursor + k) (l'.cursor + k)

theorem Frame.refl (k : Nat) (l : Lexer) : Frame k l l :=
  ⟨rfl, rfl, rfl, Nat.le_refl _, Plain.empty _ _⟩

theorem Frame.trans {k : Nat} {a b c : Lexer} (h1 : Frame k a b) (h2 : Frame k b c) : Frame k a c :=
  ⟨by rw [h2.src, h1.src], by rw [h2.sts, h1.sts], by rw [h2.bl, h1.bl], Nat.le_trans h1.le h2.le,
    h1.plain.append (by have := h2.plain; rw [h1.src] at this; exact this)⟩

/-- same position, other fields untouched -/
theorem Frame.of_eq {k : Nat} {l l' : Lexer} (h1 : l'.src = l.src) (h2 : starts l' = starts l)
    (h3 : l'.beginLex = l.beginLex) (h4 : l'.cursor = l.cursor) : Frame k l l' :=
  ⟨h1, h2, h3, Nat.le_of_eq h4.symm, by rw [h4]; exact Plain.empty _ _⟩

theorem Frame.adv0 {l : Lexer} (h : isBreak l.cur = false) : Frame 0 l l.adv :=
  ⟨rfl, rfl, rfl, Nat.le_succ _, Plain.one h⟩

theorem Frame.adv1 {l : Lexer} (h : isBreak l.peek = false) : Frame 1 l l.adv :=
  ⟨rfl, rfl, rfl, Nat.le_succ _, Plain.one h⟩

/-- a loop that ran with the cursor on the last consumed character, seen from outside: the character under the
first cursor is no break, the loop result is left by one more `Next()` -/
theorem Frame.close {l l' : Lexer} (h : Frame 1 l l') (h0 : isBreak l.cur = false) : Frame 0 l l'.adv :=
  ⟨h.src, h.sts, h.bl, Nat.le_succ_of_le h.le, (Plain.one h0).append h.plain⟩

theorem Frame.at {k : Nat} {l l' : Lexer} (h : Frame k l l') (ha : At l (l.cursor + k)) : At l' (l'.cursor + k) :=
  ha.plain h.src h.sts (by have := h.le; omega) h.plain

/-- `iterate` for any transitive relation every pass establishes (cf. `iterate_le`) -/
theorem iterate_rel {ρ σ : Type} {step : Lexer → σ → Step ρ σ × Lexer} {hc : Consumes step}
    (R : Lexer → Lexer → Prop) (htrans : ∀ a b c, R a b → R b c → R a c)
    (hstep : ∀ (l : Lexer) (s : σ), R l (step l s).2) (l : Lexer) (s : σ) : R l (iterate step hc l s).2 := by
  induction l, s using iterate.induct step hc with
  | case1 l s r l' h => rw [iterate_done h]; have := hstep l s; rw [h] at this; exact this
  | case2 l s s' l' h ih =>
    rw [iterate_cont h]; have := hstep l s; rw [h] at this; exact htrans _ _ _ this ih

/-- the state between tokens (`k = 0`) or inside a scanner loop (`k = 1`): the text is `S`, `parseBeginLex` has run,
and the invariant holds at the cursor -/
structure Good (S : Array Nat) (k : Nat) (l : Lexer) : Prop where
  src : l.src = S
  bl : l.beginLex = false
  inv : At l (l.cursor + k)

variable {S : Array Nat}

theorem Frame.good {k : Nat} {l l' : Lexer} (h : Frame k l l') (g : Good S k l) : Good S k l' :=
  ⟨by rw [h.src]; exact g.src, by rw [h.bl]; exact g.bl, h.at g.inv⟩

theorem Good.to1 {l : Lexer} (g : Good S 0 l) (h : isBreak l.cur = false) : Good S 1 l :=
  ⟨g.src, g.bl, g.inv.plain rfl rfl (Nat.le_succ _) (Plain.one h)⟩

end LinesInv
end ZnVerif.Model
