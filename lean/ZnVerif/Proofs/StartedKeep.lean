/-
`Kept m` — on every outcome of `m`, a frame in which a statement has begun stays on the stack and stays started
(position counted from the bottom).  Holds for statements and blocks: the only in-place updates of a frame are
`line := …, started := true` and `ret := …`, and expressions / calls / declarations leave the frames they start from
literally alone (`Lit`, Proofs/LineKeep.lean).
-/
import ZnVerif.Proofs.LineKeep
set_option linter.unusedSectionVars false
set_option linter.unusedSimpArgs false
set_option linter.unusedVariables false

namespace ZnVerif.Proofs.LineKeep
open ZnVerif.Model ZnVerif.Proofs.Calls ZnVerif.Proofs.StackBal

variable {ν : Type} [NumOps ν]

/-! ## `Kept`: a started frame stays, and stays started -/

/-- the frame at position `i` counted from the bottom of the stack exists and a statement has begun in it -/
def StartedAt (st : List Frame) (i : Nat) : Prop := ∃ f, st.reverse[i]? = some f ∧ f.started = true

theorem StartedAt.lt {st : List Frame} {i : Nat} (h : StartedAt st i) : i < st.length := by
  obtain ⟨f, h1, _⟩ := h
  obtain ⟨hi, _⟩ := List.getElem?_eq_some_iff.1 h1
  simpa using hi

theorem StartedAt.append (extra : List Frame) {st : List Frame} {i : Nat} (h : StartedAt st i) :
    StartedAt (extra ++ st) i := by
  have hlt := h.lt
  obtain ⟨f, h1, h2⟩ := h
  refine ⟨f, ?_, h2⟩
  rw [List.reverse_append, List.getElem?_append_left (by simpa using hlt)]
  exact h1

/-- the frame on top of `f :: r` has position `r.length` -/
theorem startedAt_top (f : Frame) (r : List Frame) : StartedAt (f :: r) r.length ↔ f.started = true := by
  unfold StartedAt
  rw [List.reverse_cons, List.getElem?_append_right (by simp)]
  simp

theorem startedAt_below (f : Frame) (r : List Frame) {i : Nat} (hi : i < r.length) :
    StartedAt (f :: r) i ↔ StartedAt r i := by
  unfold StartedAt
  rw [List.reverse_cons, List.getElem?_append_left (by simpa using hi)]

theorem StartedAt.setTop {g : Frame → Frame} (hg : ∀ fr, fr.started = true → (g fr).started = true) {f : Frame}
    {r : List Frame} {i : Nat} (h : StartedAt (f :: r) i) : StartedAt (g f :: r) i := by
  have hlt := h.lt
  by_cases hi : i < r.length
  · rw [startedAt_below _ _ hi] at h ⊢; exact h
  · have : i = r.length := by simp at hlt; omega
    subst this
    rw [startedAt_top] at h ⊢
    exact hg f h

structure Kept {α} (m : M ν α) : Prop where
  keep : ∀ s i, StartedAt s.stack i → StartedAt (m s).2.stack i

section keptrules
variable {α β : Type}

theorem Kept.ofLit {m : M ν α} (h : Lit m) : Kept m :=
  ⟨fun s i hi => by obtain ⟨extra, he⟩ := h.ext s; rw [he]; exact hi.append extra⟩

theorem Kept.ofQuiet {m : M ν α} (h : Quiet m) : Kept m := ⟨fun s i hi => by rw [h.stack]; exact hi⟩

theorem Kept.pure (a : α) : Kept (pure a : M ν α) := Kept.ofQuiet (Quiet.pure a)
theorem Kept.const (r : Res α) : Kept (fun s => (r, s) : M ν α) := ⟨fun s i hi => hi⟩
theorem Kept.throwE (e : Err) : Kept (throwE e : M ν α) := Kept.const _
theorem Kept.liftRes (r : Res α) : Kept (liftRes r : M ν α) := Kept.const _

theorem Kept.bind {m : M ν α} {f : α → M ν β} (hm : Kept m) (hf : ∀ a, Kept (f a)) : Kept (m >>= f) := by
  refine ⟨fun s i hi => ?_⟩
  rw [M_bind_def]
  have h1 := hm.keep s i hi
  rcases h : m s with ⟨r, s'⟩
  rw [h] at h1
  cases r with
  | ok a => exact (hf a).keep s' i h1
  | err e => exact h1
  | panic => exact h1
  | fuel => exact h1
  | unmodelled => exact h1

theorem Kept.tryCatch {m : M ν α} {k : Res α → M ν β} (hm : Kept m) (hk : ∀ r, Kept (k r)) :
    Kept (Model.tryCatch m k) :=
  ⟨fun s i hi => by unfold Model.tryCatch; exact (hk _).keep _ i (hm.keep s i hi)⟩

theorem Kept.withScope {body : M ν α} (hb : Kept body) : Kept (withScope body) := by
  refine ⟨fun s i hi => ?_⟩
  rw [withScope_run]
  simp only
  rw [(exitScope_frame s _).1]
  exact hb.keep (enterScope s) i (by rw [(enterScope_frame s).1]; exact hi)

theorem Kept.setTopFrame (g : Frame → Frame) (hg : ∀ fr, fr.started = true → (g fr).started = true) :
    Kept (setTopFrame (ν := ν) g) := by
  refine ⟨fun s i hi => ?_⟩
  unfold Model.setTopFrame modifyVM
  cases h : s.stack with
  | nil => simp only [h]; rw [h] at hi; exact hi
  | cons fr rest => simp only [h]; rw [h] at hi; exact hi.setTop hg

theorem Kept.mapM {f : α → M ν β} (h : ∀ a, Kept (f a)) : ∀ l : List α, Kept (l.mapM f)
  | [] => by rw [mapM_nil]; exact Kept.pure _
  | a :: l => by
    rw [mapM_cons]
    exact Kept.bind (h a) fun _ => Kept.bind (Kept.mapM h l) fun _ => Kept.pure _

theorem Kept.forM {f : α → M ν PUnit} (h : ∀ a, Kept (f a)) : ∀ l : List α, Kept (l.forM f)
  | [] => by show Kept (Pure.pure PUnit.unit); exact Kept.pure _
  | a :: l => by
    show Kept (f a >>= fun _ => l.forM f)
    exact Kept.bind (h a) fun _ => Kept.forM h l

theorem Kept.foldlM {f : β → α → M ν β} (h : ∀ b a, Kept (f b a)) : ∀ (l : List α) (b : β), Kept (l.foldlM f b)
  | [], b => by rw [List.foldlM_nil]; exact Kept.pure _
  | a :: l, b => by
    rw [List.foldlM_cons]
    exact Kept.bind (h b a) fun _ => Kept.foldlM h l _

theorem Kept.untilM {f : α → M ν Bool} (h : ∀ a, Kept (f a)) : ∀ l : List α, Kept (untilM f l)
  | [] => Kept.pure _
  | a :: l => by
    unfold Model.untilM
    refine Kept.bind (h a) fun b => ?_
    cases b
    · exact Kept.untilM h l
    · exact Kept.pure _

theorem Kept.untilIdxM {f : Nat → α → M ν Bool} (h : ∀ i a, Kept (f i a)) :
    ∀ (l : List α) (i : Nat), Kept (untilIdxM f i l)
  | [], i => Kept.pure _
  | a :: l, i => by
    unfold Model.untilIdxM
    refine Kept.bind (h i a) fun b => ?_
    cases b
    · exact Kept.untilIdxM h l _
    · exact Kept.pure _

theorem Kept.whileM {step : M ν Bool} (h : Kept step) : ∀ k : Nat, Kept (whileM k step)
  | 0 => Kept.ofQuiet Quiet.outOfFuel
  | k+1 => by
    unfold Model.whileM
    refine Kept.bind h fun b => ?_
    cases b
    · exact Kept.pure _
    · exact Kept.whileM h k

theorem Kept.firstM {f : α → M ν (Option β)} {d : M ν β} (h : ∀ a, Kept (f a)) (hd : Kept d) :
    ∀ l : List α, Kept (firstM f d l)
  | [] => hd
  | a :: l => by
    unfold Model.firstM
    refine Kept.bind (h a) fun b => ?_
    cases b
    · exact Kept.firstM h hd l
    · exact Kept.pure _

end keptrules

syntax "kept_prim" : tactic

macro_rules | `(tactic| kept_prim) => `(tactic| first
  | with_reducible apply Kept.bind
  | with_reducible apply Kept.tryCatch
  | with_reducible apply Kept.withScope
  | with_reducible apply Kept.mapM
  | with_reducible apply Kept.forM
  | with_reducible apply Kept.foldlM
  | with_reducible apply Kept.untilM | with_reducible apply Kept.untilIdxM | with_reducible apply Kept.whileM
  | with_reducible apply Kept.firstM
  | ((with_reducible (apply Kept.setTopFrame)); intro _ hst; first | rfl | exact hst)
  | with_reducible apply Kept.throwE | with_reducible apply Kept.liftRes
  | ((with_reducible (apply Kept.ofQuiet)); quiet_prim))

theorem Kept.stmtsLoop {evalOne : Stmt → M ν Addr} (h : ∀ st, Kept (evalOne st)) :
    ∀ (l : List Stmt) (last : Option Addr), Kept (stmtsLoop evalOne last l)
  | [], last => Kept.pure _
  | st :: rest, last => by
    unfold Model.stmtsLoop
    have ih := Kept.stmtsLoop h rest
    repeat' (first | assumption | kept_prim | quiet_prim | intro _ | split | dsimp only)
    all_goals first | exact h _ | exact ih _

macro_rules | `(tactic| kept_prim) => `(tactic| with_reducible apply Kept.stmtsLoop)

/-! ### the induction on fuel (statements and blocks of one frame; calls are `Lit`) -/

structure AllKept (n : Nat) : Prop where
  evalStmt : ∀ st, Kept (evalStmt (ν := ν) n st)
  evalPureStmtBlock : ∀ b, Kept (evalPureStmtBlock (ν := ν) n b)
  evalStmtBlock : ∀ b, Kept (evalStmtBlock (ν := ν) n b)

/-- `kh : AllKept n` -/
macro "kept_ih" kh:ident : tactic => `(tactic| repeat' (first
  | assumption
  | with_reducible exact AllKept.evalStmt $kh _
  | with_reducible exact AllKept.evalPureStmtBlock $kh _
  | with_reducible exact AllKept.evalStmtBlock $kh _
  | with_reducible exact Kept.ofLit (AllLit.evalExpr (allLit _) _)
  | with_reducible exact Kept.ofLit (AllLit.construct (allLit _) _ _)
  | with_reducible exact Kept.ofLit (lit_evalClassDecl _ _)
  | with_reducible exact Kept.ofLit (lit_evalFuncDecl _ _)
  | with_reducible exact Kept.ofLit (lit_evalCtorDecl _ _)
  | kept_prim | quiet_prim | intro _ | split | dsimp only))

theorem kept_evalStmtBlock_succ (n : Nat) (kh : AllKept (ν := ν) n) (b : Option (List Stmt)) :
    Kept (evalStmtBlock (ν := ν) (n+1) b) := by
  cases b <;> rw [Model.evalStmtBlock] <;> kept_ih kh <;> contradiction

theorem kept_evalPureStmtBlock_succ (n : Nat) (kh : AllKept (ν := ν) n) (b : Option (List Stmt)) :
    Kept (evalPureStmtBlock (ν := ν) (n+1) b) := by
  cases b <;> rw [Model.evalPureStmtBlock] <;> kept_ih kh <;> contradiction

set_option maxHeartbeats 1000000 in
theorem kept_evalStmt_succ (n : Nat) (kh : AllKept (ν := ν) n) (st : Stmt) : Kept (evalStmt (ν := ν) (n+1) st) := by
  cases st with
  | varDecl => rw [Model.evalStmt]; kept_ih kh
  | «while» => rw [Model.evalStmt]; kept_ih kh
  | branch => rw [Model.evalStmt]; kept_ih kh
  | empty => rw [Model.evalStmt]; kept_ih kh
  | funcDecl => rw [Model.evalStmt]; kept_ih kh
  | classDecl => rw [Model.evalStmt]; kept_ih kh
  | iterate ln e ns b =>
    rw [Model.evalStmt]
    rcases ns with _ | ⟨v, _ | ⟨k, _ | ⟨x, y⟩⟩⟩
    · dsimp only; kept_ih kh
    · dsimp only; kept_ih kh
    · dsimp only; kept_ih kh
    · dsimp only; kept_ih kh
  | ret => rw [Model.evalStmt]; kept_ih kh
  | throw => rw [Model.evalStmt]; kept_ih kh
  | «continue» => rw [Model.evalStmt]; kept_ih kh
  | «break» => rw [Model.evalStmt]; kept_ih kh
  | expr => rw [Model.evalStmt]; kept_ih kh
  | nil => rw [Model.evalStmt]; kept_ih kh

theorem allKept : ∀ n : Nat, AllKept (ν := ν) n
  | 0 => by
    exact {
      evalStmt := fun _ => Kept.ofQuiet Quiet.outOfFuel
      evalPureStmtBlock := fun _ => Kept.ofQuiet Quiet.outOfFuel
      evalStmtBlock := fun _ => Kept.ofQuiet Quiet.outOfFuel }
  | n+1 => by
    have kh := allKept n
    exact {
      evalStmt := kept_evalStmt_succ n kh
      evalPureStmtBlock := kept_evalPureStmtBlock_succ n kh
      evalStmtBlock := kept_evalStmtBlock_succ n kh }

end ZnVerif.Proofs.LineKeep
