/-
C03 at character level, parser part 3: calls, statements, blocks, declarations, the program — real lexer against layout.
-/
import ZnVerif.Proofs.LexSimExpr

namespace ZnVerif.Proofs.LexSim
open ZnVerif.Model ZnVerif.Model.Parser ZnVerif.Generated.Tokens ZnVerif.Generated.ParserTables
open ZnVerif.Spec.StmtSyntax ZnVerif.Proofs.LexRun

variable {Y : Layout} {R : Run Y} (v : Variant) (m : Nat) {rec1 : Rec Lexer} {rec2 : Rec (List Token)} (hrec : RecOK R rec1 rec2)
include hrec

theorem S_pFuncCall (y : Bool) (j : Nat) (s : S1) :
    Sim R j s (pFuncCall v realOps m rec1 y) (pFuncCall v (layoutOps Y) m rec2 y) Any := by
  unfold pFuncCall; ssim

theorem S_pCommaExprs (acc : List Expr) (j : Nat) (s : S1) :
    Sim R j s (pCommaExprs realOps m rec1 acc) (pCommaExprs (layoutOps Y) m rec2 acc) Any := by
  unfold pCommaExprs; ssim

theorem S_pCommaIds (acc : List Ident) (j : Nat) (s : S1) :
    Sim R j s (pCommaIds v realOps m rec1 acc) (pCommaIds v (layoutOps Y) m rec2 acc) Any := by
  unfold pCommaIds; ssim

theorem S_pMemberFuncCall (j : Nat) (s : S1) :
    Sim R j s (pMemberFuncCall v realOps m rec1) (pMemberFuncCall v (layoutOps Y) m rec2) Any := by
  unfold pMemberFuncCall; ssim

theorem S_pChainLoop (c : List Expr) (j : Nat) (s : S1) :
    Sim R j s (pChainLoop v realOps m rec1 c) (pChainLoop v (layoutOps Y) m rec2 c) Any := by
  unfold pChainLoop; ssim

theorem S_pVarDecl (j : Nat) (s : S1) :
    Sim R j s (pVarDecl v realOps m rec1) (pVarDecl v (layoutOps Y) m rec2) Any := by
  unfold pVarDecl; ssim

theorem S_pVarDeclLoop (i : Nat) (ps : List (Nat × List Ident × Expr)) (j : Nat) (s : S1) :
    Sim R j s (pVarDeclLoop v realOps m rec1 i ps) (pVarDeclLoop v (layoutOps Y) m rec2 i ps) Any := by
  unfold pVarDeclLoop; ssim

theorem S_pVdPair (j : Nat) (s : S1) :
    Sim R j s (pVdPair v realOps m rec1) (pVdPair v (layoutOps Y) m rec2) Any := by
  unfold pVdPair; ssim

theorem S_pObjNew (j : Nat) (s : S1) :
    Sim R j s (pObjNew v realOps m rec1) (pObjNew v (layoutOps Y) m rec2) Any := by
  unfold pObjNew; ssim

theorem S_pWhileLoop (j : Nat) (s : S1) :
    Sim R j s (pWhileLoop v realOps m rec1) (pWhileLoop v (layoutOps Y) m rec2) Any := by
  unfold pWhileLoop; ssim

theorem S_pBlock (i : Nat) (j : Nat) (s : S1) :
    Sim R j s (pBlock rec1 i) (pBlock rec2 i) Any := by
  unfold pBlock; ssim

theorem S_pBlockLoop (i : Nat) (acc : List Stmt) (j : Nat) (s : S1) :
    Sim R j s (pBlockLoop realOps rec1 i acc) (pBlockLoop (layoutOps Y) rec2 i acc) Any := by
  unfold pBlockLoop; ssim

theorem S_pBranch (j : Nat) (s : S1) :
    Sim R j s (pBranch realOps rec1) (pBranch (layoutOps Y) rec2) Any := by
  unfold pBranch
  refine S_bind_getS ?_
  refine S_intro (fun hok => ?_)
  rw [currIndentOf_toL hok]
  exact hrec _ _ _

omit hrec in
theorem S_branchHeader (mi : Nat) (st : BrSt) (j : Nat) (s : S1) :
    Sim R j s (branchHeader realOps m mi st) (branchHeader (layoutOps Y) m mi st) Any := by
  unfold branchHeader
  cases st <;> dsimp only <;> ssim

theorem S_pBranchLoop (mi : Nat) (st : BrSt) (acc : BranchAcc) (j : Nat) (s : S1) :
    Sim R j s (pBranchLoop v realOps m rec1 mi st acc) (pBranchLoop v (layoutOps Y) m rec2 mi st acc) Any := by
  have hb := S_branchHeader (R := R) m
  unfold pBranchLoop; ssim
  · exact hb _ _ _ _
  · split <;> ssim

theorem S_pFunctionBlock (j : Nat) (s : S1) :
    Sim R j s (pFunctionBlock v realOps m rec1) (pFunctionBlock v (layoutOps Y) m rec2) Any := by
  unfold pFunctionBlock; ssim

theorem S_pExecBlock (i : Nat) (j : Nat) (s : S1) :
    Sim R j s (pExecBlock rec1 i) (pExecBlock rec2 i) Any := by
  unfold pExecBlock; ssim

theorem S_pExecLoop (i : Nat) (st : ExSt) (ins : List Ident) (ss : List Stmt) (cs : List (Option Ident × Option (List Stmt))) (j : Nat) (s : S1) :
    Sim R j s (pExecLoop v realOps m rec1 i st ins ss cs) (pExecLoop v (layoutOps Y) m rec2 i st ins ss cs) Any := by
  unfold pExecLoop
  cases st <;> dsimp only <;> ssim

theorem S_pVarOneSecond (e1 : Expr) (j : Nat) (s : S1) :
    Sim R j s (pVarOneSecond v realOps m rec1 e1) (pVarOneSecond v (layoutOps Y) m rec2 e1) Any := by
  unfold pVarOneSecond; ssim
  split <;> ssim

theorem S_pVarOneLead (j : Nat) (s : S1) :
    Sim R j s (pVarOneLead v realOps m rec1) (pVarOneLead v (layoutOps Y) m rec2) Any := by
  have h := S_pVarOneSecond (R := R) v m hrec
  unfold pVarOneLead; ssim
  all_goals first | exact h _ _ _ | (split <;> ssim)

theorem S_pIteratorRest (ids : List Ident) (j : Nat) (s : S1) :
    Sim R j s (pIteratorRest v realOps m rec1 ids) (pIteratorRest v (layoutOps Y) m rec2 ids) Any := by
  unfold pIteratorRest; ssim

theorem S_pThrow (j : Nat) (s : S1) :
    Sim R j s (pThrow v realOps m rec1) (pThrow v (layoutOps Y) m rec2) Any := by
  unfold pThrow; ssim

theorem S_pThrowLoop (acc : List Expr) (j : Nat) (s : S1) :
    Sim R j s (pThrowLoop realOps m rec1 acc) (pThrowLoop (layoutOps Y) m rec2 acc) Any := by
  unfold pThrowLoop; ssim

theorem S_pCatchStmt (j : Nat) (s : S1) :
    Sim R j s (pCatchStmt v realOps m rec1) (pCatchStmt v (layoutOps Y) m rec2) Any := by
  unfold pCatchStmt; ssim

theorem S_pImportStmt (j : Nat) (s : S1) :
    Sim R j s (pImportStmt v realOps m rec1) (pImportStmt v (layoutOps Y) m rec2) Any := by
  unfold pImportStmt; ssim

theorem S_pClassDecl (j : Nat) (s : S1) :
    Sim R j s (pClassDecl v realOps m rec1) (pClassDecl v (layoutOps Y) m rec2) Any := by
  unfold pClassDecl; ssim

theorem S_pClassLoop (i : Nat) (ps : List (Option Ident × Expr)) (ms : List Stmt) (gs : List Stmt) (j : Nat) (s : S1) :
    Sim R j s (pClassLoop v realOps m rec1 i ps ms gs) (pClassLoop v (layoutOps Y) m rec2 i ps ms gs) Any := by
  unfold pClassLoop; ssim

theorem S_pPropertyDecl (j : Nat) (s : S1) :
    Sim R j s (pPropertyDecl v realOps m rec1) (pPropertyDecl v (layoutOps Y) m rec2) Any := by
  unfold pPropertyDecl; ssim

theorem S_pProgram (j : Nat) (s : S1) :
    Sim R j s (pProgram realOps rec1) (pProgram (layoutOps Y) rec2) Any := by
  unfold pProgram
  refine S_bind_getS ?_
  refine S_intro (fun hok => ?_)
  rw [peekIndentOf_toL hok]
  exact hrec _ _ _

theorem S_pProgramLoop (i : Nat) (x : Bool) (ims : List Import) (e : Option ExecBlock) (j : Nat) (s : S1) :
    Sim R j s (pProgramLoop realOps m rec1 i x ims e) (pProgramLoop (layoutOps Y) m rec2 i x ims e) Any := by
  unfold pProgramLoop; ssim

theorem S_pStatement (j : Nat) (s : S1) :
    Sim R j s (pStatement v realOps m rec1) (pStatement v (layoutOps Y) m rec2) Any := by
  unfold pStatement; ssim

end ZnVerif.Proofs.LexSim
