/-
Helper lemmas for C15: reading the scope shapes `ImpScope` / `HomeScope` — which names resolve to what, and which
import statement brought them.
-/
import ZnVerif.Proofs.ModulesEnv

namespace ZnVerif.Proofs.Modules
open ZnVerif.Model.Modules
open ZnVerif.Spec.ModuleSem (defsOf exportNames selected)

/-! ### searching a scope -/

theorem findIn_append (n : Name) : ∀ (A B : List Sym), Scope.findIn n (A ++ B) =
    match Scope.findIn n A with
    | some (y, i) => some (y, i + B.length)
    | none => Scope.findIn n B
  | [], B => rfl
  | a :: A, B => by
    simp only [List.cons_append, Scope.findIn]
    by_cases h : a.name = n
    · simp [h]
    · simp only [h, if_false]; exact findIn_append n A B

theorem findIn_none_of_notin {n : Name} : ∀ {L : List Sym}, (∀ y, y ∈ L → y.name ≠ n) → Scope.findIn n L = none
  | [], _ => rfl
  | a :: L, h => by
    simp only [Scope.findIn]
    have := h a (List.mem_cons_self ..)
    simp only [this, if_false]
    exact findIn_none_of_notin (fun y hy => h y (List.mem_cons_of_mem _ hy))

/-- in the reversed image of a list with distinct keys, a key is found at its own index -/
theorem findIn_rev_map {α} (f : α → Sym) (key : α → Name) (hk : ∀ e, (f e).name = key e) :
    ∀ (L : List α), (L.map key).Nodup → ∀ (i : Nat) (e : α), L[i]? = some e →
      Scope.findIn (key e) ((L.map f).reverse) = some (f e, i)
  | [], _, i, e, h => by simp at h
  | a :: L, hnd, i, e, h => by
    simp only [List.map_cons, List.reverse_cons]
    rw [findIn_append]
    have hnd' : key a ∉ L.map key ∧ (L.map key).Nodup := List.nodup_cons.1 hnd
    cases i with
    | zero =>
      simp at h; subst h
      have : Scope.findIn (key a) ((L.map f).reverse) = none := by
        apply findIn_none_of_notin
        intro y hy
        simp only [List.mem_reverse, List.mem_map] at hy
        obtain ⟨b, hb, rfl⟩ := hy
        rw [hk]
        intro heq
        exact hnd'.1 (List.mem_map.2 ⟨b, hb, heq⟩)
      rw [this]
      simp [Scope.findIn, hk]
    | succ j =>
      simp at h
      rw [findIn_rev_map f key hk L hnd'.2 j e h]
      simp

theorem mem_getElem? {α} {l : List α} {a : α} (h : a ∈ l) : ∃ i : Nat, l[i]? = some a := List.getElem?_of_mem h

/-! ### chosen names -/

theorem assoc_iff_mem {β} {n : Name} {v : β} : ∀ {ex : List (Name × β)}, (ex.map (fun p => p.1)).Nodup →
    (assoc n ex = some v ↔ (n, v) ∈ ex)
  | [], _ => by simp [assoc]
  | (a, b) :: r, hnd => by
    have hnd' : a ∉ r.map (fun p => p.1) ∧ (r.map (fun p => p.1)).Nodup := List.nodup_cons.1 hnd
    unfold assoc
    by_cases ha : a = n
    · subst ha
      simp only [if_true, List.mem_cons]
      constructor
      · intro h; injection h with h; subst h; exact Or.inl rfl
      · rintro (h | h)
        · injection h with _ h; rw [h]
        · exact absurd (List.mem_map.2 ⟨(a, v), h, rfl⟩) hnd'.1
    · simp only [ha, if_false, List.mem_cons]
      rw [assoc_iff_mem hnd'.2]
      constructor
      · exact Or.inr
      · rintro (h | h)
        · injection h with h _; exact absurd h.symm ha
        · exact h

theorem mem_selectExports {ex : List (Name × Val)} {n : Name} {v : Val} : ∀ {items : List Name},
    (n, v) ∈ selectExports ex items ↔ n ∈ items ∧ assoc n ex = some v
  | [] => by simp [selectExports]
  | a :: r => by
    unfold selectExports
    cases ha : assoc a ex with
    | none =>
      dsimp only
      rw [mem_selectExports (items := r)]
      constructor
      · exact fun h => ⟨List.mem_cons_of_mem _ h.1, h.2⟩
      · rintro ⟨h1, h2⟩
        rcases List.mem_cons.1 h1 with rfl | h1
        · rw [ha] at h2; cases h2
        · exact ⟨h1, h2⟩
    | some w =>
      dsimp only
      rw [List.mem_cons, mem_selectExports (items := r)]
      constructor
      · rintro (h | h)
        · injection h with h1 h2; subst h1; subst h2; exact ⟨List.mem_cons_self .., ha⟩
        · exact ⟨List.mem_cons_of_mem _ h.1, h.2⟩
      · rintro ⟨h1, h2⟩
        rcases List.mem_cons.1 h1 with rfl | h1
        · rw [ha] at h2; injection h2 with h2; subst h2; exact Or.inl rfl
        · exact Or.inr ⟨h1, h2⟩

theorem mem_chosenOf {O : Oracle} (hρ : ExportOrderOK O) {ex : List (Name × Val)}
    (hnd : (ex.map (fun p => p.1)).Nodup) {items : List Name} {n : Name} {v : Val} :
    (n, v) ∈ chosenOf O ex items ↔ (n, v) ∈ ex ∧ (items = [] ∨ n ∈ items) := by
  unfold chosenOf
  cases items with
  | nil => simp [(hρ ex).mem_iff]
  | cons a r =>
    dsimp only
    rw [mem_selectExports, assoc_iff_mem hnd]
    constructor
    · exact fun h => ⟨h.2, Or.inr h.1⟩
    · rintro ⟨h1, h2 | h2⟩
      · cases h2
      · exact ⟨h2, h1⟩

/-- two export tables of the same registered name list the same pairs -/
theorem ExOK.same_mem {files : Files} {mainSrc : ModuleSrc} {libs : Libs} {n : Name} {mid : Nat}
    {ex ex' : List (Name × Val)} (h : ExOK files mainSrc libs n mid ex) (h' : ExOK files mainSrc libs n mid ex')
    (p : Name × Val) : p ∈ ex' → p ∈ ex := by
  intro hp
  rcases libType_cases n with hs | hc
  · obtain ⟨names, e1, i1, n1⟩ := h.std hs
    obtain ⟨names', e1', i1', n1'⟩ := h'.std hs
    rw [e1] at e1'; injection e1' with e1'; subst e1'
    have hx : p.1 ∈ ex.map (fun q => q.1) := (i1 p.1).2 ((i1' p.1).1 (List.mem_map.2 ⟨p, hp, rfl⟩))
    obtain ⟨q, hq, hqn⟩ := List.mem_map.1 hx
    have : q = p := by
      cases q with
      | mk qa qb =>
        cases p with
        | mk pa pb =>
          simp only at hqn
          have h1 := n1 _ hq
          have h2 := n1' _ hp
          simp only at h1 h2
          rw [hqn, h1, h2]
    rw [← this]; exact hq
  · obtain ⟨s1, e1, r1⟩ := h.custom hc
    obtain ⟨s2, e2, r2⟩ := h'.custom hc
    rw [e1] at e2; injection e2 with e2; subst e2
    rw [r1, ← r2]; exact hp

theorem EntriesOK.mem_iff {O : Oracle} (hρ : ExportOrderOK O) {files : Files} {mainSrc : ModuleSrc} {libs : Libs}
    {vm : VM} {imps : List Imp} {IS : List Entry} (h : EntriesOK O files mainSrc libs vm imps IS) (e : Entry) :
    e ∈ IS ↔ ∃ imp, imp ∈ imps ∧ ∃ mid ex, assoc imp.name vm.nameMap = some mid ∧
      ExOK files mainSrc libs imp.name mid ex ∧ (e.1, e.2.1) ∈ chosenOf O ex imp.items ∧ e.2.2 = mid := by
  induction h with
  | nil => simp
  | @snoc imps IS imp mid ex _ hn hex ih =>
    rw [List.mem_append, ih]
    constructor
    · rintro (⟨i, hi, rest⟩ | h)
      · exact ⟨i, List.mem_append_left _ hi, rest⟩
      · obtain ⟨p, hp, rfl⟩ := List.mem_map.1 h
        exact ⟨imp, List.mem_append_right _ (List.mem_singleton.2 rfl), mid, ex, hn, hex, hp, rfl⟩
    · rintro ⟨i, hi, mid', ex', h1, h2, h3, h4⟩
      rcases List.mem_append.1 hi with hi' | hi'
      · exact Or.inl ⟨i, hi', mid', ex', h1, h2, h3, h4⟩
      · have := List.mem_singleton.1 hi'; subst this
        rw [hn] at h1; injection h1 with h1; subst h1
        right
        have h3' : (e.1, e.2.1) ∈ chosenOf O ex i.items := by
          rw [mem_chosenOf hρ hex.nodup]
          have := (mem_chosenOf hρ h2.nodup).1 h3
          exact ⟨hex.same_mem h2 _ this.1, this.2⟩
        exact List.mem_map.2 ⟨(e.1, e.2.1), h3', by rw [← h4]⟩

/-! ### reading the two scope shapes -/

theorem toSym0_name (e : Entry) : (toSym0 e).name = e.1 := rfl
theorem toSym1_name (p : Name × Val) : (toSym1 p).name = p.1 := rfl

theorem ImpScope.resolve {s : Scope} {IS : List Entry} (h : ImpScope s IS) {e : Entry} (he : e ∈ IS) :
    s.getValueWithModuleID e.1 = some (e.2.1, some e.2.2) := by
  obtain ⟨i, hi⟩ := mem_getElem? he
  unfold Scope.getValueWithModuleID Scope.find
  rw [h.locals, findIn_rev_map toSym0 (fun e => e.1) toSym0_name IS h.nodup i e hi]
  dsimp only
  rw [h.ext i, hi]; rfl

theorem ImpScope.depth0 {s : Scope} {IS : List Entry} (h : ImpScope s IS) (n : Name) :
    (∃ y, y ∈ s.locals ∧ y.depth = 0 ∧ y.name = n) ↔ ∃ e, e ∈ IS ∧ e.1 = n := by
  rw [h.locals]
  constructor
  · rintro ⟨y, hy, _, hn⟩
    simp only [List.mem_reverse, List.mem_map] at hy
    obtain ⟨e, he, rfl⟩ := hy
    exact ⟨e, he, hn⟩
  · rintro ⟨e, he, hn⟩
    exact ⟨toSym0 e, by simp only [List.mem_reverse, List.mem_map]; exact ⟨e, he, rfl⟩, rfl, hn⟩

theorem ImpScope.allConst {s : Scope} {IS : List Entry} (h : ImpScope s IS) : ∀ y, y ∈ s.locals → y.isConst = true := by
  intro y hy
  rw [h.locals] at hy
  simp only [List.mem_reverse, List.mem_map] at hy
  obtain ⟨e, _, rfl⟩ := hy; rfl

theorem HomeScope.own {O : Oracle} (hρ : ExportOrderOK O) {s : Scope} {ex : List (Name × Val)} {IS : List Entry}
    (hnd : (ex.map (fun p => p.1)).Nodup) (h : HomeScope O s ex IS) {n : Name} {v : Val} (hm : (n, v) ∈ ex) :
    s.getValueWithModuleID n = some (v, none) := by
  have hm' : (n, v) ∈ O.exportOrder ex := (hρ ex).mem_iff.2 hm
  have hnd' : ((O.exportOrder ex).map (fun p => p.1)).Nodup :=
    ((hρ ex).map (fun p => p.1)).nodup_iff.2 hnd
  obtain ⟨i, hi⟩ := mem_getElem? hm'
  unfold Scope.getValueWithModuleID Scope.find
  rw [h.locals, findIn_append,
    findIn_rev_map toSym1 (fun p => p.1) toSym1_name (O.exportOrder ex) hnd' i (n, v) hi]
  dsimp only
  rw [h.ext]
  have : IS.length ≤ i + ((IS.map toSym0).reverse).length := by simp
  rw [List.getElem?_eq_none this]; rfl

theorem HomeScope.imported {O : Oracle} (hρ : ExportOrderOK O) {s : Scope} {ex : List (Name × Val)} {IS : List Entry}
    (h : HomeScope O s ex IS) {e : Entry} (he : e ∈ IS) (hns : e.1 ∉ ex.map (fun p => p.1)) :
    s.getValueWithModuleID e.1 = some (e.2.1, some e.2.2) := by
  obtain ⟨i, hi⟩ := mem_getElem? he
  have hnone : Scope.findIn e.1 (((O.exportOrder ex).map toSym1).reverse) = none := by
    apply findIn_none_of_notin
    intro y hy
    simp only [List.mem_reverse, List.mem_map] at hy
    obtain ⟨p, hp, rfl⟩ := hy
    intro heq
    exact hns (List.mem_map.2 ⟨p, (hρ ex).mem_iff.1 hp, heq⟩)
  unfold Scope.getValueWithModuleID Scope.find
  rw [h.locals, findIn_append, hnone]
  dsimp only
  rw [findIn_rev_map toSym0 (fun e => e.1) toSym0_name IS h.nodup i e hi]
  dsimp only
  rw [h.ext i, hi]; rfl

theorem HomeScope.depth0 {O : Oracle} {s : Scope} {ex : List (Name × Val)} {IS : List Entry} (h : HomeScope O s ex IS)
    (n : Name) : (∃ y, y ∈ s.locals ∧ y.depth = 0 ∧ y.name = n) ↔ ∃ e, e ∈ IS ∧ e.1 = n := by
  rw [h.locals]
  constructor
  · rintro ⟨y, hy, hd, hn⟩
    rcases List.mem_append.1 hy with hy | hy
    · simp only [List.mem_reverse, List.mem_map] at hy
      obtain ⟨p, _, rfl⟩ := hy
      simp [toSym1] at hd
    · simp only [List.mem_reverse, List.mem_map] at hy
      obtain ⟨e, he, rfl⟩ := hy
      exact ⟨e, he, hn⟩
  · rintro ⟨e, he, hn⟩
    refine ⟨toSym0 e, List.mem_append_right _ ?_, rfl, hn⟩
    simp only [List.mem_reverse, List.mem_map]; exact ⟨e, he, rfl⟩

theorem HomeScope.allConst {O : Oracle} {s : Scope} {ex : List (Name × Val)} {IS : List Entry} (h : HomeScope O s ex IS) :
    ∀ y, y ∈ s.locals → y.isConst = true := by
  intro y hy
  rw [h.locals] at hy
  rcases List.mem_append.1 hy with hy | hy
  · simp only [List.mem_reverse, List.mem_map] at hy
    obtain ⟨p, _, rfl⟩ := hy; rfl
  · simp only [List.mem_reverse, List.mem_map] at hy
    obtain ⟨e, _, rfl⟩ := hy; rfl

/-- an assignment to any name that a scope of constants resolves is error 44 -/
theorem setValueCode_const {s : Scope} (hc : ∀ y, y ∈ s.locals → y.isConst = true) {n : Name}
    (hn : ∃ y, y ∈ s.locals ∧ y.name = n) : s.setValueCode n = some 44 := by
  unfold Scope.setValueCode Scope.find
  have : ∀ L : List Sym, (∀ y, y ∈ L → y.isConst = true) → (∃ y, y ∈ L ∧ y.name = n) →
      ∃ y i, Scope.findIn n L = some (y, i) ∧ y.isConst = true := by
    intro L
    induction L with
    | nil => rintro _ ⟨y, hy, _⟩; cases hy
    | cons a L ih =>
      intro hc hex
      simp only [Scope.findIn]
      by_cases ha : a.name = n
      · exact ⟨a, L.length, by simp [ha], hc a (List.mem_cons_self ..)⟩
      · simp only [ha, if_false]
        apply ih (fun y hy => hc y (List.mem_cons_of_mem _ hy))
        obtain ⟨y, hy, hyn⟩ := hex
        rcases List.mem_cons.1 hy with rfl | hy
        · exact absurd hyn ha
        · exact ⟨y, hy, hyn⟩
  obtain ⟨y, i, h1, h2⟩ := this s.locals hc hn
  rw [h1]; simp [h2]

end ZnVerif.Proofs.Modules

namespace ZnVerif.Proofs.Modules
open ZnVerif.Model.Modules
open ZnVerif.Spec.ModuleSem (defsOf exportNames selected)

theorem EntriesOK.exists_of_mem {O : Oracle} {files : Files} {mainSrc : ModuleSrc} {libs : Libs} {vm : VM}
    {imps : List Imp} {IS : List Entry} (h : EntriesOK O files mainSrc libs vm imps IS) {imp : Imp} (hi : imp ∈ imps) :
    ∃ mid ex, assoc imp.name vm.nameMap = some mid ∧ ExOK files mainSrc libs imp.name mid ex := by
  induction h with
  | nil => cases hi
  | @snoc imps IS imp' mid ex _ hn hex ih =>
    rcases List.mem_append.1 hi with hi | hi
    · exact ih hi
    · have := List.mem_singleton.1 hi; subst this; exact ⟨mid, ex, hn, hex⟩

/-- what an import statement brings: the selected definitions of the module's source, or the selected registered
    names of the library -/
def Brings (files : Files) (mainSrc : ModuleSrc) (libs : Libs) (imp : Imp) (n : Name) : Prop :=
  ((parseLibName imp.name).libType = .custom ∧
    ∃ srcI, msrc files mainSrc imp.name = some srcI ∧ selected (exportNames srcI) imp.items n) ∨
  ((parseLibName imp.name).libType = .std ∧
    ∃ names, assoc imp.name libs = some names ∧ selected names imp.items n)

/-- the names an import list brings are exactly the selected exports of the imported modules' sources (or of the
    registered libraries) -/
theorem brought_iff {O : Oracle} (hρ : ExportOrderOK O) {files : Files} {mainSrc : ModuleSrc} {libs : Libs} {vm : VM}
    {imps : List Imp} {IS : List Entry} (hE : EntriesOK O files mainSrc libs vm imps IS) (n : Name) :
    (∃ e, e ∈ IS ∧ e.1 = n) ↔ ∃ imp, imp ∈ imps ∧ Brings files mainSrc libs imp n := by
  constructor
  · rintro ⟨e, he, rfl⟩
    obtain ⟨imp, hi, mid, ex, _, hex, hch, _⟩ := (hE.mem_iff hρ e).1 he
    have hm := (mem_chosenOf hρ hex.nodup).1 hch
    refine ⟨imp, hi, ?_⟩
    rcases libType_cases imp.name with hs | hc
    · obtain ⟨names, e1, i1, _⟩ := hex.std hs
      exact Or.inr ⟨hs, names, e1, (i1 e.1).1 (List.mem_map.2 ⟨_, hm.1, rfl⟩), hm.2⟩
    · obtain ⟨srcI, hsrc, hexeq⟩ := hex.custom hc
      refine Or.inl ⟨hc, srcI, hsrc, ?_, hm.2⟩
      have := hm.1
      rw [hexeq] at this
      obtain ⟨d, hd, hdn⟩ := List.mem_map.1 this
      injection hdn with hdn _
      unfold exportNames
      exact List.mem_map.2 ⟨d, hd, hdn⟩
  · rintro ⟨imp, hi, hbr⟩
    obtain ⟨mid, ex, hn, hex⟩ := hE.exists_of_mem hi
    rcases hbr with ⟨hc, srcI, hsrc, hsel⟩ | ⟨hs, names, hl, hsel⟩
    · obtain ⟨srcI', hsrc', hexeq⟩ := hex.custom hc
      rw [hsrc] at hsrc'; injection hsrc' with hsrc'; subst hsrc'
      obtain ⟨d, hd, hdn⟩ := List.mem_map.1 hsel.1
      have hmem : (n, valOfDef d mid) ∈ ex := by
        rw [hexeq]; exact List.mem_map.2 ⟨d, hd, by rw [hdn]⟩
      have hch := (mem_chosenOf hρ hex.nodup).2 ⟨hmem, hsel.2⟩
      exact ⟨(n, valOfDef d mid, mid), (hE.mem_iff hρ _).2 ⟨imp, hi, mid, ex, hn, hex, hch, rfl⟩, rfl⟩
    · obtain ⟨names', e1, i1, _⟩ := hex.std hs
      rw [hl] at e1; injection e1 with e1; subst e1
      obtain ⟨p, hp, hpn⟩ := List.mem_map.1 ((i1 n).2 hsel.1)
      have hch : (p.1, p.2) ∈ chosenOf O ex imp.items :=
        (mem_chosenOf hρ hex.nodup).2 ⟨hp, by rw [hpn]; exact hsel.2⟩
      exact ⟨(p.1, p.2, mid), (hE.mem_iff hρ _).2 ⟨imp, hi, mid, ex, hn, hex, hch, rfl⟩, hpn⟩

/-- the scope of any loaded module of a completed run -/
theorem FinalB.view {O : Oracle} {files : Files} {mainSrc : ModuleSrc} {libs : Libs} {vm : VM}
    (hF : FinalB O files mainSrc libs vm) (hS : SInv files mainSrc vm) {M : Nat} {nm : Name} {src : ModuleSrc}
    (hd : Ev.done M ∈ vm.log) (hn : (namesOf vm)[M]? = some nm) (hsrc : msrc files mainSrc nm = some src) :
    ∃ s IS, lookS vm M = some s ∧ EntriesOK O files mainSrc libs vm src.imports IS ∧
      ((M = 0 ∧ ImpScope s IS) ∨ (M ≠ 0 ∧ HomeScope O s (vm.exportsOf M) IS)) := by
  by_cases h0 : M = 0
  · subst h0
    obtain ⟨s, IS, h1, h2, h3⟩ := hF.main
    have : nm = mainName := by
      have := hS.main0; rw [hn] at this; injection this
    subst this
    rw [msrc_main] at hsrc; injection hsrc with hsrc; subst hsrc
    exact ⟨s, IS, h1, h3, Or.inl ⟨rfl, h2⟩⟩
  · obtain ⟨s, IS, h1, h2, h3⟩ := hF.binv.closedScope M nm src hd (by rw [hF.stack]; simp) h0 hn hsrc
    exact ⟨s, IS, h1, h3, Or.inr ⟨h0, h2⟩⟩

/-! ### small facts used by the property statements -/

theorem count_body_eq (m : Nat) : ∀ log : List Ev, log.count (Ev.body m) = (bodiesOf log).count m
  | [] => rfl
  | e :: r => by
    cases e with
    | body k =>
      simp only [bodiesOf, List.count_cons, count_body_eq m r]
      by_cases h : k = m
      · simp [h]
      · have : ¬ (Ev.body k = Ev.body m) := fun he => h (by injection he)
        simp [h, this]
    | enter k => simp [bodiesOf, count_body_eq m r]
    | done k => simp [bodiesOf, count_body_eq m r]
    | lib k => simp [bodiesOf, count_body_eq m r]

/-- a run without error is a completed `runWith` -/
theorem run_ok {O : Oracle} {files : Files} {libs : Libs} {callFuel : Nat} {mainPath : Path} {mainSrc : ModuleSrc}
    (hmain : assoc mainPath files = some mainSrc) (hok : (run .repaired O files libs callFuel mainPath).err = none) :
    runWith .repaired O files libs (loadFuelFor files) callFuel mainSrc = .ok (run .repaired O files libs callFuel mainPath).vm := by
  unfold run at hok ⊢
  rw [hmain] at hok ⊢
  dsimp only at hok ⊢
  cases hr : runWith .repaired O files libs (loadFuelFor files) callFuel mainSrc with
  | ok vm => rfl
  | err e vm => rw [hr] at hok; simp [finish] at hok

end ZnVerif.Proofs.Modules
