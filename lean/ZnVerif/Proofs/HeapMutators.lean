/-
mutators_frame: every built-in method of list / dictionary / number / text values, element and key assignment and
property assignment write only the receiver's own cell (plus freshly allocated cells).
-/
import ZnVerif.Proofs.HeapFrames
import ZnVerif.Proofs.HeapSites
set_option linter.unusedSectionVars false
set_option linter.unusedVariables false

namespace ZnVerif.Model

variable {ν : Type} [NumOps ν]

theorem builtinMethod_frame (n : Nat) (a : Addr) (name : String) (vals : List Addr) :
    Pres (FrameAt a) (builtinMethod n a name vals : M ν Addr) := by
  unfold builtinMethod
  pres_auto
  all_goals first
    | with_reducible exact goContains_pres _ _ _
    | with_reducible exact goFind_pres _ _ _ _
    | with_reducible exact goGet_pres _ _
    | with_reducible exact goArith_pres _ _ _ _

theorem reduceLHS_frame (kind : Nat) (root : Addr) (name : String) (idx : Int) (v : Addr) :
    Pres (FrameAt (ν := ν) root) (reduceLHS (ν := ν) (kind, root, name, idx) v) := by
  simp only [reduceLHS]
  pres_auto
  exact setProperty_frame _ _ _

theorem mem_of_mem_set {α} {l : List α} {k : Nat} {v x : α} (h : x ∈ l.set k v) : x ∈ l ∨ x = v := by
  induction l generalizing k with
  | nil => simp at h
  | cons y ys ih =>
    cases k with
    | zero => simp at h; rcases h with h | h; exact .inr h; exact .inl (by simp [h])
    | succ k =>
      simp at h
      rcases h with h | h
      · exact .inl (by simp [h])
      · rcases ih h with h | h
        · exact .inl (by simp [h])
        · exact .inr h

/-- `c#i = v` on a list cell below `b`, storing a value separated from `a`, is a mutation through `b` -/
theorem element_store_mutSeq (a b root : Addr) (nm : String) (idx : Int) (v : Addr) (s s' : VM ν)
    (h : reduceLHS (1, root, nm, idx) v s = (.ok (), s'))
    (hr : Reach s.heap b root) (hs : Sep s.heap a b) (hv : Valid s.heap v ∧ Disj s.heap a v) :
    MutSeq a b s.heap s'.heap := by
  rcases reduceLHS_arr_spec root nm idx v s s' h with ⟨items, hc, _, rfl⟩
  refine .write hr ⟨_, hc, rfl⟩ (fun x hx => ?_) (.done _)
  rcases mem_of_mem_set hx with hx | rfl
  · exact sep_child_of_reach hs (hr.trans (Reach.child hc hx))
  · exact hv

theorem validateOne_any {x : Addr} {c : Cell ν} {s : VM ν} (hx : s.heap[x]? = some c) :
    validateOne x "any" s = (.ok (), s) := by
  unfold validateOne
  simp only [bind, getCell, hx]
  cases c <;> rfl

/-- `以 r（后增：x）` on a list cell below `b` is a mutation through `b`: allocations, then one write to `r`'s own cell
that appends a fresh duplicate of `x` -/
theorem push_back_mutSeq (n : Nat) (a b r x : Addr) (items : List Addr) (s s' : VM ν) (res : Addr) (t : Tree ν)
    (h : builtinMethod n r "后增" [x] s = (.ok res, s'))
    (hc : s.heap[r]? = some (.arr items)) (ht : content n s.heap x = some t)
    (hr : Reach s.heap b r) (hs : Sep s.heap a b) :
    MutSeq a b s.heap s'.heap := by
  rcases content_some_inv ht with ⟨_, cx, _, _, hx, _, _, _⟩
  rcases dup_spec n x s t ht with ⟨x', s1, hd, hp⟩
  have hv : validateExact [x] ["any"] s = (.ok (), s) := by
    simp [validateExact, bind, validateOne_any hx, pure]
  unfold builtinMethod at h
  simp only [bind, getCell, hc, hv, hd] at h
  rcases bind_ok_inv _ _ _ _ _ h with ⟨u, s2, hset, h2⟩
  rcases setCell_ok_inv hset with ⟨_, rfl⟩
  rcases pure_ok_inv h2 with ⟨_, rfl⟩
  have hs1 := hs.grow hp.ext
  have hr1 : Reach s1.heap b r := (reach_ext hp.ext hs.vb).2 hr
  refine .grow hp.ext (.write hr1 ⟨_, hp.ext.get hc, rfl⟩ (fun y hy => ?_) (.done _))
  simp only [Cell.children, List.mem_append, List.mem_singleton] at hy
  rcases hy with hy | rfl
  · exact sep_child_of_reach hs1 (hr1.trans (Reach.child (hp.ext.get hc) hy))
  · exact sep_child_of_fresh hp.ext hs.va hp.valid hp.fresh
theorem snd_mem_assocSet {k : String} {v x : Addr} : ∀ {l : List (String × Addr)}, x ∈ (assocSet k v l).map Prod.snd →
    x ∈ l.map Prod.snd ∨ x = v := by
  intro l
  induction l with
  | nil => intro h; simp [assocSet] at h; exact .inr h
  | cons p ps ih =>
    intro h
    rcases p with ⟨k', v'⟩
    by_cases hk : k = k'
    · simp [assocSet, hk] at h
      rcases h with h | h
      · exact .inr h
      · exact .inl (by simp; exact .inr h)
    · simp [assocSet, hk] at h
      rcases h with h | h
      · exact .inl (by simp [h])
      · rcases ih (by simpa using h) with h | h
        · exact .inl (by simp at h ⊢; exact .inr h)
        · exact .inr h

theorem snd_mem_hmAppend {vals : List (String × Addr)} {order : List String} {k : String} {v x : Addr}
    (h : x ∈ (hmAppend vals order k v).1.map Prod.snd) : x ∈ vals.map Prod.snd ∨ x = v := by
  unfold hmAppend at h
  cases hl : lookup k vals with
  | some _ => rw [hl] at h; exact snd_mem_assocSet h
  | none =>
    rw [hl] at h
    simp at h
    rcases h with h | h
    · exact .inl (by simp; exact h)
    · exact .inr h

/-- `c#{k} = v` on a dictionary cell below `b`, storing a value separated from `a`, is a mutation through `b` -/
theorem key_store_mutSeq (a b root : Addr) (key : String) (idx : Int) (v : Addr) (s s' : VM ν)
    (h : reduceLHS (2, root, key, idx) v s = (.ok (), s'))
    (hr : Reach s.heap b root) (hs : Sep s.heap a b) (hv : Valid s.heap v ∧ Disj s.heap a v) :
    MutSeq a b s.heap s'.heap := by
  rcases reduceLHS_hm_spec root key idx v s s' h with ⟨vals, order, hc, rfl⟩
  refine .write hr ⟨_, hc, rfl⟩ (fun x hx => ?_) (.done _)
  rcases snd_mem_hmAppend hx with hx | rfl
  · exact sep_child_of_reach hs (hr.trans (Reach.child hc hx))
  · exact hv

theorem mem_of_mem_dropLast' {α} {l : List α} {y : α} (h : y ∈ l.dropLast) : y ∈ l := by
  rw [List.dropLast_eq_take] at h
  exact List.mem_of_mem_take h

/-- a write that keeps a subset of the cell's own links is a mutation through any `b` above the cell -/
theorem shrink_write_mutSeq (a b r : Addr) (c c' : Cell ν) (h : Array (Cell ν)) (hc : h[r]? = some c)
    (hm : c.isMutable = true) (hr : Reach h b r) (hs : Sep h a b) (hsub : ∀ x ∈ c'.children, x ∈ c.children) :
    MutSeq a b h (h.set! r c') :=
  .write hr ⟨c, hc, hm⟩ (fun x hx => sep_child_of_reach hs (hr.trans (Reach.child hc (hsub x hx)))) (.done _)

theorem MutSeq.trans {a b : Addr} {h1 h2 h3 : Array (Cell ν)} (m1 : MutSeq a b h1 h2) (m2 : MutSeq a b h2 h3) :
    MutSeq a b h1 h3 := by
  induction m1 with
  | done => exact m2
  | grow e _ ih => exact .grow e (ih m2)
  | write hr hm hch _ ih => exact .write hr hm hch (ih m2)

theorem MutSeq.push {a b : Addr} (h : Array (Cell ν)) (c : Cell ν) : MutSeq a b h (h.push c) :=
  .grow (Ext.push h c) (.done _)

/-- 左移 (pop front) -/
theorem pop_front_mutSeq (n : Nat) (a b r : Addr) (items : List Addr) (s s' : VM ν) (res : Res Addr)
    (h : builtinMethod n r "左移" [] s = (res, s')) (hc : s.heap[r]? = some (.arr items))
    (hr : Reach s.heap b r) (hs : Sep s.heap a b) : MutSeq a b s.heap s'.heap := by
  have hlt := lt_size_of_getElem? hc
  unfold builtinMethod at h
  simp only [bind, getCell, hc] at h
  cases items with
  | nil =>
    simp [setCell, hlt, newNull, alloc] at h
    rw [← h.2]
    exact (shrink_write_mutSeq a b r _ (.arr []) s.heap hc rfl hr hs (by simp [Cell.children])).trans (MutSeq.push _ _)
  | cons x rest =>
    simp [setCell, hlt, pure] at h
    rw [← h.2]
    exact shrink_write_mutSeq a b r _ (.arr rest) s.heap hc rfl hr hs (by simp [Cell.children]; intro y hy; exact .inr hy)

/-- 右移 (pop back) -/
theorem pop_back_mutSeq (n : Nat) (a b r : Addr) (items : List Addr) (s s' : VM ν) (res : Res Addr)
    (h : builtinMethod n r "右移" [] s = (res, s')) (hc : s.heap[r]? = some (.arr items))
    (hr : Reach s.heap b r) (hs : Sep s.heap a b) : MutSeq a b s.heap s'.heap := by
  have hlt := lt_size_of_getElem? hc
  unfold builtinMethod at h
  simp only [bind, getCell, hc] at h
  cases hl : items.getLast? with
  | none =>
    simp [hl, setCell, hlt, newNull, alloc] at h
    rw [← h.2]
    exact (shrink_write_mutSeq a b r _ (.arr []) s.heap hc rfl hr hs (by simp [Cell.children])).trans (MutSeq.push _ _)
  | some x =>
    simp [hl, setCell, hlt, pure] at h
    rw [← h.2]
    exact shrink_write_mutSeq a b r _ (.arr items.dropLast) s.heap hc rfl hr hs
      (by simp only [Cell.children]; intro y hy; exact mem_of_mem_dropLast' hy)


theorem validateOne_string {x : Addr} {k : String} {s : VM ν} (hx : s.heap[x]? = some (.str k)) :
    validateOne x "string" s = (.ok (), s) := by
  unfold validateOne
  simp only [bind, getCell, hx]
  rfl

theorem validateOne_number {x : Addr} {y : ν} {s : VM ν} (hx : s.heap[x]? = some (.num y)) :
    validateOne x "number" s = (.ok (), s) := by
  unfold validateOne
  simp only [bind, getCell, hx]
  rfl

/-- 前增 (push front) -/
theorem push_front_mutSeq (n : Nat) (a b r x : Addr) (items : List Addr) (s s' : VM ν) (res : Addr) (t : Tree ν)
    (h : builtinMethod n r "前增" [x] s = (.ok res, s'))
    (hc : s.heap[r]? = some (.arr items)) (ht : content n s.heap x = some t)
    (hr : Reach s.heap b r) (hs : Sep s.heap a b) :
    MutSeq a b s.heap s'.heap := by
  rcases content_some_inv ht with ⟨_, cx, _, _, hx, _, _, _⟩
  rcases dup_spec n x s t ht with ⟨x', s1, hd, hp⟩
  have hv : validateExact [x] ["any"] s = (.ok (), s) := by
    simp [validateExact, bind, validateOne_any hx, pure]
  unfold builtinMethod at h
  simp only [bind, getCell, hc, hv, hd] at h
  rcases bind_ok_inv _ _ _ _ _ h with ⟨u, s2, hset, h2⟩
  rcases setCell_ok_inv hset with ⟨_, rfl⟩
  rcases pure_ok_inv h2 with ⟨_, rfl⟩
  have hs1 := hs.grow hp.ext
  have hr1 : Reach s1.heap b r := (reach_ext hp.ext hs.vb).2 hr
  refine .grow hp.ext (.write hr1 ⟨_, hp.ext.get hc, rfl⟩ (fun y hy => ?_) (.done _))
  simp only [Cell.children, List.mem_cons] at hy
  rcases hy with rfl | hy
  · exact sep_child_of_fresh hp.ext hs.va hp.valid hp.fresh
  · exact sep_child_of_reach hs1 (hr1.trans (Reach.child (hp.ext.get hc) hy))

/-- 写入 (dictionary put) -/
theorem dict_put_mutSeq (n : Nat) (a b r k x : Addr) (key : String) (vals : List (String × Addr)) (order : List String)
    (s s' : VM ν) (res : Addr) (t : Tree ν)
    (h : builtinMethod n r "写入" [k, x] s = (.ok res, s'))
    (hc : s.heap[r]? = some (.hm vals order)) (hk : s.heap[k]? = some (.str key)) (ht : content n s.heap x = some t)
    (hr : Reach s.heap b r) (hs : Sep s.heap a b) :
    MutSeq a b s.heap s'.heap := by
  rcases content_some_inv ht with ⟨_, cx, _, _, hx, _, _, _⟩
  rcases dup_spec n x s t ht with ⟨x', s1, hd, hp⟩
  have hv : validateExact [k, x] ["string", "any"] s = (.ok (), s) := by
    simp [validateExact, bind, validateOne_any hx, validateOne_string hk, pure]
  unfold builtinMethod at h
  simp only [bind, getCell, hc, hk, hv, hd] at h
  rcases bind_ok_inv _ _ _ _ _ h with ⟨u, s2, hset, h2⟩
  rcases setCell_ok_inv hset with ⟨_, rfl⟩
  rcases pure_ok_inv h2 with ⟨_, rfl⟩
  have hs1 := hs.grow hp.ext
  have hr1 : Reach s1.heap b r := (reach_ext hp.ext hs.vb).2 hr
  refine .grow hp.ext (.write hr1 ⟨_, hp.ext.get hc, rfl⟩ (fun y hy => ?_) (.done _))
  rcases snd_mem_hmAppend hy with hy | rfl
  · exact sep_child_of_reach hs1 (hr1.trans (Reach.child (hp.ext.get hc) hy))
  · exact sep_child_of_fresh hp.ext hs.va hp.valid hp.fresh

/-- 自增 / 自减 (in-place arithmetic on a number cell) -/
theorem incr_mutSeq (n : Nat) (a b r v : Addr) (name : String) (hname : name = "自增" ∨ name = "自减") (x y : ν)
    (s s' : VM ν) (res : Res Addr)
    (h : builtinMethod n r name [v] s = (res, s'))
    (hc : s.heap[r]? = some (.num x)) (hv : s.heap[v]? = some (.num y))
    (hr : Reach s.heap b r) (hs : Sep s.heap a b) :
    MutSeq a b s.heap s'.heap := by
  have hlt := lt_size_of_getElem? hc
  have hval : validateExact [v] ["number"] s = (.ok (), s) := by
    simp [validateExact, bind, validateOne_number hv, pure]
  unfold builtinMethod at h
  rcases hname with rfl | rfl <;>
  · simp only [bind, getCell, hc, hval, hv] at h
    simp [setCell, hlt, pure] at h
    rw [← h.2]
    exact shrink_write_mutSeq a b r _ (.num _) s.heap hc rfl hr hs (by simp [Cell.children])

theorem snd_mem_assocErase {k : String} {x : Addr} : ∀ {l : List (String × Addr)}, x ∈ (assocErase k l).map Prod.snd →
    x ∈ l.map Prod.snd := by
  intro l
  induction l with
  | nil => intro h; simp [assocErase] at h
  | cons p ps ih =>
    intro h
    rcases p with ⟨k', v'⟩
    by_cases hk : k = k'
    · simp [assocErase, hk] at h
      simp; exact .inr h
    · simp [assocErase, hk] at h
      rcases h with h | h
      · simp [h]
      · have := ih (by simpa using h)
        simp at this ⊢; exact .inr this

/-- 移除 (dictionary remove) -/
theorem dict_remove_mutSeq (n : Nat) (a b r k : Addr) (key : String) (vals : List (String × Addr)) (order : List String)
    (s s' : VM ν) (res : Res Addr)
    (h : builtinMethod n r "移除" [k] s = (res, s'))
    (hc : s.heap[r]? = some (.hm vals order)) (hk : s.heap[k]? = some (.str key))
    (hr : Reach s.heap b r) (hs : Sep s.heap a b) :
    MutSeq a b s.heap s'.heap := by
  have hlt := lt_size_of_getElem? hc
  have hv : validateExact [k] ["string"] s = (.ok (), s) := by
    simp [validateExact, bind, validateOne_string hk, pure]
  unfold builtinMethod at h
  simp only [bind, getCell, hc, hk, hv] at h
  cases hl : lookup key vals with
  | none =>
    simp [hl, newNull, alloc] at h
    rw [← h.2]
    exact MutSeq.push _ _
  | some v =>
    simp [hl, setCell, hlt, pure] at h
    rw [← h.2]
    exact shrink_write_mutSeq a b r _ (.hm (assocErase key vals) (order.erase key)) s.heap hc rfl hr hs
      (fun x hx => snd_mem_assocErase hx)

/-- reading an element / a value below `root` answers a cell that `root` links to, and changes nothing -/
theorem index_read_reaches (n : Nat) (kind : Nat) (hk : kind = 1 ∨ kind = 2) (root : Addr) (nm : String) (idx : Int)
    (s s' : VM ν) (v : Addr) (h : reduceRHS n (kind, root, nm, idx) s = (.ok v, s')) :
    s' = s ∧ ∃ c, s.heap[root]? = some c ∧ v ∈ c.children := by
  rcases hk with rfl | rfl
  · simp only [reduceRHS] at h
    rw [if_pos (by rfl)] at h
    rcases bind_ok_inv _ _ _ _ _ h with ⟨c, s1, hc, h1⟩
    rcases getCell_ok_inv hc with ⟨hc', e⟩
    rw [e] at h1
    cases c <;> simp only [rtErr, throwE] at h1 <;> try (injection h1 with h1 _; cases h1)
    rename_i items
    by_cases hb : (idx - 1 < 0 ∨ idx - 1 ≥ items.length)
    · rw [if_pos hb] at h1; injection h1 with h1 _; cases h1
    · rw [if_neg hb] at h1
      cases hi : items[(idx - 1).toNat]? with
      | none => rw [hi] at h1; simp [goPanic] at h1
      | some x =>
        rw [hi] at h1
        rcases pure_ok_inv h1 with ⟨rfl, rfl⟩
        exact ⟨rfl, _, hc', by simp only [Cell.children]; exact List.mem_of_getElem? hi⟩
  · simp only [reduceRHS] at h
    rw [if_neg (by decide), if_pos (by rfl)] at h
    rcases bind_ok_inv _ _ _ _ _ h with ⟨c, s1, hc, h1⟩
    rcases getCell_ok_inv hc with ⟨hc', e⟩
    rw [e] at h1
    cases c <;> simp only [rtErr, throwE] at h1 <;> try (injection h1 with h1 _; cases h1)
    rename_i vals order
    cases hl : lookup nm vals with
    | none => rw [hl] at h1; simp [throwE] at h1
    | some x =>
      rw [hl] at h1
      rcases pure_ok_inv h1 with ⟨rfl, rfl⟩
      refine ⟨rfl, _, hc', ?_⟩
      simp only [Cell.children]
      clear hc' h hc e
      induction vals with
      | nil => simp [lookup] at hl
      | cons p ps ih =>
        rcases p with ⟨k', v'⟩
        by_cases hk : nm = k'
        · simp [lookup, hk] at hl; simp [hl]
        · simp [lookup, hk] at hl; simp; exact .inr (by simpa using ih hl)
theorem mem_insertArrayValue {items items' : List Addr} {idx : Int} {x y : Addr}
    (h : insertArrayValue items idx x = .ok items') (hy : y ∈ items') : y ∈ items ∨ y = x := by
  unfold insertArrayValue at h
  by_cases h1 : idx ≥ (items.length : Int)
  · rw [if_pos h1] at h; injection h with h; subst h; simpa using hy
  · rw [if_neg h1] at h
    simp only at h
    by_cases h2 : (if idx < 0 then (items.length : Int) + idx else idx) < 0
    · rw [if_pos h2] at h; cases h
    · rw [if_neg h2] at h
      injection h with h; subst h
      simp only [List.mem_append, List.mem_singleton] at hy
      rcases hy with (hy | hy) | hy
      · exact .inl (List.mem_of_mem_take hy)
      · exact .inr hy
      · exact .inl (List.mem_of_mem_drop hy)

/-- 新增 / 添加 (insert at index) -/
theorem insert_mutSeq (n : Nat) (a b r x p : Addr) (name : String) (hname : name = "新增" ∨ name = "添加") (pv : ν)
    (items : List Addr) (s s' : VM ν) (res : Addr) (t : Tree ν)
    (h : builtinMethod n r name [x, p] s = (.ok res, s'))
    (hc : s.heap[r]? = some (.arr items)) (hp : s.heap[p]? = some (.num pv)) (ht : content n s.heap x = some t)
    (hr : Reach s.heap b r) (hs : Sep s.heap a b) :
    MutSeq a b s.heap s'.heap := by
  rcases content_some_inv ht with ⟨_, cx, _, _, hx, _, _, _⟩
  rcases dup_spec n x s t ht with ⟨x', s1, hd, hpost⟩
  have hv : validateExact [x, p] ["any", "number"] s = (.ok (), s) := by
    simp [validateExact, bind, validateOne_any hx, validateOne_number hp, pure]
  unfold builtinMethod at h
  rcases hname with rfl | rfl <;>
  · simp only [bind, getCell, hc, hp, hv] at h
    split at h
    · simp [rtErr, throwE] at h
    · simp only [hd] at h
      cases hi : insertArrayValue items (NumOps.toInt pv) x' with
      | ok items' =>
        rw [hi] at h
        simp only at h
        rcases bind_ok_inv _ _ _ _ _ h with ⟨u, s2, hset, h2⟩
        rcases setCell_ok_inv hset with ⟨_, rfl⟩
        rcases pure_ok_inv h2 with ⟨_, rfl⟩
        have hs1 := hs.grow hpost.ext
        have hr1 : Reach s1.heap b r := (reach_ext hpost.ext hs.vb).2 hr
        refine .grow hpost.ext (.write hr1 ⟨_, hpost.ext.get hc, rfl⟩ (fun y hy => ?_) (.done _))
        rcases mem_insertArrayValue hi hy with hy | rfl
        · exact sep_child_of_reach hs1 (hr1.trans (Reach.child (hpost.ext.get hc) hy))
        · exact sep_child_of_fresh hpost.ext hs.va hpost.valid hpost.fresh
      | err e => rw [hi] at h; simp [goPanic] at h
      | panic => rw [hi] at h; simp [goPanic] at h
      | fuel => rw [hi] at h; simp [goPanic] at h
      | unmodelled => rw [hi] at h; simp [goPanic] at h

theorem mem_set_set {items : List Addr} {i j : Nat} {x0 x1 y : Addr} (h0 : x0 ∈ items) (h1 : x1 ∈ items)
    (hy : y ∈ (items.set i x1).set j x0) : y ∈ items := by
  rcases mem_of_mem_set hy with hy | rfl
  · rcases mem_of_mem_set hy with hy | rfl
    · exact hy
    · exact h1
  · exact h0

/-- 交换 (swap two positions) -/
theorem swap_mutSeq (n : Nat) (a b r p q : Addr) (pv qv : ν) (items : List Addr) (s s' : VM ν) (res : Res Addr)
    (h : builtinMethod n r "交换" [p, q] s = (res, s'))
    (hc : s.heap[r]? = some (.arr items)) (hp : s.heap[p]? = some (.num pv)) (hq : s.heap[q]? = some (.num qv))
    (hr : Reach s.heap b r) (hs : Sep s.heap a b) :
    MutSeq a b s.heap s'.heap := by
  have hlt := lt_size_of_getElem? hc
  have hv : validateExact [p, q] ["number", "number"] s = (.ok (), s) := by
    simp [validateExact, bind, validateOne_number hp, validateOne_number hq, pure]
  unfold builtinMethod at h
  simp only [bind, getCell, hc, hp, hq, hv] at h
  generalize NumOps.toInt (NumOps.sub (NumOps.floor pv) (NumOps.ofInt 1)) = c0 at h
  generalize NumOps.toInt (NumOps.sub (NumOps.floor qv) (NumOps.ofInt 1)) = c1 at h
  split at h
  · simp [rtErr, throwE] at h; rw [← h.2]; exact .done _
  · split at h
    · simp [rtErr, throwE] at h; rw [← h.2]; exact .done _
    · cases h0 : items[c0.toNat]? with
      | none => simp [h0, goPanic] at h; rw [← h.2]; exact .done _
      | some x0 =>
        cases h1 : items[c1.toNat]? with
        | none => simp [h0, h1, goPanic] at h; rw [← h.2]; exact .done _
        | some x1 =>
          simp [h0, h1, setCell, hlt, pure] at h
          rw [← h.2]
          exact shrink_write_mutSeq a b r _ (.arr _) s.heap hc rfl hr hs
            (fun y hy => mem_set_set (List.mem_of_getElem? h0) (List.mem_of_getElem? h1) hy)
end ZnVerif.Model
