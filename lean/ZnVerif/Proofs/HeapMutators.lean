/-
mutators_frame: every built-in method of list / dictionary / number / text values, element and key assignment and
property assignment write only the receiver's own cell (plus freshly allocated cells).
-/
import ZnVerif.Proofs.HeapFrames
import ZnVerif.Proofs.HeapSites
set_option linter.unusedSectionVars false
set_option linter.unusedVariables false

namespace ZnVerif.Model

variable {ν : Type} [NumOps ν]

theorem builtinMethod_frame (n : Nat) (a : Addr) (name : String) (vals : List Addr) :
    Pres (FrameAt a) (builtinMethod n a name vals : M ν Addr) := by
  unfold builtinMethod
  pres_auto
  all_goals first
    | with_reducible exact goContains_pres _ _ _
    | with_reducible exact goFind_pres _ _ _ _
    | with_reducible exact goGet_pres _ _
    | with_reducible exact goArith_pres _ _ _ _

theorem reduceLHS_frame (kind : Nat) (root : Addr) (name : String) (idx : Int) (v : Addr) :
    Pres (FrameAt (ν := ν) root) (reduceLHS (ν := ν) (kind, root, name, idx) v) := by
  simp only [reduceLHS]
  pres_auto
  exact setProperty_frame _ _ _

/-! ## list and association-list facts -/

theorem mem_of_mem_set {α} {l : List α} {k : Nat} {v x : α} (h : x ∈ l.set k v) : x ∈ l ∨ x = v := by
  induction l generalizing k with
  | nil => simp at h
  | cons y ys ih =>
    cases k with
    | zero => simp at h; rcases h with h | h; exact .inr h; exact .inl (by simp [h])
    | succ k =>
      simp at h
      rcases h with h | h
      · exact .inl (by simp [h])
      · rcases ih h with h | h
        · exact .inl (by simp [h])
        · exact .inr h

theorem mem_set_set {items : List Addr} {i j : Nat} {x0 x1 y : Addr} (h0 : x0 ∈ items) (h1 : x1 ∈ items)
    (hy : y ∈ (items.set i x1).set j x0) : y ∈ items := by
  rcases mem_of_mem_set hy with hy | rfl
  · rcases mem_of_mem_set hy with hy | rfl
    · exact hy
    · exact h1
  · exact h0

theorem mem_of_mem_dropLast' {α} {l : List α} {y : α} (h : y ∈ l.dropLast) : y ∈ l := by
  rw [List.dropLast_eq_take] at h
  exact List.mem_of_mem_take h

theorem mem_insertArrayValue {items items' : List Addr} {idx : Int} {x y : Addr}
    (h : insertArrayValue items idx x = .ok items') (hy : y ∈ items') : y ∈ items ∨ y = x := by
  unfold insertArrayValue at h
  by_cases h1 : idx ≥ (items.length : Int)
  · rw [if_pos h1] at h; injection h with h; subst h; simpa using hy
  · rw [if_neg h1] at h
    simp only at h
    by_cases h2 : (if idx < 0 then (items.length : Int) + idx else idx) < 0
    · rw [if_pos h2] at h; cases h
    · rw [if_neg h2] at h
      injection h with h; subst h
      simp only [List.mem_append, List.mem_singleton] at hy
      rcases hy with (hy | hy) | hy
      · exact .inl (List.mem_of_mem_take hy)
      · exact .inr hy
      · exact .inl (List.mem_of_mem_drop hy)

theorem snd_mem_assocSet {k : String} {v x : Addr} : ∀ {l : List (String × Addr)}, x ∈ (assocSet k v l).map Prod.snd →
    x ∈ l.map Prod.snd ∨ x = v := by
  intro l
  induction l with
  | nil => intro h; simp [assocSet] at h; exact .inr h
  | cons p ps ih =>
    intro h
    rcases p with ⟨k', v'⟩
    by_cases hk : k = k'
    · simp [assocSet, hk] at h
      rcases h with h | h
      · exact .inr h
      · exact .inl (by simp; exact .inr h)
    · simp [assocSet, hk] at h
      rcases h with h | h
      · exact .inl (by simp [h])
      · rcases ih (by simpa using h) with h | h
        · exact .inl (by simp at h ⊢; exact .inr h)
        · exact .inr h

theorem snd_mem_hmAppend {vals : List (String × Addr)} {order : List String} {k : String} {v x : Addr}
    (h : x ∈ (hmAppend vals order k v).1.map Prod.snd) : x ∈ vals.map Prod.snd ∨ x = v := by
  unfold hmAppend at h
  cases hl : lookup k vals with
  | some _ => rw [hl] at h; exact snd_mem_assocSet h
  | none =>
    rw [hl] at h
    simp at h
    rcases h with h | h
    · exact .inl (by simp; exact h)
    · exact .inr h

theorem snd_mem_assocErase {k : String} {x : Addr} : ∀ {l : List (String × Addr)}, x ∈ (assocErase k l).map Prod.snd →
    x ∈ l.map Prod.snd := by
  intro l
  induction l with
  | nil => intro h; simp [assocErase] at h
  | cons p ps ih =>
    intro h
    rcases p with ⟨k', v'⟩
    by_cases hk : k = k'
    · simp [assocErase, hk] at h
      simp; exact .inr h
    · simp [assocErase, hk] at h
      rcases h with h | h
      · simp [h]
      · have := ih (by simpa using h)
        simp at this ⊢; exact .inr this

/-! ### the HashMap invariant is kept by AppendKVPair and by removal -/

theorem not_mem_of_lookup_none {β} (k : String) : ∀ (l : List (String × β)), lookup k l = none → k ∉ l.map Prod.fst := by
  intro l
  induction l with
  | nil => intro _; simp
  | cons p ps ih =>
    intro h
    rcases p with ⟨k', v'⟩
    by_cases hk : k = k'
    · simp [lookup, hk] at h
    · simp [lookup, hk] at h
      simp [hk, ih h]

theorem assocSet_keys {β} (k : String) (v : β) : ∀ (l : List (String × β)), k ∈ l.map Prod.fst →
    (assocSet k v l).map Prod.fst = l.map Prod.fst := by
  intro l
  induction l with
  | nil => intro h; simp at h
  | cons p ps ih =>
    intro h
    rcases p with ⟨k', v'⟩
    by_cases hk : k = k'
    · simp [assocSet, hk]
    · have : k ∈ ps.map Prod.fst := by simpa [hk] using h
      simp [assocSet, hk, ih this]

theorem hmAppend_wf {vals : List (String × Addr)} {order : List String} (k : String) (v : Addr) (h : dictWF vals order) :
    dictWF (hmAppend vals order k v).1 (hmAppend vals order k v).2 := by
  rcases h with ⟨h1, h2⟩
  unfold hmAppend
  cases hl : lookup k vals with
  | some _ =>
    simp only
    refine ⟨?_, h2⟩
    rw [assocSet_keys k v vals (Classical.byContradiction fun hn => by
        rw [lookup_none_of_not_mem k vals hn] at hl; cases hl), h1]
  | none =>
    simp only
    have hk : k ∉ order := by rw [← h1]; exact not_mem_of_lookup_none k vals hl
    refine ⟨by simp [h1], ?_⟩
    rw [List.nodup_append]
    exact ⟨h2, by simp, fun a ha b hb => by simp at hb; subst hb; rintro rfl; exact hk ha⟩

theorem assocErase_keys {β} (k : String) : ∀ (l : List (String × β)), (assocErase k l).map Prod.fst = (l.map Prod.fst).erase k := by
  intro l
  induction l with
  | nil => rfl
  | cons p ps ih =>
    rcases p with ⟨k', v'⟩
    by_cases hk : k = k'
    · simp [assocErase, hk]
    · have : ¬ (k' == k) = true := by simpa using Ne.symm hk
      simp [assocErase, hk, this, ih]

theorem erase_wf {vals : List (String × Addr)} {order : List String} (k : String) (h : dictWF vals order) :
    dictWF (assocErase k vals) (order.erase k) :=
  ⟨by rw [assocErase_keys, h.1], h.2.erase k⟩

theorem hm_wf_of {vals vals' : List (String × Addr)} {order order' : List String}
    (h : dictWF vals order → dictWF vals' order') : (Cell.hm vals order : Cell ν).wf = true → (Cell.hm vals' order' : Cell ν).wf = true := by
  intro hw
  have : dictWF vals order := by simpa [Cell.wf] using hw
  simpa [Cell.wf] using h this

/-! ## every mutating built-in is one store into the receiver's own cell -/

theorem validateOne_any {x : Addr} {c : Cell ν} {s : VM ν} (hx : s.heap[x]? = some c) :
    validateOne x "any" s = (.ok (), s) := by
  unfold validateOne
  simp only [bind, getCell, hx]
  cases c <;> rfl

theorem validateOne_string {x : Addr} {k : String} {s : VM ν} (hx : s.heap[x]? = some (.str k)) :
    validateOne x "string" s = (.ok (), s) := by
  unfold validateOne
  simp only [bind, getCell, hx]
  rfl

theorem validateOne_number {x : Addr} {y : ν} {s : VM ν} (hx : s.heap[x]? = some (.num y)) :
    validateOne x "number" s = (.ok (), s) := by
  unfold validateOne
  simp only [bind, getCell, hx]
  rfl

theorem validateOne_array {x : Addr} {xs : List Addr} {s : VM ν} (hx : s.heap[x]? = some (.arr xs)) :
    validateOne x "array" s = (.ok (), s) := by
  unfold validateOne
  simp only [bind, getCell, hx]
  rfl

/-- a write that keeps a subset of the cell's own links -/
theorem shrink_storeStep (r : Addr) (c c' : Cell ν) (h : Array (Cell ν)) (hc : h[r]? = some c) (hm : c.isMutable = true)
    (hw : c.wf = true → c'.wf = true) (hsub : ∀ x ∈ c'.children, x ∈ c.children) : StoreStep r h (h.set! r c') :=
  .store (Ext.refl _) hc hm hw (fun x hx => .inl (hsub x hx)) (Ext.refl _)

theorem shrink_push_storeStep (r : Addr) (c c' d : Cell ν) (h : Array (Cell ν)) (hc : h[r]? = some c) (hm : c.isMutable = true)
    (hw : c.wf = true → c'.wf = true) (hsub : ∀ x ∈ c'.children, x ∈ c.children) : StoreStep r h ((h.set! r c').push d) :=
  .store (Ext.refl _) hc hm hw (fun x hx => .inl (hsub x hx)) (Ext.push _ _)

/-- 后增 (push back) -/
theorem push_back_storeStep (n : Nat) (r x : Addr) (items : List Addr) (s s' : VM ν) (res : Addr) (t : Tree ν)
    (h : builtinMethod n r "后增" [x] s = (.ok res, s'))
    (hc : s.heap[r]? = some (.arr items)) (ht : content n s.heap x = some t) : StoreStep r s.heap s'.heap := by
  rcases content_some_inv ht with ⟨_, cx, _, _, hx, _, _, _⟩
  rcases dup_spec n x s t ht with ⟨x', s1, hd, hp⟩
  have hv : validateExact [x] ["any"] s = (.ok (), s) := by
    simp [validateExact, bind, validateOne_any hx, pure]
  unfold builtinMethod at h
  simp only [bind, getCell, hc, hv, hd] at h
  rcases bind_ok_inv _ _ _ _ _ h with ⟨u, s2, hset, h2⟩
  rcases setCell_ok_inv hset with ⟨_, rfl⟩
  rcases pure_ok_inv h2 with ⟨_, rfl⟩
  refine .store hp.ext hc rfl (fun _ => rfl) (fun y hy => ?_) (Ext.refl _)
  simp only [Cell.children, List.mem_append, List.mem_singleton] at hy
  rcases hy with hy | rfl
  · exact .inl hy
  · exact .inr ⟨⟨n, t, hp.cont⟩, hp.fresh⟩

/-- 前增 (push front) -/
theorem push_front_storeStep (n : Nat) (r x : Addr) (items : List Addr) (s s' : VM ν) (res : Addr) (t : Tree ν)
    (h : builtinMethod n r "前增" [x] s = (.ok res, s'))
    (hc : s.heap[r]? = some (.arr items)) (ht : content n s.heap x = some t) : StoreStep r s.heap s'.heap := by
  rcases content_some_inv ht with ⟨_, cx, _, _, hx, _, _, _⟩
  rcases dup_spec n x s t ht with ⟨x', s1, hd, hp⟩
  have hv : validateExact [x] ["any"] s = (.ok (), s) := by
    simp [validateExact, bind, validateOne_any hx, pure]
  unfold builtinMethod at h
  simp only [bind, getCell, hc, hv, hd] at h
  rcases bind_ok_inv _ _ _ _ _ h with ⟨u, s2, hset, h2⟩
  rcases setCell_ok_inv hset with ⟨_, rfl⟩
  rcases pure_ok_inv h2 with ⟨_, rfl⟩
  refine .store hp.ext hc rfl (fun _ => rfl) (fun y hy => ?_) (Ext.refl _)
  simp only [Cell.children, List.mem_cons] at hy
  rcases hy with rfl | hy
  · exact .inr ⟨⟨n, t, hp.cont⟩, hp.fresh⟩
  · exact .inl hy

/-- 新增 / 添加 (insert at index) -/
theorem insert_storeStep (n : Nat) (r x p : Addr) (name : String) (hname : name = "新增" ∨ name = "添加") (pv : ν)
    (items : List Addr) (s s' : VM ν) (res : Addr) (t : Tree ν)
    (h : builtinMethod n r name [x, p] s = (.ok res, s'))
    (hc : s.heap[r]? = some (.arr items)) (hp : s.heap[p]? = some (.num pv)) (ht : content n s.heap x = some t) :
    StoreStep r s.heap s'.heap := by
  rcases content_some_inv ht with ⟨_, cx, _, _, hx, _, _, _⟩
  rcases dup_spec n x s t ht with ⟨x', s1, hd, hpost⟩
  have hv : validateExact [x, p] ["any", "number"] s = (.ok (), s) := by
    simp [validateExact, bind, validateOne_any hx, validateOne_number hp, pure]
  unfold builtinMethod at h
  rcases hname with rfl | rfl <;>
  · simp only [bind, getCell, hc, hp, hv] at h
    split at h
    · simp [rtErr, throwE] at h
    · simp only [hd] at h
      cases hi : insertArrayValue items (NumOps.toInt pv) x' with
      | ok items' =>
        rw [hi] at h
        simp only at h
        rcases bind_ok_inv _ _ _ _ _ h with ⟨u, s2, hset, h2⟩
        rcases setCell_ok_inv hset with ⟨_, rfl⟩
        rcases pure_ok_inv h2 with ⟨_, rfl⟩
        refine .store hpost.ext hc rfl (fun _ => rfl) (fun y hy => ?_) (Ext.refl _)
        rcases mem_insertArrayValue hi hy with hy | rfl
        · exact .inl hy
        · exact .inr ⟨⟨n, t, hpost.cont⟩, hpost.fresh⟩
      | err e => rw [hi] at h; simp [goPanic] at h
      | panic => rw [hi] at h; simp [goPanic] at h
      | fuel => rw [hi] at h; simp [goPanic] at h
      | unmodelled => rw [hi] at h; simp [goPanic] at h

/-- 写入 (dictionary put) -/
theorem dict_put_storeStep (n : Nat) (r k x : Addr) (key : String) (vals : List (String × Addr)) (order : List String)
    (s s' : VM ν) (res : Addr) (t : Tree ν)
    (h : builtinMethod n r "写入" [k, x] s = (.ok res, s'))
    (hc : s.heap[r]? = some (.hm vals order)) (hk : s.heap[k]? = some (.str key)) (ht : content n s.heap x = some t) :
    StoreStep r s.heap s'.heap := by
  rcases content_some_inv ht with ⟨_, cx, _, _, hx, _, _, _⟩
  rcases dup_spec n x s t ht with ⟨x', s1, hd, hp⟩
  have hv : validateExact [k, x] ["string", "any"] s = (.ok (), s) := by
    simp [validateExact, bind, validateOne_any hx, validateOne_string hk, pure]
  unfold builtinMethod at h
  simp only [bind, getCell, hc, hk, hv, hd] at h
  rcases bind_ok_inv _ _ _ _ _ h with ⟨u, s2, hset, h2⟩
  rcases setCell_ok_inv hset with ⟨_, rfl⟩
  rcases pure_ok_inv h2 with ⟨_, rfl⟩
  refine .store hp.ext hc rfl (hm_wf_of (hmAppend_wf key x')) (fun y hy => ?_) (Ext.refl _)
  rcases snd_mem_hmAppend hy with hy | rfl
  · exact .inl hy
  · exact .inr ⟨⟨n, t, hp.cont⟩, hp.fresh⟩

/-- 移除 (dictionary remove) -/
theorem dict_remove_storeStep (n : Nat) (r k : Addr) (key : String) (vals : List (String × Addr)) (order : List String)
    (s s' : VM ν) (res : Res Addr)
    (h : builtinMethod n r "移除" [k] s = (res, s'))
    (hc : s.heap[r]? = some (.hm vals order)) (hk : s.heap[k]? = some (.str key)) : StoreStep r s.heap s'.heap := by
  have hlt := lt_size_of_getElem? hc
  have hv : validateExact [k] ["string"] s = (.ok (), s) := by
    simp [validateExact, bind, validateOne_string hk, pure]
  unfold builtinMethod at h
  simp only [bind, getCell, hc, hk, hv] at h
  cases hl : lookup key vals with
  | none =>
    simp [hl, newNull, alloc] at h
    rw [← h.2]
    exact .noop (Ext.push _ _)
  | some v =>
    simp [hl, setCell, hlt, pure] at h
    rw [← h.2]
    exact shrink_storeStep r _ (.hm (assocErase key vals) (order.erase key)) s.heap hc rfl (hm_wf_of (erase_wf key))
      (fun x hx => snd_mem_assocErase hx)

/-- 左移 (pop front) -/
theorem pop_front_storeStep (n : Nat) (r : Addr) (items : List Addr) (s s' : VM ν) (res : Res Addr)
    (h : builtinMethod n r "左移" [] s = (res, s')) (hc : s.heap[r]? = some (.arr items)) : StoreStep r s.heap s'.heap := by
  have hlt := lt_size_of_getElem? hc
  unfold builtinMethod at h
  simp only [bind, getCell, hc] at h
  cases items with
  | nil =>
    simp [setCell, hlt, newNull, alloc] at h
    rw [← h.2]
    exact shrink_push_storeStep r _ (.arr []) _ s.heap hc rfl (fun _ => rfl) (by simp [Cell.children])
  | cons x rest =>
    simp [setCell, hlt, pure] at h
    rw [← h.2]
    exact shrink_storeStep r _ (.arr rest) s.heap hc rfl (fun _ => rfl)
      (by simp [Cell.children]; intro y hy; exact .inr hy)

/-- 右移 (pop back) -/
theorem pop_back_storeStep (n : Nat) (r : Addr) (items : List Addr) (s s' : VM ν) (res : Res Addr)
    (h : builtinMethod n r "右移" [] s = (res, s')) (hc : s.heap[r]? = some (.arr items)) : StoreStep r s.heap s'.heap := by
  have hlt := lt_size_of_getElem? hc
  unfold builtinMethod at h
  simp only [bind, getCell, hc] at h
  cases hl : items.getLast? with
  | none =>
    simp [hl, setCell, hlt, newNull, alloc] at h
    rw [← h.2]
    exact shrink_push_storeStep r _ (.arr []) _ s.heap hc rfl (fun _ => rfl) (by simp [Cell.children])
  | some x =>
    simp [hl, setCell, hlt, pure] at h
    rw [← h.2]
    exact shrink_storeStep r _ (.arr items.dropLast) s.heap hc rfl (fun _ => rfl)
      (by simp only [Cell.children]; intro y hy; exact mem_of_mem_dropLast' hy)

/-- 交换 (swap two positions) -/
theorem swap_storeStep (n : Nat) (r p q : Addr) (pv qv : ν) (items : List Addr) (s s' : VM ν) (res : Res Addr)
    (h : builtinMethod n r "交换" [p, q] s = (res, s'))
    (hc : s.heap[r]? = some (.arr items)) (hp : s.heap[p]? = some (.num pv)) (hq : s.heap[q]? = some (.num qv)) :
    StoreStep r s.heap s'.heap := by
  have hlt := lt_size_of_getElem? hc
  have hv : validateExact [p, q] ["number", "number"] s = (.ok (), s) := by
    simp [validateExact, bind, validateOne_number hp, validateOne_number hq, pure]
  unfold builtinMethod at h
  simp only [bind, getCell, hc, hp, hq, hv] at h
  generalize NumOps.toInt (NumOps.sub (NumOps.floor pv) (NumOps.ofInt 1)) = c0 at h
  generalize NumOps.toInt (NumOps.sub (NumOps.floor qv) (NumOps.ofInt 1)) = c1 at h
  split at h
  · simp [rtErr, throwE] at h; rw [← h.2]; exact .noop (Ext.refl _)
  · split at h
    · simp [rtErr, throwE] at h; rw [← h.2]; exact .noop (Ext.refl _)
    · cases h0 : items[c0.toNat]? with
      | none => simp [h0, goPanic] at h; rw [← h.2]; exact .noop (Ext.refl _)
      | some x0 =>
        cases h1 : items[c1.toNat]? with
        | none => simp [h0, h1, goPanic] at h; rw [← h.2]; exact .noop (Ext.refl _)
        | some x1 =>
          simp [h0, h1, setCell, hlt, pure] at h
          rw [← h.2]
          exact shrink_storeStep r _ (.arr _) s.heap hc rfl (fun _ => rfl)
            (fun y hy => mem_set_set (List.mem_of_getElem? h0) (List.mem_of_getElem? h1) hy)

/-- 自增 / 自减 (in-place arithmetic on a number cell) -/
theorem incr_storeStep (n : Nat) (r v : Addr) (name : String) (hname : name = "自增" ∨ name = "自减") (x y : ν)
    (s s' : VM ν) (res : Res Addr)
    (h : builtinMethod n r name [v] s = (res, s'))
    (hc : s.heap[r]? = some (.num x)) (hv : s.heap[v]? = some (.num y)) : StoreStep r s.heap s'.heap := by
  have hlt := lt_size_of_getElem? hc
  have hval : validateExact [v] ["number"] s = (.ok (), s) := by
    simp [validateExact, bind, validateOne_number hv, pure]
  unfold builtinMethod at h
  rcases hname with rfl | rfl <;>
  · simp only [bind, getCell, hc, hval, hv] at h
    simp [setCell, hlt, pure] at h
    rw [← h.2]
    exact shrink_storeStep r _ (.num _) s.heap hc rfl (fun _ => rfl) (by simp [Cell.children])

end ZnVerif.Model
