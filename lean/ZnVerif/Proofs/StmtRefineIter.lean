/-
C02 refinement: 遍历 — its own scope, the loop variables declared as 空 and re-bound before every pass,
list elements in order with 1-based indices, dictionary entries in key order; a pass consumes the loop
signals of its body and stops the loop when the body has executed 输出.
-/
import ZnVerif.Proofs.StmtRefineCtl
set_option linter.unusedSectionVars false
set_option linter.unusedSimpArgs false

namespace ZnVerif.Proofs
open ZnVerif.Model ZnVerif.Spec

variable {ν : Type} [NumOps ν]

/-- the model's handler around one pass of 遍历 (answers whether the loop has to stop) -/
def iterHandler (r : Res Unit) : M ν Bool :=
  match r with
  | .err .sigContinue => pure false
  | .err .sigBreak => pure true
  | .ok _ => do
    match ← getReturnValue with
    | some _ => pure true
    | none => pure false
  | .err e => throwE e
  | .panic => goPanic
  | .fuel => outOfFuel
  | .unmodelled => notModelled

/-- the spec's handler -/
def iterHandler' (r : R ν (SVal ν)) : SM ν Bool :=
  match r with
  | .ok _ => pure false
  | .cont => pure false
  | .brk => pure true
  | r => do let _ ← (sfail r : SM ν (SVal ν)); pure true

section
variable {ω : Addr → Option (SVal ν)} {mid : Int} {D : Int} {ds : List Int} {h0 : Array (Cell ν)}

/-- the relations of one pass: Boolean answers equal; after a 输出 the model answers "stop" -/
abbrev PassSim (ω : Addr → Option (SVal ν)) (mid : Int) (D : Int) (ds : List Int) (h0 : Array (Cell ν))
    (s : VM ν) (σ : SState ν) (m : M ν Bool) (m' : SM ν Bool) : Prop :=
  SimS (VRel ω mid D ds h0 (fun _ (x y : Bool) => x = y)) (fun s σ a v => TRel ω mid D ds h0 s σ a v ∧ a = true)
    (NoB (ν := ν)) s σ m m'

/-- a model-only step inside the protected part -/
theorem passSim_step {α : Type} {s s1 : VM ν} {σ : SState ν} {mP : M ν α} {a : α} (f : α → M ν Unit) (m' : SM ν Bool)
    (h : mP s = (.ok a, s1)) (hK : PassSim ω mid D ds h0 s1 σ (Model.tryCatch (f a) iterHandler) m') :
    PassSim ω mid D ds h0 s σ (Model.tryCatch (mP >>= f) iterHandler) m' := by
  refine simS_step (s0 := s1) (m2 := Model.tryCatch (f a) iterHandler) ?_ hK
  simp only [Model.tryCatch, M.bind_def, h]

/-- a step on both sides inside the protected part: its errors pass through the handler unchanged -/
theorem passSim_prefix {α α' : Type} {s : VM ν} {σ : SState ν} {mP : M ν α} {mP' : SM ν α'}
    {VP : VM ν → SState ν → α → α' → Prop} (f : α → M ν Unit) (f' : α' → SM ν Bool)
    (hP : SimS VP (NoT (ν := ν)) (NoB (ν := ν)) s σ mP mP')
    (hK : ∀ s1 σ1 a v, VP s1 σ1 a v → PassSim ω mid D ds h0 s1 σ1 (Model.tryCatch (f a) iterHandler) (f' v)) :
    PassSim ω mid D ds h0 s σ (Model.tryCatch (mP >>= f) iterHandler) (mP' >>= f') := by
  obtain ⟨r, s1, r', σ1, e1, e2, hout⟩ := simS_elim hP
  unfold PassSim SimS
  simp only [Model.tryCatch, M.bind_def, SM.bind_def, e1, e2]
  rcases hout with rfl | rfl | rfl | hout
  · exact .inl rfl
  · exact .inr (.inl rfl)
  · exact .inr (.inr (.inl rfl))
  · cases hout with
    | ok hv =>
      have := hK _ _ _ _ hv
      unfold PassSim SimS at this
      simpa only [Model.tryCatch] using this
    | ret ht => exact ht.elim
    | brk hb => exact hb.elim
    | cont hb => exact hb.elim
    | rt c => exact .inr (.inr (.inr (.rt c)))
    | sem c => exact .inr (.inr (.inr (.sem c)))

/-- the body of a pass -/
theorem passSim_body {n m : Nat} (hB : BlockSim ω mid n m) {s : VM ν} {σ : SState ν} (body : Option (List Stmt))
    (hb : PureBlock body) (hinv : Inv ω mid D ds h0 s σ) :
    PassSim ω mid D ds h0 s σ (Model.tryCatch (do let _ ← evalPureStmtBlock n body; pure ()) iterHandler)
      (catchR (runBlock m body) iterHandler') := by
  have hb := hB body s σ D ds h0 hb hinv
  obtain ⟨r, s2, r', σ2, e1, e2, hout⟩ := simS_elim hb
  unfold PassSim SimS
  simp only [Model.tryCatch, catchR, M.bind_def, e1, e2]
  rcases hout with rfl | rfl | rfl | hout
  · exact .inl rfl
  · exact .inr (.inl rfl)
  · exact .inr (.inr (.inl rfl))
  · cases hout with
    | ok hv =>
      obtain ⟨g1, g2, g3, _⟩ := hv
      simp only [iterHandler, iterHandler', pure, M.bind_def, getReturnValue_eq, g3]
      exact .inr (.inr (.inr (.ok ⟨g1, g2, g3, rfl⟩)))
    | ret ht =>
      obtain ⟨g1, g2, x, g3, g4⟩ := ht
      simp only [iterHandler, iterHandler', pure, M.bind_def, getReturnValue_eq, g3]
      exact .inr (.inr (.inr (.ret ⟨⟨g1, g2, x, g3, g4⟩, rfl⟩)))
    | brk hb => exact .inr (.inr (.inr (.ok ⟨hb.1, hb.2.1, hb.2.2, rfl⟩)))
    | cont hb => exact .inr (.inr (.inr (.ok ⟨hb.1, hb.2.1, hb.2.2, rfl⟩)))
    | rt c => exact .inr (.inr (.inr (.rt c)))
    | sem c => exact .inr (.inr (.inr (.sem c)))

theorem VRel.rebase {α α' : Type} {P : Array (Cell ν) → α → α' → Prop} {h1 : Array (Cell ν)} (hle : HeapLe h0 h1)
    {s : VM ν} {σ : SState ν} {a : α} {v : α'} (h : VRel ω mid D ds h1 P s σ a v) : VRel ω mid D ds h0 P s σ a v :=
  ⟨h.1, hle.trans h.2.1, h.2.2.1, h.2.2.2⟩

theorem TRel.rebase {α : Type} {h1 : Array (Cell ν)} (hle : HeapLe h0 h1)
    {s : VM ν} {σ : SState ν} {a : α} {v : SVal ν} (h : TRel ω mid D ds h1 s σ a v) : TRel ω mid D ds h0 s σ a v :=
  ⟨h.1, hle.trans h.2.1, h.2.2⟩

/-- the loop over the elements: stop as soon as a pass says so -/
theorem sim_until {ι κ : Type} (f : ι → M ν Bool) (f' : κ → SM ν Bool) (R : Array (Cell ν) → ι → κ → Prop)
    (hR : ∀ h h' i k, HeapLe h h' → R h i k → R h' i k)
    (hstep : ∀ (h0' : Array (Cell ν)) (s : VM ν) (σ : SState ν) (i : ι) (k : κ), Inv ω mid D ds h0' s σ → R s.heap i k →
      PassSim ω mid D ds h0' s σ (f i) (f' k)) :
    ∀ (is : List ι) (ks : List κ) (s : VM ν) (σ : SState ν), Inv ω mid D ds s.heap s σ → Forall2 (R s.heap) is ks →
      SimS (VRel ω mid D ds s.heap (fun _ (_ _ : Unit) => True)) (TRel ω mid D ds s.heap) (NoB (ν := ν)) s σ
        (untilM f is) (untilS f' ks)
  | _, _, s, σ, hinv, .nil => by
    simp only [untilM, untilS]; exact simS_pure ⟨hinv.1, hinv.2.1, hinv.2.2, trivial⟩
  | i :: is, k :: ks, s, σ, hinv, .cons hr hrest => by
    simp only [untilM, untilS]
    refine simS_bind (hstep s.heap s σ i k hinv hr) (fun s1 σ1 x y ⟨g1, g2, g3, g4⟩ => ?_) (fun s1 σ1 x v ⟨ht, hx⟩ => ?_)
      (fun _ _ h => h)
    · subst g4
      cases x
      · have ih := sim_until f f' R hR hstep is ks s1 σ1 ⟨g1, HeapLe.refl _, g3⟩ (hrest.imp fun _ _ h => hR _ _ _ _ g2 h)
        exact simS_weaken (fun _ _ _ _ h => h.rebase g2) (fun _ _ _ _ h => h.rebase g2) (fun _ _ h => h) ih
      · exact simS_pure ⟨g1, g2, g3, trivial⟩
    · subst hx
      exact .inr ⟨(), s1, rfl, ht⟩

/-- the spec's indexed element list -/
def idxList {κ : Type} (j : Nat) (ks : List κ) : List (Nat × κ) := (ks.zipIdx j).map fun p => (p.2, p.1)

theorem idxList_cons {κ : Type} (j : Nat) (k : κ) (ks : List κ) : idxList j (k :: ks) = (j, k) :: idxList (j+1) ks := by
  simp [idxList, List.zipIdx_cons]

theorem idxList_nil {κ : Type} (j : Nat) : idxList j ([] : List κ) = [] := rfl

theorem sim_untilIdx {ι κ : Type} (f : Nat → ι → M ν Bool) (f' : Nat × κ → SM ν Bool) (R : Array (Cell ν) → ι → κ → Prop)
    (hR : ∀ h h' i k, HeapLe h h' → R h i k → R h' i k)
    (hstep : ∀ (h0' : Array (Cell ν)) (s : VM ν) (σ : SState ν) (j : Nat) (i : ι) (k : κ), Inv ω mid D ds h0' s σ → R s.heap i k →
      PassSim ω mid D ds h0' s σ (f j i) (f' (j, k))) :
    ∀ (is : List ι) (ks : List κ) (j : Nat) (s : VM ν) (σ : SState ν), Inv ω mid D ds s.heap s σ → Forall2 (R s.heap) is ks →
      SimS (VRel ω mid D ds s.heap (fun _ (_ _ : Unit) => True)) (TRel ω mid D ds s.heap) (NoB (ν := ν)) s σ
        (untilIdxM f j is) (untilS f' (idxList j ks))
  | _, _, j, s, σ, hinv, .nil => by
    simp only [untilIdxM, idxList_nil, untilS]; exact simS_pure ⟨hinv.1, hinv.2.1, hinv.2.2, trivial⟩
  | i :: is, k :: ks, j, s, σ, hinv, .cons hr hrest => by
    simp only [untilIdxM, idxList_cons, untilS]
    refine simS_bind (hstep s.heap s σ j i k hinv hr) (fun s1 σ1 x y ⟨g1, g2, g3, g4⟩ => ?_) (fun s1 σ1 x v ⟨ht, hx⟩ => ?_)
      (fun _ _ h => h)
    · subst g4
      cases x
      · have ih := sim_untilIdx f f' R hR hstep is ks (j+1) s1 σ1 ⟨g1, HeapLe.refl _, g3⟩ (hrest.imp fun _ _ h => hR _ _ _ _ g2 h)
        exact simS_weaken (fun _ _ _ _ h => h.rebase g2) (fun _ _ _ _ h => h.rebase g2) (fun _ _ h => h) ih
      · exact simS_pure ⟨g1, g2, g3, trivial⟩
    · subst hx
      exact .inr ⟨(), s1, rfl, ht⟩

theorem simS_assignName {s : VM ν} {σ : SState ν} (hinv : Inv ω mid D ds h0 s σ) (name : String)
    (hpre : predefined.contains name = false) (a : Addr) (v : SVal ν) (hv : contentW ω 1 s.heap a = some v) :
    SimS (fun s' σ' (_ _ : Unit) => Inv ω mid D ds h0 s' σ' ∧ s'.heap = s.heap) (NoT (ν := ν)) (NoB (ν := ν)) s σ
      (setElement name a) (assignName name v) := by
  have h := simS_assign (T := NoT (ν := ν)) (B := NoB (ν := ν)) hinv.1 name a v hv
  simp only [hpre, Bool.false_eq_true, if_false] at h
  exact simS_weaken (fun _ _ _ _ ⟨g1, g2, g3⟩ => ⟨⟨g1, by rw [g2]; exact hinv.2.1, by rw [slot_of_stack g3]; exact hinv.2.2⟩, g2⟩)
    (fun _ _ _ _ h => h) (fun _ _ h => h) h

theorem passSim_modelFuel {s : VM ν} {σ : SState ν} (f : Addr → M ν Unit) (a : Addr) (m' : SM ν Bool) :
    PassSim ω mid D ds h0 s σ (Model.tryCatch (dup 0 a >>= f) iterHandler) m' :=
  .inr (.inr (.inl rfl))

theorem sim_pass0 {n m : Nat} (hB : BlockSim ω mid n m) {s : VM ν} {σ : SState ν} (body : Option (List Stmt))
    (hb : PureBlock body) (hinv : Inv ω mid D ds h0 s σ) (va : Addr) (vv : SVal ν) (hv : contentW ω 1 s.heap va = some vv) :
    PassSim ω mid D ds h0 s σ
      (Model.tryCatch (do let _ ← dup n va; let _ ← evalPureStmtBlock n body; pure ()) iterHandler)
      (catchR (runBlock m body) iterHandler') := by
  cases n with
  | zero => exact passSim_modelFuel _ _ _
  | succ n =>
    obtain ⟨a', s2, hdup, hF, _⟩ := dup_shallow (ω := ω) n hv
    exact passSim_step _ _ hdup (passSim_body hB body hb (hinv.frame hF))

theorem sim_pass1 {n m : Nat} (hB : BlockSim ω mid n m) {s : VM ν} {σ : SState ν} (body : Option (List Stmt))
    (hb : PureBlock body) (hinv : Inv ω mid D ds h0 s σ) (vn : String) (hvn : predefined.contains vn = false)
    (va : Addr) (vv : SVal ν) (hv : contentW ω 1 s.heap va = some vv) :
    PassSim ω mid D ds h0 s σ
      (Model.tryCatch (do let v2 ← dup n va; setElement vn v2; let _ ← evalPureStmtBlock n body; pure ()) iterHandler)
      (do assignName vn vv; catchR (runBlock m body) iterHandler') := by
  cases n with
  | zero => exact passSim_modelFuel _ _ _
  | succ n =>
    obtain ⟨a', s2, hdup, hF, hc⟩ := dup_shallow (ω := ω) n hv
    refine passSim_step _ _ hdup ?_
    exact passSim_prefix _ _ (simS_assignName (hinv.frame hF) vn hvn a' vv hc)
      (fun s3 σ3 _ _ ⟨hi3, _⟩ => passSim_body hB body hb hi3)

theorem sim_pass2 {n m : Nat} (hB : BlockSim ω mid n m) {s : VM ν} {σ : SState ν} (body : Option (List Stmt))
    (hb : PureBlock body) (hinv : Inv ω mid D ds h0 s σ) (kn vn : String) (hkn : predefined.contains kn = false)
    (hvn : predefined.contains vn = false) (ka : Addr) (kv : SVal ν) (hk : contentW ω 1 s.heap ka = some kv)
    (va : Addr) (vv : SVal ν) (hv : contentW ω 1 s.heap va = some vv) :
    PassSim ω mid D ds h0 s σ
      (Model.tryCatch (do let v2 ← dup n va; setElement kn ka; setElement vn v2; let _ ← evalPureStmtBlock n body; pure ())
        iterHandler)
      (do assignName kn kv; assignName vn vv; catchR (runBlock m body) iterHandler') := by
  cases n with
  | zero => exact passSim_modelFuel _ _ _
  | succ n =>
    obtain ⟨a', s2, hdup, hF, hc⟩ := dup_shallow (ω := ω) n hv
    refine passSim_step _ _ hdup ?_
    refine passSim_prefix _ _ (simS_assignName (hinv.frame hF) kn hkn ka kv (contentW_heap hF.le hk))
      (fun s3 σ3 _ _ ⟨hi3, hh3⟩ => ?_)
    exact passSim_prefix _ _ (simS_assignName hi3 vn hvn a' vv (by rw [hh3]; exact hc))
      (fun s4 σ4 _ _ ⟨hi4, _⟩ => passSim_body hB body hb hi4)

/-- one list element: its 1-based index in a fresh cell, then the pass -/
@[reducible] def idxStep (pass : Addr → Addr → M ν Bool) : Nat → Addr → M ν Bool := fun i v => do
  let idx ← newNum (NumOps.ofInt (i + 1))
  pass idx v

/-- one dictionary key: the value is read at iteration time, the key in a fresh cell, then the pass -/
@[reducible] def keyStep (pass : Addr → Addr → M ν Bool) (target : Addr) : String → M ν Bool := fun k => do
  match ← getCell target with
  | .hm vals _ =>
    match lookup k vals with
    | some v => do
      let ks ← newStr k
      pass ks v
    | none => pure false
  | _ => goPanic

/-- the spec's loop over the target value -/
@[reducible] def iterLoop' (pass' : SVal ν → SVal ν → SM ν Bool) : SVal ν → SM ν Unit
  | .list xs => untilS (fun (p : Nat × SVal ν) => pass' (.num (NumOps.ofInt (p.1 + 1))) p.2) (idxList 0 xs)
  | .dict kvs => untilS (fun (kv : String × SVal ν) => pass' (.str kv.1) kv.2) kvs
  | _ => fault 80

/-- the loop of 遍历 over the target's elements, for any pass that simulates -/
theorem sim_iterLoop (pass : Addr → Addr → M ν Bool) (pass' : SVal ν → SVal ν → SM ν Bool)
    (hpass : ∀ (h0' : Array (Cell ν)) (s : VM ν) (σ : SState ν) (ka : Addr) (kv : SVal ν) (va : Addr) (vv : SVal ν),
      Inv ω mid D ds h0' s σ → contentW ω 1 s.heap ka = some kv → contentW ω 1 s.heap va = some vv →
      PassSim ω mid D ds h0' s σ (pass ka va) (pass' kv vv))
    {s : VM ν} {σ : SState ν} (hinv : Inv ω mid D ds s.heap s σ) (target : Addr) (tv : SVal ν)
    (htgt : contentW ω 2 s.heap target = some tv) :
    SimS (VRel ω mid D ds s.heap (fun _ (_ _ : Unit) => True)) (TRel ω mid D ds s.heap) (NoB (ν := ν)) s σ
      (do match ← getCell target with
          | .arr items => untilIdxM (idxStep pass) 0 items
          | .hm _ order => untilM (keyStep pass target) order
          | _ => rtErr 80)
      (iterLoop' pass' tv) := by
  obtain ⟨c, hcell, hlay⟩ := (contentW_succ_iff ω 1 _ _ _).1 htgt
  refine simS_getCell hcell ?_
  cases c <;> simp only [Layer] at hlay
  case arr items =>
    obtain ⟨xs, rfl, hall⟩ := hlay
    refine sim_untilIdx _ _ (fun h a v => contentW ω 1 h a = some v) (fun _ _ _ _ hle h => contentW_heap hle h)
      (fun h0' s1 σ1 j a v hi hr => ?_) items xs 0 s σ hinv hall
    -- the index cell
    refine simS_step (s0 := { s1 with heap := s1.heap.push (.num (NumOps.ofInt (j + 1))) })
      (m2 := pass s1.heap.size a) rfl ?_
    have hF := Frame.push s1 (Cell.num (NumOps.ofInt ((j : Int) + 1)) : Cell ν)
    exact hpass h0' _ σ1 _ _ _ _ (hi.frame hF) (contentW_push_new 0 s1.heap _ _ rfl) (contentW_heap hF.le hr)
  case hm vals order =>
    obtain ⟨ho, kvs, rfl, hall⟩ := hlay
    refine sim_until _ _ (fun h key (kv : String × SVal ν) => h[target]? = some (.hm vals order) ∧ kv.1 = key ∧
        ∃ a, lookup key vals = some a ∧ contentW ω 1 h a = some kv.2)
      (fun _ _ _ _ hle ⟨g0, g1, a, g2, g3⟩ => ⟨hle _ _ g0, g1, a, g2, contentW_heap hle g3⟩)
      (fun h0' s1 σ1 key kv hi ⟨g0, g1, a, g2, g3⟩ => ?_) order kvs s σ hinv
      (hall.imp fun key kv ⟨g1, a, g2, g3⟩ => ⟨hcell, g1, a, g2, g3⟩)
    subst g1
    refine simS_step (s0 := { s1 with heap := s1.heap.push (.str kv.1) })
      (m2 := pass s1.heap.size a) (by simp only [keyStep, getCell_bind _ g0, g2]; rfl) ?_
    have hF := Frame.push s1 (Cell.str kv.1 : Cell ν)
    exact hpass h0' _ σ1 _ _ _ _ (hi.frame hF) (contentW_push_new 0 s1.heap _ _ rfl) (contentW_heap hF.le g3)
  all_goals
    first
      | (subst hlay; exact simS_rt 80 80 rfl)
      | (obtain ⟨_, hop⟩ := hlay; cases tv <;> simp [isOpaque] at hop <;> exact simS_rt 80 80 rfl)

/-- `newNull` then declare it under `name` (a loop variable starts as 空) -/
theorem sim_declNull {D ds h0} {s : VM ν} {σ : SState ν} {α α' : Type} {V : VM ν → SState ν → α → α' → Prop} {T B}
    (hinv : Inv ω mid D ds h0 s σ) (name : String) (K : M ν α) (K' : SM ν α')
    (hK : ∀ s1 σ1, Inv ω mid D ds h0 s1 σ1 → HeapLe s.heap s1.heap → predefined.contains name = false → SimS V T B s1 σ1 K K') :
    SimS V T B s σ (do let nl ← newNull; declareElement name nl false; K) (do Spec.declare name SVal.null false; K') := by
  have hF := Frame.push s (Cell.null : Cell ν)
  have hi1 := hinv.frame hF
  refine simS_step (s0 := { s with heap := s.heap.push .null }) (m2 := do declareElement name s.heap.size false; K) rfl ?_
  refine simS_bind (simS_declare (T := NoT (ν := ν)) (B := NoB (ν := ν)) hi1.1 name s.heap.size .null false
    (contentW_push_new 0 s.heap .null .null rfl)) (fun s2 σ2 _ _ ⟨g1, g2, g3, g4⟩ => ?_) (fun _ _ _ _ h => h.elim) (fun _ _ h => h.elim)
  exact hK s2 σ2 ⟨g1, by rw [g2]; exact hi1.2.1, by rw [slot_of_stack g3]; exact hi1.2.2⟩ (by rw [g2]; exact hF.le) g4

theorem sim_iterate2 {n m : Nat} (hle : m ≤ n) (hB : BlockSim ω mid n m) {D ds h0} {s : VM ν} {σ : SState ν}
    (ln : Nat) (e : Expr) (k v : Ident) (body : Option (List Stmt)) (h1 : IterTarget e)
    (h3 : PureBlock body) (hinv : Inv ω mid D ds h0 s σ) :
    SSim ω mid D ds h0 s σ (evalStmt (n+1) (.iterate ln e [k, v] body)) (execS (m+1) (.iterate ln e [k, v] body)) := by
  simp only [evalStmt, execS]
  refine sSim_line _ _ _ hinv fun s0 hinv0 => ?_
  refine sim_then_null (P := fun _ (_ _ : Unit) => True) ?_ (fun _ _ _ _ h => h) (fun _ _ h => h)
  refine simS_withScope hinv0.1 fun s1 σ1 hst1 hh hs => ?_
  have hinv1 : Inv ω mid (D+1) (D :: ds) h0 s1 σ1 := ⟨hst1, by rw [hh]; exact hinv0.2.1, by rw [slot_of_stack hs]; exact hinv0.2.2⟩
  simp only [List.mapM_cons, List.mapM_nil, bind_assoc, pure_bind, List.length_cons, List.length_nil, listForM_cons, listForM_nil,
    Nat.reduceAdd, Nat.reduceBEq, Bool.false_eq_true, if_false, if_true, gt_iff_lt, Nat.lt_irrefl]
  refine simS_bind (simS_expr_target hinv1 hle h1) (fun s2 σ2 target tv ⟨hi2, htgt⟩ => ?_) (fun _ _ _ _ h => h.elim) (fun _ _ h => h.elim)
  refine simS_bind (simS_idName (T := NoT (ν := ν)) (B := NoB (ν := ν)) k.lit) (fun s3 σ3 kn kn' ⟨e1, e2, e3⟩ => ?_) (fun _ _ _ _ h => h.elim) (fun _ _ h => h.elim)
  subst e1 e2 e3
  refine simS_bind (simS_idName (T := NoT (ν := ν)) (B := NoB (ν := ν)) v.lit) (fun s3 σ3 vn vn' ⟨e1, e2, e3⟩ => ?_) (fun _ _ _ _ h => h.elim) (fun _ _ h => h.elim)
  subst e1 e2 e3
  refine sim_declNull hi2 kn _ _ fun s4 σ4 hi4 hle4 hkn => ?_
  refine sim_declNull hi4 vn _ _ fun s5 σ5 hi5 hle5 hvn => ?_
  have htgt5 := contentW_heap (hle4.trans hle5) htgt
  have key := sim_iterLoop
    (fun ka va => Model.tryCatch (do let v2 ← dup n va; setElement kn ka; setElement vn v2; let _ ← evalPureStmtBlock n body; pure ()) iterHandler)
    (fun kv vv => do assignName kn kv; assignName vn vv; catchR (runBlock m body) iterHandler')
    (fun h0' s σ ka kv va vv hi hk hv => sim_pass2 hB body h3 hi kn vn hkn hvn ka kv hk va vv hv)
    hi5.rebase target tv htgt5
  exact simS_weaken (fun _ _ _ _ h => VRel.rebase hi5.2.1 h) (fun _ _ _ _ h => TRel.rebase hi5.2.1 h) (fun _ _ h => False.elim h) key
theorem sim_iterate1 {n m : Nat} (hle : m ≤ n) (hB : BlockSim ω mid n m) {D ds h0} {s : VM ν} {σ : SState ν}
    (ln : Nat) (e : Expr) (v : Ident) (body : Option (List Stmt)) (h1 : IterTarget e)
    (h3 : PureBlock body) (hinv : Inv ω mid D ds h0 s σ) :
    SSim ω mid D ds h0 s σ (evalStmt (n+1) (.iterate ln e [v] body)) (execS (m+1) (.iterate ln e [v] body)) := by
  simp only [evalStmt, execS]
  refine sSim_line _ _ _ hinv fun s0 hinv0 => ?_
  refine sim_then_null (P := fun _ (_ _ : Unit) => True) ?_ (fun _ _ _ _ h => h) (fun _ _ h => h)
  refine simS_withScope hinv0.1 fun s1 σ1 hst1 hh hs => ?_
  have hinv1 : Inv ω mid (D+1) (D :: ds) h0 s1 σ1 := ⟨hst1, by rw [hh]; exact hinv0.2.1, by rw [slot_of_stack hs]; exact hinv0.2.2⟩
  simp only [List.mapM_cons, List.mapM_nil, bind_assoc, pure_bind, List.length_cons, List.length_nil, listForM_cons, listForM_nil,
    Nat.reduceAdd, Nat.reduceBEq, Bool.false_eq_true, if_false, if_true, gt_iff_lt, Nat.lt_irrefl, Nat.reduceLT]
  refine simS_bind (simS_expr_target hinv1 hle h1) (fun s2 σ2 target tv ⟨hi2, htgt⟩ => ?_) (fun _ _ _ _ h => h.elim) (fun _ _ h => h.elim)
  refine simS_bind (simS_idName (T := NoT (ν := ν)) (B := NoB (ν := ν)) v.lit) (fun s3 σ3 vn vn' ⟨e1, e2, e3⟩ => ?_) (fun _ _ _ _ h => h.elim) (fun _ _ h => h.elim)
  subst e1 e2 e3
  refine sim_declNull hi2 vn _ _ fun s5 σ5 hi5 hle5 hvn => ?_
  have htgt5 := contentW_heap hle5 htgt
  have key := sim_iterLoop
    (fun _ va => Model.tryCatch (do let v2 ← dup n va; setElement vn v2; let _ ← evalPureStmtBlock n body; pure ()) iterHandler)
    (fun _ vv => do assignName vn vv; catchR (runBlock m body) iterHandler')
    (fun h0' s σ ka kv va vv hi hk hv => sim_pass1 hB body h3 hi vn hvn va vv hv)
    hi5.rebase target tv htgt5
  exact simS_weaken (fun _ _ _ _ h => VRel.rebase hi5.2.1 h) (fun _ _ _ _ h => TRel.rebase hi5.2.1 h) (fun _ _ h => False.elim h) key

theorem sim_iterate0 {n m : Nat} (hle : m ≤ n) (hB : BlockSim ω mid n m) {D ds h0} {s : VM ν} {σ : SState ν}
    (ln : Nat) (e : Expr) (body : Option (List Stmt)) (h1 : IterTarget e)
    (h3 : PureBlock body) (hinv : Inv ω mid D ds h0 s σ) :
    SSim ω mid D ds h0 s σ (evalStmt (n+1) (.iterate ln e [] body)) (execS (m+1) (.iterate ln e [] body)) := by
  simp only [evalStmt, execS]
  refine sSim_line _ _ _ hinv fun s0 hinv0 => ?_
  refine sim_then_null (P := fun _ (_ _ : Unit) => True) ?_ (fun _ _ _ _ h => h) (fun _ _ h => h)
  refine simS_withScope hinv0.1 fun s1 σ1 hst1 hh hs => ?_
  have hinv1 : Inv ω mid (D+1) (D :: ds) h0 s1 σ1 := ⟨hst1, by rw [hh]; exact hinv0.2.1, by rw [slot_of_stack hs]; exact hinv0.2.2⟩
  simp only [List.mapM_cons, List.mapM_nil, bind_assoc, pure_bind, List.length_cons, List.length_nil, listForM_cons, listForM_nil,
    Nat.reduceAdd, Nat.reduceBEq, Bool.false_eq_true, if_false, if_true, gt_iff_lt, Nat.lt_irrefl, Nat.reduceLT]
  refine simS_bind (simS_expr_target hinv1 hle h1) (fun s2 σ2 target tv ⟨hi2, htgt⟩ => ?_) (fun _ _ _ _ h => h.elim) (fun _ _ h => h.elim)
  have key := sim_iterLoop
    (fun _ va => Model.tryCatch (do let _ ← dup n va; let _ ← evalPureStmtBlock n body; pure ()) iterHandler)
    (fun _ _ => catchR (runBlock m body) iterHandler')
    (fun h0' s σ ka kv va vv hi hk hv => sim_pass0 hB body h3 hi va vv hv)
    hi2.rebase target tv htgt
  exact simS_weaken (fun _ _ _ _ h => VRel.rebase hi2.2.1 h) (fun _ _ _ _ h => TRel.rebase hi2.2.1 h) (fun _ _ h => False.elim h) key

theorem sim_iterate {n m : Nat} (hle : m ≤ n) (hB : BlockSim ω mid n m) {D ds h0} {s : VM ν} {σ : SState ν}
    (ln : Nat) (e : Expr) (names : List Ident) (body : Option (List Stmt)) (h1 : IterTarget e) (h2 : names.length ≤ 2)
    (h3 : PureBlock body) (hinv : Inv ω mid D ds h0 s σ) :
    SSim ω mid D ds h0 s σ (evalStmt (n+1) (.iterate ln e names body)) (execS (m+1) (.iterate ln e names body)) := by
  match names, h2 with
  | [], _ => exact sim_iterate0 hle hB ln e body h1 h3 hinv
  | [v], _ => exact sim_iterate1 hle hB ln e v body h1 h3 hinv
  | [k, v], _ => exact sim_iterate2 hle hB ln e k v body h1 h3 hinv
  | _ :: _ :: _ :: _, h => simp at h

end

end ZnVerif.Proofs
