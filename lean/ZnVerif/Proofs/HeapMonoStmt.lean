/- heap monotonicity, successor step for `evalStmt` (split off so that the modules build in parallel) -/
import ZnVerif.Proofs.HeapMonoBase
set_option linter.unusedSectionVars false
set_option linter.unusedVariables false

namespace ZnVerif.Model

variable {ν : Type} [NumOps ν]

section succ
variable (n : Nat) (ih : EvalMono ν n)
include ih

theorem mono_succ_stmt (st : Stmt) : Pres HeapMono (evalStmt (ν := ν) (n+1) st) := by
  simp only [evalStmt]; pres_auto; use_ih ih

end succ

end ZnVerif.Model
