/-
A toy number type for non-vacuity examples: `Int` with truncating-free (Euclidean) division, `floor = id`,
literals read as decimal digits.  The theorems hold for every `NumOps ν`; this instance only shows
that their hypotheses can be met and lets concrete expressions be evaluated by `decide`.
-/
import ZnVerif.Model.Interp
import ZnVerif.Spec.Sem

namespace ZnVerif.Proofs
open ZnVerif.Model

def toyParse (cps : List Nat) : Int :=
  let digits := cps.filter fun c => 48 ≤ c ∧ c ≤ 57
  let n : Nat := digits.foldl (fun acc c => acc * 10 + (c - 48)) 0
  if cps.head? = some 45 then -(n : Int) else (n : Int)

@[reducible] def toyNumOps : NumOps Int where
  add := (· + ·)
  sub := (· - ·)
  mul := (· * ·)
  div := Int.ediv
  floor := id
  ceil := id
  sqrt := id
  eq a b := decide (a = b)
  lt a b := decide (a < b)
  gt a b := decide (a > b)
  le a b := decide (a ≤ b)
  ge a b := decide (a ≥ b)
  isZero a := decide (a = 0)
  leZero a := decide (a ≤ 0)
  ofInt := id
  toInt := id
  parse := toyParse
  fmt := toString

/-- projection used to state results decidably -/
def svalNum : Spec.SVal Int → Option Int
  | .num x => some x
  | _ => none

def svalBool : Spec.SVal Int → Option Bool
  | .bool b => some b
  | _ => none

end ZnVerif.Proofs
