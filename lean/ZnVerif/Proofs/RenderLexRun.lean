/-
C03 at character level, lexer part 3: the whole token sequence of a canonical rendering, as a `Run`.

`Ctx` is the account kept while walking along the rendered token list: indent type, completed lines, the current line (start,
indentation) and the position right after the last token.  `stAt src c rs j` / `tkAt c rs j` are the lexer state after `j` more
tokens and the token answered there; `step_ok` (induction on the token list, the lexer state as invariant) shows that `NextToken`
follows them and that every step has what a `Run` asks for against the final line table; `renderRun` packs it up.
-/
import ZnVerif.Proofs.RenderLexLayout
import ZnVerif.Proofs.LexRun

namespace ZnVerif.Proofs.RenderLex
open ZnVerif.Model ZnVerif.Generated ZnVerif.Generated.Tokens
open ZnVerif.Spec ZnVerif.Spec.RenderChars
open ZnVerif.Spec.StmtSyntax (Layout)
open ZnVerif.Proofs.LexRun

/-! ### facts about the rendering functions -/

theorem lead_false_length (nl : Option Nat) : (lead false nl).length = 1 + nl.getD 0 := by
  cases nl <;> simp [lead, Nat.add_comm]

/-- what follows an item: a space if the next token stays on the line, else a line feed -/
theorem renderFrom_head (rs : List RTok) : ∃ d r, renderFrom false rs = d :: r ∧ (d = runeSP ∨ d = runeLF) ∧
    ((∃ r' rs', rs = r' :: rs' ∧ r'.nl = none) → d = runeSP) := by
  cases rs with
  | nil => exact ⟨runeLF, [], rfl, Or.inr rfl, by rintro ⟨_, _, h, _⟩; cases h⟩
  | cons r' rs' =>
    cases hnl : r'.nl with
    | none =>
      exact ⟨runeSP, r'.item.spelling ++ renderFrom false rs', by simp [renderFrom, lead, hnl], Or.inl rfl, fun _ => rfl⟩
    | some k =>
      refine ⟨runeLF, List.replicate k runeTAB ++ (r'.item.spelling ++ renderFrom false rs'),
        by simp [renderFrom, lead, hnl], Or.inr rfl, ?_⟩
      rintro ⟨r'', rs'', h, h2⟩
      cases h
      rw [hnl] at h2; cases h2

theorem linesFrom_head (pos s k : Nat) (rs : List RTok) : ∃ e rest, linesFrom pos s k rs = closedLine s k e :: rest := by
  induction rs generalizing pos with
  | nil => exact ⟨_, _, rfl⟩
  | cons r rs ih =>
    unfold linesFrom
    cases r.nl with
    | none => exact ih _
    | some k' => exact ⟨_, _, rfl⟩

/-- the line after the current one starts beyond the current position -/
theorem linesFrom_second (pos s k : Nat) (rs : List RTok) : ∀ b, (linesFrom pos s k rs)[1]? = some b → pos < b.startIdx := by
  induction rs generalizing pos with
  | nil =>
    intro b h
    simp [linesFrom] at h
    rw [← h]; simp [closedLine]
  | cons r rs ih =>
    intro b h
    unfold linesFrom at h
    cases hnl : r.nl with
    | none =>
      simp only [hnl] at h
      have := ih _ b h
      omega
    | some k' =>
      simp only [hnl] at h
      obtain ⟨e, rest, he⟩ := linesFrom_head (pos + 1 + k' + r.item.spelling.length) (pos + 1) k' rs
      rw [he] at h
      simp at h
      rw [← h]; simp [closedLine]

/-- every line after the current one starts beyond the current position, and they come in increasing order -/
theorem linesFrom_sorted (pos s k : Nat) (rs : List RTok) (hs : s ≤ pos) :
    (linesFrom pos s k rs).Pairwise (fun a b => a.startIdx < b.startIdx) ∧
    ∀ b ∈ (linesFrom pos s k rs).tail, pos < b.startIdx := by
  induction rs generalizing pos s k with
  | nil => simp [linesFrom, closedLine]; omega
  | cons r rs ih =>
    unfold linesFrom
    cases r.nl with
    | none =>
      obtain ⟨h1, h2⟩ := ih (pos + 1 + r.item.spelling.length) s k (by omega)
      exact ⟨h1, fun b hb => by have := h2 b hb; omega⟩
    | some k' =>
      obtain ⟨h1, h2⟩ := ih (pos + 1 + k' + r.item.spelling.length) (pos + 1) k' (by omega)
      obtain ⟨e, rest, he⟩ := linesFrom_head (pos + 1 + k' + r.item.spelling.length) (pos + 1) k' rs
      dsimp only
      rw [he] at h1 h2 ⊢
      refine ⟨?_, ?_⟩
      · rw [List.pairwise_cons]
        refine ⟨?_, h1⟩
        intro b hb
        rcases List.mem_cons.mp hb with rfl | hb
        · simp [closedLine]; omega
        · have := h2 b (by simpa using hb)
          simp [closedLine]; omega
      · intro b hb
        rcases List.mem_cons.mp (by simpa using hb) with rfl | hb
        · simp [closedLine]
        · have := h2 b (by simpa using hb)
          omega

/-! ### walking along the token list -/

structure Ctx where
  ity : Nat
  dn : List LineInfo
  s : Nat
  k : Nat
  pos : Nat

namespace Ctx

def state (src : Array Nat) (c : Ctx) : Lexer := bst src c.ity c.dn c.s c.k c.pos

def final (src : Array Nat) (c : Ctx) : Lexer := fst src c.ity (c.dn ++ [closedLine c.s c.k c.pos]) (c.pos + 1)

def next (c : Ctx) (r : RTok) : Ctx :=
  match r.nl with
  | none => { c with pos := c.pos + 1 + r.item.spelling.length }
  | some k' =>
    { ity := ityAfter c.ity k', dn := c.dn ++ [closedLine c.s c.k c.pos], s := c.pos + 1, k := k',
      pos := c.pos + 1 + k' + r.item.spelling.length }

def tok (c : Ctx) (r : RTok) : Token := r.item.token (c.pos + (lead false r.nl).length)

/-- the final line table, as seen from here -/
def table (c : Ctx) (rs : List RTok) : List LineInfo := c.dn ++ linesFrom c.pos c.s c.k rs

end Ctx

def eofTok (n : Nat) : Token := { type := cTypeEOF, startIdx := n, endIdx := n }

def stAt (src : Array Nat) : Ctx → List RTok → Nat → Lexer
  | c, _, 0 => c.state src
  | c, [], _ + 1 => c.final src
  | c, r :: rs, j + 1 => stAt src (c.next r) rs j

def tkAt : Ctx → List RTok → Nat → Token
  | c, [], _ => eofTok (c.pos + 1)
  | c, r :: _, 0 => c.tok r
  | c, r :: rs, j + 1 => tkAt (c.next r) rs j

theorem stAt_zero (src : Array Nat) (c : Ctx) (rs : List RTok) : stAt src c rs 0 = c.state src := by cases rs <;> rfl
theorem stAt_nil_succ (src : Array Nat) (c : Ctx) (j : Nat) : stAt src c [] (j + 1) = c.final src := rfl
theorem stAt_cons_succ (src : Array Nat) (c : Ctx) (r : RTok) (rs : List RTok) (j : Nat) :
    stAt src c (r :: rs) (j + 1) = stAt src (c.next r) rs j := rfl
theorem tkAt_nil (c : Ctx) (j : Nat) : tkAt c [] j = eofTok (c.pos + 1) := rfl
theorem tkAt_cons_zero (c : Ctx) (r : RTok) (rs : List RTok) : tkAt c (r :: rs) 0 = c.tok r := rfl
theorem tkAt_cons_succ (c : Ctx) (r : RTok) (rs : List RTok) (j : Nat) : tkAt c (r :: rs) (j + 1) = tkAt (c.next r) rs j := rfl

/-- the invariant between two tokens -/
structure Inv (src : Array Nat) (c : Ctx) (rs : List RTok) : Prop where
  text : here (c.state src) = renderFrom false rs
  ity : ItyOK c.ity c.k
  sk : c.s + c.k ≤ c.pos
  wf : WFFrom rs

theorem table_next (c : Ctx) (r : RTok) (rs : List RTok) : (c.next r).table rs = c.table (r :: rs) := by
  unfold Ctx.table Ctx.next
  cases hnl : r.nl with
  | none => simp [linesFrom, hnl]
  | some k' => simp [linesFrom, hnl]

theorem Inv.next {src : Array Nat} {c : Ctx} {r : RTok} {rs : List RTok} (h : Inv src c (r :: rs)) : Inv src (c.next r) rs := by
  obtain ⟨ht, hi, hsk, hw⟩ := h
  refine ⟨?_, ?_, ?_, hw.2.2⟩
  · have e : here ((c.next r).state src) = (here (c.state src)).drop ((lead false r.nl).length + r.item.spelling.length) := by
      show src.toList.drop (c.next r).pos = (src.toList.drop c.pos).drop _
      rw [List.drop_drop]
      congr 1
      unfold Ctx.next
      cases hnl : r.nl with
      | none => simp [lead]; omega
      | some k' => simp [lead]; omega
    rw [e, ht]
    simp only [renderFrom]
    exact List.drop_left' (by simp)
  · unfold Ctx.next
    cases r.nl with
    | none => exact hi
    | some k' => exact hi.after k'
  · unfold Ctx.next
    cases r.nl with
    | none => dsimp only; omega
    | some k' => dsimp only; omega

/-- the delimiter that follows the item `r` -/
theorem delim_after {r : RTok} {rs : List RTok} (hw : WFFrom (r :: rs)) :
    ∃ d t, renderFrom false rs = d :: t ∧ (d = runeSP ∨ (d = runeLF ∧ r.item.tight = false)) := by
  obtain ⟨d, t, h1, h2, h3⟩ := renderFrom_head rs
  refine ⟨d, t, h1, ?_⟩
  rcases h2 with h2 | h2
  · exact Or.inl h2
  · by_cases ht : r.item.tight = true
    · exact Or.inl (h3 (hw.2.1 ht))
    · exact Or.inr ⟨h2, by simpa using ht⟩

theorem next_none {c : Ctx} {r : RTok} (h : r.nl = none) :
    c.next r = { c with pos := c.pos + 1 + r.item.spelling.length } := by
  unfold Ctx.next; rw [h]

theorem next_some {c : Ctx} {r : RTok} {k' : Nat} (h : r.nl = some k') :
    c.next r = ⟨ityAfter c.ity k', c.dn ++ [closedLine c.s c.k c.pos], c.pos + 1, k',
      c.pos + 1 + k' + r.item.spelling.length⟩ := by
  unfold Ctx.next; rw [h]

/-- **one step of the lexer along the rendering** -/
theorem nextToken_step (src : Array Nat) (c : Ctx) (r : RTok) (rs : List RTok) (h : Inv src c (r :: rs)) :
    nextToken (c.state src) = (.ok (c.tok r), (c.next r).state src) := by
  obtain ⟨ht, hi, hsk, hw⟩ := h
  obtain ⟨d, t, hd1, hd2⟩ := delim_after hw
  cases hnl : r.nl with
  | none =>
    have h' : here (bst src c.ity c.dn c.s c.k c.pos) = runeSP :: (r.item.spelling ++ d :: t) := by
      show here (c.state src) = _
      rw [ht]; simp [renderFrom, lead, hnl, hd1]
    have := nextToken_bst_space r.item hw.1 src c.ity c.dn c.s c.k c.pos d t hd2 h'
    rw [next_none hnl]
    unfold Ctx.tok
    rw [hnl]
    exact this
  | some k' =>
    have h' : here (bst src c.ity c.dn c.s c.k c.pos) =
        runeLF :: (List.replicate k' runeTAB ++ (r.item.spelling ++ d :: t)) := by
      show here (c.state src) = _
      rw [ht]; simp [renderFrom, lead, hnl, hd1]
    have := nextToken_break r.item hw.1 src c.ity c.dn c.s c.k c.pos k' d t hi hsk hd2 h'
    rw [next_some hnl]
    unfold Ctx.tok
    rw [hnl]
    have e1 : c.pos + (lead false (some k')).length = c.pos + 1 + k' := by simp [lead]; omega
    rw [e1]
    exact this

theorem src_size_of_inv {src : Array Nat} {c : Ctx} (h : Inv src c []) : src.size = c.pos + 1 := by
  have := congrArg List.length h.text
  simp [here, Ctx.state, bst, lx, renderFrom] at this
  omega

theorem nextToken_last (src : Array Nat) (c : Ctx) (h : Inv src c []) :
    nextToken (c.state src) = (.ok (eofTok (c.pos + 1)), c.final src) :=
  nextToken_eof src c.ity c.dn c.s c.k c.pos h.ity h.sk h.text

theorem nextToken_final (src : Array Nat) (c : Ctx) (h : Inv src c []) :
    nextToken (c.final src) = (.ok (eofTok (c.pos + 1)), c.final src) :=
  nextToken_eof_again src c.ity _ (c.pos + 1) h.ity.cases (src_size_of_inv h)

/-! ### what a `Run` asks of every step -/

/-- from `l`, the token `t` is answered and the lexer becomes `l'`; `F` is the final line table -/
structure StepOK (F : List LineInfo) (l : Lexer) (t : Token) (l' : Lexer) : Prop where
  step : nextToken l = (.ok t, l')
  pos : 0 < l'.lines.size
  mono : l.lines.size ≤ l'.lines.size
  pre : ∀ i, i < l'.lines.size →
    l'.lines[i]?.map (·.startIdx) = F[i]?.map (·.startIdx) ∧ l'.lines[i]?.map (·.indents) = F[i]?.map (·.indents)
  onLast : ∀ a, F[l'.lines.size - 1]? = some a → a.startIdx ≤ t.startIdx
  span : t.startIdx ≤ t.endIdx
  beforeNext : ∀ b, F[l'.lines.size]? = some b → t.endIdx < b.startIdx

theorem state_lines (src : Array Nat) (c : Ctx) : (c.state src).lines = (c.dn ++ [openLine c.s c.k]).toArray := rfl

theorem final_lines (src : Array Nat) (c : Ctx) :
    (c.final src).lines = (c.dn ++ [closedLine c.s c.k c.pos] ++ [closedLine (c.pos + 1) 0 (c.pos + 1)]).toArray := rfl

/-- the table known between two tokens against the final table -/
theorem state_pre (src : Array Nat) (c : Ctx) (rs : List RTok) : ∀ i, i < (c.state src).lines.size →
    (c.state src).lines[i]?.map (·.startIdx) = (c.table rs)[i]?.map (·.startIdx) ∧
    (c.state src).lines[i]?.map (·.indents) = (c.table rs)[i]?.map (·.indents) := by
  intro i hi
  obtain ⟨e, rest, he⟩ := linesFrom_head c.pos c.s c.k rs
  rw [state_lines] at hi ⊢
  unfold Ctx.table
  rw [he]
  simp only [List.size_toArray, List.length_append, List.length_cons, List.length_nil] at hi
  simp only [List.getElem?_toArray]
  by_cases h1 : i < c.dn.length
  · rw [List.getElem?_append_left h1, List.getElem?_append_left h1]; exact ⟨rfl, rfl⟩
  · have : i = c.dn.length := by omega
    subst this
    simp [openLine, closedLine]

theorem state_at (c : Ctx) (rs : List RTok) :
    (∃ e, (c.table rs)[c.dn.length]? = some (closedLine c.s c.k e)) ∧
    ∀ b, (c.table rs)[c.dn.length + 1]? = some b → c.pos < b.startIdx := by
  obtain ⟨e, rest, he⟩ := linesFrom_head c.pos c.s c.k rs
  constructor
  · exact ⟨e, by unfold Ctx.table; rw [he]; simp⟩
  · intro b hb
    apply linesFrom_second c.pos c.s c.k rs b
    unfold Ctx.table at hb
    rw [List.getElem?_append_right (by omega)] at hb
    simpa using hb

/-- a step that ends between two tokens -/
theorem stepOK_state (src : Array Nat) (l : Lexer) (t : Token) (c : Ctx) (rs : List RTok)
    (hstep : nextToken l = (.ok t, c.state src)) (hmono : l.lines.size ≤ c.dn.length + 1)
    (hs : c.s ≤ t.startIdx) (hspan : t.startIdx ≤ t.endIdx) (he : t.endIdx = c.pos) :
    StepOK (c.table rs) l t (c.state src) := by
  have hsize : (c.state src).lines.size = c.dn.length + 1 := by rw [state_lines]; simp
  obtain ⟨⟨e, h1⟩, h2⟩ := state_at c rs
  refine ⟨hstep, by omega, by omega, state_pre src c rs, ?_, hspan, ?_⟩
  · intro a ha
    rw [hsize, Nat.add_sub_cancel, h1] at ha
    cases ha
    exact hs
  · intro b hb
    rw [hsize] at hb
    rw [he]
    exact h2 b hb

/-- a step that ends after the EOF token -/
theorem stepOK_final (src : Array Nat) (l : Lexer) (c : Ctx)
    (hstep : nextToken l = (.ok (eofTok (c.pos + 1)), c.final src)) (hmono : l.lines.size ≤ c.dn.length + 2) :
    StepOK (c.table []) l (eofTok (c.pos + 1)) (c.final src) := by
  have hsize : (c.final src).lines.size = c.dn.length + 2 := by rw [final_lines]; simp
  have htab : c.table [] = c.dn ++ [closedLine c.s c.k c.pos] ++ [closedLine (c.pos + 1) 0 (c.pos + 1)] := by
    simp [Ctx.table, linesFrom]
  refine ⟨hstep, by omega, by omega, ?_, ?_, Nat.le_refl _, ?_⟩
  · intro i _
    rw [final_lines, htab]
    simp
  · intro a ha
    rw [hsize, htab] at ha
    have : (c.dn ++ [closedLine c.s c.k c.pos] ++ [closedLine (c.pos + 1) 0 (c.pos + 1)])[c.dn.length + 2 - 1]? =
        some (closedLine (c.pos + 1) 0 (c.pos + 1)) := by
      rw [List.getElem?_append_right (by simp)]
      simp
    rw [this] at ha
    cases ha
    simp [closedLine, eofTok]
  · intro b hb
    rw [hsize, htab] at hb
    have : (c.dn ++ [closedLine c.s c.k c.pos] ++ [closedLine (c.pos + 1) 0 (c.pos + 1)])[c.dn.length + 2]? = none := by
      apply List.getElem?_eq_none; simp
    rw [this] at hb
    cases hb

theorem tok_facts (c : Ctx) (r : RTok) (hsk : c.s + c.k ≤ c.pos) :
    (c.next r).s ≤ (c.tok r).startIdx ∧ (c.tok r).startIdx ≤ (c.tok r).endIdx ∧ (c.tok r).endIdx = (c.next r).pos := by
  unfold Ctx.tok Ctx.next Item.token
  cases r.nl with
  | none => simp [lead]; omega
  | some k' => simp [lead]; omega

theorem next_dn_length (c : Ctx) (r : RTok) : c.dn.length ≤ (c.next r).dn.length ∧ (c.next r).dn.length ≤ c.dn.length + 1 := by
  unfold Ctx.next
  cases r.nl <;> simp

/-- **every step along the rendering** -/
theorem step_ok (src : Array Nat) : ∀ (rs : List RTok) (c : Ctx) (j : Nat), Inv src c rs →
    StepOK (c.table rs) (stAt src c rs j) (tkAt c rs j) (stAt src c rs (j + 1)) := by
  intro rs
  induction rs with
  | nil =>
    intro c j h
    cases j with
    | zero =>
      rw [stAt_zero, stAt_nil_succ, tkAt_nil]
      exact stepOK_final src _ c (nextToken_last src c h) (by rw [state_lines]; simp)
    | succ j =>
      rw [stAt_nil_succ, stAt_nil_succ, tkAt_nil]
      exact stepOK_final src _ c (nextToken_final src c h) (by rw [final_lines]; simp)
  | cons r rs ih =>
    intro c j h
    cases j with
    | zero =>
      obtain ⟨t1, t2, t3⟩ := tok_facts c r h.sk
      have := stepOK_state src (c.state src) (c.tok r) (c.next r) rs (nextToken_step src c r rs h)
        (by rw [state_lines]; simp; exact (next_dn_length c r).1) t1 t2 t3
      rw [table_next] at this
      rw [stAt_zero, stAt_cons_succ, stAt_zero, tkAt_cons_zero]
      exact this
    | succ j =>
      have := ih (c.next r) j h.next
      rw [table_next] at this
      rw [stAt_cons_succ, stAt_cons_succ, tkAt_cons_succ]
      exact this

theorem tkAt_eof (src : Array Nat) : ∀ (rs : List RTok) (c : Ctx) (j : Nat), Inv src c rs → rs.length ≤ j →
    tkAt c rs j = eofTok src.size := by
  intro rs
  induction rs with
  | nil => intro c j h _; rw [src_size_of_inv h]; rfl
  | cons r rs ih =>
    intro c j h hj
    obtain ⟨j', rfl⟩ : ∃ j', j = j' + 1 := ⟨j - 1, by simp at hj; omega⟩
    exact ih (c.next r) j' h.next (by simp at hj; omega)

theorem tkAt_toks : ∀ (rs : List RTok) (c : Ctx), (List.range rs.length).map (tkAt c rs) = toksFrom false c.pos rs := by
  intro rs
  induction rs with
  | nil => intro c; rfl
  | cons r rs ih =>
    intro c
    have hpos : (c.next r).pos = c.pos + (lead false r.nl).length + r.item.spelling.length := by
      unfold Ctx.next
      cases r.nl with
      | none => simp [lead]
      | some k' => simp [lead]; omega
    simp only [List.length_cons, List.range_succ_eq_map, List.map_cons, List.map_map, toksFrom]
    congr 1
    rw [← hpos, ← ih (c.next r)]
    rfl

theorem stAt_final_lines (src : Array Nat) : ∀ (rs : List RTok) (c : Ctx),
    (stAt src c rs (rs.length + 1)).lines = (c.table rs).toArray := by
  intro rs
  induction rs with
  | nil =>
    intro c
    rw [stAt_nil_succ, final_lines]
    simp [Ctx.table, linesFrom]
  | cons r rs ih =>
    intro c
    rw [List.length_cons, stAt_cons_succ, ih, table_next]

/-! ### the `Run` of a rendering -/

/-- the account after the first token -/
def ctx0 (r0 : RTok) (k0 : Nat) : Ctx :=
  ⟨ityAfter cIndentUnknown k0, [], 0, k0, k0 + r0.item.spelling.length⟩

def runSt (rts : List RTok) : Nat → Lexer
  | 0 => mkLexer (renderTokens rts)
  | j + 1 =>
    match rts with
    | [] => mkLexer []
    | r0 :: rs => stAt (renderTokens (r0 :: rs)).toArray (ctx0 r0 (r0.nl.getD 0)) rs j

def runTk (rts : List RTok) : Nat → Token
  | 0 =>
    match rts with
    | [] => eofTok 0
    | r0 :: _ => r0.item.token (r0.nl.getD 0)
  | j + 1 =>
    match rts with
    | [] => eofTok 0
    | r0 :: rs => tkAt (ctx0 r0 (r0.nl.getD 0)) rs j

theorem render_first (r0 : RTok) (k0 : Nat) (rs : List RTok) (h : r0.nl = some k0) :
    renderTokens (r0 :: rs) = List.replicate k0 runeTAB ++ (r0.item.spelling ++ renderFrom false rs) := by
  simp [renderTokens, renderFrom, lead, h]

theorem inv0 (r0 : RTok) (k0 : Nat) (rs : List RTok) (h : r0.nl = some k0) (hw : WFFrom (r0 :: rs)) :
    Inv (renderTokens (r0 :: rs)).toArray (ctx0 r0 k0) rs := by
  refine ⟨?_, ItyOK.after (Or.inr ⟨rfl, rfl⟩ : ItyOK cIndentUnknown 0) k0, by simp [ctx0], hw.2.2⟩
  show (renderTokens (r0 :: rs)).toArray.toList.drop (k0 + r0.item.spelling.length) = _
  rw [render_first r0 k0 rs h]
  rw [← List.append_assoc]
  exact List.drop_left' (by simp)

/-- every step of the lexer on the rendering, the first one included -/
theorem run_step_ok (rts : List RTok) (hwf : WF rts) (j : Nat) :
    StepOK (lineTable rts) (runSt rts j) (runTk rts j) (runSt rts (j + 1)) := by
  obtain ⟨⟨r0, rs, k0, rfl, hk⟩, hw⟩ := hwf
  have hk0 : r0.nl.getD 0 = k0 := by rw [hk]; rfl
  have hinv := inv0 r0 k0 rs hk hw
  have htab : (ctx0 r0 k0).table rs = lineTable (r0 :: rs) := by
    simp [Ctx.table, ctx0, lineTable, hk0]
  cases j with
  | zero =>
    obtain ⟨d, t, hd1, hd2⟩ := delim_after hw
    have hfirst := nextToken_first r0.item hw.1 (renderTokens (r0 :: rs)) k0 d t hd2
      (by rw [render_first r0 k0 rs hk, hd1])
    have := stepOK_state (renderTokens (r0 :: rs)).toArray (mkLexer (renderTokens (r0 :: rs))) (r0.item.token k0)
      (ctx0 r0 k0) rs hfirst (by simp [mkLexer]) (by simp [ctx0]) (by simp [Item.token]) (by simp [Item.token, ctx0])
    rw [htab] at this
    simpa [runSt, runTk, hk0, stAt_zero] using this
  | succ j =>
    have := step_ok (renderTokens (r0 :: rs)).toArray rs (ctx0 r0 k0) j hinv
    rw [htab] at this
    simpa [runSt, runTk, hk0] using this

theorem lineTable_sorted (rts : List RTok) : (lineTable rts).Pairwise (fun a b => a.startIdx < b.startIdx) := by
  cases rts with
  | nil => simp [lineTable]
  | cons r rs => exact (linesFrom_sorted _ 0 _ rs (by omega)).1

theorem runTk_eof (rts : List RTok) (hwf : WF rts) (j : Nat) (hj : rts.length ≤ j) : runTk rts j = (layoutOf rts).eof := by
  obtain ⟨⟨r0, rs, k0, rfl, hk⟩, hw⟩ := hwf
  have hk0 : r0.nl.getD 0 = k0 := by rw [hk]; rfl
  obtain ⟨j', rfl⟩ : ∃ j', j = j' + 1 := ⟨j - 1, by simp at hj; omega⟩
  have := tkAt_eof (renderTokens (r0 :: rs)).toArray rs (ctx0 r0 k0) j' (inv0 r0 k0 rs hk hw) (by simp at hj; omega)
  simp only [runTk, hk0, this]
  simp [eofTok, Layout.eof, layoutOf]

/-- **the lexer on a canonical rendering, as a `Run`** against the layout the rendering determines -/
def renderRun (rts : List RTok) (hwf : WF rts) : Run (layoutOf rts) where
  st := runSt rts
  tk := runTk rts
  N := rts.length
  step j := (run_step_ok rts hwf j).step
  eof j hj := runTk_eof rts hwf j hj
  sorted i j a b hij ha hb := by
    have hs := lineTable_sorted rts
    simp only [layoutOf, List.getElem?_toArray] at ha hb
    obtain ⟨hi, rfl⟩ := List.getElem?_eq_some_iff.mp ha
    obtain ⟨hj, rfl⟩ := List.getElem?_eq_some_iff.mp hb
    exact List.pairwise_iff_getElem.mp hs i j hi hj hij
  size_pos j := (run_step_ok rts hwf j).pos
  size_mono j := (run_step_ok rts hwf (j + 1)).mono
  pre j i hi := by
    have := (run_step_ok rts hwf j).pre i hi
    simpa [layoutOf] using this
  onLast j a ha := by
    apply (run_step_ok rts hwf j).onLast a
    simpa [layoutOf] using ha
  span j := (run_step_ok rts hwf j).span
  beforeNext j b hb := by
    apply (run_step_ok rts hwf j).beforeNext b
    simpa [layoutOf] using hb

theorem renderRun_st0 (rts : List RTok) (hwf : WF rts) : (renderRun rts hwf).st 0 = mkLexer (renderTokens rts) := rfl

theorem renderRun_toks (rts : List RTok) (hwf : WF rts) : (renderRun rts hwf).toks = tokensOf rts := by
  obtain ⟨⟨r0, rs, k0, rfl, hk⟩, hw⟩ := hwf
  have hk0 : r0.nl.getD 0 = k0 := by rw [hk]; rfl
  show (List.range (r0 :: rs).length).map (runTk (r0 :: rs)) = _
  simp only [List.length_cons, List.range_succ_eq_map, List.map_cons, List.map_map, tokensOf, toksFrom]
  have h1 : runTk (r0 :: rs) 0 = r0.item.token (0 + (lead true r0.nl).length) := by
    simp [runTk, hk, lead]
  have h2 : (runTk (r0 :: rs) ∘ Nat.succ) = tkAt (ctx0 r0 k0) rs := by
    funext j; simp [runTk, hk0]
  rw [h1, h2, tkAt_toks]
  simp [ctx0, hk, lead]

theorem renderRun_final_lines (rts : List RTok) (hwf : WF rts) :
    ((renderRun rts hwf).st (rts.length + 1)).lines = (lineTable rts).toArray := by
  obtain ⟨⟨r0, rs, k0, rfl, hk⟩, hw⟩ := hwf
  have hk0 : r0.nl.getD 0 = k0 := by rw [hk]; rfl
  show (runSt (r0 :: rs) ((r0 :: rs).length + 1)).lines = _
  simp only [runSt, List.length_cons, hk0]
  rw [stAt_final_lines]
  simp [Ctx.table, ctx0, lineTable, hk0]

/-! ### `lexAll` along a `Run` -/

theorem lexAll_run {Y : Layout} (R : Run Y) (hne : ∀ j, j < R.N → (R.tk j).type ≠ cTypeEOF) :
    ∀ (n i : Nat) (acc : List Token) (fuel : Nat), R.N - i = n → i ≤ R.N → n + 1 ≤ fuel →
      lexAll fuel (R.st i) acc =
        (acc.reverse ++ (List.range' i (R.N - i)).map R.tk ++ [Y.eof], some (.ok ()), R.st (R.N + 1)) := by
  intro n
  induction n with
  | zero =>
    intro i acc fuel hn hi hf
    obtain ⟨fuel, rfl⟩ : ∃ f, fuel = f + 1 := ⟨fuel - 1, by omega⟩
    have hiN : i = R.N := by omega
    subst hiN
    rw [lexAll_succ, R.step, R.eof _ (Nat.le_refl _)]
    simp [Layout.eof]
  | succ n ih =>
    intro i acc fuel hn hi hf
    obtain ⟨fuel, rfl⟩ : ∃ f, fuel = f + 1 := ⟨fuel - 1, by omega⟩
    have hlt : i < R.N := by omega
    rw [lexAll_succ, R.step]
    have hty : ((R.tk i).type == cTypeEOF) = false := by simpa using hne i hlt
    simp only [hty, Bool.false_eq_true, ↓reduceIte]
    rw [ih (i + 1) (R.tk i :: acc) fuel (by omega) (by omega) (by omega)]
    have : R.N - i = (R.N - (i + 1)) + 1 := by omega
    rw [this, List.range'_succ]
    simp

theorem item_type_ne_eof (it : Item) (hw : it.WF) : it.type ≠ cTypeEOF := by
  cases it with
  | kw sp ty =>
    have : ∀ k ∈ Keywords.documented, k.2 ≠ cTypeEOF := by decide
    exact this _ hw
  | punct ch ty =>
    have : ∀ k ∈ punctuationTypeMap, k.2 ≠ cTypeEOF := by decide
    exact this _ hw
  | op sp ty =>
    have : ∀ k ∈ operatorTable, k.2 ≠ cTypeEOF := by decide
    exact this _ hw
  | name cs => simp [Item.type]; decide
  | quoted cs => simp [Item.type]; decide
  | text q t => cases q <;> simp [Item.type, Spec.Literal.Quote.type] <;> decide

theorem toksFrom_types : ∀ (rs : List RTok) (first : Bool) (pos : Nat), WFFrom rs →
    ∀ t ∈ toksFrom first pos rs, t.type ≠ cTypeEOF := by
  intro rs
  induction rs with
  | nil => intro _ _ _ t ht; simp [toksFrom] at ht
  | cons r rs ih =>
    intro first pos hw t ht
    simp only [toksFrom, List.mem_cons] at ht
    rcases ht with rfl | ht
    · exact item_type_ne_eof r.item hw.1
    · exact ih false _ hw.2.2 t ht

end ZnVerif.Proofs.RenderLex
