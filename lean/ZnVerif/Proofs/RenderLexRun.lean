/-
C03 at character level, lexer side, shared pieces: what follows a canonical item (`renderFrom_head`), what a `Run` asks of every
step of the lexer (`StepOK`), `lexAll` along a `Run` (`lexAll_run`), and token types of items.
(The walk along a canonical token list that used to be here is now the special case `ofRToks` of the walk along a document:
Proofs/RenderGapRun.lean, Proofs/RenderGapEmbed.lean.)
-/
import ZnVerif.Proofs.RenderLexLayout
import ZnVerif.Proofs.LexRun

namespace ZnVerif.Proofs.RenderLex
open ZnVerif.Model ZnVerif.Generated ZnVerif.Generated.Tokens
open ZnVerif.Spec ZnVerif.Spec.RenderChars
open ZnVerif.Spec.StmtSyntax (Layout)
open ZnVerif.Proofs.LexRun

/-! ### facts about the rendering functions -/

theorem lead_false_length (nl : Option Nat) : (lead false nl).length = 1 + nl.getD 0 := by
  cases nl <;> simp [lead, Nat.add_comm]

/-- what follows an item: a space if the next token stays on the line, else a line feed -/
theorem renderFrom_head (rs : List RTok) : ∃ d r, renderFrom false rs = d :: r ∧ (d = runeSP ∨ d = runeLF) ∧
    ((∃ r' rs', rs = r' :: rs' ∧ r'.nl = none) → d = runeSP) := by
  cases rs with
  | nil => exact ⟨runeLF, [], rfl, Or.inr rfl, by rintro ⟨_, _, h, _⟩; cases h⟩
  | cons r' rs' =>
    cases hnl : r'.nl with
    | none =>
      exact ⟨runeSP, r'.item.spelling ++ renderFrom false rs', by simp [renderFrom, lead, hnl], Or.inl rfl, fun _ => rfl⟩
    | some k =>
      refine ⟨runeLF, List.replicate k runeTAB ++ (r'.item.spelling ++ renderFrom false rs'),
        by simp [renderFrom, lead, hnl], Or.inr rfl, ?_⟩
      rintro ⟨r'', rs'', h, h2⟩
      cases h
      rw [hnl] at h2; cases h2

def eofTok (n : Nat) : Token := { type := cTypeEOF, startIdx := n, endIdx := n }

/-! ### what a `Run` asks of every step -/

/-- from `l`, the token `t` — which starts on line `sl` — is answered and the lexer becomes `l'`; `F` is the final line table -/
structure StepOK (F : List LineInfo) (l : Lexer) (t : Token) (sl : Nat) (l' : Lexer) : Prop where
  step : nextToken l = (.ok t, l')
  pos : 0 < l'.lines.size
  mono : l.lines.size ≤ l'.lines.size
  pre : ∀ i, i < l'.lines.size →
    l'.lines[i]?.map (·.startIdx) = F[i]?.map (·.startIdx) ∧ l'.lines[i]?.map (·.indents) = F[i]?.map (·.indents)
  sl_lt : sl < l'.lines.size
  sl_ge : l.lines.size - 1 ≤ sl
  onStart : ∀ a, F[sl]? = some a → a.startIdx ≤ t.startIdx
  beforeNextStart : ∀ b, F[sl + 1]? = some b → t.startIdx < b.startIdx
  onLast : ∀ a, F[l'.lines.size - 1]? = some a → a.startIdx ≤ t.endIdx
  span : t.startIdx ≤ t.endIdx
  beforeNext : ∀ b, F[l'.lines.size]? = some b → t.endIdx < b.startIdx

/-! ### `lexAll` along a `Run` -/

theorem lexAll_run {Y : Layout} (R : Run Y) (hne : ∀ j, j < R.N → (R.tk j).type ≠ cTypeEOF) :
    ∀ (n i : Nat) (acc : List Token) (fuel : Nat), R.N - i = n → i ≤ R.N → n + 1 ≤ fuel →
      lexAll fuel (R.st i) acc =
        (acc.reverse ++ (List.range' i (R.N - i)).map R.tk ++ [Y.eof], some (.ok ()), R.st (R.N + 1)) := by
  intro n
  induction n with
  | zero =>
    intro i acc fuel hn hi hf
    obtain ⟨fuel, rfl⟩ : ∃ f, fuel = f + 1 := ⟨fuel - 1, by omega⟩
    have hiN : i = R.N := by omega
    subst hiN
    rw [lexAll_succ, R.step, R.eof _ (Nat.le_refl _)]
    simp [Layout.eof]
  | succ n ih =>
    intro i acc fuel hn hi hf
    obtain ⟨fuel, rfl⟩ : ∃ f, fuel = f + 1 := ⟨fuel - 1, by omega⟩
    have hlt : i < R.N := by omega
    rw [lexAll_succ, R.step]
    have hty : ((R.tk i).type == cTypeEOF) = false := by simpa using hne i hlt
    simp only [hty, Bool.false_eq_true, ↓reduceIte]
    rw [ih (i + 1) (R.tk i :: acc) fuel (by omega) (by omega) (by omega)]
    have : R.N - i = (R.N - (i + 1)) + 1 := by omega
    rw [this, List.range'_succ]
    simp

theorem item_type_ne_eof (it : Item) (hw : it.WF) : it.type ≠ cTypeEOF := by
  cases it with
  | kw sp ty =>
    have : ∀ k ∈ Keywords.documented, k.2 ≠ cTypeEOF := by decide
    exact this _ hw
  | punct ch ty =>
    have : ∀ k ∈ punctuationTypeMap, k.2 ≠ cTypeEOF := by decide
    exact this _ hw
  | op sp ty =>
    have : ∀ k ∈ operatorTable, k.2 ≠ cTypeEOF := by decide
    exact this _ hw
  | name cs => simp [Item.type]; decide
  | quoted cs => simp [Item.type]; decide
  | text q t => cases q <;> simp [Item.type, Spec.Literal.Quote.type] <;> decide
  | cmt c => exact hw.elim

theorem toksFrom_types : ∀ (rs : List RTok) (first : Bool) (pos : Nat), WFFrom rs →
    ∀ t ∈ toksFrom first pos rs, t.type ≠ cTypeEOF := by
  intro rs
  induction rs with
  | nil => intro _ _ _ t ht; simp [toksFrom] at ht
  | cons r rs ih =>
    intro first pos hw t ht
    simp only [toksFrom, List.mem_cons] at ht
    rcases ht with rfl | ht
    · exact item_type_ne_eof r.item hw.1
    · exact ih false _ hw.2.2 t ht

end ZnVerif.Proofs.RenderLex
