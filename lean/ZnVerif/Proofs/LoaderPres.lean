/-
The module loader of `Model/Interp.lean` (`evalImport`, `execAnotherModule`, `loadModule`, `runProgramWith`) keeps every
relation the evaluator keeps, provided the relation also tolerates a change of the dependency graph and the
`BeginScope` of `execAnotherModule`'s last step (`LoaderPrims`).  Generic in `R`, like `Balance.allPres`.
-/
import ZnVerif.Proofs.BalanceMutual
set_option linter.unusedSectionVars false
set_option linter.unusedSimpArgs false
set_option linter.unusedVariables false

namespace ZnVerif.Proofs.Balance
open ZnVerif.Model

variable {ν : Type} [NumOps ν]

/-- what the loader needs beyond the evaluator's primitives -/
class LoaderPrims (R : VM ν → VM ν → Prop) : Prop extends ScopePrims0 R where
  graph : ∀ (s : VM ν) g, R s { s with graph := g }
  /-- `AddModule` after `FindModuleByName` has failed for the name -/
  pushModule : ∀ (s : VM ν) (m : Module), findModuleByName m.name s = none → R s { s with modules := s.modules.push m }
  beginBoundScope : Pres R (beginBoundScope (ν := ν))

section loader
variable {R : VM ν → VM ν → Prop} [LoaderPrims R]

theorem Pres.allocateModule (name : String) (hp : Bool) : Pres R (allocateModule (ν := ν) name hp) := by
  constructor; intro s; unfold Model.allocateModule; split
  · exact PreRel.refl _
  · rename_i hnone
    simp only
    refine PreRel.trans (R := R) (LoaderPrims.pushModule s { name := name, hasProgram := hp } hnone) ?_
    refine PreRel.trans (R := R) (LoaderPrims.graph _ (if s.csModuleID ≥ 0 then s.graph ++ [(s.csModuleID, (s.modules.size : Int))] else s.graph)) ?_
    exact Stable0.stack (R := R) _ s.stack (s.modules.size : Int)

theorem Pres.addModuleDependency (dep : Nat) : Pres R (addModuleDependency (ν := ν) dep) := by
  unfold Model.addModuleDependency
  exact Pres.modifyVM fun s => LoaderPrims.graph s _

theorem Pres.checkDependency (name : String) : Pres R (checkDependency (ν := ν) name) := by
  constructor; intro s; unfold Model.checkDependency
  split
  · exact PreRel.refl _
  · split <;> exact PreRel.refl _

theorem Pres.bindImports (ext : Nat) (items : List Ident) : Pres R (bindImports (ν := ν) ext items) := by
  unfold Model.bindImports
  have hd := fun name v c e => ScopePrims0.declareElement (R := R) name v c e
  pres_tac
  all_goals exact hd _ _ _ _

theorem Pres.addLibExports (ext : Nat) (names : List String) : Pres R (addLibExports (ν := ν) ext names) := by
  unfold Model.addLibExports
  pres_tac

theorem Pres.importStd (libs : LibTable) (name : String) : Pres R (importStd (ν := ν) libs name) := by
  unfold Model.importStd
  have h1 := Pres.allocateModule (R := R) name false
  have h2 := fun fr => ScopePrims0.pushFrame (R := R) fr
  have h3 := fun e ns => Pres.addLibExports (R := R) e ns
  pres_tac
  all_goals first | exact h2 _ | exact h3 _ _

theorem Pres.execAnotherModule (files : FileTable) (evalProg : Program → M ν Addr) (hev : ∀ p, Pres R (evalProg p))
    (name : String) : Pres R (execAnotherModule files evalProg name) := by
  unfold Model.execAnotherModule
  have h1 := Pres.allocateModule (R := R) name true
  have h2 := fun fr => ScopePrims0.pushFrame (R := R) fr
  have h3 := LoaderPrims.beginBoundScope (R := R)
  have hd := fun name v c e => ScopePrims0.declareElement (R := R) name v c e
  pres_tac
  all_goals first | exact h2 _ | exact hev _ | exact hd _ _ _ _

theorem Pres.evalImport (libs : LibTable) (load : String → M ν Nat) (hl : ∀ n, Pres R (load n)) (im : Import) :
    Pres R (evalImport libs load im) := by
  unfold Model.evalImport
  have h1 := fun n => Pres.importStd (R := R) libs n
  have h2 := fun e i => Pres.bindImports (R := R) e i
  have h3 := fun d => Pres.addModuleDependency (R := R) d
  have h4 := fun n => Pres.checkDependency (R := R) n
  pres_tac
  all_goals first | exact h1 _ | exact h2 _ _ | exact hl _ | exact h3 _ | exact h4 _

theorem Pres.evalProgram (fuel : Nat) (imp : Import → M ν Unit) (hi : ∀ im, Pres R (imp im)) (p : Program)
    (inputs : List (String × Cell ν)) : Pres R (evalProgram fuel imp p inputs) := by
  unfold Model.evalProgram
  have h2 := (allPres (ν := ν) (R := R) fuel).evalExecBlock
  have h3 := fun l => Pres.matchIDName (R := R) (ν := ν) l
  pres_tac
  all_goals first | exact h2 _ _ | exact h3 _

theorem Pres.loadModule (files : FileTable) (libs : LibTable) (fuel : Nat) :
    ∀ (k : Nat) (name : String), Pres R (loadModule (ν := ν) files libs fuel k name)
  | 0, _ => Pres.outOfFuel
  | k+1, name => by
    rw [Model.loadModule]
    exact Pres.execAnotherModule files _
      (fun p => Pres.evalProgram fuel _ (Pres.evalImport libs _ (Pres.loadModule files libs fuel k)) p []) name

theorem Pres.importWith (files : FileTable) (libs : LibTable) (fuel : Nat) (im : Import) :
    Pres R (importWith (ν := ν) files libs fuel im) :=
  Pres.evalImport libs _ (Pres.loadModule files libs fuel fuel) im

/-- a whole execution over a file table (`hmain`: `R` tolerates the allocation of the main module, which `EvalMainModule`
does without looking the name up — the module table is empty then) -/
theorem Pres.runProgramWith (files : FileTable) (libs : LibTable) (fuel : Nat) (p : Program)
    (inputs : List (String × Cell ν))
    (hmain : ∀ s : VM ν, R s { s with modules := s.modules.push { name := "主模块", hasProgram := true } }) :
    Pres R (runProgramWith (ν := ν) files libs fuel p inputs) := by
  unfold Model.runProgramWith
  have h1 : Pres R (Model.modifyVM fun s : VM ν =>
      { s with modules := s.modules.push { name := "主模块", hasProgram := true }, csModuleID := 0 }) :=
    Pres.modifyVM fun s =>
      PreRel.trans (R := R) (hmain s)
        (Stable0.stack (R := R) _ s.stack 0)
  have h2 : Pres R (pushFrame (ν := ν) { moduleId := 0, callType := 1 }) := ScopePrims0.pushFrame (R := R) _
  have h3 := Pres.evalProgram (R := R) fuel _ (Pres.importWith files libs fuel) p inputs
  pres_tac

end loader

end ZnVerif.Proofs.Balance
