/-
C02: the model's statement evaluator refines the spec semantics on the control-flow fragment
(induction on the model's fuel, for every smaller spec fuel; the cases are in StmtRefineSimple /
StmtRefineDisplay / StmtRefineCtl / StmtRefineIter).
-/
import ZnVerif.Proofs.StmtRefineIter
set_option linter.unusedSectionVars false
set_option linter.unusedSimpArgs false

namespace ZnVerif.Proofs
open ZnVerif.Model ZnVerif.Spec

variable {ν : Type} [NumOps ν]

theorem stmtSim_succ {ω : Addr → Option (SVal ν)} {mid : Int} {n m : Nat} (hle : m ≤ n) (hB : BlockSim ω mid n m) :
    StmtSim ω mid (n+1) (m+1) := by
  intro st s σ D ds h0 hst hinv
  cases hst with
  | varDecl ln pairs hp => exact sim_varDecl hle ln pairs hp hinv
  | expr e he => exact sim_exprStmt hle e he hinv
  | assign ln i rhs he ht => exact sim_assign hle ln i rhs he ht hinv
  | display ln nm params hnm hp => exact sim_display hle ln nm params hnm hp hinv
  | branch ln ifE ifB others hasElse elseB h1 h2 h3 h4 h5 =>
    exact sim_branch hle hB ln ifE ifB others hasElse elseB h1 h2 h3 (fun o ho => h4 o ho) h5 hinv
  | «while» ln cond body h1 h2 => exact sim_while hle hB ln cond body h1 h2 hinv
  | iterate ln e names body h1 h2 h3 => exact sim_iterate hle hB ln e names body h1 h2 h3 hinv
  | ret ln e he => exact sim_ret hle ln e he hinv
  | «break» ln => exact sim_break ln hinv
  | «continue» ln => exact sim_continue ln hinv
  | empty ln => exact sim_empty ln hinv

/-- the simulation, for every model fuel `n` and every spec fuel `m ≤ n` -/
theorem stmt_block_sim (ω : Addr → Option (SVal ν)) (mid : Int) : ∀ (n m : Nat), m ≤ n → StmtSim ω mid n m ∧ BlockSim ω mid n m
  | 0, m, _ => by
    refine ⟨?_, blockSim_modelFuel m⟩
    intro st s σ D ds h0 _ _
    simp only [evalStmt]; exact simS_modelFuel
  | n+1, 0, _ => by
    refine ⟨?_, blockSim_specFuel (n+1)⟩
    intro st s σ D ds h0 _ _
    simp only [execS]; exact simS_specFuel
  | n+1, 1, _ => ⟨stmtSim_succ (Nat.zero_le n) (blockSim_specFuel n), blockSim_specFuel1 (n+1)⟩
  | n+1, m+2, h =>
    ⟨stmtSim_succ (by omega) (stmt_block_sim ω mid n (m+1) (by omega)).2,
     sim_block (stmt_block_sim ω mid n m (by omega)).1⟩

end ZnVerif.Proofs
