/-
Token-level round trip with layout, part 1: the parser state over `layoutOps Y`, and what the primitives (`next`, `tryConsume`,
`consume`, `parseID`, `expectBlockIndent`, `blockCond`, `lineOf`, `endOfStmt`) do on it.

THE INVARIANT.  Every state the parser reaches on a token list read against the layout `Y` is `S Y p1 ts fl`:
  `p1`  the token consumed last (none before the first `next`),
  `ts`  the tokens from the peek token on (the peek token is `Y.peek ts`: the head, or EOF),
  `fl`  the statement-complete flag;
the four line fields are functions of `p1` and `ts` (`Y.sl`, `Y.el` of the two window tokens) — this is where `InOrder` is used:
`next` searches the line table from the previous position on, which finds the same line as a search from the top exactly when
lines do not decrease.  Consuming `t` (when `u` follows) turns `S p1 (t :: r) fl` into `S (some t) r (fl || Y.brk t u)`: the flag is set
by a statement line break between `t` and `u` and stays set until a production resets it.  Hence: inside `Glued` tokens the flag
stays false; after the last token of a statement (`Sep`) it is true — `Send ts rest` is the state after consuming `ts`.
-/
import ZnVerif.Spec.StmtSyntax
import ZnVerif.Proofs.ParserHoare

namespace ZnVerif.Proofs.StmtRT
open ZnVerif.Model ZnVerif.Model.Parser ZnVerif.Generated.Tokens ZnVerif.Generated.ParserTables
open ZnVerif.Spec.StmtSyntax

-- ---- findLineIdx: searching from an earlier line finds the same line ----------------------------------------------------

/-- the search goes on past line `x` -/
def Cont (L : Array LineInfo) (c x : Nat) : Prop := ∃ h : x + 1 < L.size, ¬ c < L[x + 1].startIdx

theorem aux_stop (L : Array LineInfo) (c k i : Nat) (h : ¬ Cont L c i) : findLineIdxAux L c k i = i := by
  cases k with
  | zero => rfl
  | succ k =>
    unfold findLineIdxAux
    by_cases h1 : i + 1 < L.size
    · by_cases h2 : c < L[i + 1].startIdx
      · simp [h1, h2]
      · exact absurd ⟨h1, h2⟩ h
    · simp [h1]

theorem aux_step (L : Array LineInfo) (c k i : Nat) (h : Cont L c i) :
    findLineIdxAux L c (k + 1) i = findLineIdxAux L c k (i + 1) := by
  obtain ⟨h1, h2⟩ := h
  conv => lhs; unfold findLineIdxAux
  simp [h1, h2]

theorem aux_between (L : Array LineInfo) (c : Nat) : ∀ (k i x : Nat), i ≤ x → x < findLineIdxAux L c k i → Cont L c x
  | 0, i, x, h1, h2 => by
    have : findLineIdxAux L c 0 i = i := rfl
    omega
  | k + 1, i, x, h1, h2 => by
    by_cases hc : Cont L c i
    · rw [aux_step L c k i hc] at h2
      by_cases hx : x = i
      · exact hx ▸ hc
      · exact aux_between L c k (i + 1) x (by omega) h2
    · rw [aux_stop L c (k + 1) i hc] at h2
      omega

theorem aux_shift (L : Array LineInfo) (c : Nat) : ∀ (m i k : Nat), (∀ x, i ≤ x → x < i + m → Cont L c x) →
    findLineIdxAux L c (k + m) i = findLineIdxAux L c k (i + m)
  | 0, i, k, _ => rfl
  | m + 1, i, k, h => by
    have h0 : Cont L c i := h i (Nat.le_refl _) (by omega)
    have : k + (m + 1) = (k + m) + 1 := by omega
    rw [this, aux_step L c (k + m) i h0, aux_shift L c m (i + 1) k (fun x hx1 hx2 => h x (by omega) (by omega))]
    congr 1
    omega

theorem findLineIdx_from (L : Array LineInfo) (c i : Nat) (h : i ≤ findLineIdx L c 0) :
    findLineIdx L c i = findLineIdx L c 0 := by
  unfold findLineIdx at *
  have hcont : ∀ x, x < i → Cont L c x := fun x hx => aux_between L c (L.size - 0) 0 x (Nat.zero_le _) (by omega)
  by_cases hi : i = 0
  · subst hi; rfl
  · have hlt : i < L.size := by
      obtain ⟨h1, _⟩ := hcont (i - 1) (by omega)
      omega
    have := aux_shift L c i 0 (L.size - i) (fun x _ hx => hcont x (by omega))
    rw [Nat.zero_add] at this
    rw [← this]
    congr 1
    omega

-- ---- the state ----------------------------------------------------------------------------------------------------------

variable (Y : Layout)

def slO : Option Token → Nat
  | none => 0
  | some t => Y.sl t
def elO : Option Token → Nat
  | none => 0
  | some t => Y.el t

/-- parser state over `layoutOps Y`: current token `p1`, tokens from the peek token on `ts`, flag `fl` -/
def S (p1 : Option Token) (ts : List Token) (fl : Bool) : PState (List Token) :=
  { lex := ts.tail, p1 := p1, p2 := Y.peek ts, sl1 := slO Y p1, el1 := elO Y p1, sl2 := Y.sl (Y.peek ts), el2 := Y.el (Y.peek ts),
    flag := fl }

/-- the state after the tokens `ts` have been consumed and `rest` follows -/
def Send (ts rest : List Token) : PState (List Token) := S Y ts.getLast? rest (Y.jf ts.getLast? (Y.peek rest))

/-- a token that is neither EOF, nor a comma, nor a comment -/
def Plain (t : Token) : Prop := t.type ≠ cTypeEOF ∧ t.type ≠ cTypeCommaSep ∧ t.type ≠ cTypeComment

variable {Y} {v : Variant}

theorem peek_cons (t : Token) (r : List Token) : Y.peek (t :: r) = t := rfl
theorem peek_nil : Y.peek [] = Y.eof := rfl
theorem eof_type : Y.eof.type = cTypeEOF := rfl

theorem peek_append {ts : List Token} (h : ts ≠ []) (rest : List Token) : Y.peek (ts ++ rest) = Y.peek ts := by
  cases ts with
  | nil => exact absurd rfl h
  | cons a r => rfl

theorem inOrder_peek_nc {r : List Token} (h : Y.InOrder r) : (Y.peek r).type ≠ cTypeComment := by
  cases r with
  | nil => show cTypeEOF ≠ cTypeComment; decide
  | cons a r => exact h.1

theorem inOrder_tail {t : Token} {r : List Token} (h : Y.InOrder (t :: r)) : Y.InOrder r := h.2.2.2

theorem inOrder_drop : ∀ (a : List Token) {b : List Token}, Y.InOrder (a ++ b) → Y.InOrder b
  | [], _, h => h
  | _ :: a, _, h => inOrder_drop a (inOrder_tail h)

theorem sl_lt_size (t : Token) : Y.sl t < Y.lines.size := (ParserHoare.findLineIdx_bound Y.lines t.startIdx 0).1 Y.ne

theorem lines_sl (t : Token) : ∃ li, Y.lines[Y.sl t]? = some li ∧ li.indents = Y.ind t := by
  have h := sl_lt_size (Y := Y) t
  refine ⟨Y.lines[Y.sl t], by simp [h], ?_⟩
  simp [Layout.ind, Layout.indent, h]

theorem fetch_tok (n : Nat) (r : List Token) (h : (Y.peek r).type ≠ cTypeComment) :
    fetch (layoutOps Y) (n + 1) r = .ok (Y.peek r) r.tail := by
  cases r with
  | nil => simp [fetch, layoutOps, Layout.peek] at h ⊢; exact fun h' => absurd h' h
  | cons a r => simp [fetch, layoutOps, Layout.peek] at h ⊢; exact fun h' => absurd h' h

/-- `next()` -/
theorem next_S (n : Nat) (p1 : Option Token) (t : Token) (r : List Token) (fl : Bool) (ho : Y.InOrder (t :: r)) :
    next (layoutOps Y) (n + 1) (S Y p1 (t :: r) fl) = .ok () (S Y (some t) r (fl || Y.brk t (Y.peek r))) := by
  unfold next
  have hf : fetch (layoutOps Y) (n + 1) (S Y p1 (t :: r) fl).lex = .ok (Y.peek r) r.tail :=
    fetch_tok n r (inOrder_peek_nc (inOrder_tail ho))
  rw [hf]
  have h1 : findLineIdx Y.lines (Y.peek r).startIdx (Y.sl t) = Y.sl (Y.peek r) := findLineIdx_from _ _ _ ho.2.1
  have h2 : findLineIdx Y.lines (Y.peek r).endIdx (Y.el t) = Y.el (Y.peek r) := findLineIdx_from _ _ _ ho.2.2.1
  show Res.ok () _ = Res.ok () _
  congr 1
  simp only [S, layoutOps, peek_cons, h1, h2, slO, elO, Layout.brk]

theorem bind_ok {α β : Type} {x : PM (List Token) α} {f : α → PM (List Token) β} {s s' : PState (List Token)} {a : α}
    (h : x s = .ok a s') : (x >>= f) s = f a s' := by
  show PM.bind x f s = _
  unfold PM.bind
  rw [h]

/-- the awaited token is the peek token -/
theorem tryConsume_hit (n : Nat) (tys : List Nat) (p1 : Option Token) (t : Token) (r : List Token)
    (hmem : t.type ∈ tys) (hc : t.type ≠ cTypeCommaSep) (ho : Y.InOrder (t :: r)) :
    tryConsume (layoutOps Y) (n + 1) tys (S Y p1 (t :: r) false) = .ok (some t) (S Y (some t) r (Y.brk t (Y.peek r))) := by
  unfold tryConsume
  have h1 : (S Y p1 (t :: r) false).p2.type ≠ cTypeCommaSep := hc
  simp only [Bind.bind, PM.bind, getS, h1, if_false]
  unfold tryConsumeCore
  have h2 : tys.contains (S Y p1 (t :: r) false).p2.type = true := by simpa [S, Layout.peek] using hmem
  have h3 : (S Y p1 (t :: r) false).flag = false := rfl
  simp only [Bind.bind, PM.bind, getS, h2, h3, if_true, Bool.false_eq_true, if_false, next_S n p1 t r false ho,
    Bool.false_or]
  rfl

/-- the peek token is not awaited (or the statement is complete), and it is not a comma -/
theorem tryConsume_miss (n : Nat) (tys : List Nat) (p1 : Option Token) (ts : List Token) (fl : Bool)
    (h : fl = true ∨ (Y.peek ts).type ∉ tys) (hc : (Y.peek ts).type ≠ cTypeCommaSep) :
    tryConsume (layoutOps Y) n tys (S Y p1 ts fl) = .ok none (S Y p1 ts fl) := by
  unfold tryConsume
  have h1 : (S Y p1 ts fl).p2.type ≠ cTypeCommaSep := hc
  simp only [Bind.bind, PM.bind, getS, h1, if_false]
  unfold tryConsumeCore
  simp only [Bind.bind, PM.bind, getS]
  rcases h with h | h
  · have : (S Y p1 ts fl).flag = true := h
    simp [this, Pure.pure, PM.pure]
  · have h2 : tys.contains (S Y p1 ts fl).p2.type = false := by simpa [S] using h
    by_cases hf : (S Y p1 ts fl).flag = true
    · simp [hf, Pure.pure, PM.pure]
    · have h3 : ¬ (S Y p1 ts fl).p2.type ∈ tys := h
      simp [hf, h3, Pure.pure, PM.pure]

theorem consume_hit (n : Nat) (tys : List Nat) (p1 : Option Token) (t : Token) (r : List Token)
    (hmem : t.type ∈ tys) (hc : t.type ≠ cTypeCommaSep) (ho : Y.InOrder (t :: r)) :
    consume v (layoutOps Y) (n + 1) tys (S Y p1 (t :: r) false) = .ok () (S Y (some t) r (Y.brk t (Y.peek r))) := by
  unfold consume
  rw [bind_ok (tryConsume_hit n tys p1 t r hmem hc ho)]
  rfl

theorem lineOf_S (tk : Token) (s : PState (List Token)) : lineOf (layoutOps Y) tk s = .ok (Y.sl tk) s := rfl

theorem newID_S (tk : Token) (s : PState (List Token)) : newID (layoutOps Y) tk s = .ok (Y.idOf tk) s := rfl

/-- `parseID` on an identifier -/
theorem parseID_hit (n : Nat) (p1 : Option Token) (t : Token) (r : List Token) (ht : t.type = cTypeIdentifier)
    (ho : Y.InOrder (t :: r)) :
    parseID v (layoutOps Y) (n + 1) (S Y p1 (t :: r) false) =
      .ok (Y.idOf t) (S Y (some t) r (Y.brk t (Y.peek r))) := by
  unfold parseID
  rw [bind_ok (tryConsume_hit n _ p1 t r (by simp [ht]) (by rw [ht]; decide) ho)]
  rfl

theorem unsetFlag_S (p1 : Option Token) (ts : List Token) (fl : Bool) :
    (unsetFlag : PM (List Token) Unit) (S Y p1 ts fl) = .ok () (S Y p1 ts false) := rfl

theorem setFlag_S (p1 : Option Token) (ts : List Token) (fl : Bool) :
    (setFlag : PM (List Token) Unit) (S Y p1 ts fl) = .ok () (S Y p1 ts true) := rfl

theorem getS_S (s : PState (List Token)) : (getS : PM (List Token) _) s = .ok s s := rfl

theorem endOfStmt_flag (p1 : Option Token) (ts : List Token) :
    (endOfStmt v : PM (List Token) Unit) (S Y p1 ts true) = .ok () (S Y p1 ts true) := by
  unfold endOfStmt
  simp [S]

theorem peekIndentOf_S (p1 : Option Token) (ts : List Token) (fl : Bool) :
    peekIndentOf (layoutOps Y) (S Y p1 ts fl) = Y.ind (Y.peek ts) := rfl

theorem currIndentOf_S (t : Token) (ts : List Token) (fl : Bool) :
    currIndentOf (layoutOps Y) (S Y (some t) ts fl) = Y.ind t := rfl

theorem blockCond_S (d : Nat) (p1 : Option Token) (ts : List Token) (fl : Bool) :
    blockCond (layoutOps Y) d (S Y p1 ts fl) = (decide ((Y.peek ts).type ≠ cTypeEOF) && Y.ind (Y.peek ts) == d) := rfl

theorem blockCond_true (d : Nat) (p1 : Option Token) (ts : List Token) (fl : Bool)
    (h1 : (Y.peek ts).type ≠ cTypeEOF) (h2 : Y.ind (Y.peek ts) = d) : blockCond (layoutOps Y) d (S Y p1 ts fl) = true := by
  rw [blockCond_S]; simp [h1, h2]

theorem blockCond_false (d : Nat) (p1 : Option Token) (ts : List Token) (fl : Bool)
    (h : (Y.peek ts).type = cTypeEOF ∨ Y.ind (Y.peek ts) ≠ d) : blockCond (layoutOps Y) d (S Y p1 ts fl) = false := by
  rw [blockCond_S]
  rcases h with h | h
  · simp [h]
  · simp [h]

/-- `expectBlockIndent`: the peek token starts a line indented one step more than the line of the current token -/
theorem expectBlockIndent_S (c : Token) (ts : List Token) (fl : Bool) (d : Nat) (hc : Y.ind c = d) (hp : Y.ind (Y.peek ts) = d + 1) :
    expectBlockIndent (layoutOps Y) (S Y (some c) ts fl) = .ok (some (d + 1)) (S Y (some c) ts fl) := by
  unfold expectBlockIndent
  obtain ⟨l2, h2, i2⟩ := lines_sl (Y := Y) (Y.peek ts)
  obtain ⟨l1, h1, i1⟩ := lines_sl (Y := Y) c
  have e2 : ((layoutOps Y).lines (S Y (some c) ts fl).lex)[(S Y (some c) ts fl).sl2]? = some l2 := h2
  have e1 : ((layoutOps Y).lines (S Y (some c) ts fl).lex)[(S Y (some c) ts fl).sl1]? = some l1 := h1
  simp only [e1, e2]
  have : l2.indents = l1.indents + 1 := by omega
  simp [this]
  omega

/-- `parse` yields `r` for every fuel from `n` on -/
def Stable (v : Variant) (Y : Layout) (nt : NT) (s : PState (List Token)) (r : Res (List Token) nt.Out) (n : Nat) : Prop :=
  ∀ n', n ≤ n' → parse v (layoutOps Y) n' nt s = r

theorem Stable.mono {nt : NT} {s : PState (List Token)} {r : Res (List Token) nt.Out} {n m : Nat}
    (h : Stable v Y nt s r n) (hnm : n ≤ m) : Stable v Y nt s r m := fun n' h' => h n' (Nat.le_trans hnm h')

theorem parse_succ (n : Nat) (nt : NT) (s : PState (List Token)) :
    parse v (layoutOps Y) (n + 1) nt s =
      step v (layoutOps Y) n (parse v (layoutOps Y) n) nt s := rfl

-- ---- lists --------------------------------------------------------------------------------------------------------------

theorem glued_tail {t : Token} {r : List Token} (h : Y.Glued (t :: r)) : Y.Glued r := by
  cases r with
  | nil => trivial
  | cons u r => exact h.2

theorem glued_head {t u : Token} {r : List Token} (h : Y.Glued (t :: u :: r)) : Y.brk t u = false := h.1

theorem glued_drop : ∀ (a : List Token) {b : List Token}, Y.Glued (a ++ b) → Y.Glued b
  | [], _, h => h
  | _ :: a, _, h => glued_drop a (glued_tail h)

theorem glued_take : ∀ (a : List Token) {b : List Token}, Y.Glued (a ++ b) → Y.Glued a
  | [], _, _ => trivial
  | [_], _, _ => trivial
  | t :: u :: a, b, h => ⟨h.1, glued_take (u :: a) (b := b) h.2⟩

/-- the joint of two glued runs: no break between the last token of `a` and the head of `b` -/
theorem glued_joint : ∀ (a : List Token) {u : Token} {b : List Token}, Y.Glued (a ++ u :: b) → Y.jf a.getLast? u = false
  | [], _, _, _ => rfl
  | [t], _, _, h => h.1
  | t :: v :: a, u, b, h => by
    have := glued_joint (v :: a) (u := u) (b := b) h.2
    rwa [List.getLast?_cons_cons]

theorem brk_false_plain {t u : Token} (h : Y.brk t u = false) : t.type ≠ cTypeEOF ∧ u.type ≠ cTypeEOF := by
  unfold Layout.brk meetStmtLineBreak at h
  by_cases h1 : t.type = cTypeEOF ∨ u.type = cTypeEOF
  · simp [h1] at h
  · exact ⟨fun h' => h1 (Or.inl h'), fun h' => h1 (Or.inr h')⟩

theorem brk_eof (t u : Token) (h : u.type = cTypeEOF) : Y.brk t u = true := by
  unfold Layout.brk meetStmtLineBreak
  simp [h]

/-- nothing breaks after `， 、 { 【 ： ？` -/
theorem brk_after_open {t u : Token} (ht : t.type ∈ exceptCurrentTokenTypes) (hu : u.type ≠ cTypeEOF) : Y.brk t u = false := by
  unfold Layout.brk meetStmtLineBreak
  have h1 : t.type ≠ cTypeEOF := by
    intro h; rw [h] at ht; revert ht; decide
  simp [h1, hu, ht]

def lastTok (p1 : Option Token) (ts : List Token) : Option Token :=
  match ts.getLast? with
  | some t => some t
  | none => p1

theorem lastTok_nil (p1 : Option Token) : lastTok p1 [] = p1 := rfl

theorem lastTok_ne (p1 : Option Token) {ts : List Token} (h : ts ≠ []) : lastTok p1 ts = ts.getLast? := by
  unfold lastTok
  cases hh : ts.getLast? with
  | none => simp [List.getLast?_eq_none_iff] at hh; exact absurd hh h
  | some y => rfl

theorem getLast?_append_ne (a : List Token) {b : List Token} (h : b ≠ []) : (a ++ b).getLast? = b.getLast? := by
  cases hh : b.getLast? with
  | none => simp [List.getLast?_eq_none_iff] at hh; exact absurd hh h
  | some y => rw [List.getLast?_append, hh]; rfl

theorem lastTok_append (p1 : Option Token) (a b : List Token) : lastTok p1 (a ++ b) = lastTok (lastTok p1 a) b := by
  by_cases hb : b = []
  · subst hb; simp [lastTok_nil]
  · rw [lastTok_ne _ hb]
    have : a ++ b ≠ [] := by simp [hb]
    rw [lastTok_ne _ this, getLast?_append_ne a hb]

theorem getLast?_isSome {ts : List Token} (h : ts ≠ []) : ∃ t, ts.getLast? = some t := by
  cases hh : ts.getLast? with
  | none => simp [List.getLast?_eq_none_iff] at hh; exact absurd hh h
  | some y => exact ⟨y, rfl⟩

end ZnVerif.Proofs.StmtRT
