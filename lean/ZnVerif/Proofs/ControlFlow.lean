/-
Helper lemmas for C02 (control flow).  Nothing here changes the model: the definitions below are
*names* for pieces of `Model/Interp.lean` (the step of a 每当 loop, one pass of 遍历, the alternatives of
如果 …), each tied to the model by an unfolding lemma (`evalStmt_while`, `evalStmt_iterate`,
`evalStmt_branch`, `evalPureStmtBlock_eq`, `evalExecBlock_eq`) proved by `rfl`/case analysis, and
relations describing "k complete passes" / "a prefix of statements ran without 输出".
-/
import ZnVerif.Model.Interp
set_option linter.unusedSectionVars false
set_option linter.unusedVariables false

namespace ZnVerif.Proofs.ControlFlow
open ZnVerif.Model

/-! ## a toy number type (only used to exhibit concrete instances in `example`s) -/

namespace Toy
/-- integers with truncating operations; enough to run small programs inside Lean -/
scoped instance toyNum : NumOps Int where
  add := (· + ·)
  sub := (· - ·)
  mul := (· * ·)
  div := (· / ·)
  floor := id
  ceil := id
  sqrt := id
  eq := (· == ·)
  lt := (· < ·)
  gt := (· > ·)
  le := (· ≤ ·)
  ge := (· ≥ ·)
  isZero := (· == 0)
  leZero := (· ≤ 0)
  ofInt := id
  toInt := id
  parse := fun _ => 0
  fmt := fun _ => "n"

/-- a machine with the script frame pushed, module 0 and one (empty) scope for it -/
def vm0 : VM Int :=
  { heap := #[], stack := [{ moduleId := 0, callType := 1 }], csModuleID := 0, scopes := [(0, {})],
    modules := #[{ name := "m", hasProgram := true }] }

/-- `[] == []` — a condition that is 真 without touching names or numbers -/
def cTrue : Expr := .logic 0 LogicEQ (.arr 0 []) (.arr 0 [])
/-- `[] /= []` — 假 -/
def cFalse : Expr := .logic 0 LogicNEQ (.arr 0 []) (.arr 0 [])

/-- `输出 "x"` -/
def retX : Stmt := .ret 0 (.str 0 "x")
def vId : Ident := ⟨0, "v"⟩
def kId : Ident := ⟨0, "k"⟩
def dId : Ident := ⟨0, "d"⟩
def tId : Ident := ⟨0, "t"⟩
/-- `v == "b"` -/
def isB : Expr := .logic 0 LogicEQ (.id vId) (.str 0 "b")
/-- `["a", "b", "c"]` -/
def abc : Expr := .arr 0 [.str 0 "a", .str 0 "b", .str 0 "c"]
/-- `["a", "b"]` -/
def ab : Expr := .arr 0 [.str 0 "a", .str 0 "b"]
/-- `[p = "a", q = "b"]` -/
def pq : Expr := .hm 0 [(.str 0 "p", .str 0 "a"), (.str 0 "q", .str 0 "b")]
/-- `[p = "a", q = "b", r = "c"]` -/
def pqr : Expr := .hm 0 [(.str 0 "p", .str 0 "a"), (.str 0 "q", .str 0 "b"), (.str 0 "r", .str 0 "c")]
/-- `如果 v == "b"： 输出 "x"； ‹nil statement›` — the nil statement would be a Go panic if it were reached -/
def retIfB : Stmt := .branch 0 isB (some [retX, .nil]) [] false none
def breakIfB : Stmt := .branch 0 isB (some [.break 0, .nil]) [] false none
/-- a 输出 inside 遍历 inside 如果 inside 每当; after every construct on the way a nil statement, which would be a
Go panic (`Res.panic`) if it were ever evaluated -/
abbrev nested : List Stmt :=
  [.empty 0,
   .while 0 cTrue (some [
     .branch 0 cTrue (some [
       .iterate 0 ab [] (some [retX, .nil]),
       .nil]) [] false none,
     .nil]),
   .nil]
/-- `如何f？ （空）` — a method definition -/
def fDecl : Stmt := .funcDecl 0 (some ⟨0, "f"⟩) 1 (some (.mk [] (some [.empty 0]) []))
def excId : Ident := ⟨0, "异常"⟩
/-- a body that raises 异常 and whose 拦截异常 block executes 继续循环 (then a nil statement) -/
def handlerContinues : ExecBlock :=
  .mk [] (some [.throw 0 (some excId) [.str 0 "m"]]) [(some excId, some [.continue 0, .nil])]
/-- `（f）` as a statement -/
def callF : Stmt := .expr (.call 0 (some ⟨0, "f"⟩) [] none)
/-- `如何f？ 结束循环` — a method whose body is a bare 结束循环 -/
def fBreaks : Stmt := .funcDecl 0 (some ⟨0, "f"⟩) 1 (some (.mk [] (some [.break 0]) []))
/-- a machine with two variables: `d` = 假, `t` = 真 -/
def vm1 : VM Int :=
  { heap := #[.bool false, .bool true], stack := [{ moduleId := 0, callType := 1 }], csModuleID := 0,
    scopes := [(0, { syms := [{ name := "d", depth := 0, isConst := false, ext := none, val := 0 },
                              { name := "t", depth := 0, isConst := false, ext := none, val := 1 }], depth := 0 })],
    modules := #[{ name := "m", hasProgram := true }] }
/-- `如果 d： 输出 "x"` then `d = t`: the second pass of a loop over this body executes the 输出 -/
def retSecondTime : List Stmt :=
  [.branch 0 (.id dId) (some [retX]) [] false none, .expr (.assign 0 (.id dId) (.id tId)), .empty 0]
def breakSecondTime : List Stmt :=
  [.branch 0 (.id dId) (some [.break 0, .nil]) [] false none, .expr (.assign 0 (.id dId) (.id tId)), .empty 0]
/-- `d /= t` -/
def dNeT : Expr := .logic 0 LogicNEQ (.id dId) (.id tId)
/-- `d = t` -/
def setD : Stmt := .expr (.assign 0 (.id dId) (.id tId))
end Toy

/-! ### reflection for the `example`s

The elaborator's `rfl` cannot run programs of more than one loop pass (no sharing between the lazily evaluated
machine states), the kernel can.  The lemmas below turn a Bool computed by the kernel (`by decide +kernel`) into
the equations the theorems take as hypotheses; the witnesses (`okGet …`, `(m s).2`) are found by unification. -/
namespace Toy
deriving instance DecidableEq for Frame

def isOk {α} : Res α → Bool | .ok _ => true | _ => false
def okGet {α} [Inhabited α] : Res α → α | .ok a => a | _ => default
def errIs {α} (r : Res α) (e : Err) : Bool := match r with | .err e' => e == e' | _ => false
def isBoolCell {ν} (c : Option (Cell ν)) (b : Bool) : Bool := match c with | some (.bool b') => b == b' | _ => false

theorem run_ok {ν α} [Inhabited α] (m : M ν α) (s : VM ν) (h : isOk (m s).1 = true) :
    m s = (.ok (okGet (m s).1), (m s).2) := by
  rcases hm : m s with ⟨r, s'⟩
  cases r <;> simp_all [isOk, okGet]

def isOkSome : Res (Option Addr) → Bool | .ok (some _) => true | _ => false
def okSomeGet : Res (Option Addr) → Addr | .ok (some a) => a | _ => 0
theorem run_ok_some {ν} (m : M ν (Option Addr)) (s : VM ν) (h : isOkSome (m s).1 = true) :
    m s = (.ok (some (okSomeGet (m s).1)), (m s).2) := by
  rcases hm : m s with ⟨r, s'⟩
  rcases r with (_ | a) | _ | _ | _ | _ <;> simp_all [isOkSome, okSomeGet]

theorem stack_cons {ν} (s : VM ν) (h : s.stack ≠ []) : s.stack = s.stack.head h :: s.stack.tail :=
  (List.cons_head_tail h).symm

theorem run_err {ν α} (m : M ν α) (s : VM ν) (e : Err) (h : errIs (m s).1 e = true) : m s = (.err e, (m s).2) := by
  rcases hm : m s with ⟨r, s'⟩
  cases r <;> simp_all [errIs]

def isArrCell {ν} (c : Option (Cell ν)) (xs : List Addr) : Bool := match c with | some (.arr ys) => xs == ys | _ => false
def isHmCell {ν} (c : Option (Cell ν)) (vals : List (String × Addr)) (order : List String) : Bool :=
  match c with | some (.hm v o) => vals == v && order == o | _ => false
def isStrCell {ν} (c : Option (Cell ν)) (x : String) : Bool := match c with | some (.str y) => x == y | _ => false

theorem cell_arr {ν} (c : Option (Cell ν)) (xs : List Addr) (h : isArrCell c xs = true) : c = some (.arr xs) := by
  unfold isArrCell at h; split at h <;> simp_all
theorem cell_hm {ν} (c : Option (Cell ν)) (vals : List (String × Addr)) (order : List String)
    (h : isHmCell c vals order = true) : c = some (.hm vals order) := by
  unfold isHmCell at h; split at h <;> simp_all
def isNullCell {ν} (c : Option (Cell ν)) : Bool := match c with | some .null => true | _ => false
theorem cell_null {ν} (c : Option (Cell ν)) (h : isNullCell c = true) : c = some .null := by
  unfold isNullCell at h; split at h <;> simp_all
theorem cell_str {ν} (c : Option (Cell ν)) (x : String) (h : isStrCell c x = true) : c = some (.str x) := by
  unfold isStrCell at h; split at h <;> simp_all

/-- `K` = let the kernel evaluate a closed Bool / decidable statement -/
scoped macro "K" : term => `(by decide +kernel)

theorem cell_bool {ν} (c : Option (Cell ν)) (b : Bool) (h : isBoolCell c b = true) : c = some (.bool b) := by
  unfold isBoolCell at h; split at h <;> simp_all
end Toy

variable {ν : Type} [NumOps ν]

/-! ## the monad -/

theorem bind_ok {α β} {m : M ν α} {f : α → M ν β} {s s' : VM ν} {a : α} (h : m s = (.ok a, s')) :
    (m >>= f) s = f a s' := by
  simp [bind, h]

theorem bind_err {α β} {m : M ν α} {f : α → M ν β} {s s' : VM ν} {e : Err} (h : m s = (.err e, s')) :
    (m >>= f) s = (.err e, s') := by
  simp [bind, h]

instance : LawfulMonad (M ν) := LawfulMonad.mk' (M ν)
  (id_map := by
    intro α x; funext s
    show (match x s with
      | (.ok a, s') => (Res.ok (id a), s') | (.err e, s') => (.err e, s') | (.panic, s') => (.panic, s')
      | (.fuel, s') => (.fuel, s') | (.unmodelled, s') => (.unmodelled, s')) = x s
    rcases x s with ⟨r, s'⟩; cases r <;> rfl)
  (pure_bind := by intros; rfl)
  (bind_assoc := by
    intro α β γ x f g; funext s
    show (match (match x s with
        | (.ok a, s') => f a s' | (.err e, s') => (.err e, s') | (.panic, s') => (.panic, s')
        | (.fuel, s') => (.fuel, s') | (.unmodelled, s') => (.unmodelled, s')) with
      | (.ok a, s') => g a s' | (.err e, s') => (.err e, s') | (.panic, s') => (.panic, s')
      | (.fuel, s') => (.fuel, s') | (.unmodelled, s') => (.unmodelled, s')) =
      (match x s with
      | (.ok a, s') => (f a >>= g) s' | (.err e, s') => (.err e, s') | (.panic, s') => (.panic, s')
      | (.fuel, s') => (.fuel, s') | (.unmodelled, s') => (.unmodelled, s'))
    rcases x s with ⟨r, s'⟩; cases r <;> rfl)

theorem bind_eq_of_eq {α β} {m m' : M ν α} {f : α → M ν β} {s s' : VM ν} (h : m s = m' s') :
    (m >>= f) s = (m' >>= f) s' := by
  simp [bind, h]

/-! ## line marker, return slot -/

/-- `vm.SetCurrentLine` on the top frame -/
def setLine (ln : Nat) (s : VM ν) : VM ν :=
  match s.stack with
  | [] => s
  | fr :: rest => { s with stack := { fr with line := ln, started := true } :: rest }

theorem setLine_bind {α} (ln : Nat) (k : M ν α) (s : VM ν) :
    ((setTopFrame fun fr => { fr with line := ln, started := true }) >>= fun _ => k) s = k (setLine ln s) := by
  simp only [bind, setTopFrame, modifyVM, setLine]
  cases s.stack <;> rfl

theorem setLine_cons (ln : Nat) (s : VM ν) (fr : Frame) (rest : List Frame) (h : s.stack = fr :: rest) :
    setLine ln s = { s with stack := { fr with line := ln, started := true } :: rest } := by
  simp [setLine, h]

/-- setting the same line twice is setting it once (the loop sets it again at the top of every pass) -/
theorem setLine_idem (ln : Nat) (s : VM ν) : setLine ln (setLine ln s) = setLine ln s := by
  unfold setLine
  cases h : s.stack <;> simp [h]

/-- the return slot of the top frame (`vm.GetCurrentReturnValue()`; no frame: nil) -/
def retSlot (s : VM ν) : Option Addr :=
  match s.stack with
  | [] => none
  | fr :: _ => fr.ret

/-- the central invariant: the top frame's return slot holds a value -/
def ReturnSet (s : VM ν) : Prop := ∃ fr rest v, s.stack = fr :: rest ∧ fr.ret = some v

theorem returnSet_iff (s : VM ν) : ReturnSet s ↔ ∃ v, retSlot s = some v := by
  constructor
  · rintro ⟨fr, rest, v, h, hv⟩; exact ⟨v, by simp [retSlot, h, hv]⟩
  · rintro ⟨v, h⟩
    unfold retSlot at h
    cases hs : s.stack with
    | nil => simp [hs] at h
    | cons fr rest => simp [hs] at h; exact ⟨fr, rest, v, hs, h⟩

theorem getReturnValue_eq (s : VM ν) : getReturnValue s = (.ok (retSlot s), s) := by
  unfold getReturnValue retSlot
  cases h : s.stack <;> simp [bind, topFrame, h, pure]

theorem retSlot_setLine (ln : Nat) (s : VM ν) : retSlot (setLine ln s) = retSlot s := by
  unfold setLine retSlot
  cases h : s.stack <;> simp [h]

theorem retSlot_newNull (s : VM ν) : retSlot (newNull s).2 = retSlot s := rfl
theorem out_newNull (s : VM ν) : (newNull s).2.out = s.out := rfl
theorem newNull_eq (s : VM ν) : newNull s = (.ok s.heap.size, { s with heap := s.heap.push .null }) := rfl

/-! ## scopes: `endScope := vm.BeginBoundScope(); defer endScope()` -/

/-- what `BeginBoundScope` hands back: the module whose scope was begun (none if it has no scope) -/
def scopeHandle (s : VM ν) : Option Int := (getScope s.csModuleID s).map fun _ => s.csModuleID

def enterScope (s : VM ν) : VM ν :=
  match getScope s.csModuleID s with
  | none => s
  | some sc => putScope s.csModuleID sc.beginScope s

def leaveScope (h : Option Int) (s : VM ν) : VM ν :=
  match h with
  | none => s
  | some mid =>
    match getScope mid s with
    | none => s
    | some sc => putScope mid sc.endScope s

theorem withScope_eq {α} (body : M ν α) (s : VM ν) :
    withScope body s = ((body (enterScope s)).1, leaveScope (scopeHandle s) (body (enterScope s)).2) := by
  unfold withScope beginBoundScope enterScope scopeHandle
  cases hg : getScope s.csModuleID s <;>
    simp [bind, Model.tryCatch, endBoundScope, modifyVM, liftRes, leaveScope, hg] <;> rfl

theorem withScope_of {α} {body : M ν α} {s s' : VM ν} {r : Res α} (h : body (enterScope s) = (r, s')) :
    withScope body s = (r, leaveScope (scopeHandle s) s') := by
  rw [withScope_eq, h]

theorem putScope_stack (mid : Int) (sc : Scope) (s : VM ν) : (putScope mid sc s).stack = s.stack := by
  unfold putScope; split <;> rfl
theorem putScope_out (mid : Int) (sc : Scope) (s : VM ν) : (putScope mid sc s).out = s.out := by
  unfold putScope; split <;> rfl
theorem putScope_heap (mid : Int) (sc : Scope) (s : VM ν) : (putScope mid sc s).heap = s.heap := by
  unfold putScope; split <;> rfl

theorem enterScope_stack (s : VM ν) : (enterScope s).stack = s.stack := by
  unfold enterScope; split <;> simp [putScope_stack]
theorem enterScope_out (s : VM ν) : (enterScope s).out = s.out := by
  unfold enterScope; split <;> simp [putScope_out]
theorem enterScope_heap (s : VM ν) : (enterScope s).heap = s.heap := by
  unfold enterScope; split <;> simp [putScope_heap]
theorem leaveScope_stack (h : Option Int) (s : VM ν) : (leaveScope h s).stack = s.stack := by
  unfold leaveScope; split
  · rfl
  · split <;> simp [putScope_stack]
theorem leaveScope_out (h : Option Int) (s : VM ν) : (leaveScope h s).out = s.out := by
  unfold leaveScope; split
  · rfl
  · split <;> simp [putScope_out]
theorem leaveScope_heap (h : Option Int) (s : VM ν) : (leaveScope h s).heap = s.heap := by
  unfold leaveScope; split
  · rfl
  · split <;> simp [putScope_heap]

theorem retSlot_congr {s s' : VM ν} (h : s'.stack = s.stack) : retSlot s' = retSlot s := by
  unfold retSlot; rw [h]

theorem retSlot_enterScope (s : VM ν) : retSlot (enterScope s) = retSlot s := retSlot_congr (enterScope_stack s)
theorem retSlot_leaveScope (h : Option Int) (s : VM ν) : retSlot (leaveScope h s) = retSlot s :=
  retSlot_congr (leaveScope_stack h s)

/-! ## blocks -/

/-- `Steps ev last pre s last' s'`: the statements `pre` were run one after the other from `s` (declarations
skipped), every one ended normally and left the return slot empty; `last'` is the value of the last one run -/
inductive Steps (ev : Stmt → M ν Addr) : Option Addr → List Stmt → VM ν → Option Addr → VM ν → Prop
  | nil (last : Option Addr) (s : VM ν) : Steps ev last [] s last s
  | decl {last last' : Option Addr} {st : Stmt} {rest : List Stmt} {s s' : VM ν} :
      isDecl st = true → retSlot s = none → Steps ev last rest s last' s' → Steps ev last (st :: rest) s last' s'
  | stmt {last last' : Option Addr} {st : Stmt} {rest : List Stmt} {s s1 s' : VM ν} {v : Addr} :
      isDecl st = false → ev st s = (.ok v, s1) → retSlot s1 = none → Steps ev (some v) rest s1 last' s' →
      Steps ev last (st :: rest) s last' s'

theorem stmtsLoop_steps {ev : Stmt → M ν Addr} {last last' : Option Addr} {pre : List Stmt} {s s' : VM ν}
    (h : Steps ev last pre s last' s') (rest : List Stmt) :
    stmtsLoop ev last (pre ++ rest) s = stmtsLoop ev last' rest s' := by
  induction h with
  | nil => rfl
  | decl hd hr _ ih =>
    rw [← ih]
    simp [stmtsLoop, hd, bind, getReturnValue_eq, hr, pure]
  | stmt hd he hr _ ih =>
    rw [← ih]
    simp [stmtsLoop, hd, bind, he, getReturnValue_eq, hr, pure]

theorem stmtsLoop_hit {ev : Stmt → M ν Addr} {last : Option Addr} {st : Stmt} {rest : List Stmt} {s s' : VM ν}
    {v rv : Addr} (hd : isDecl st = false) (he : ev st s = (.ok v, s')) (hr : retSlot s' = some rv) :
    stmtsLoop ev last (st :: rest) s = (.ok (some rv), s') := by
  simp [stmtsLoop, hd, bind, he, getReturnValue_eq, hr, pure]

theorem stmtsLoop_fail {ev : Stmt → M ν Addr} {last : Option Addr} {st : Stmt} {rest : List Stmt} {s s' : VM ν}
    {e : Err} (hd : isDecl st = false) (he : ev st s = (.err e, s')) :
    stmtsLoop ev last (st :: rest) s = (.err e, s') := by
  simp [stmtsLoop, hd, bind, he]

theorem Steps.append {ev : Stmt → M ν Addr} {l0 l1 l2 : Option Addr} {a b : List Stmt} {s0 s1 s2 : VM ν}
    (h1 : Steps ev l0 a s0 l1 s1) (h2 : Steps ev l1 b s1 l2 s2) : Steps ev l0 (a ++ b) s0 l2 s2 := by
  induction h1 with
  | nil => exact h2
  | decl hd hr _ ih => exact .decl hd hr (ih h2)
  | stmt hd he hr _ ih => exact .stmt hd he hr (ih h2)

/-- a run of declarations only does not change the remembered value -/
theorem Steps.decls {ev : Stmt → M ν Addr} (last : Option Addr) (ds : List Stmt) (s : VM ν)
    (hd : ∀ st ∈ ds, isDecl st = true) (hr : retSlot s = none) : Steps ev last ds s last s := by
  induction ds with
  | nil => exact .nil _ _
  | cons d ds ih =>
    exact .decl (hd d (by simp)) hr (ih fun st hst => hd st (by simp [hst]))

theorem evalPureStmtBlock_eq (n : Nat) (stmts : List Stmt) (s : VM ν) :
    evalPureStmtBlock (n+1) (some stmts) s = withScope (stmtsLoop (evalStmt n) none stmts) s := by
  simp only [evalPureStmtBlock]

/-! ## loops: what a pass tells the loop -/

/-- how a loop reads the end of a pass: `some true` = go on with the next pass, `some false` = stop the loop
(结束循环, or 输出 left the return slot set), `none` = not the loop's business (error, panic, … propagate) -/
def passVerdict {α} (r : Res α) (s : VM ν) : Option Bool :=
  match r with
  | .err .sigContinue => some true
  | .err .sigBreak => some false
  | .ok _ => some (retSlot s).isNone
  | _ => none

/-! ### 每当 -/

/-- one turn of the `for { … }` of evalWhileLoopStmt (verbatim from `evalStmt`): test, pass, verdict -/
def whileStep (n : Nat) (cond : Expr) (body : Option (List Stmt)) : M ν Bool := do
        let c ← evalExpr n cond
        match ← getCell c with
        | .bool true =>
          tryCatch (evalPureStmtBlock n body) fun r =>
            match r with
            | .err .sigContinue => pure true
            | .err .sigBreak => pure false
            | .ok _ => do
              match ← getReturnValue with
              | some _ => pure false
              | none => pure true
            | .err e => throwE e
            | .panic => goPanic
            | .fuel => outOfFuel
            | .unmodelled => notModelled
        | .bool false => pure false
        | _ => rtErr 80

/-- one turn as the loop runs it: `vm.SetCurrentLine(node.GetCurrentLine())`, then test, pass, verdict -/
def whileTurn (n ln : Nat) (cond : Expr) (body : Option (List Stmt)) : M ν Bool := do
        setTopFrame fun fr => { fr with line := ln, started := true }
        whileStep n cond body

theorem whileTurn_eq (n ln : Nat) (c : Expr) (body : Option (List Stmt)) (s : VM ν) :
    whileTurn n ln c body s = whileStep n c body (setLine ln s) := by
  unfold whileTurn
  rw [setLine_bind]

theorem evalStmt_while (n ln : Nat) (c : Expr) (body : Option (List Stmt)) (s : VM ν) :
    evalStmt (n+1) (.while ln c body) s = (do whileM n (whileTurn n ln c body); newNull) (setLine ln s) := by
  simp only [evalStmt, Stmt.line]
  rw [setLine_bind]
  rfl

theorem whileStep_pass {n : Nat} {c : Expr} {body : Option (List Stmt)} {s s1 s2 : VM ν} {a : Addr}
    {r : Res (Option Addr)} {b : Bool}
    (hc : evalExpr n c s = (.ok a, s1)) (ht : s1.heap[a]? = some (.bool true))
    (hb : evalPureStmtBlock n body s1 = (r, s2)) (hv : passVerdict r s2 = some b) :
    whileStep n c body s = (.ok b, s2) := by
  unfold whileStep
  rw [bind_ok hc]
  have hg : getCell a s1 = (.ok (.bool true), s1) := by simp [getCell, ht]
  rw [bind_ok hg]
  simp only [Model.tryCatch, hb]
  cases r with
  | ok v =>
    simp only [passVerdict, Option.some.injEq] at hv
    cases hrs : retSlot s2 <;> simp [hrs] at hv <;> subst hv <;> simp [bind, getReturnValue_eq, hrs, pure]
  | err e =>
    cases e <;> simp [passVerdict] at hv <;> subst hv <;> simp [pure]
  | panic => simp [passVerdict] at hv
  | fuel => simp [passVerdict] at hv
  | unmodelled => simp [passVerdict] at hv

theorem whileStep_false {n : Nat} {c : Expr} {body : Option (List Stmt)} {s s1 : VM ν} {a : Addr}
    (hc : evalExpr n c s = (.ok a, s1)) (ht : s1.heap[a]? = some (.bool false)) :
    whileStep n c body s = (.ok false, s1) := by
  unfold whileStep
  rw [bind_ok hc]
  have hg : getCell a s1 = (.ok (.bool false), s1) := by simp [getCell, ht]
  rw [bind_ok hg]
  rfl

theorem whileStep_non_bool {n : Nat} {c : Expr} {body : Option (List Stmt)} {s s1 : VM ν} {a : Addr} {cell : Cell ν}
    (hc : evalExpr n c s = (.ok a, s1)) (ht : s1.heap[a]? = some cell) (hnb : ∀ b, cell ≠ .bool b) :
    whileStep n c body s = (.err (.rt 80), s1) := by
  unfold whileStep
  rw [bind_ok hc]
  have hg : getCell a s1 = (.ok cell, s1) := by simp [getCell, ht]
  rw [bind_ok hg]
  cases cell <;> simp_all [rtErr, throwE]

/-- `WhilePasses n c body k s s'`: from `s`, k complete passes of the loop: each time the condition was
evaluated *first* — with the loop's own line `ln` current again — and was 真, the body ran and ended normally with
the slot empty or with 继续循环 -/
inductive WhilePasses (n ln : Nat) (c : Expr) (body : Option (List Stmt)) : Nat → VM ν → VM ν → Prop
  | zero (s : VM ν) : WhilePasses n ln c body 0 s s
  | succ {k : Nat} {s s1 s2 s3 : VM ν} {a : Addr} {r : Res (Option Addr)} :
      evalExpr n c (setLine ln s) = (.ok a, s1) → s1.heap[a]? = some (.bool true) →
      evalPureStmtBlock n body s1 = (r, s2) → passVerdict r s2 = some true →
      WhilePasses n ln c body k s2 s3 → WhilePasses n ln c body (k+1) s s3

theorem whileM_passes {n ln : Nat} {c : Expr} {body : Option (List Stmt)} {k : Nat} {s s' : VM ν}
    (h : WhilePasses n ln c body k s s') (j : Nat) :
    whileM (k + j) (whileTurn n ln c body) s = whileM j (whileTurn n ln c body) s' := by
  induction h with
  | zero => simp
  | @succ k' _ _ _ _ _ _ hc ht hb hv _ ih =>
    rw [← ih, show k' + 1 + j = (k' + j) + 1 by omega]
    simp [whileM, bind, whileTurn_eq, whileStep_pass hc ht hb hv]

theorem WhilePasses.snoc {n ln : Nat} {c : Expr} {body : Option (List Stmt)} {k : Nat} {s s0 s1 s2 : VM ν} {a : Addr}
    {r : Res (Option Addr)} (h : WhilePasses n ln c body k s s0)
    (hc : evalExpr n c (setLine ln s0) = (.ok a, s1)) (ht : s1.heap[a]? = some (.bool true))
    (hb : evalPureStmtBlock n body s1 = (r, s2)) (hv : passVerdict r s2 = some true) :
    WhilePasses n ln c body (k+1) s s2 := by
  induction h with
  | zero => exact .succ hc ht hb hv (.zero _)
  | succ hc' ht' hb' hv' _ ih => exact .succ hc' ht' hb' hv' (ih hc)

/-- the loop after k complete passes and a final turn whose step answers "stop" -/
theorem while_stops_after {n ln : Nat} {c : Expr} {body : Option (List Stmt)} {k : Nat} {s s1 s2 : VM ν}
    (hp : WhilePasses n ln c body k (setLine ln s) s1) (hk : k < n)
    (hstep : whileStep n c body (setLine ln s1) = (.ok false, s2)) :
    evalStmt (n+1) (.while ln c body) s = newNull s2 := by
  rw [evalStmt_while]
  obtain ⟨j, rfl⟩ : ∃ j, n = k + (j + 1) := ⟨n - k - 1, by omega⟩
  have : whileM (k + (j+1)) (whileTurn (k + (j+1)) ln c body) (setLine ln s) = (.ok (), s2) := by
    rw [whileM_passes hp]; simp [whileM, bind, whileTurn_eq, hstep, pure]
  rw [bind_ok this]

theorem while_fails_after {n ln : Nat} {c : Expr} {body : Option (List Stmt)} {k : Nat} {s s1 s2 : VM ν} {e : Err}
    (hp : WhilePasses n ln c body k (setLine ln s) s1) (hk : k < n)
    (hstep : whileStep n c body (setLine ln s1) = (.err e, s2)) :
    evalStmt (n+1) (.while ln c body) s = (.err e, s2) := by
  rw [evalStmt_while]
  obtain ⟨j, rfl⟩ : ∃ j, n = k + (j + 1) := ⟨n - k - 1, by omega⟩
  have : whileM (k + (j+1)) (whileTurn (k + (j+1)) ln c body) (setLine ln s) = (.err e, s2) := by
    rw [whileM_passes hp]; simp [whileM, bind, whileTurn_eq, hstep]
  rw [bind_err this]

/-! ### 遍历 -/

/-- declaration of the loop variables (0, 1 or 2 names) in the loop's own scope; verbatim from `evalStmt` -/
def iterSlots (names : List Ident) : M ν (Option String × Option String) :=
        match names with
          | [] => pure (none, none)
          | [v] => do
            let vn ← matchIDName v.lit
            let nl ← newNull
            declareElement vn nl false
            pure (none, some vn)
          | [k, v] => do
            let kn ← matchIDName k.lit
            let vn ← matchIDName v.lit
            let n1 ← newNull
            declareElement kn n1 false
            let n2 ← newNull
            declareElement vn n2 false
            pure (some kn, some vn)
          | _ => rtErr 52

/-- what a pass does before the body: copy the element (`dup`), then re-bind the loop variables -/
def iterBind (n nameLen : Nat) (slots : Option String × Option String) (key v : Addr) : M ν Unit := do
          let v ← dup n v
          if nameLen == 1 then
            match slots.2 with | some vn => setElement vn v | none => pure ()
          else if nameLen == 2 then do
            match slots.1 with | some kn => setElement kn key | none => pure ()
            match slots.2 with | some vn => setElement vn v | none => pure ()
          else pure ()

/-- `runBody` of `evalStmt`, verbatim -/
def iterRunBody (n nameLen : Nat) (slots : Option String × Option String) (body : Option (List Stmt))
    (key v : Addr) : M ν Unit := do
          let v ← dup n v
          if nameLen == 1 then
            match slots.2 with | some vn => setElement vn v | none => pure ()
          else if nameLen == 2 then do
            match slots.1 with | some kn => setElement kn key | none => pure ()
            match slots.2 with | some vn => setElement vn v | none => pure ()
          else pure ()
          let _ ← evalPureStmtBlock n body
          pure ()

/-- `pass` of `evalStmt`, verbatim: answers whether the loop has to stop -/
def iterPass (n nameLen : Nat) (slots : Option String × Option String) (body : Option (List Stmt))
    (key v : Addr) : M ν Bool :=
          tryCatch (iterRunBody n nameLen slots body key v) fun r =>
            match r with
            | .err .sigContinue => pure false
            | .err .sigBreak => pure true
            | .ok _ => do
              match ← getReturnValue with
              | some _ => pure true
              | none => pure false
            | .err e => throwE e
            | .panic => goPanic
            | .fuel => outOfFuel
            | .unmodelled => notModelled

def iterListStep (n nameLen : Nat) (slots : Option String × Option String) (body : Option (List Stmt))
    (i : Nat) (v : Addr) : M ν Bool := do
            let idx ← newNum (NumOps.ofInt (i + 1))
            iterPass n nameLen slots body idx v

def iterDictStep (n nameLen : Nat) (slots : Option String × Option String) (body : Option (List Stmt))
    (target : Addr) (k : String) : M ν Bool := do
            match ← getCell target with
            | .hm vals _ =>
              match lookup k vals with
              | some v => do
                let ks ← newStr k
                iterPass n nameLen slots body ks v
              | none => pure false
            | _ => goPanic

def iterLoop (n nameLen : Nat) (slots : Option String × Option String) (body : Option (List Stmt))
    (target : Addr) : M ν Unit := do
        match ← getCell target with
        | .arr items => untilIdxM (iterListStep n nameLen slots body) 0 items
        | .hm _ order => untilM (iterDictStep n nameLen slots body target) order
        | _ => rtErr 80

theorem evalStmt_iterate (n ln : Nat) (e : Expr) (names : List Ident) (body : Option (List Stmt)) (s : VM ν) :
    evalStmt (n+1) (.iterate ln e names body) s =
      (do withScope (do
            let target ← evalExpr n e
            let slots ← iterSlots names
            iterLoop n names.length slots body target)
          newNull) (setLine ln s) := by
  simp only [evalStmt, Stmt.line]
  rw [setLine_bind]
  rcases names with _ | ⟨v, _ | ⟨k, _ | ⟨w, rest⟩⟩⟩ <;> simp only [iterSlots, bind_assoc, pure_bind] <;> rfl

theorem iterRunBody_eq (n nameLen : Nat) (slots : Option String × Option String) (body : Option (List Stmt))
    (key v : Addr) :
    iterRunBody n nameLen slots body key v =
      ((do iterBind n nameLen slots key v; let _ ← evalPureStmtBlock n body; pure ()) : M ν Unit) := by
  unfold iterRunBody iterBind
  rcases slots with ⟨_ | kn, _ | vn⟩ <;> simp only [bind_assoc] <;> congr 1 <;> funext v' <;>
    by_cases h1 : (nameLen == 1) = true <;> by_cases h2 : (nameLen == 2) = true <;> simp [h1, h2]

theorem iterPass_pass {n nameLen : Nat} {slots : Option String × Option String} {body : Option (List Stmt)}
    {key v : Addr} {s s1 s2 : VM ν} {r : Res (Option Addr)} {b : Bool}
    (hbind : iterBind n nameLen slots key v s = (.ok (), s1))
    (hb : evalPureStmtBlock n body s1 = (r, s2)) (hv : passVerdict r s2 = some b) :
    iterPass n nameLen slots body key v s = (.ok (!b), s2) := by
  unfold iterPass
  rw [iterRunBody_eq]
  simp only [Model.tryCatch]
  rw [bind_ok hbind]
  cases r with
  | ok x =>
    rw [bind_ok hb]
    simp only [passVerdict, Option.some.injEq] at hv
    cases hrs : retSlot s2 <;> simp [hrs] at hv <;> subst hv <;> simp [bind, getReturnValue_eq, hrs, pure]
  | err e =>
    rw [bind_err hb]
    cases e <;> simp [passVerdict] at hv <;> subst hv <;> simp [pure]
  | panic => simp [passVerdict] at hv
  | fuel => simp [passVerdict] at hv
  | unmodelled => simp [passVerdict] at hv

/-- the state after `NewNumber(float64(i+1))` -/
def pushCell (c : Cell ν) (s : VM ν) : VM ν := { s with heap := s.heap.push c }

/-- `ListPasses … i items s s'`: complete passes over `items`, in order, starting at 0-based position `i`:
for each element a fresh number cell holding `i+1` is the key, the element is copied and bound (`iterBind`),
the body runs and ends normally with the slot empty or with 继续循环 -/
inductive ListPasses (n nameLen : Nat) (slots : Option String × Option String) (body : Option (List Stmt)) :
    Nat → List Addr → VM ν → VM ν → Prop
  | nil (i : Nat) (s : VM ν) : ListPasses n nameLen slots body i [] s s
  | cons {i : Nat} {x : Addr} {xs : List Addr} {s s1 s2 s3 : VM ν} {r : Res (Option Addr)} :
      iterBind n nameLen slots s.heap.size x (pushCell (.num (NumOps.ofInt ((i : Int) + 1))) s) = (.ok (), s1) →
      evalPureStmtBlock n body s1 = (r, s2) → passVerdict r s2 = some true →
      ListPasses n nameLen slots body (i+1) xs s2 s3 → ListPasses n nameLen slots body i (x :: xs) s s3

theorem iterListStep_pass {n nameLen : Nat} {slots : Option String × Option String} {body : Option (List Stmt)}
    {i : Nat} {x : Addr} {s s1 s2 : VM ν} {r : Res (Option Addr)} {b : Bool}
    (hbind : iterBind n nameLen slots s.heap.size x (pushCell (.num (NumOps.ofInt ((i : Int) + 1))) s) = (.ok (), s1))
    (hb : evalPureStmtBlock n body s1 = (r, s2)) (hv : passVerdict r s2 = some b) :
    iterListStep n nameLen slots body i x s = (.ok (!b), s2) := by
  unfold iterListStep
  have h0 : newNum (NumOps.ofInt ((i : Int) + 1)) s = (.ok s.heap.size, pushCell (.num (NumOps.ofInt ((i : Int) + 1))) s) := rfl
  rw [bind_ok h0]
  exact iterPass_pass hbind hb hv

theorem untilIdxM_passes {n nameLen : Nat} {slots : Option String × Option String} {body : Option (List Stmt)}
    {i : Nat} {pre : List Addr} {s s' : VM ν}
    (h : ListPasses n nameLen slots body i pre s s') (rest : List Addr) :
    untilIdxM (iterListStep n nameLen slots body) i (pre ++ rest) s =
      untilIdxM (iterListStep n nameLen slots body) (i + pre.length) rest s' := by
  induction h with
  | nil => simp
  | @cons i x xs _ _ _ _ _ hbind hb hv _ ih =>
    rw [show i + (x :: xs).length = i + 1 + xs.length by simp; omega, ← ih]
    simp [untilIdxM, bind, iterListStep_pass hbind hb hv]

theorem ListPasses.append {n nameLen : Nat} {slots : Option String × Option String} {body : Option (List Stmt)}
    {i : Nat} {a b : List Addr} {s0 s1 s2 : VM ν}
    (h1 : ListPasses n nameLen slots body i a s0 s1) (h2 : ListPasses n nameLen slots body (i + a.length) b s1 s2) :
    ListPasses n nameLen slots body i (a ++ b) s0 s2 := by
  induction h1 with
  | nil => simpa using h2
  | @cons i x xs _ _ _ _ _ hbind hb hv _ ih =>
    refine .cons hbind hb hv (ih ?_)
    rw [show i + 1 + xs.length = i + (x :: xs).length by simp; omega]; exact h2

/-- `DictPasses … target keys s s'`: complete passes for `keys`, in that order; the value of each key is read
from the dictionary cell *at the time of the pass*, the key is a fresh text cell.  A key that is no longer in the
dictionary when its turn comes (an earlier pass removed it) is skipped: nothing is bound, the body does not run, the
machine is unchanged (`skip`). -/
inductive DictPasses (n nameLen : Nat) (slots : Option String × Option String) (body : Option (List Stmt))
    (target : Addr) : List String → VM ν → VM ν → Prop
  | nil (s : VM ν) : DictPasses n nameLen slots body target [] s s
  | cons {k : String} {ks : List String} {vals : List (String × Addr)} {ord : List String} {v : Addr}
      {s s1 s2 s3 : VM ν} {r : Res (Option Addr)} :
      s.heap[target]? = some (.hm vals ord) → lookup k vals = some v →
      iterBind n nameLen slots s.heap.size v (pushCell (.str k) s) = (.ok (), s1) →
      evalPureStmtBlock n body s1 = (r, s2) → passVerdict r s2 = some true →
      DictPasses n nameLen slots body target ks s2 s3 → DictPasses n nameLen slots body target (k :: ks) s s3
  | skip {k : String} {ks : List String} {vals : List (String × Addr)} {ord : List String} {s s3 : VM ν} :
      s.heap[target]? = some (.hm vals ord) → lookup k vals = none →
      DictPasses n nameLen slots body target ks s s3 → DictPasses n nameLen slots body target (k :: ks) s s3

/-- a key that was removed before its turn: the step answers "go on" and leaves the machine alone -/
theorem iterDictStep_skip {n nameLen : Nat} {slots : Option String × Option String} {body : Option (List Stmt)}
    {target : Addr} {k : String} {vals : List (String × Addr)} {ord : List String} {s : VM ν}
    (hcell : s.heap[target]? = some (.hm vals ord)) (hl : lookup k vals = none) :
    iterDictStep n nameLen slots body target k s = (.ok false, s) := by
  unfold iterDictStep
  have hg : getCell target s = (.ok (.hm vals ord), s) := by simp [getCell, hcell]
  rw [bind_ok hg]
  simp only [hl]
  rfl

theorem iterDictStep_pass {n nameLen : Nat} {slots : Option String × Option String} {body : Option (List Stmt)}
    {target : Addr} {k : String} {vals : List (String × Addr)} {ord : List String} {v : Addr}
    {s s1 s2 : VM ν} {r : Res (Option Addr)} {b : Bool}
    (hcell : s.heap[target]? = some (.hm vals ord)) (hl : lookup k vals = some v)
    (hbind : iterBind n nameLen slots s.heap.size v (pushCell (.str k) s) = (.ok (), s1))
    (hb : evalPureStmtBlock n body s1 = (r, s2)) (hv : passVerdict r s2 = some b) :
    iterDictStep n nameLen slots body target k s = (.ok (!b), s2) := by
  unfold iterDictStep
  have hg : getCell target s = (.ok (.hm vals ord), s) := by simp [getCell, hcell]
  rw [bind_ok hg]
  simp only [hl]
  have h0 : newStr k s = (.ok s.heap.size, pushCell (.str k) s) := rfl
  rw [bind_ok h0]
  exact iterPass_pass hbind hb hv

theorem untilM_passes {n nameLen : Nat} {slots : Option String × Option String} {body : Option (List Stmt)}
    {target : Addr} {pre : List String} {s s' : VM ν}
    (h : DictPasses n nameLen slots body target pre s s') (rest : List String) :
    untilM (iterDictStep n nameLen slots body target) (pre ++ rest) s =
      untilM (iterDictStep n nameLen slots body target) rest s' := by
  induction h with
  | nil => simp
  | cons hcell hl hbind hb hv _ ih =>
    rw [← ih]
    simp [untilM, bind, iterDictStep_pass hcell hl hbind hb hv]
  | skip hcell hl _ ih =>
    rw [← ih]
    simp [untilM, bind, iterDictStep_skip hcell hl]

theorem DictPasses.append {n nameLen : Nat} {slots : Option String × Option String} {body : Option (List Stmt)}
    {target : Addr} {a b : List String} {s0 s1 s2 : VM ν}
    (h1 : DictPasses n nameLen slots body target a s0 s1) (h2 : DictPasses n nameLen slots body target b s1 s2) :
    DictPasses n nameLen slots body target (a ++ b) s0 s2 := by
  induction h1 with
  | nil => exact h2
  | cons hcell hl hbind hb hv _ ih => exact .cons hcell hl hbind hb hv (ih h2)
  | skip hcell hl _ ih => exact .skip hcell hl (ih h2)

/-- running the loop of a 遍历 statement over a list cell: outcome of the statement from the outcome of the loop -/
theorem iterate_list_ok {n ln : Nat} {e : Expr} {names : List Ident} {body : Option (List Stmt)}
    {s s1 s2 s3 : VM ν} {target : Addr} {slots : Option String × Option String} {items : List Addr}
    (hT : evalExpr n e (enterScope (setLine ln s)) = (.ok target, s1))
    (hS : iterSlots names s1 = (.ok slots, s2)) (hcell : s2.heap[target]? = some (.arr items))
    (hloop : untilIdxM (iterListStep n names.length slots body) 0 items s2 = (.ok (), s3)) :
    evalStmt (n+1) (.iterate ln e names body) s = newNull (leaveScope (scopeHandle (setLine ln s)) s3) := by
  rw [evalStmt_iterate]
  have hg : getCell target s2 = (.ok (.arr items), s2) := by simp [getCell, hcell]
  have : withScope (do
            let target ← evalExpr n e
            let slots ← iterSlots names
            iterLoop n names.length slots body target) (setLine ln s) =
         (.ok (), leaveScope (scopeHandle (setLine ln s)) s3) := by
    apply withScope_of
    rw [bind_ok hT, bind_ok hS]
    unfold iterLoop
    rw [bind_ok hg]
    exact hloop
  rw [bind_ok this]

theorem iterate_list_err {n ln : Nat} {e : Expr} {names : List Ident} {body : Option (List Stmt)}
    {s s1 s2 s3 : VM ν} {target : Addr} {slots : Option String × Option String} {items : List Addr} {er : Err}
    (hT : evalExpr n e (enterScope (setLine ln s)) = (.ok target, s1))
    (hS : iterSlots names s1 = (.ok slots, s2)) (hcell : s2.heap[target]? = some (.arr items))
    (hloop : untilIdxM (iterListStep n names.length slots body) 0 items s2 = (.err er, s3)) :
    evalStmt (n+1) (.iterate ln e names body) s = (.err er, leaveScope (scopeHandle (setLine ln s)) s3) := by
  rw [evalStmt_iterate]
  have hg : getCell target s2 = (.ok (.arr items), s2) := by simp [getCell, hcell]
  have : withScope (do
            let target ← evalExpr n e
            let slots ← iterSlots names
            iterLoop n names.length slots body target) (setLine ln s) =
         (.err er, leaveScope (scopeHandle (setLine ln s)) s3) := by
    apply withScope_of
    rw [bind_ok hT, bind_ok hS]
    unfold iterLoop
    rw [bind_ok hg]
    exact hloop
  rw [bind_err this]

theorem iterate_dict_ok {n ln : Nat} {e : Expr} {names : List Ident} {body : Option (List Stmt)}
    {s s1 s2 s3 : VM ν} {target : Addr} {slots : Option String × Option String}
    {vals : List (String × Addr)} {order : List String}
    (hT : evalExpr n e (enterScope (setLine ln s)) = (.ok target, s1))
    (hS : iterSlots names s1 = (.ok slots, s2)) (hcell : s2.heap[target]? = some (.hm vals order))
    (hloop : untilM (iterDictStep n names.length slots body target) order s2 = (.ok (), s3)) :
    evalStmt (n+1) (.iterate ln e names body) s = newNull (leaveScope (scopeHandle (setLine ln s)) s3) := by
  rw [evalStmt_iterate]
  have hg : getCell target s2 = (.ok (.hm vals order), s2) := by simp [getCell, hcell]
  have : withScope (do
            let target ← evalExpr n e
            let slots ← iterSlots names
            iterLoop n names.length slots body target) (setLine ln s) =
         (.ok (), leaveScope (scopeHandle (setLine ln s)) s3) := by
    apply withScope_of
    rw [bind_ok hT, bind_ok hS]
    unfold iterLoop
    rw [bind_ok hg]
    exact hloop
  rw [bind_ok this]

theorem untilIdxM_nil {α} (f : Nat → α → M ν Bool) (i : Nat) (s : VM ν) : untilIdxM f i [] s = (.ok (), s) := rfl
theorem untilM_nil {α} (f : α → M ν Bool) (s : VM ν) : untilM f [] s = (.ok (), s) := rfl

theorem untilIdxM_stop {α} {f : Nat → α → M ν Bool} {i : Nat} {x : α} {xs : List α} {s s' : VM ν}
    (h : f i x s = (.ok true, s')) : untilIdxM f i (x :: xs) s = (.ok (), s') := by
  simp [untilIdxM, bind, h, pure]

theorem untilM_stop {α} {f : α → M ν Bool} {x : α} {xs : List α} {s s' : VM ν}
    (h : f x s = (.ok true, s')) : untilM f (x :: xs) s = (.ok (), s') := by
  simp [untilM, bind, h, pure]

/-! ### 如果 / 再如 / 否则 -/

/-- one 再如 alternative (verbatim): `some ()` when its condition was 真 and its block has been run -/
def branchOther (n : Nat) (o : Expr × Option (List Stmt)) : M ν (Option Unit) := do
            let oc ← evalExpr n o.1
            match ← getCell oc with
            | .bool true => do let _ ← evalPureStmtBlock n o.2; pure (some ())
            | .bool false => pure none
            | _ => rtErr 80

/-- the 否则 part (verbatim) -/
def branchElse (n : Nat) (hasElse : Bool) (elseB : Option (List Stmt)) : M ν Unit :=
  if hasElse then do let _ ← evalPureStmtBlock n elseB; pure () else pure ()

theorem evalStmt_branch (n ln : Nat) (ifE : Expr) (ifB : Option (List Stmt)) (others : List (Expr × Option (List Stmt)))
    (hasElse : Bool) (elseB : Option (List Stmt)) (s : VM ν) :
    evalStmt (n+1) (.branch ln ifE ifB others hasElse elseB) s =
      ((do
        let c ← evalExpr n ifE
        match ← getCell c with
        | .bool true => do let _ ← evalPureStmtBlock n ifB; newNull
        | .bool false => do
          firstM (branchOther n) (branchElse n hasElse elseB) others
          newNull
        | _ => rtErr 80) : M ν Addr) (setLine ln s) := by
  simp only [evalStmt, Stmt.line]
  rw [setLine_bind]
  rfl

/-- the conditions of the alternatives `os` were evaluated in order and every one was 假 -/
inductive CondsFalse (n : Nat) : List (Expr × Option (List Stmt)) → VM ν → VM ν → Prop
  | nil (s : VM ν) : CondsFalse n [] s s
  | cons {o : Expr × Option (List Stmt)} {os : List (Expr × Option (List Stmt))} {s s1 s2 : VM ν} {a : Addr} :
      evalExpr n o.1 s = (.ok a, s1) → s1.heap[a]? = some (.bool false) → CondsFalse n os s1 s2 →
      CondsFalse n (o :: os) s s2

theorem branchOther_false {n : Nat} {o : Expr × Option (List Stmt)} {s s1 : VM ν} {a : Addr}
    (hc : evalExpr n o.1 s = (.ok a, s1)) (hf : s1.heap[a]? = some (.bool false)) :
    branchOther n o s = (.ok none, s1) := by
  unfold branchOther
  rw [bind_ok hc]
  have hg : getCell a s1 = (.ok (.bool false), s1) := by simp [getCell, hf]
  rw [bind_ok hg]; rfl

theorem branchOther_true {n : Nat} {o : Expr × Option (List Stmt)} {s s1 : VM ν} {a : Addr}
    (hc : evalExpr n o.1 s = (.ok a, s1)) (ht : s1.heap[a]? = some (.bool true)) :
    branchOther n o s = (do let _ ← evalPureStmtBlock n o.2; pure (some ())) s1 := by
  unfold branchOther
  rw [bind_ok hc]
  have hg : getCell a s1 = (.ok (.bool true), s1) := by simp [getCell, ht]
  rw [bind_ok hg]

theorem firstM_condsFalse {n : Nat} {pre : List (Expr × Option (List Stmt))} {s s' : VM ν}
    (h : CondsFalse n pre s s') {β} (f : M ν β) (rest : List (Expr × Option (List Stmt)))
    (g : Expr × Option (List Stmt) → M ν (Option β)) (hg : ∀ o s s1 a, evalExpr n o.1 s = (.ok a, s1) →
      s1.heap[a]? = some (.bool false) → g o s = (.ok none, s1)) :
    firstM g f (pre ++ rest) s = firstM g f rest s' := by
  induction h with
  | nil => rfl
  | cons hc hf _ ih =>
    rw [← ih]
    simp [firstM, bind, hg _ _ _ _ hc hf]

/-! ### method bodies / the program (`evalExecBlock`, `evalStmtBlock`) -/

/-- the hoisting pass of `evalStmtBlock` (verbatim): definitions are executed before everything else -/
def hoistDecls (n : Nat) (stmts : List Stmt) : M ν Unit :=
    stmts.forM fun st =>
      match st with
      | .classDecl .. => do
        setTopFrame fun fr => { fr with line := st.line, started := true }
        evalClassDecl n st
      | .funcDecl _ _ declType _ => do
        setTopFrame fun fr => { fr with line := st.line, started := true }
        if declType == 3 then evalCtorDecl n st else evalFuncDecl n st
      | _ => pure ()

theorem evalStmtBlock_eq (n : Nat) (stmts : List Stmt) (s : VM ν) :
    evalStmtBlock (n+1) (some stmts) s = (do hoistDecls n stmts; evalPureStmtBlock n (some stmts)) s := by
  simp only [evalStmtBlock]
  rfl

theorem list_forM_cons {α} (f : α → M ν PUnit) (x : α) (xs : List α) :
    (x :: xs).forM f = (do f x; xs.forM f) := rfl

theorem hoistDecls_no_decl (n : Nat) (stmts : List Stmt) (h : ∀ st ∈ stmts, isDecl st = false) (s : VM ν) :
    hoistDecls n stmts s = (.ok (), s) := by
  unfold hoistDecls
  induction stmts generalizing s with
  | nil => rfl
  | cons st rest ih =>
    have h1 : isDecl st = false := h st (by simp)
    have h2 := ih (fun x hx => h x (by simp [hx]))
    rw [list_forM_cons]
    cases st <;> simp [isDecl] at h1 <;> exact h2 s

/-- what `evalExecBlock` does before the body: bind 此 (method frames), check and bind the inputs -/
def execPrelude (inputs : List Ident) (params : List Addr) : M ν Unit := do
      let vm ← getVM
      match vm.stack.head? with
      | some fr =>
        if fr.callType == 2 then
          match fr.this with
          | some t => tryCatch (declareElement "此" t true) fun _ => pure ()
          | none => pure ()
        else pure ()
      | none => pure ()
      if params.length ≠ inputs.length then rtErr 51 else
      (inputs.zip params).forM fun p => do
        let name ← matchIDName p.1.lit
        declareElement name p.2 true

/-- how `evalExecBlock` turns the outcome of the body into the value of the call (verbatim) -/
def execFinish (n : Nat) (blockModule : Int) (blockDepth : Nat) (catches : List (Option Ident × Option (List Stmt)))
    (r : Res (Option Addr)) : M ν Addr :=
        match r with
        | .ok (some v) => pure v
        | .ok none => newNull
        | .err e => do
          -- a loop signal that no loop of this body consumed becomes an exception of this body …
          let e ← loopSignalToException e
          -- … and so does one raised by the handler block itself
          tryCatch (handleException n blockModule blockDepth catches e) fun r =>
            match r with
            | .err e2 => do let e2 ← loopSignalToException e2; throwE e2
            | r => liftRes r
        | .panic => goPanic
        | .fuel => outOfFuel
        | .unmodelled => notModelled

theorem evalExecBlock_eq (n : Nat) (inputs : List Ident) (body : Option (List Stmt))
    (catches : List (Option Ident × Option (List Stmt))) (params : List Addr) (s : VM ν) :
    evalExecBlock (n+1) (some (.mk inputs body catches)) params s =
      withScope (do
        let vm ← getVM
        execPrelude inputs params
        tryCatch (evalStmtBlock n body) (execFinish n vm.csModuleID vm.stack.length catches)) s := by
  simp only [evalExecBlock]
  refine congrArg (fun b => withScope b s) ?_
  funext s0
  simp only [execPrelude, bind_assoc]
  show _ = (getVM >>= _) s0
  have hvm : ∀ {β} (k : VM ν → M ν β), (getVM >>= k) s0 = k s0 s0 := fun k => rfl
  rw [hvm, hvm, hvm]
  cases s0.stack.head? with
  | none => simp only []; split <;> rfl
  | some fr =>
    simp only []
    split
    · cases fr.this <;> simp only [bind_assoc] <;> split <;> rfl
    · split <;> rfl

/-! ### the main program (`runProgram`) -/

/-- the machine when the main program's body starts: module 主模块 allocated, script frame pushed -/
def programStart (s : VM ν) : VM ν :=
  (pushFrame { moduleId := 0, callType := 1 }
    { s with modules := s.modules.push { name := "主模块", hasProgram := true }, csModuleID := 0 }).2

theorem runProgram_eq (fuel : Nat) (body : Option (List Stmt)) (catches : List (Option Ident × Option (List Stmt)))
    (inputs : List (String × Cell ν)) (s : VM ν) :
    runProgram fuel ⟨[], some (.mk [] body catches)⟩ inputs s =
      ((do let r ← evalExecBlock fuel (some (.mk [] body catches)) []; popFrame; pure r) : M ν Addr) (programStart s) := by
  unfold runProgram runProgramWith evalProgram
  simp [bind, modifyVM, pushFrame, programStart, pure]

/-! ### "nothing happened in between" -/

/-- `Quiet sr s'`: from `sr` to `s'` nothing was displayed, no frame was pushed, popped or changed, no global
changed, no existing heap cell was written: the heap only grew by 空 cells (the values of the constructs that
ended).  (Scopes: see `leaveScope` — blocks that end pop their names.) -/
def Quiet (sr s' : VM ν) : Prop :=
  s'.out = sr.out ∧ s'.stack = sr.stack ∧ s'.globals = sr.globals ∧
  ∃ k, s'.heap.toList = sr.heap.toList ++ List.replicate k Cell.null

theorem Quiet.refl (s : VM ν) : Quiet s s := ⟨rfl, rfl, rfl, 0, by simp⟩

theorem putScope_globals (mid : Int) (sc : Scope) (s : VM ν) : (putScope mid sc s).globals = s.globals := by
  unfold putScope; split <;> rfl
theorem leaveScope_globals (h : Option Int) (s : VM ν) : (leaveScope h s).globals = s.globals := by
  unfold leaveScope; split
  · rfl
  · split <;> simp [putScope_globals]

theorem Quiet.leaveScope {sr s' : VM ν} (h : Quiet sr s') (hd : Option Int) : Quiet sr (leaveScope hd s') := by
  obtain ⟨h1, h2, h3, k, h4⟩ := h
  exact ⟨by rw [leaveScope_out, h1], by rw [leaveScope_stack, h2], by rw [leaveScope_globals, h3],
    k, by rw [leaveScope_heap, h4]⟩

theorem Quiet.newNull {sr s' : VM ν} (h : Quiet sr s') : Quiet sr (newNull s').2 := by
  obtain ⟨h1, h2, h3, k, h4⟩ := h
  refine ⟨h1, h2, h3, k + 1, ?_⟩
  show (s'.heap.push Cell.null).toList = _
  rw [Array.toList_push, h4, List.replicate_succ', List.append_assoc]

/-! ### 输出 -/

theorem evalStmt_ret (n ln : Nat) (e : Expr) (s : VM ν) :
    evalStmt (n+1) (.ret ln e) s =
      ((do let v ← evalExpr n e; setTopFrame fun fr => { fr with ret := some v }; pure v) : M ν Addr) (setLine ln s) := by
  simp only [evalStmt, Stmt.line]
  rw [setLine_bind]

theorem evalStmt_ret_ok {n ln : Nat} {e : Expr} {s s1 : VM ν} {v : Addr} {fr : Frame} {rest : List Frame}
    (he : evalExpr n e (setLine ln s) = (.ok v, s1)) (hst : s1.stack = fr :: rest) :
    evalStmt (n+1) (.ret ln e) s = (.ok v, { s1 with stack := { fr with ret := some v } :: rest }) := by
  rw [evalStmt_ret, bind_ok he]
  simp [bind, setTopFrame, modifyVM, hst, pure]

/-! ## the path to a 输出 through any nesting of blocks, branches and loops -/

/-- a statement or a block (tag instead of a mutual inductive) -/
inductive Node where
  | stmt (st : Stmt)
  | block (b : Option (List Stmt))

/-- `RetPath n nd s rv sr s'`: evaluating `nd` with fuel `n` from `s` runs — through statements that end
normally with the slot empty, conditions that are 假, complete loop passes — into a `输出` statement that stores
`rv`; `sr` is the state right after that 输出 statement, `s'` the state when `nd` is finished.
Nothing is assumed about what *follows* the path: the statements after it in each block (`post`), the later
alternatives of a branch, the remaining elements / passes of each loop are arbitrary. -/
inductive RetPath : Nat → Node → VM ν → Addr → VM ν → VM ν → Prop
  | ret {n ln : Nat} {e : Expr} {s s1 : VM ν} {v : Addr} {fr : Frame} {rest : List Frame} :
      evalExpr n e (setLine ln s) = (.ok v, s1) → s1.stack = fr :: rest →
      RetPath (n+1) (.stmt (.ret ln e)) s v
        { s1 with stack := { fr with ret := some v } :: rest } { s1 with stack := { fr with ret := some v } :: rest }
  | block {n : Nat} {pre post : List Stmt} {st : Stmt} {s s1 sr s2 : VM ν} {last : Option Addr} {rv : Addr} :
      Steps (evalStmt n) none pre (enterScope s) last s1 → isDecl st = false →
      RetPath n (.stmt st) s1 rv sr s2 →
      RetPath (n+1) (.block (some (pre ++ st :: post))) s rv sr (leaveScope (scopeHandle s) s2)
  | branchIf {n ln : Nat} {c : Expr} {ifB elseB : Option (List Stmt)} {others : List (Expr × Option (List Stmt))}
      {he : Bool} {s s1 sr s2 : VM ν} {a rv : Addr} :
      evalExpr n c (setLine ln s) = (.ok a, s1) → s1.heap[a]? = some (.bool true) →
      RetPath n (.block ifB) s1 rv sr s2 →
      RetPath (n+1) (.stmt (.branch ln c ifB others he elseB)) s rv sr (newNull s2).2
  | branchOther {n ln : Nat} {c oc : Expr} {ifB elseB ob : Option (List Stmt)}
      {pre post : List (Expr × Option (List Stmt))} {he : Bool} {s s1 s2 s3 sr s4 : VM ν} {a b rv : Addr} :
      evalExpr n c (setLine ln s) = (.ok a, s1) → s1.heap[a]? = some (.bool false) →
      CondsFalse n pre s1 s2 →
      evalExpr n oc s2 = (.ok b, s3) → s3.heap[b]? = some (.bool true) →
      RetPath n (.block ob) s3 rv sr s4 →
      RetPath (n+1) (.stmt (.branch ln c ifB (pre ++ (oc, ob) :: post) he elseB)) s rv sr (newNull s4).2
  | branchElse {n ln : Nat} {c : Expr} {ifB elseB : Option (List Stmt)} {others : List (Expr × Option (List Stmt))}
      {s s1 s2 sr s3 : VM ν} {a rv : Addr} :
      evalExpr n c (setLine ln s) = (.ok a, s1) → s1.heap[a]? = some (.bool false) →
      CondsFalse n others s1 s2 →
      RetPath n (.block elseB) s2 rv sr s3 →
      RetPath (n+1) (.stmt (.branch ln c ifB others true elseB)) s rv sr (newNull s3).2
  | while {n ln k : Nat} {c : Expr} {body : Option (List Stmt)} {s s1 s2 sr s3 : VM ν} {a rv : Addr} :
      WhilePasses n ln c body k (setLine ln s) s1 → k < n →
      evalExpr n c (setLine ln s1) = (.ok a, s2) → s2.heap[a]? = some (.bool true) →
      RetPath n (.block body) s2 rv sr s3 →
      RetPath (n+1) (.stmt (.while ln c body)) s rv sr (newNull s3).2
  | iterList {n ln : Nat} {e : Expr} {names : List Ident} {body : Option (List Stmt)} {s s1 s2 s3 s4 sr s5 : VM ν}
      {target x rv : Addr} {slots : Option String × Option String} {pre post : List Addr} :
      evalExpr n e (enterScope (setLine ln s)) = (.ok target, s1) → iterSlots names s1 = (.ok slots, s2) →
      s2.heap[target]? = some (.arr (pre ++ x :: post)) →
      ListPasses n names.length slots body 0 pre s2 s3 →
      iterBind n names.length slots s3.heap.size x
        (pushCell (.num (NumOps.ofInt ((pre.length : Int) + 1))) s3) = (.ok (), s4) →
      RetPath n (.block body) s4 rv sr s5 →
      RetPath (n+1) (.stmt (.iterate ln e names body)) s rv sr
        (newNull (leaveScope (scopeHandle (setLine ln s)) s5)).2
  | iterDict {n ln : Nat} {e : Expr} {names : List Ident} {body : Option (List Stmt)} {s s1 s2 s3 s4 sr s5 : VM ν}
      {target v rv : Addr} {slots : Option String × Option String} {vals vals' : List (String × Addr)}
      {ord' pre post : List String} {k : String} :
      evalExpr n e (enterScope (setLine ln s)) = (.ok target, s1) → iterSlots names s1 = (.ok slots, s2) →
      s2.heap[target]? = some (.hm vals (pre ++ k :: post)) →
      DictPasses n names.length slots body target pre s2 s3 →
      s3.heap[target]? = some (.hm vals' ord') → lookup k vals' = some v →
      iterBind n names.length slots s3.heap.size v (pushCell (.str k) s3) = (.ok (), s4) →
      RetPath n (.block body) s4 rv sr s5 →
      RetPath (n+1) (.stmt (.iterate ln e names body)) s rv sr
        (newNull (leaveScope (scopeHandle (setLine ln s)) s5)).2

namespace Toy
/-- the machine after the definition `如何f？ 结束循环` has been executed in a fresh program -/
def withF : VM Int := (evalStmt 4 fBreaks (programStart (initVM ()))).2

/-- `如何f？ 输出 "x"` -/
def fReturns : Stmt := .funcDecl 0 (some ⟨0, "f"⟩) 1 (some (.mk [] (some [retX, .nil]) []))
/-- the machine after that definition has been executed in a fresh program -/
def withRetF : VM Int := (evalStmt 4 fReturns (programStart (initVM ()))).2

/-- a machine whose variable `d` holds a dictionary from which key `q` has been removed while the key order of a
running loop still lists it: values `[p = "a"]`, order `p, q` -/
def vmGone : VM Int :=
  { heap := #[.str "a", .hm [("p", 0)] ["p", "q"]], stack := [{ moduleId := 0, callType := 1 }], csModuleID := 0,
    scopes := [(0, { syms := [{ name := "d", depth := 0, isConst := false, ext := none, val := 1 }], depth := 0 })],
    modules := #[{ name := "m", hasProgram := true }] }

theorem slot_set (s : VM ν) (h : (retSlot s).isSome = true) : retSlot s = some ((retSlot s).getD 0) := by
  cases hs : retSlot s <;> simp_all
end Toy

end ZnVerif.Proofs.ControlFlow
