/-
A small Hoare logic for the parser monad `PM σ` of Model/Parser.lean, and the specifications of the primitives
(`next`, `tryConsume`, `consume`, `parseID`, `expectBlockIndent`, the error builders) of the REPAIRED parser.

`Sat r Q E F`: an `ok a s` result satisfies `Q a s`, an error satisfies `E`, a Go run-time panic is impossible, and running out of
fuel is possible only if `F` holds.  One induction on the fuel (Proofs/ParserGood.lean) then gives progress, termination, the bound on
error cursors, absence of panics and completeness of returned trees at once.
-/
import ZnVerif.Model.Parser

namespace ZnVerif.Proofs.ParserHoare
open ZnVerif.Model ZnVerif.Model.Parser ZnVerif.Generated.Tokens ZnVerif.Generated.ParserTables

variable {σ : Type}

/-- a syntax error as the property wants it: a code of the syntax range and a cursor inside the source -/
def ErrOK (B : Nat) (e : SynErr) : Prop := 20 ≤ e.code ∧ e.code ≤ 27 ∧ e.cursor ≤ B

/-- what is assumed of the lexer (`B` = length of the source, `μ` = a measure of the input still to be lexed, `I` = an invariant of
the lexer states reached from the initial one):
tokens start inside the source, every token that is not EOF uses up input (comments included) and is on a known line, `Lines` only
grows, lexer errors are syntax errors inside the source, the lexer itself does not panic. -/
structure LexOK (ops : LexOps σ) (B : Nat) (μ : σ → Nat) (I : σ → Prop) : Prop where
  tok : ∀ l t l', I l → ops.nextToken l = (.tok t, l') →
    I l' ∧ t.startIdx ≤ B ∧ μ l' ≤ μ l ∧ (t.type ≠ cTypeEOF → μ l' < μ l ∧ 0 < (ops.lines l').size) ∧
    (ops.lines l).size ≤ (ops.lines l').size
  err : ∀ l e l', I l → ops.nextToken l = (.err e, l') → ErrOK B e
  nopanic : ∀ l l', I l → ops.nextToken l ≠ (.panic, l')

/-- tokens still to be consumed: what the lexer has left plus the peek token -/
def m (μ : σ → Nat) (s : PState σ) : Nat := μ s.lex + (if s.p2.type = cTypeEOF then 0 else 1)

/-- 1 once a current token exists -/
def q (s : PState σ) : Nat := if s.p1.isSome then 1 else 0

theorem q_le_one (s : PState σ) : q s ≤ 1 := by unfold q; split <;> omega

structure Inv (ops : LexOps σ) (B : Nat) (I : σ → Prop) (s : PState σ) : Prop where
  lex : I s.lex
  p2 : s.p2.startIdx ≤ B
  p1 : ∀ t, s.p1 = some t → t.startIdx ≤ B ∧ t.type ≠ cTypeEOF
  lines : (s.sl1 < (ops.lines s.lex).size ∧ s.sl2 < (ops.lines s.lex).size) ∨
    ((ops.lines s.lex).size = 0 ∧ s.sl1 = 0 ∧ s.sl2 = 0)
  nonempty : (s.p2.type ≠ cTypeEOF ∨ s.p1.isSome) → 0 < (ops.lines s.lex).size

def Sat {α : Type} (r : Res σ α) (Q : α → PState σ → Prop) (E : SynErr → Prop) (F : Prop) : Prop :=
  match r with
  | .ok a s => Q a s
  | .err e => E e
  | .panic => False
  | .fuel => F

section rules
variable {α β : Type} {Q : α → PState σ → Prop} {E : SynErr → Prop} {F : Prop} {s : PState σ}

@[simp] theorem sat_ok {a : α} : Sat (.ok a s : Res σ α) Q E F ↔ Q a s := Iff.rfl
@[simp] theorem sat_err {e : SynErr} : Sat (.err e : Res σ α) Q E F ↔ E e := Iff.rfl
@[simp] theorem sat_panic : Sat (.panic : Res σ α) Q E F ↔ False := Iff.rfl
@[simp] theorem sat_fuel : Sat (.fuel : Res σ α) Q E F ↔ F := Iff.rfl

@[simp] theorem sat_pure {a : α} : Sat ((pure a : PM σ α) s) Q E F ↔ Q a s := Iff.rfl

@[simp] theorem sat_bind {x : PM σ β} {f : β → PM σ α} :
    Sat ((x >>= f) s) Q E F ↔ Sat (x s) (fun a s' => Sat (f a s') Q E F) E F := by
  show Sat (PM.bind x f s) Q E F ↔ _
  unfold PM.bind
  cases x s <;> exact Iff.rfl

@[simp] theorem sat_getS {Q : PState σ → PState σ → Prop} : Sat (getS s) Q E F ↔ Q s s := Iff.rfl
@[simp] theorem sat_modifyS {f : PState σ → PState σ} {Q : Unit → PState σ → Prop} :
    Sat (modifyS f s) Q E F ↔ Q () (f s) := Iff.rfl
@[simp] theorem sat_throwErr {e : SynErr} : Sat ((throwErr e : PM σ α) s) Q E F ↔ E e := Iff.rfl
@[simp] theorem sat_goPanic : Sat ((goPanic : PM σ α) s) Q E F ↔ False := Iff.rfl
@[simp] theorem sat_unsetFlag {Q : Unit → PState σ → Prop} :
    Sat (unsetFlag s) Q E F ↔ Q () { s with flag := false } := Iff.rfl
@[simp] theorem sat_setFlag {Q : Unit → PState σ → Prop} :
    Sat (setFlag s) Q E F ↔ Q () { s with flag := true } := Iff.rfl

theorem sat_ite {c : Prop} [Decidable c] {x y : PM σ α} :
    Sat ((if c then x else y) s) Q E F ↔ (c → Sat (x s) Q E F) ∧ (¬ c → Sat (y s) Q E F) := by
  by_cases h : c <;> simp [h]

theorem Sat.imp {r : Res σ α} {Q' : α → PState σ → Prop} {F' : Prop}
    (h : Sat r Q E F) (hq : ∀ a s', Q a s' → Q' a s') (hf : F → F') : Sat r Q' E F' := by
  cases r <;> simp_all [Sat]

end rules

section prims
variable {ops : LexOps σ} {B : Nat} {μ : σ → Nat} {I : σ → Prop}

theorem findLineIdxAux_bound (lines : Array LineInfo) (c : Nat) : ∀ (k i : Nat),
    (i < lines.size → findLineIdxAux lines c k i < lines.size) ∧ (lines.size ≤ i → findLineIdxAux lines c k i = i)
  | 0, i => ⟨fun h => h, fun _ => rfl⟩
  | k + 1, i => by
    unfold findLineIdxAux
    by_cases h1 : i + 1 < lines.size
    · simp only [h1, dite_true]
      by_cases h2 : c < lines[i + 1].startIdx
      · simp only [h2, ite_true]
        exact ⟨fun h => h, fun h => trivial⟩
      · simp only [h2, ite_false]
        have := findLineIdxAux_bound lines c k (i + 1)
        exact ⟨fun _ => this.1 h1, fun h3 => by omega⟩
    · simp only [h1, dite_false]
      exact ⟨fun h => h, fun _ => trivial⟩

theorem findLineIdx_bound (lines : Array LineInfo) (c i : Nat) :
    (i < lines.size → findLineIdx lines c i < lines.size) ∧ (lines.size ≤ i → findLineIdx lines c i = i) :=
  findLineIdxAux_bound lines c _ i

/-- the fuel of `fetch` only runs out on a run of comments longer than the measure -/
theorem fetch_spec (hl : LexOK ops B μ I) (n : Nat) (l : σ) (hI : I l) :
    match fetch ops n l with
    | .ok tk l' => I l' ∧ tk.startIdx ≤ B ∧ μ l' ≤ μ l ∧ (tk.type ≠ cTypeEOF → μ l' < μ l ∧ 0 < (ops.lines l').size) ∧
        (ops.lines l).size ≤ (ops.lines l').size
    | .err e => ErrOK B e
    | .panic => False
    | .fuel => n ≤ μ l := by
  induction n generalizing l with
  | zero => simp [fetch]
  | succ n ih =>
    unfold fetch
    rcases hnt : ops.nextToken l with ⟨r, l'⟩
    cases r with
    | err e => exact hl.err l e l' hI hnt
    | panic => exact hl.nopanic l l' hI hnt
    | tok tk =>
      have ht := hl.tok l tk l' hI hnt
      by_cases hc : tk.type = cTypeComment
      · simp only [hc, if_true]
        have hne : tk.type ≠ cTypeEOF := by rw [hc]; decide
        have h2 := ht.2.2.2.1 hne
        have := ih l' ht.1
        generalize fetch ops n l' = r at this ⊢
        cases r with
        | ok tk2 l2 =>
          simp only at this ⊢
          refine ⟨this.1, this.2.1, by omega, fun h => ?_, by omega⟩
          have := this.2.2.2.1 h
          exact ⟨by omega, this.2⟩
        | err e => exact this
        | panic => exact this
        | fuel => simp only at this ⊢; omega
      · simp only [hc, if_false]
        exact ht

variable (hl : LexOK ops B μ I)
include hl

/-- `next()` on a peek token that is not EOF: one token less, the window stays inside the source -/
theorem next_sat {n : Nat} {s : PState σ} {Q : Unit → PState σ → Prop} {F : Prop}
    (hs : Inv ops B I s) (hne : s.p2.type ≠ cTypeEOF)
    (hk : ∀ s', Inv ops B I s' → m μ s' < m μ s → s'.p1 = some s.p2 → Q () s')
    (hF : n ≤ m μ s → F) :
    Sat (next ops n s) Q (ErrOK B) F := by
  unfold next
  have hf := fetch_spec hl n s.lex hs.lex
  generalize fetch ops n s.lex = r at hf ⊢
  cases r with
  | err e => exact hf
  | panic => exact hf
  | fuel => simp only at hf ⊢; apply hF; simp only [m]; omega
  | ok tk l' =>
    simp only at hf ⊢
    apply hk
    · have hsz : 0 < (ops.lines s.lex).size := hs.nonempty (Or.inl hne)
      have hlines := hs.lines
      refine ⟨hf.1, hf.2.1, ?_, ?_, ?_⟩
      · intro t ht
        simp only [Option.some.injEq] at ht
        subst ht
        exact ⟨hs.p2, hne⟩
      · left
        simp only
        have hb := (findLineIdx_bound (ops.lines l') tk.startIdx s.sl2).1
        constructor
        · omega
        · apply hb; omega
      · intro _
        simp only
        omega
    · simp only [m, hne, if_false]
      by_cases he : tk.type = cTypeEOF
      · simp only [he, if_true]; omega
      · simp only [he, if_false]; have := (hf.2.2.2.1 he).1; omega
    · rfl

/-- `tryConsume tys` (EOF is never asked for): either nothing matched — the state is the same or a comma was swallowed — or the
matched token became the current token -/
theorem tryConsume_sat {n : Nat} {tys : List Nat} {s : PState σ} {Q : Option Token → PState σ → Prop} {F : Prop}
    (hs : Inv ops B I s) (htys : cTypeEOF ∉ tys)
    (hnone : ∀ s', Inv ops B I s' → m μ s' ≤ m μ s → q s ≤ q s' → (s' = s ∨ (m μ s' < m μ s ∧ q s' = 1)) → Q none s')
    (hsome : ∀ tk s', Inv ops B I s' → m μ s' < m μ s → q s' = 1 → tk.type ∈ tys → tk.startIdx ≤ B → Q (some tk) s')
    (hF : n ≤ m μ s → F) :
    Sat (tryConsume ops n tys s) Q (ErrOK B) F := by
  have hnone' : ∀ s', Inv ops B I s' → (s' = s ∨ (m μ s' < m μ s ∧ q s' = 1)) → Q none s' := by
    intro s' hs' hrel
    rcases hrel with rfl | ⟨h1, h2⟩
    · exact hnone _ hs' (Nat.le_refl _) (Nat.le_refl _) (Or.inl rfl)
    · exact hnone _ hs' (by omega) (by have := q_le_one s; omega) (Or.inr ⟨h1, h2⟩)
  -- after the optional comma
  have key : ∀ s1, Inv ops B I s1 → (s1 = s ∨ (m μ s1 < m μ s ∧ q s1 = 1)) →
      Sat (tryConsumeCore ops n tys s1) Q (ErrOK B) F := by
    intro s1 hs1 hrel
    unfold tryConsumeCore
    simp only [sat_bind, sat_getS]
    rw [sat_ite]
    refine ⟨fun _ => ?_, fun _ => ?_⟩
    · simp only [sat_pure]; exact hnone' s1 hs1 hrel
    · rw [sat_ite]
      refine ⟨fun hc => ?_, fun _ => ?_⟩
      · have hmem : s1.p2.type ∈ tys := by simpa using hc
        have hne : s1.p2.type ≠ cTypeEOF := fun h => htys (h ▸ hmem)
        simp only [sat_bind]
        apply next_sat hl hs1 hne
        · intro s2 hs2 hlt hp1
          simp only [sat_pure]
          apply hsome _ _ hs2 _ _ hmem hs1.p2
          · rcases hrel with rfl | ⟨h, _⟩ <;> omega
          · simp [q, hp1]
        · intro h; apply hF
          rcases hrel with rfl | ⟨h', _⟩ <;> omega
      · simp only [sat_pure]; exact hnone' s1 hs1 hrel
  unfold tryConsume
  simp only [sat_bind, sat_getS]
  rw [sat_ite]
  refine ⟨fun hc => ?_, fun _ => ?_⟩
  · have hne : s.p2.type ≠ cTypeEOF := by rw [hc]; decide
    simp only [sat_bind]
    apply next_sat hl hs hne
    · intro s1 hs1 hlt hp1
      apply key s1 hs1
      right; exact ⟨hlt, by simp [q, hp1]⟩
    · exact hF
  · exact key s hs (Or.inl rfl)

omit hl in
/-- the repaired error builders never dereference a missing token -/
theorem errPeek_sat {α : Type} {code : Nat} {s : PState σ} {Q : α → PState σ → Prop} {F : Prop}
    (hs : Inv ops B I s) (hc : 20 ≤ code ∧ code ≤ 27) :
    Sat ((errPeek Variant.fixed code : PM σ α) s) Q (ErrOK B) F := by
  unfold errPeek
  split <;> simp [Variant.fixed, ErrOK, hs.p2, hc.1, hc.2]

omit hl in
theorem errCurr_sat {α : Type} {s : PState σ} {Q : α → PState σ → Prop} {F : Prop}
    (hs : Inv ops B I s) :
    Sat ((errCurr Variant.fixed : PM σ α) s) Q (ErrOK B) F := by
  unfold errCurr
  split
  · simp [Variant.fixed, ErrOK, hs.p2]
  · rename_i t ht
    simp [ErrOK, (hs.p1 t ht).1]

/-- the loop `for { tryConsume(tys) }`: it gives no token back, and its passes run out only when the fuel does (every pass
consumes a token) -/
theorem swallowAll_sat {n : Nat} {tys : List Nat} (htys : cTypeEOF ∉ tys) {Q : Unit → PState σ → Prop} {F : Prop} :
    ∀ (k : Nat) (s : PState σ), Inv ops B I s →
      (∀ s', Inv ops B I s' → m μ s' ≤ m μ s → q s ≤ q s' → Q () s') →
      ((n ≤ m μ s ∨ k ≤ m μ s) → F) →
      Sat (swallowAll ops n tys k s) Q (ErrOK B) F
  | 0, s, _, _, hF => hF (Or.inr (Nat.zero_le _))
  | k + 1, s, hs, hk, hF => by
    unfold swallowAll
    simp only [sat_bind]
    apply tryConsume_sat hl hs htys
    · intro s' hs' hm hq _
      simp only [sat_pure]
      exact hk s' hs' hm hq
    · intro tk s' hs' hlt hq1 _ _
      exact swallowAll_sat htys k s' hs' (fun s'' h1 h2 h3 => hk s'' h1 (by omega) (by have := q_le_one s; omega))
        (fun h => hF (h.elim (fun h => Or.inl (by omega)) (fun h => Or.inr (by omega))))
    · intro h
      exact hF (Or.inl h)

theorem consume_sat {n : Nat} {tys : List Nat} {s : PState σ} {Q : Unit → PState σ → Prop} {F : Prop}
    (hs : Inv ops B I s) (htys : cTypeEOF ∉ tys)
    (hk : ∀ s', Inv ops B I s' → m μ s' < m μ s → q s' = 1 → Q () s')
    (hF : n ≤ m μ s → F) :
    Sat (consume Variant.fixed ops n tys s) Q (ErrOK B) F := by
  unfold consume
  simp only [sat_bind]
  apply tryConsume_sat hl hs htys
  · intro s' hs' _ _ _
    exact errPeek_sat hs' (by decide)
  · intro tk s' hs' hlt hq _ _
    simp only [sat_pure]
    exact hk s' hs' hlt hq
  · exact hF

omit hl in
theorem lineOf_sat {tk : Token} {s : PState σ} {Q : Nat → PState σ → Prop} {E : SynErr → Prop} {F : Prop}
    (hk : ∀ l, Q l s) : Sat (lineOf ops tk s) Q E F := hk _

omit hl in
theorem newID_sat {tk : Token} {s : PState σ} {Q : Ident → PState σ → Prop} {E : SynErr → Prop} {F : Prop}
    (hk : ∀ i, Q i s) : Sat (newID ops tk s) Q E F := by
  unfold newID
  simp only [sat_bind]
  apply lineOf_sat
  intro l
  simp only [sat_pure]
  exact hk _

omit hl in
theorem newString_sat {tk : Token} {s : PState σ} {Q : Expr → PState σ → Prop} {E : SynErr → Prop} {F : Prop}
    (hk : ∀ l str, Q (.str l str) s) : Sat (newString ops tk s) Q E F := by
  unfold newString
  simp only [sat_bind]
  apply lineOf_sat
  intro l
  simp only [sat_pure]
  exact hk _ _

theorem parseID_sat {n : Nat} {s : PState σ} {Q : Ident → PState σ → Prop} {F : Prop}
    (hs : Inv ops B I s)
    (hk : ∀ i s', Inv ops B I s' → m μ s' < m μ s → q s' = 1 → Q i s')
    (hF : n ≤ m μ s → F) :
    Sat (parseID Variant.fixed ops n s) Q (ErrOK B) F := by
  unfold parseID
  simp only [sat_bind]
  apply tryConsume_sat hl hs (by decide)
  · intro s' hs' _ _ _
    exact errPeek_sat hs' (by decide)
  · intro tk s' hs' hlt hq _ _
    apply newID_sat
    intro i
    exact hk i s' hs' hlt hq
  · exact hF

omit hl in
/-- `expectBlockIndent` after a token has been consumed: both lines of the window are known lines -/
theorem expectBlockIndent_sat {s : PState σ} {Q : Option Nat → PState σ → Prop} {E : SynErr → Prop} {F : Prop}
    (hs : Inv ops B I s) (hq : q s = 1)
    (hk : ∀ r, Q r s) : Sat (expectBlockIndent ops s) Q E F := by
  unfold expectBlockIndent
  have hp1 : s.p1.isSome := by
    unfold q at hq
    by_cases h : s.p1.isSome
    · exact h
    · simp [h] at hq
  have hsz := hs.nonempty (Or.inr hp1)
  have hlines := hs.lines
  have h1 : s.sl1 < (ops.lines s.lex).size := by omega
  have h2 : s.sl2 < (ops.lines s.lex).size := by omega
  simp only [Array.getElem?_eq_getElem h1, Array.getElem?_eq_getElem h2]
  exact hk _

omit hl in
theorem endOfStmt_sat {s : PState σ} {Q : Unit → PState σ → Prop} {F : Prop}
    (hs : Inv ops B I s) (hk : Q () s) : Sat (endOfStmt Variant.fixed s) Q (ErrOK B) F := by
  unfold endOfStmt
  split
  · exact hk
  · exact errPeek_sat hs (by decide)

end prims

end ZnVerif.Proofs.ParserHoare
