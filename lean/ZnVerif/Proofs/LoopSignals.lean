/-
Where loop signals (`.err .sigBreak` / `.err .sigContinue`, Go `*zerr.Signal` of type break / continue) can come
from.  `NoSig m` = whatever state `m` is run in, if it ends with an error that error is not a loop signal.
`NoSig` is compositional (pure, bind, tryCatch, mapM, …); the leaves of the evaluator raise runtime / semantic
errors only.  Nothing here changes the model.
-/
import ZnVerif.Proofs.ControlFlow
set_option linter.unusedSectionVars false
set_option linter.unusedVariables false

namespace ZnVerif.Proofs.LoopSignals
open ZnVerif.Model ZnVerif.Proofs.ControlFlow

variable {ν : Type} [NumOps ν]

/-- a 结束循环 / 继续循环 signal -/
def Err.isLoopSignal : Err → Bool
  | .sigBreak | .sigContinue => true
  | _ => false

/-- `m` never ends with a loop signal -/
structure NoSig {α} (m : M ν α) : Prop where
  out : ∀ s e s', m s = (.err e, s') → Err.isLoopSignal e = false

theorem NoSig.pure {α} (a : α) : NoSig (pure a : M ν α) := by
  constructor; intro s e s' h; cases h

theorem NoSig.bind {α β} {m : M ν α} {f : α → M ν β} (hm : NoSig m) (hf : ∀ a, NoSig (f a)) : NoSig (m >>= f) := by
  constructor; intro s e s' h
  simp only [Bind.bind] at h
  rcases hms : m s with ⟨r, s1⟩
  rw [hms] at h
  cases r with
  | ok a => exact (hf a).out s1 e s' h
  | err e1 => simp at h; obtain ⟨rfl, rfl⟩ := h; exact hm.out s _ _ hms
  | panic => simp at h
  | fuel => simp at h
  | unmodelled => simp at h

theorem NoSig.throwE {α} {e : Err} (h : Err.isLoopSignal e = false) : NoSig (throwE e : M ν α) := by
  constructor; intro s e' s' h'; simp [Model.throwE] at h'; rw [← h'.1]; exact h

theorem NoSig.rtErr {α} (code : Nat) : NoSig (rtErr code : M ν α) := NoSig.throwE rfl
theorem NoSig.goPanic {α} : NoSig (goPanic : M ν α) := ⟨fun s e s' h => by cases h⟩
theorem NoSig.outOfFuel {α} : NoSig (outOfFuel : M ν α) := ⟨fun s e s' h => by cases h⟩
theorem NoSig.notModelled {α} : NoSig (notModelled : M ν α) := ⟨fun s e s' h => by cases h⟩
theorem NoSig.getVM : NoSig (getVM : M ν (VM ν)) := ⟨fun s e s' h => by cases h⟩
theorem NoSig.modifyVM (f : VM ν → VM ν) : NoSig (modifyVM f) := ⟨fun s e s' h => by cases h⟩
theorem NoSig.alloc (c : Cell ν) : NoSig (alloc c) := ⟨fun s e s' h => by cases h⟩
theorem NoSig.newNull : NoSig (newNull : M ν Addr) := NoSig.alloc _
theorem NoSig.newBool (b : Bool) : NoSig (newBool b : M ν Addr) := NoSig.alloc _
theorem NoSig.newNum (x : ν) : NoSig (newNum x : M ν Addr) := NoSig.alloc _
theorem NoSig.newStr (x : String) : NoSig (newStr x : M ν Addr) := NoSig.alloc _
theorem NoSig.getCell (a : Addr) : NoSig (getCell a : M ν (Cell ν)) := by
  constructor; intro s e s' h; unfold Model.getCell at h; split at h <;> cases h
theorem NoSig.setCell (a : Addr) (c : Cell ν) : NoSig (setCell a c) := by
  constructor; intro s e s' h; unfold Model.setCell at h; split at h <;> cases h
theorem NoSig.liftRes {α} {r : Res α} (h : ∀ e, r = .err e → Err.isLoopSignal e = false) : NoSig (liftRes r : M ν α) := by
  constructor; intro s e s' h'; simp [Model.liftRes] at h'; exact h e h'.1

/-- `tryCatch m k`: it is the handler that decides -/
theorem NoSig.tryCatch {α β} (m : M ν α) {k : Res α → M ν β} (hk : ∀ r, NoSig (k r)) : NoSig (Model.tryCatch m k) := by
  constructor; intro s e s' h
  simp only [Model.tryCatch] at h
  exact (hk _).out _ _ _ h

/-- … or, when the handler passes errors on, `m` and the handler on the other outcomes -/
theorem NoSig.tryCatch' {α β} {m : M ν α} {k : Res α → M ν β} (hm : NoSig m)
    (hk : ∀ r, (∀ e, r = .err e → Err.isLoopSignal e = false) → NoSig (k r)) : NoSig (Model.tryCatch m k) := by
  constructor; intro s e s' h
  simp only [Model.tryCatch] at h
  rcases hms : m s with ⟨r, s1⟩
  rw [hms] at h
  refine (hk r ?_).out _ _ _ h
  rintro e1 rfl; exact hm.out _ _ _ hms

theorem NoSig.ite {α} {c : Prop} [Decidable c] {a b : M ν α} (ha : NoSig a) (hb : NoSig b) : NoSig (if c then a else b) := by
  split <;> assumption

theorem NoSig.forM {α} {f : α → M ν PUnit} (hf : ∀ a, NoSig (f a)) : ∀ xs : List α, NoSig (xs.forM f)
  | [] => NoSig.pure _
  | x :: xs => by
    rw [list_forM_cons]
    exact NoSig.bind (hf x) fun _ => NoSig.forM hf xs

theorem NoSig.mapM {α β} {f : α → M ν β} (hf : ∀ a, NoSig (f a)) : ∀ xs : List α, NoSig (xs.mapM f)
  | [] => by rw [List.mapM_nil]; exact NoSig.pure _
  | x :: xs => by
    rw [List.mapM_cons]
    exact NoSig.bind (hf x) fun _ => NoSig.bind (NoSig.mapM hf xs) fun _ => NoSig.pure _

theorem NoSig.foldlM {α β} {f : β → α → M ν β} (hf : ∀ b a, NoSig (f b a)) : ∀ (xs : List α) (b : β), NoSig (xs.foldlM f b)
  | [], b => by rw [List.foldlM_nil]; exact NoSig.pure _
  | x :: xs, b => by
    rw [List.foldlM_cons]
    exact NoSig.bind (hf b x) fun b' => NoSig.foldlM hf xs b'

theorem NoSig.withScope {α} {m : M ν α} (hm : NoSig m) : NoSig (Model.withScope m) := by
  constructor; intro s e s' h
  rw [withScope_eq] at h
  have : m (enterScope s) = (.err e, (m (enterScope s)).2) := by
    rcases hms : m (enterScope s) with ⟨r, s1⟩
    rw [hms] at h; simp at h; rw [h.1]
  exact hm.out _ _ _ this

/-! ## leaves -/

theorem NoSig.matchIDType (lit : String) : NoSig (matchIDType lit : M ν (IdType ν)) := by
  unfold Model.matchIDType; split
  · exact NoSig.throwE rfl
  · exact NoSig.pure _
  · exact NoSig.pure _

theorem NoSig.matchIDName (lit : String) : NoSig (matchIDName lit : M ν String) := by
  unfold Model.matchIDName
  refine NoSig.bind (NoSig.matchIDType lit) fun r => ?_
  split
  · exact NoSig.pure _
  · exact NoSig.throwE rfl

theorem NoSig.matchIDNameOpt (i : Option Ident) : NoSig (matchIDNameOpt i : M ν String) := by
  unfold Model.matchIDNameOpt; split
  · exact NoSig.matchIDName _
  · exact NoSig.goPanic

theorem NoSig.currentScope : NoSig (currentScope : M ν (Option Scope)) := ⟨fun s e s' h => by cases h⟩
theorem NoSig.putCurrentScope (sc : Scope) : NoSig (putCurrentScope sc : M ν Unit) := NoSig.modifyVM _

theorem Scope.declare_error {sc : Scope} {name : String} {v : Addr} {isConst : Bool} {ext : Option Int} {e : Err}
    (h : sc.declare name v isConst ext = .error e) : e = .rt 43 := by
  unfold Scope.declare at h
  split at h
  · cases h; rfl
  · cases h

theorem NoSig.declareElement (name : String) (v : Addr) (isConst : Bool) (ext : Option Int) :
    NoSig (declareElement name v isConst ext : M ν Unit) := by
  unfold Model.declareElement
  refine NoSig.bind NoSig.currentScope fun o => ?_
  split
  · exact NoSig.rtErr _
  · refine NoSig.bind NoSig.getVM fun vm => ?_
    split
    · exact NoSig.rtErr _
    · split
      · rename_i e he; rw [Scope.declare_error he]; exact NoSig.throwE rfl
      · exact NoSig.putCurrentScope _

/-! ## `evalExecBlock` -/

theorem loopSignalToException_ok (e : Err) (s : VM ν) :
    ∃ e' s', loopSignalToException e s = (.ok e', s') ∧ Err.isLoopSignal e' = false := by
  cases e <;> exact ⟨_, _, rfl, rfl⟩

theorem NoSig.execPrelude (inputs : List Ident) (params : List Addr) : NoSig (execPrelude inputs params : M ν Unit) := by
  unfold ControlFlow.execPrelude
  refine NoSig.bind NoSig.getVM fun vm => ?_
  have hjp : NoSig (if params.length ≠ inputs.length then (Model.rtErr 51 : M ν PUnit) else
      (inputs.zip params).forM fun p => do
        let name ← Model.matchIDName p.1.lit
        Model.declareElement name p.2 true) := by
    split
    · exact NoSig.rtErr _
    · exact NoSig.forM (fun p => NoSig.bind (NoSig.matchIDName _) fun _ => NoSig.declareElement _ _ _ _) _
  dsimp only
  split
  · split
    · split
      · exact NoSig.bind (NoSig.tryCatch _ fun _ => NoSig.pure _) fun _ => hjp
      · exact hjp
    · exact hjp
  · exact hjp

theorem NoSig.execFinish (n : Nat) (bm : Int) (bd : Nat) (catches : List (Option Ident × Option (List Stmt)))
    (r : Res (Option Addr)) : NoSig (execFinish n bm bd catches r : M ν Addr) := by
  unfold ControlFlow.execFinish
  split
  · exact NoSig.pure _
  · exact NoSig.newNull
  · rename_i e
    constructor; intro s er s' h
    obtain ⟨e1, s1, h1, -⟩ := loopSignalToException_ok e s
    rw [bind_ok h1] at h
    simp only [Model.tryCatch] at h
    rcases hh : handleException n bm bd catches e1 s1 with ⟨r2, s2⟩
    rw [hh] at h
    cases r2 with
    | err e2 =>
      obtain ⟨e3, s3, h3, hns⟩ := loopSignalToException_ok e2 s2
      simp only [] at h
      rw [bind_ok h3] at h
      simp [Model.throwE] at h
      rw [← h.1]; exact hns
    | ok a => simp [Model.liftRes] at h
    | panic => simp [Model.liftRes] at h
    | fuel => simp [Model.liftRes] at h
    | unmodelled => simp [Model.liftRes] at h
  · exact NoSig.goPanic
  · exact NoSig.outOfFuel
  · exact NoSig.notModelled

/-- the outcome of a method / constructor / program body is never a loop signal -/
theorem NoSig.evalExecBlock (n : Nat) (blk : Option ExecBlock) (params : List Addr) :
    NoSig (evalExecBlock n blk params : M ν Addr) := by
  cases n with
  | zero => constructor; intro s e s' h; simp [Model.evalExecBlock] at h; cases h
  | succ n =>
    cases blk with
    | none => constructor; intro s e s' h; simp [Model.evalExecBlock] at h; cases h
    | some b =>
      obtain ⟨inputs, body, catches⟩ := b
      constructor; intro s e s' h
      rw [evalExecBlock_eq] at h
      exact (NoSig.withScope (NoSig.bind NoSig.getVM fun vm => NoSig.bind (NoSig.execPrelude _ _) fun _ =>
        NoSig.tryCatch _ fun r => NoSig.execFinish _ _ _ _ r)).out s e s' h

/-! ## automation, the remaining leaves, the expression evaluator -/

syntax "nosig_leaf" : tactic
macro_rules | `(tactic| nosig_leaf) => `(tactic| first
  | exact NoSig.pure _ | exact NoSig.rtErr _ | exact NoSig.goPanic | exact NoSig.outOfFuel | exact NoSig.notModelled
  | exact NoSig.getCell _ | exact NoSig.setCell _ _ | exact NoSig.alloc _ | exact NoSig.newNull | exact NoSig.newBool _
  | exact NoSig.newNum _ | exact NoSig.newStr _ | exact NoSig.getVM | exact NoSig.modifyVM _
  | exact NoSig.matchIDName _ | exact NoSig.matchIDNameOpt _ | exact NoSig.matchIDType _
  | exact NoSig.declareElement _ _ _ _ | exact NoSig.throwE rfl | exact NoSig.currentScope | exact NoSig.putCurrentScope _
  | assumption)
set_option hygiene false in
macro_rules | `(tactic| nosig_leaf) => `(tactic| first | exact ih _ | exact ih _ _ | exact ih _ _ _ | exact ih _ _ _ _)
set_option hygiene false in
macro_rules | `(tactic| nosig_leaf) => `(tactic| first | exact ih2 _ | exact ih2 _ _)
macro "nosig" : tactic => `(tactic| repeat' (first
  | with_reducible nosig_leaf | with_reducible apply NoSig.bind | with_reducible apply NoSig.mapM
  | with_reducible apply NoSig.forM | with_reducible apply NoSig.foldlM | intro _
  | dsimp only | split))

theorem NoSig.dup : ∀ (n : Nat) (a : Addr), NoSig (dup n a : M ν Addr)
  | 0, _ => NoSig.outOfFuel
  | n+1, a => by
    have ih := NoSig.dup n
    unfold ZnVerif.Model.dup
    nosig
macro_rules | `(tactic| nosig_leaf) => `(tactic| exact NoSig.dup _ _)

theorem NoSig.display : ∀ (n : Nat) (a : Addr), NoSig (display n a : M ν String)
  | 0, _ => NoSig.outOfFuel
  | n+1, a => by
    have ih := NoSig.display n
    unfold ZnVerif.Model.display
    nosig
macro_rules | `(tactic| nosig_leaf) => `(tactic| exact NoSig.display _ _)

theorem NoSig.topFrame : NoSig (topFrame : M ν (Option Frame)) := ⟨fun s e s' h => by cases h⟩
theorem NoSig.stackDepth : NoSig (stackDepth : M ν Nat) := ⟨fun s e s' h => by cases h⟩
theorem NoSig.pushFrame (fr : Frame) : NoSig (pushFrame fr : M ν Unit) := NoSig.modifyVM _
theorem NoSig.unwindTo (d : Nat) : NoSig (unwindTo d : M ν Unit) := NoSig.modifyVM _
theorem NoSig.emit (l : String) : NoSig (emit l : M ν Unit) := NoSig.modifyVM _
theorem NoSig.popFrame : NoSig (popFrame : M ν Unit) := by
  constructor; intro s e s' h; unfold ZnVerif.Model.popFrame at h; split at h <;> cases h
theorem NoSig.currentModule : NoSig (currentModule : M ν (Option (Nat × Module))) := by
  constructor; intro s e s' h; unfold ZnVerif.Model.currentModule at h
  split at h
  · cases h
  · split at h <;> cases h
theorem NoSig.addExport (i : Nat) (name : String) (v : Addr) : NoSig (addExport i name v : M ν Unit) := by
  constructor; intro s e s' h; unfold ZnVerif.Model.addExport at h
  split at h
  · cases h
  · split at h
    · cases h; rfl
    · cases h
macro_rules | `(tactic| nosig_leaf) => `(tactic| first
  | exact NoSig.topFrame | exact NoSig.stackDepth | exact NoSig.pushFrame _ | exact NoSig.unwindTo _ | exact NoSig.emit _
  | exact NoSig.popFrame | exact NoSig.currentModule | exact NoSig.addExport _ _ _)

theorem NoSig.getThis : NoSig (getThis : M ν (Option Addr)) := by unfold ZnVerif.Model.getThis; nosig
theorem NoSig.getReturnValue : NoSig (getReturnValue : M ν (Option Addr)) := by unfold ZnVerif.Model.getReturnValue; nosig
theorem NoSig.findElement (name : String) : NoSig (findElement name : M ν Addr) := by unfold ZnVerif.Model.findElement; nosig
theorem NoSig.findElementWithModule (name : String) : NoSig (findElementWithModule name : M ν (Addr × Int)) := by
  unfold ZnVerif.Model.findElementWithModule; nosig

theorem Scope.set_error {sc : Scope} {name : String} {v : Addr} {e : Err}
    (h : sc.set name v = .error e) : Err.isLoopSignal e = false := by
  unfold Scope.set at h
  have key : ∀ (l : List Sym) e, Scope.set.go name v l = some (.error e) → Err.isLoopSignal e = false := by
    intro l
    induction l with
    | nil => intro e h; simp [Scope.set.go] at h
    | cons sy rest ih =>
      intro e h
      unfold Scope.set.go at h
      split at h
      · split at h
        · cases h; rfl
        · cases h
      · split at h
        · cases h
        · rename_i e' he; cases h; exact ih _ he
        · cases h
  split at h
  · cases h; rfl
  · rename_i e' he; cases h; exact key _ _ he
  · cases h

theorem NoSig.setElement (name : String) (v : Addr) : NoSig (setElement name v : M ν Unit) := by
  unfold ZnVerif.Model.setElement
  refine NoSig.bind NoSig.currentScope fun o => ?_
  split
  · exact NoSig.rtErr _
  · split
    · rename_i e he; exact NoSig.throwE (Scope.set_error he)
    · exact NoSig.putCurrentScope _
macro_rules | `(tactic| nosig_leaf) => `(tactic| first
  | exact NoSig.getThis | exact NoSig.getReturnValue | exact NoSig.findElement _ | exact NoSig.findElementWithModule _
  | exact NoSig.setElement _ _)

theorem NoSig.validateOne (a : Addr) (ty : String) : NoSig (validateOne a ty : M ν Unit) := by unfold ZnVerif.Model.validateOne; nosig
macro_rules | `(tactic| nosig_leaf) => `(tactic| exact NoSig.validateOne _ _)
theorem NoSig.validateExact (vals : List Addr) (tys : List String) : NoSig (validateExact vals tys : M ν Unit) := by
  unfold ZnVerif.Model.validateExact; nosig
theorem NoSig.validateAll (vals : List Addr) (ty : String) : NoSig (validateAll vals ty : M ν Unit) := by
  unfold ZnVerif.Model.validateAll; nosig
macro_rules | `(tactic| nosig_leaf) => `(tactic| first | exact NoSig.validateExact _ _ | exact NoSig.validateAll _ _)

theorem NoSig.allM {α} {f : α → M ν Bool} (hf : ∀ a, NoSig (f a)) : ∀ xs : List α, NoSig (allM f xs)
  | [] => NoSig.pure _
  | x :: xs => by
    unfold ZnVerif.Model.allM
    refine NoSig.bind (hf x) fun b => ?_
    split
    · exact NoSig.allM hf xs
    · exact NoSig.pure _

theorem NoSig.compareXEQ : ∀ (n : Nat) (l r : Addr), NoSig (compareXEQ n l r : M ν Bool)
  | 0, _, _ => NoSig.outOfFuel
  | n+1, l, r => by
    have ih := NoSig.compareXEQ n
    unfold ZnVerif.Model.compareXEQ
    refine NoSig.bind (NoSig.getCell _) fun cl => NoSig.bind (NoSig.getCell _) fun cr => ?_
    split <;> try (first | exact NoSig.pure _ | exact NoSig.rtErr _)
    · split
      · split
        · exact NoSig.pure _
        · exact NoSig.allM (fun p => ih _ _) _
      · exact NoSig.pure _
    · split
      · split
        · exact NoSig.pure _
        · refine NoSig.allM (fun k => ?_) _
          nosig
      · exact NoSig.pure _
macro_rules | `(tactic| nosig_leaf) => `(tactic| exact NoSig.compareXEQ _ _ _)

theorem NoSig.getProperty (n : Nat) (a : Addr) (name : String) : NoSig (getProperty n a name : M ν Addr) := by
  unfold ZnVerif.Model.getProperty; nosig
theorem NoSig.setProperty (a : Addr) (name : String) (v : Addr) : NoSig (setProperty a name v : M ν Unit) := by
  unfold ZnVerif.Model.setProperty; nosig
macro_rules | `(tactic| nosig_leaf) => `(tactic| first | exact NoSig.getProperty _ _ _ | exact NoSig.setProperty _ _ _)

theorem NoSig.goContains (n : Nat) (x : Addr) : ∀ l : List Addr, NoSig (builtinMethod.goContains n x l : M ν Bool)
  | [] => by unfold builtinMethod.goContains; exact NoSig.pure _
  | i :: rest => by
    have ih := NoSig.goContains n x rest
    unfold builtinMethod.goContains; nosig
theorem NoSig.goFind (n : Nat) (x : Addr) : ∀ (l : List Addr) (k : Int), NoSig (builtinMethod.goFind n x l k : M ν Int)
  | [], _ => by unfold builtinMethod.goFind; exact NoSig.pure _
  | i :: rest, k => by
    have ih := NoSig.goFind n x rest
    unfold builtinMethod.goFind; nosig
theorem NoSig.goGet : ∀ (cur : Addr) (l : List Addr), NoSig (builtinMethod.goGet cur l : M ν Addr)
  | _, [] => by unfold builtinMethod.goGet; exact NoSig.pure _
  | cur, k :: rest => by
    have ih := fun c => NoSig.goGet c rest
    unfold builtinMethod.goGet; nosig
theorem NoSig.goArith (op : ν → ν → ν) (cz : Bool) : ∀ (acc : ν) (l : List Addr), NoSig (builtinMethod.goArith op cz acc l : M ν ν)
  | _, [] => by unfold builtinMethod.goArith; exact NoSig.pure _
  | acc, v :: rest => by
    have ih := fun a => NoSig.goArith op cz a rest
    unfold builtinMethod.goArith; nosig
macro_rules | `(tactic| nosig_leaf) => `(tactic| first
  | exact NoSig.goContains _ _ _ | exact NoSig.goFind _ _ _ _ | exact NoSig.goGet _ _ | exact NoSig.goArith _ _ _ _)

set_option maxHeartbeats 1000000 in
theorem NoSig.builtinMethod (n : Nat) (a : Addr) (name : String) (vals : List Addr) :
    NoSig (builtinMethod n a name vals : M ν Addr) := by
  unfold ZnVerif.Model.builtinMethod; nosig

end ZnVerif.Proofs.LoopSignals
