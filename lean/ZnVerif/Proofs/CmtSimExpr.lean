/-
Comment tokens are invisible to the parser, part 2: the expression productions.

For every production `pX`: if the recursive calls of the clean run are matched by those of the raw run (`RecOK`), then the clean
`pX` with fuel `m` is matched by the raw `pX` with fuel `m + K`.
-/
import ZnVerif.Proofs.CmtSimBase

namespace ZnVerif.Proofs.CmtSim
open ZnVerif.Model ZnVerif.Model.Parser ZnVerif.Generated.Tokens ZnVerif.Generated.ParserTables
open ZnVerif.Spec.StmtSyntax

theorem R_bind_opt {K : Nat} {β γ : Type} {s : St} {x2 x1 : PM (List Token) (Option β)} {f2 f1 : Option β → PM (List Token) γ}
    (hx : R K s x2 x1) (hnone : ∀ s', R K s' (f2 none) (f1 none)) (hsome : ∀ a s', R K s' (f2 (some a)) (f1 (some a))) :
    R K s (x2 >>= f2) (x1 >>= f1) :=
  R_bind hx (fun a s' => by cases a with
    | none => exact hnone s'
    | some a => exact hsome a s')

theorem RecOK.app {K : Nat} {rec2 rec1 : Rec (List Token)} (h : RecOK K rec2 rec1) (nt : NT) (s : St) :
    R K s (rec2 nt) (rec1 nt) := h nt s

/-- one rule of the relational logic, chosen by the shape of the goal -/
syntax "rsim_step" : tactic
macro_rules
  | `(tactic| rsim_step) => `(tactic| first
    | with_reducible (first
    | exact R_pure _
    | exact R_errPeek _ _
    | exact R_errCurr _
    | exact R_goPanic
    | exact R_unsetFlag
    | exact R_setFlag
    | exact R_endOfStmt _
    | exact R_lineOf _ _
    | exact R_newID _ _
    | exact R_newString _ _
    | exact R_expectBlockIndent _
    | exact R_tryConsume _ _ _
    | exact R_swallowAll _ _ _
    | exact R_consume _ _ _ _
    | exact R_parseID _ _ _
    | exact R_optYield _ _ _
    | exact R_calleeTail _ _ _ _ _ _
    | (refine R_bind_getS ?_; try dsimp only [cl_flag, cl_p2, cl_blockCond, cl_peekIndentOf, cl_currIndentOf])
    | (refine R_bind_opt ?_ (fun _ => ?_) (fun _ _ => ?_) <;> try dsimp only)
    | refine R_bind ?_ (fun _ _ => ?_)
    | refine R_ite (fun _ => ?_) (fun _ => ?_))
    | exact RecOK.app ‹RecOK _ _ _› _ _
    | refine R_ite (fun _ => ?_) (fun _ => ?_))

/-- walk a production -/
macro "rsim" : tactic => `(tactic| repeat' rsim_step)

variable (Y : Layout) (v : Variant) {K : Nat} (m : Nat) {rec2 rec1 : Rec (List Token)} (hrec : RecOK K rec2 rec1)
include hrec

theorem R_pLv1 (cfg : Bool) (s : St) : R K s (pLv1 rec2 cfg) (pLv1 rec1 cfg) := by
  unfold pLv1; rsim

theorem R_pLv1Tail (cfg : Bool) (el : Expr) (s : St) :
    R K s (pLv1Tail (layoutOps Y) m rec2 cfg el) (pLv1Tail (layoutOps Y) (m + K) rec1 cfg el) := by
  unfold pLv1Tail; rsim

theorem R_pLv2 (cfg : Bool) (s : St) : R K s (pLv2 rec2 cfg) (pLv2 rec1 cfg) := by
  unfold pLv2; rsim

theorem R_pLv2Tail (cfg : Bool) (el : Expr) (s : St) :
    R K s (pLv2Tail (layoutOps Y) m rec2 cfg el) (pLv2Tail (layoutOps Y) (m + K) rec1 cfg el) := by
  unfold pLv2Tail; rsim

theorem R_pLv3 (cfg : Bool) (s : St) :
    R K s (pLv3 (layoutOps Y) m rec2 cfg) (pLv3 (layoutOps Y) (m + K) rec1 cfg) := by
  unfold pLv3; rsim

theorem R_pLv4 (cfg : Bool) (s : St) :
    R K s (pLv4 v (layoutOps Y) m rec2 cfg) (pLv4 v (layoutOps Y) (m + K) rec1 cfg) := by
  unfold pLv4; rsim

theorem R_pArith (s : St) : R K s (pArith rec2) (pArith rec1) := by
  unfold pArith; rsim

theorem R_pArithTail (el : Expr) (s : St) :
    R K s (pArithTail (layoutOps Y) m rec2 el) (pArithTail (layoutOps Y) (m + K) rec1 el) := by
  unfold pArithTail; rsim

theorem R_pMulDiv (s : St) : R K s (pMulDiv rec2) (pMulDiv rec1) := by
  unfold pMulDiv; rsim

theorem R_pMulDivTail (el : Expr) (s : St) :
    R K s (pMulDivTail (layoutOps Y) m rec2 el) (pMulDivTail (layoutOps Y) (m + K) rec1 el) := by
  unfold pMulDivTail; rsim

theorem R_pMember (s : St) :
    R K s (pMember v (layoutOps Y) m rec2) (pMember v (layoutOps Y) (m + K) rec1) := by
  unfold pMember; rsim

theorem R_pMemberTail (e : Expr) (s : St) :
    R K s (pMemberTail v (layoutOps Y) m rec2 e) (pMemberTail v (layoutOps Y) (m + K) rec1 e) := by
  unfold pMemberTail; rsim

theorem R_pBasic (s : St) :
    R K s (pBasic v (layoutOps Y) m rec2) (pBasic v (layoutOps Y) (m + K) rec1) := by
  unfold pBasic; rsim

theorem R_pArrayNonEmpty (s : St) :
    R K s (pArrayNonEmpty (layoutOps Y) m rec2) (pArrayNonEmpty (layoutOps Y) (m + K) rec1) := by
  unfold pArrayNonEmpty; rsim

theorem R_pArray (s : St) :
    R K s (pArray v (layoutOps Y) m rec2) (pArray v (layoutOps Y) (m + K) rec1) := by
  have h := R_pArrayNonEmpty Y m hrec
  unfold pArray; rsim
  all_goals exact h _

theorem R_pArrayLoop (items : List Expr) (s : St) :
    R K s (pArrayLoop (layoutOps Y) m rec2 items) (pArrayLoop (layoutOps Y) (m + K) rec1 items) := by
  unfold pArrayLoop; rsim

theorem R_pHashLoop (kvs : List (Expr × Expr)) (s : St) :
    R K s (pHashLoop v (layoutOps Y) m rec2 kvs) (pHashLoop v (layoutOps Y) (m + K) rec1 kvs) := by
  unfold pHashLoop; rsim

end ZnVerif.Proofs.CmtSim
