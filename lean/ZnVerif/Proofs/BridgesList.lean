/-
Bridge (A) ↔ (C), lists: the list members of `builtinMethod` in `Model/Interp.lean` (the evaluator's own code for
pkg/value/array.go, working on a heap cell `.arr items`) against the pure, element-generic model of the same Go code in
`Model/Containers.lean`, instantiated with `α := Addr`.

Shape of every lemma: for a receiver cell `.arr items`, the evaluator's computation *is* (equation between state
transformers, all outcomes included) "validate the arguments, copy what is stored (`dup`), apply the `Containers`
operation to `items`, store the resulting list into the receiver's cell, answer".  `storeArr` / `liftC` turn a
`Containers.Res` into the monad: `.err c` is runtime error `c`, `.panic` a Go panic.
-/
import ZnVerif.Proofs.HeapMutators
import ZnVerif.Proofs.Containers
set_option linter.unusedSectionVars false
set_option linter.unusedVariables false

namespace ZnVerif.Proofs.Bridges
open ZnVerif ZnVerif.Model

variable {ν : Type} [NumOps ν]

/-! ## from `Containers.Res` into the evaluator monad -/

/-- answer of a pure container primitive as an outcome of the evaluator: error by code, panic as panic -/
def liftC {β : Type} : Containers.Res β → M ν β
  | .ok v => pure v
  | .err c => rtErr c
  | .panic => goPanic

/-- store the list a pure primitive produced into the receiver's cell -/
def storeArr (a : Addr) : Containers.Res (List Addr) → M ν Unit
  | .ok l => setCell a (.arr l)
  | .err c => rtErr c
  | .panic => goPanic

/-- `空` for "no element" (Go: `NewNull()`), the element itself otherwise -/
def answerOpt : Option Addr → M ν Addr
  | some x => pure x
  | none => newNull

theorem storeArr_ok_inv {a : Addr} {r : Containers.Res (List Addr)} {s s' : VM ν} (h : storeArr a r s = (.ok (), s')) :
    ∃ l, r = .ok l ∧ a < s.heap.size ∧ s' = { s with heap := s.heap.set! a (.arr l) } := by
  cases r with
  | ok l => obtain ⟨h1, h2⟩ := setCell_ok_inv h; exact ⟨l, rfl, h1, h2⟩
  | err c => simp [storeArr, rtErr, throwE] at h
  | panic => simp [storeArr, goPanic] at h

theorem validateExact_run (vals : List Addr) (tys : List String) (s : VM ν) :
    ∃ r, validateExact vals tys s = (r, s) := by
  cases h : validateExact vals tys s with
  | mk r s' =>
    have := (validateExact_same (ν := ν) vals tys).run s r s' h
    unfold Same at this
    exact ⟨r, by rw [this]⟩

theorem validateAll_run (vals : List Addr) (ty : String) (s : VM ν) :
    ∃ r, validateAll vals ty s = (r, s) := by
  cases h : validateAll vals ty s with
  | mk r s' =>
    have := (validateAll_same (ν := ν) vals ty).run s r s' h
    unfold Same at this
    exact ⟨r, by rw [this]⟩

theorem mapM_congr_fun {α β : Type} {f g : α → M ν β} (h : ∀ v s, f v s = g v s) (l : List α) (s : VM ν) :
    List.mapM f l s = List.mapM g l s := by
  have : f = g := funext fun v => funext (h v)
  rw [this]

/-! ## pure facts: the list expressions written in `Interp.lean` are the `Containers` operations -/

theorem insertArrayValue_bridge (t : List Addr) (idx : Int) (x : Addr) :
    Model.insertArrayValue t idx x =
      match Containers.insertArrayValue t idx x with
      | .ok l => .ok l
      | .err c => .err (.rt c)
      | .panic => .panic := by
  unfold Model.insertArrayValue Containers.insertArrayValue
  by_cases h1 : idx ≥ (t.length : Int)
  · simp only [h1, if_true]
  · simp only [h1, if_false]
    by_cases h2 : (if idx < 0 then (t.length : Int) + idx else idx) < 0
    · simp only [h2, if_true]
    · simp only [h2, if_false]

theorem arrayInsert_guard (t : List Addr) (idx : Int) (x : Addr) :
    Containers.arrayInsert t x idx =
      if idx < 0 ∧ (t.length : Int) + idx < 0 then .err 40 else Containers.insertArrayValue t idx x := rfl

theorem shiftLeft_bridge (items : List Addr) :
    Containers.shiftArrayValue items true = (match items with | [] => (none, []) | x :: rest => (some x, rest)) := by
  cases items <;> rfl

theorem shiftRight_bridge (items : List Addr) :
    Containers.shiftArrayValue items false = (items.getLast?, items.dropLast) := by
  rw [Containers.shiftRight_eq]; rfl

theorem arraySwap_bridge (items : List Addr) (c0 c1 : Int) :
    Containers.arraySwap items (c0 + 1) (c1 + 1) =
      if c0 < 0 ∨ c0 ≥ (items.length : Int) then .err 40
      else if c1 < 0 ∨ c1 ≥ (items.length : Int) then .err 40
      else match items[c0.toNat]?, items[c1.toNat]? with
        | some x0, some x1 => .ok ((items.set c0.toNat x1).set c1.toNat x0)
        | _, _ => .panic := by
  unfold Containers.arraySwap
  simp only [Int.add_sub_cancel, Containers.errIndexOutOfRange]
  by_cases h0 : c0 < 0 ∨ c0 ≥ (items.length : Int)
  · simp only [h0, if_true]
  · simp only [h0, if_false]
    by_cases h1 : c1 < 0 ∨ c1 ≥ (items.length : Int)
    · simp only [h1, if_true]
    · simp only [h1, if_false]
      cases items[c0.toNat]? <;> cases items[c1.toNat]? <;> rfl

/-! ## the list methods -/

section methods
variable (n : Nat) (a : Addr) (items : List Addr) (s : VM ν)

/-- 前增 -/
theorem bm_prepend (x : Addr) (hc : s.heap[a]? = some (.arr items)) :
    builtinMethod n a "前增" [x] s =
      (do validateExact [x] ["any"]
          let x' ← dup n x
          storeArr a (Containers.arrayPrepend items x')
          pure a) s := by
  unfold builtinMethod
  simp only [bind, getCell, hc, Containers.arrayPrepend_eq, storeArr]

/-- 后增 -/
theorem bm_append (x : Addr) (hc : s.heap[a]? = some (.arr items)) :
    builtinMethod n a "后增" [x] s =
      (do validateExact [x] ["any"]
          let x' ← dup n x
          storeArr a (Containers.arrayAppend items x')
          pure a) s := by
  unfold builtinMethod
  simp only [bind, getCell, hc, Containers.arrayAppend_eq, storeArr]

/-- what 新增 / 添加 does once the position argument has been read as `idx = int(p)`: the range check needs no copy,
so the evaluator makes it first; `Containers.arrayInsert` makes the same check on any element -/
def insertCore (x : Addr) (idx : Int) : M ν Addr :=
  match Containers.arrayInsert items x idx with
  | .err c => rtErr c
  | _ => do
    let x' ← dup n x
    storeArr a (Containers.arrayInsert items x' idx)
    pure a

/-- 新增 / 添加 -/
theorem bm_insert (name : String) (hname : name = "新增" ∨ name = "添加") (x p : Addr) (pv : ν)
    (hc : s.heap[a]? = some (.arr items)) (hp : s.heap[p]? = some (.num pv)) :
    builtinMethod n a name [x, p] s =
      (do validateExact [x, p] ["any", "number"]
          insertCore n a items x (NumOps.toInt pv)) s := by
  obtain ⟨r, hv⟩ := validateExact_run [x, p] ["any", "number"] s
  unfold builtinMethod
  rcases hname with rfl | rfl <;>
  · simp only [bind, getCell, hc, hv]
    · cases r with
      | ok u =>
        simp only [hp, insertCore, arrayInsert_guard]
        by_cases hg : NumOps.toInt pv < 0 ∧ (items.length : Int) + NumOps.toInt pv < 0
        · simp only [hg, and_self, if_true]
        · simp only [hg, if_false]
          have hok : ∀ y, ∃ l, Containers.insertArrayValue items (NumOps.toInt pv) y = .ok l := fun y =>
            ⟨_, Containers.insertArrayValue_ok items _ y (by omega)⟩
          obtain ⟨l0, hl0⟩ := hok x
          simp only [hl0, bind]
          cases hd : dup n x s with
          | mk rd sd =>
            cases rd with
            | ok x' =>
              obtain ⟨l, hl⟩ := hok x'
              simp only [insertArrayValue_bridge, hl, storeArr]
            | err e => rfl
            | panic => rfl
            | fuel => rfl
            | unmodelled => rfl
      | err e => rfl
      | panic => rfl
      | fuel => rfl
      | unmodelled => rfl

/-- 左移: arguments are not looked at -/
theorem bm_shiftLeft (vals : List Addr) (hc : s.heap[a]? = some (.arr items)) :
    builtinMethod n a "左移" vals s =
      (do setCell a (.arr (Containers.shiftArrayValue items true).2)
          answerOpt (Containers.shiftArrayValue items true).1) s := by
  unfold builtinMethod
  simp only [bind, getCell, hc]
  cases items <;> rfl

/-- 右移 -/
theorem bm_shiftRight (vals : List Addr) (hc : s.heap[a]? = some (.arr items)) :
    builtinMethod n a "右移" vals s =
      (do setCell a (.arr (Containers.shiftArrayValue items false).2)
          answerOpt (Containers.shiftArrayValue items false).1) s := by
  unfold builtinMethod
  simp only [bind, getCell, hc, shiftRight_bridge]
  cases h : items.getLast? with
  | none =>
    have : items = [] := by simpa using h
    subst this; rfl
  | some x => rfl

/-- 交换: the evaluator converts `floor(p) − 1` (a subtraction in ν, as in Go: `int(math.Floor(v) - 1)`) to the cursor;
`Containers.arraySwap` takes the 1-based positions and subtracts in `Int`, so it is applied to `cursor + 1` -/
theorem bm_swap (p q : Addr) (pv qv : ν) (hc : s.heap[a]? = some (.arr items))
    (hp : s.heap[p]? = some (.num pv)) (hq : s.heap[q]? = some (.num qv)) :
    builtinMethod n a "交换" [p, q] s =
      (do validateExact [p, q] ["number", "number"]
          storeArr a (Containers.arraySwap items
            (NumOps.toInt (NumOps.sub (NumOps.floor pv) (NumOps.ofInt 1)) + 1)
            (NumOps.toInt (NumOps.sub (NumOps.floor qv) (NumOps.ofInt 1)) + 1))
          pure a) s := by
  obtain ⟨r, hv⟩ := validateExact_run [p, q] ["number", "number"] s
  unfold builtinMethod
  simp only [bind, getCell, hc, arraySwap_bridge, hv]
  · cases r with
    | ok u =>
      simp only [hp, hq]
      generalize NumOps.toInt (NumOps.sub (NumOps.floor pv) (NumOps.ofInt 1)) = c0
      generalize NumOps.toInt (NumOps.sub (NumOps.floor qv) (NumOps.ofInt 1)) = c1
      by_cases h0 : c0 < 0 ∨ c0 ≥ (items.length : Int)
      · simp only [h0, if_true]; rfl
      · simp only [h0, if_false]
        by_cases h1 : c1 < 0 ∨ c1 ≥ (items.length : Int)
        · simp only [h1, if_true]; rfl
        · simp only [h1, if_false]
          cases items[c0.toNat]? <;> cases items[c1.toNat]? <;> rfl
    | err e => rfl
    | panic => rfl
    | fuel => rfl
    | unmodelled => rfl

/-- a name that is no list method: MethodNotFound (46) -/
theorem bm_unknown (name : String) (vals : List Addr) (hc : s.heap[a]? = some (.arr items))
    (hn : name ∉ ["新增", "添加", "前增", "后增", "左移", "右移", "拼接", "合并", "包含", "寻找", "交换"]) :
    builtinMethod n a name vals s = (.err (.rt 46), s) := by
  simp only [List.mem_cons, List.not_mem_nil, or_false, not_or] at hn
  obtain ⟨h1, h2, h3, h4, h5, h6, h7, h8, h9, h10, h11⟩ := hn
  unfold builtinMethod
  simp only [bind, getCell, hc]
  rfl

end methods

end ZnVerif.Proofs.Bridges
