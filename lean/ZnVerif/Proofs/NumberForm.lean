/-
Lemmas for the number-recognition theorems of C04 (`tryParseNumber`, pkg/exec/id_match.go).

Route: (1) `specStep` is a hand-written step function over 9 character classes; the *finite reflection*
`dfaStep_eq` ties the table regenerated from the Go switch to it (every listed character < 128, every state < 14,
all 14 × 128 cells compared by `decide +kernel`, everything outside is `goto end` on both sides) — a semantic
change of the Go switch breaks `table_eq_spec_fin`, a re-ordering of cases does not.
(2) `L q` is the language still to be read in state `q` (one invariant per state); `acc_sound` (→, induction on
the input) and `acc1 … acc12` (←, per-segment scanning) give `number_form` for all strings.
(3) the name / error exits, the executable oracle `numFormB`/`classify`, and the ParseFloat text.
-/
import ZnVerif.Model.IdMatch
import ZnVerif.Spec.NumberForm

namespace ZnVerif.Proofs.NumberForm
open ZnVerif ZnVerif.Model ZnVerif.Spec ZnVerif.Generated

inductive Cls where
  | e | dot | sign | star | one | zero | dig | caret | other
  deriving DecidableEq, Repr

def classOf (c : Nat) : Cls :=
  if c = 0x65 ∨ c = 0x45 then .e
  else if c = 0x2E then .dot
  else if c = 0x2B ∨ c = 0x2D then .sign
  else if c = 0x2A then .star
  else if c = 0x31 then .one
  else if c = 0x30 then .zero
  else if 0x32 ≤ c ∧ c ≤ 0x39 then .dig
  else if c = 0x5E then .caret
  else .other

def digStep (q : Nat) : Option Nat :=
  if q = 1 ∨ q = 3 ∨ q = 5 then some 3
  else if q = 2 ∨ q = 6 then some 6
  else if q = 9 ∨ q = 11 ∨ q = 12 then some 12
  else none

def specStep (q : Nat) : Cls → Option Nat
  | .e => if q = 3 ∨ q = 6 then some 7 else none
  | .dot => if q = 3 then some 2 else none
  | .sign => if q = 1 then some 5 else if q = 7 ∨ q = 11 then some 9 else none
  | .star => if q = 3 ∨ q = 6 then some 8 else none
  | .one => if q = 8 then some 10 else digStep q
  | .zero => if q = 10 then some 13 else digStep q
  | .dig => digStep q
  | .caret => if q = 8 ∨ q = 13 then some 11 else none
  | .other => none

theorem table_chars_ascii : ∀ t ∈ NumberDFA.transitions, ∀ c ∈ t.1, c < 128 := by decide
theorem table_states_small :
    ∀ t ∈ NumberDFA.transitions, ∀ tr ∈ t.2, (∀ q ∈ tr.1, q < 14) ∧ tr.2 < 14 := by decide
set_option maxRecDepth 100000 in
theorem table_eq_spec_fin : ∀ q, q < 14 → ∀ c, c < 128 → dfaStep q c = specStep q (classOf c) := by
  decide +kernel

theorem classOf_big {c : Nat} (h : 128 ≤ c) : classOf c = .other := by
  unfold classOf
  repeat' split
  all_goals first | rfl | omega

theorem specStep_big {q : Nat} (h : 14 ≤ q) (k : Cls) : specStep q k = none := by
  cases k <;> simp only [specStep, digStep] <;> (repeat' split) <;> first | rfl | omega

theorem dfaStep_eq (q c : Nat) : dfaStep q c = specStep q (classOf c) := by
  by_cases hc : c < 128
  · by_cases hq : q < 14
    · exact table_eq_spec_fin q hq c hc
    · rw [specStep_big (by omega)]
      unfold dfaStep
      split
      · rfl
      · rename_i cs trs hf
        have hm := List.mem_of_find?_eq_some hf
        have : trs.find? (fun tr => tr.1.contains q) = none := by
          rw [List.find?_eq_none]
          intro tr htr hcon
          have := (table_states_small _ hm tr htr).1 q (by simpa using hcon)
          omega
        rw [this]; rfl
  · rw [classOf_big (by omega)]
    unfold dfaStep
    have : NumberDFA.transitions.find? (fun t => t.1.contains c) = none := by
      rw [List.find?_eq_none]
      intro t ht hcon
      have := table_chars_ascii t ht c (by simpa using hcon)
      omega
    rw [this]; rfl


/-! ### character-class facts -/

theorem classOf_facts_fin : ∀ c, c < 128 →
    (classOf c = .e ↔ (c = 0x65 ∨ c = 0x45)) ∧ (classOf c = .dot ↔ c = 0x2E) ∧
    (classOf c = .sign ↔ isSignCh c = true) ∧ (classOf c = .star ↔ c = 0x2A) ∧
    (classOf c = .one ↔ c = 0x31) ∧ (classOf c = .zero ↔ c = 0x30) ∧
    (classOf c = .caret ↔ c = 0x5E) ∧
    ((classOf c = .one ∨ classOf c = .zero ∨ classOf c = .dig) ↔ isDigit c = true) := by
  decide +kernel

theorem classOf_facts (c : Nat) :
    (classOf c = .e ↔ (c = 0x65 ∨ c = 0x45)) ∧ (classOf c = .dot ↔ c = 0x2E) ∧
    (classOf c = .sign ↔ isSignCh c = true) ∧ (classOf c = .star ↔ c = 0x2A) ∧
    (classOf c = .one ↔ c = 0x31) ∧ (classOf c = .zero ↔ c = 0x30) ∧
    (classOf c = .caret ↔ c = 0x5E) ∧
    ((classOf c = .one ∨ classOf c = .zero ∨ classOf c = .dig) ↔ isDigit c = true) := by
  by_cases hc : c < 128
  · exact classOf_facts_fin c hc
  · have h := classOf_big (c := c) (by omega)
    simp only [h, isSignCh, isDigit]
    refine ⟨?_, ?_, ?_, ?_, ?_, ?_, ?_, ?_⟩ <;> simp <;> omega


/-! ### the scan as (final state, unconsumed rest) -/

def run : Nat → List Nat → Nat × List Nat
  | q, [] => (q, [])
  | q, c :: r =>
    match dfaStep q c with
    | none => (q, c :: r)
    | some q' => run q' r

theorem run_length (q : Nat) (s : List Nat) : (run q s).2.length ≤ s.length := by
  induction s generalizing q with
  | nil => simp [run]
  | cons c r ih =>
    unfold run
    split
    · simp
    · rename_i q' _
      have := ih q'
      simp; omega

theorem dfaScan_eq_run (q n : Nat) (s : List Nat) :
    dfaScan q n s = ((run q s).1, n + (s.length - (run q s).2.length)) := by
  induction s generalizing q n with
  | nil => simp [run, dfaScan]
  | cons c r ih =>
    unfold run dfaScan
    cases h : dfaStep q c with
    | none => simp
    | some q' =>
      simp only [ih]
      have := run_length q' r
      simp; omega

/-- acceptance from state `q`: everything consumed and an end state reached -/
def Acc (q : Nat) (s : List Nat) : Prop :=
  (run q s).2 = [] ∧ ((run q s).1 = 3 ∨ (run q s).1 = 6 ∨ (run q s).1 = 12)

theorem tpn_eq (s : List Nat) : tryParseNumber s =
    if (run 1 s).2.length = s.length then .name
    else if (run 1 s).1 = 5 then .name
    else if ¬((run 1 s).1 = 3 ∨ (run 1 s).1 = 6 ∨ (run 1 s).1 = 12) then .error
    else if (run 1 s).2 ≠ [] then .error else .number := by
  unfold tryParseNumber
  simp only [dfaScan_eq_run, NumberDFA.beginState, NumberDFA.signOnlyState, NumberDFA.endStates]
  have hl := run_length 1 s
  have e1 : (0 + (s.length - (run 1 s).2.length) = 0) ↔ ((run 1 s).2.length = s.length) := by omega
  have e2 : (0 + (s.length - (run 1 s).2.length) < s.length) ↔ ((run 1 s).2 ≠ []) := by
    cases h : (run 1 s).2 with
    | nil => simp
    | cons a b => rw [h] at hl; simp at hl ⊢; omega
  have e3 : (!([3, 6, 12] : List Nat).contains (run 1 s).1) = true ↔
      ¬((run 1 s).1 = 3 ∨ (run 1 s).1 = 6 ∨ (run 1 s).1 = 12) := by simp
  simp only [e1, e2, e3]

theorem tpn_number (s : List Nat) : tryParseNumber s = .number ↔ Acc 1 s := by
  rw [tpn_eq]
  unfold Acc
  constructor
  · intro h
    split at h
    · cases h
    · split at h
      · cases h
      · split at h
        · cases h
        · split at h
          · cases h
          · rename_i h3 h4
            exact ⟨Classical.not_not.mp h4, Classical.not_not.mp h3⟩
  · intro ⟨h1, h2⟩
    have hne : ¬ (run 1 s).2.length = s.length := by
      cases s with
      | nil => simp [run] at h2
      | cons c r => rw [h1]; simp
    have h5 : ¬ (run 1 s).1 = 5 := by omega
    rw [if_neg hne, if_neg h5, if_neg (fun h => h h2), if_neg (fun h => h h1)]

theorem tpn_name (s : List Nat) :
    tryParseNumber s = .name ↔ ((run 1 s).2.length = s.length ∨ (run 1 s).1 = 5) := by
  rw [tpn_eq]
  constructor
  · intro h
    split at h
    · left; assumption
    · split at h
      · right; assumption
      · split at h
        · cases h
        · split at h <;> cases h
  · intro h
    rcases h with h | h
    · rw [if_pos h]
    · split <;> rfl

theorem acc_nil (q : Nat) : Acc q [] ↔ (q = 3 ∨ q = 6 ∨ q = 12) := by
  simp [Acc, run]

theorem acc_cons (q c : Nat) (s : List Nat) :
    Acc q (c :: s) ↔ ∃ q', specStep q (classOf c) = some q' ∧ Acc q' s := by
  unfold Acc
  rw [run, dfaStep_eq]
  cases specStep q (classOf c) with
  | none => simp
  | some q' => simp


/-! ### one invariant per state: the language accepted from that state -/

def D0 (l : List Nat) : Prop := ∀ c ∈ l, isDigit c = true
def SD (s : List Nat) : Prop := ∃ sg d, s = sg ++ d ∧ SignOpt sg ∧ Digits1 d

/-- what remains to be read in each of the 12 states of id_match.go -/
def L : Nat → List Nat → Prop
  | 1, s => NumForm s                                                        -- sBegin
  | 5, s => ∃ i f e, s = i ++ f ++ e ∧ Digits1 i ∧ Frac f ∧ Exp e            -- sIntPMFlag
  | 3, s => ∃ i f e, s = i ++ f ++ e ∧ D0 i ∧ Frac f ∧ Exp e                 -- sIntEnd
  | 2, s => ∃ d e, s = d ++ e ∧ Digits1 d ∧ Exp e                            -- sDot
  | 6, s => ∃ d e, s = d ++ e ∧ D0 d ∧ Exp e                                 -- sDotDecEnd
  | 7, s => ∃ sg d, s = sg :: d ∧ isSignCh sg = true ∧ Digits1 d             -- sEFlag
  | 8, s => SD (s.drop 1) ∧ s.take 1 = [0x5E] ∨
            SD (s.drop 3) ∧ s.take 3 = [0x31, 0x30, 0x5E]                    -- sSFlag
  | 10, s => SD (s.drop 2) ∧ s.take 2 = [0x30, 0x5E]                          -- sSciI
  | 13, s => SD (s.drop 1) ∧ s.take 1 = [0x5E]                                -- sSciII
  | 11, s => SD s                                                             -- sSciEndFlag
  | 9, s => Digits1 s                                                         -- sExpPMFlag
  | 12, s => D0 s                                                             -- sExpEnd
  | _, _ => False

theorem D0_nil : D0 [] := by intro c h; cases h
theorem D0_cons {c : Nat} {l : List Nat} (hc : isDigit c = true) (hl : D0 l) : D0 (c :: l) := by
  intro x hx
  rcases List.mem_cons.mp hx with rfl | h
  · exact hc
  · exact hl x h
theorem D1_cons {c : Nat} {l : List Nat} (hc : isDigit c = true) (hl : D0 l) : Digits1 (c :: l) :=
  ⟨by simp, D0_cons hc hl⟩
theorem D1_D0 {l : List Nat} (h : Digits1 l) : D0 l := h.2
theorem D1_cases {l : List Nat} (h : Digits1 l) : ∃ c r, l = c :: r ∧ isDigit c = true ∧ D0 r := by
  cases l with
  | nil => exact absurd rfl h.1
  | cons c r => exact ⟨c, r, rfl, h.2 c (by simp), fun x hx => h.2 x (by simp [hx])⟩

theorem exp_of_L7 {c : Nat} {s : List Nat} (hc : c = 0x65 ∨ c = 0x45) (h : L 7 s) : Exp (c :: s) := by
  obtain ⟨sg, d, rfl, hs, hd⟩ := h
  exact Or.inr (Or.inl ⟨c, sg, d, rfl, hc, hs, hd⟩)

theorem exp_of_L8 {s : List Nat} (h : L 8 s) : Exp (0x2A :: s) := by
  rcases h with ⟨⟨sg, d, hsd, hs, hd⟩, ht⟩ | ⟨⟨sg, d, hsd, hs, hd⟩, ht⟩
  · refine Or.inr (Or.inr (Or.inr ⟨sg, d, ?_, hs, hd⟩))
    have := List.take_append_drop 1 s
    rw [ht, hsd] at this
    rw [← this]; simp
  · refine Or.inr (Or.inr (Or.inl ⟨sg, d, ?_, hs, hd⟩))
    have := List.take_append_drop 3 s
    rw [ht, hsd] at this
    rw [← this]; simp


/-- a digit read in state `q` (other than the `1`/`0` of `*10^`): `L` is closed backwards -/
theorem L_digit {q q' c : Nat} {s : List Nat} (hc : isDigit c = true) (hq : digStep q = some q')
    (h : L q' s) : L q (c :: s) := by
  unfold digStep at hq
  split at hq
  · cases hq
    obtain ⟨i, f, e, rfl, hi, hf, he⟩ := h
    rename_i hq
    rcases hq with rfl | rfl | rfl
    · exact ⟨[], c :: i, f, e, by simp, Or.inl rfl, D1_cons hc hi, hf, he⟩
    · exact ⟨c :: i, f, e, by simp, D0_cons hc hi, hf, he⟩
    · exact ⟨c :: i, f, e, by simp, D1_cons hc hi, hf, he⟩
  · split at hq
    · cases hq
      obtain ⟨d, e, rfl, hd, he⟩ := h
      rename_i hq
      rcases hq with rfl | rfl
      · exact ⟨c :: d, e, by simp, D1_cons hc hd, he⟩
      · exact ⟨c :: d, e, by simp, D0_cons hc hd, he⟩
    · split at hq
      · cases hq
        rename_i hq
        have h : D0 s := h
        rcases hq with rfl | rfl | rfl
        · exact D1_cons hc h
        · exact ⟨[], c :: s, rfl, Or.inl rfl, D1_cons hc h⟩
        · exact D0_cons hc h
      · cases hq

theorem acc_sound : ∀ (s : List Nat) (q : Nat), Acc q s → L q s := by
  intro s
  induction s with
  | nil =>
    intro q h
    rcases (acc_nil q).mp h with rfl | rfl | rfl
    · exact ⟨[], [], [], rfl, D0_nil, Or.inl rfl, Or.inl rfl⟩
    · exact ⟨[], [], rfl, D0_nil, Or.inl rfl⟩
    · exact D0_nil
  | cons c s ih =>
    intro q h
    obtain ⟨q', hstep, hacc⟩ := (acc_cons q c s).mp h
    have hL := ih q' hacc
    obtain ⟨fe, fdot, fsign, fstar, fone, fzero, fcaret, fdig⟩ := classOf_facts c
    cases hk : classOf c <;> rw [hk] at hstep <;> simp only [specStep] at hstep
    case e =>
      have hc := fe.mp hk
      split at hstep
      · cases hstep
        rename_i hq
        rcases hq with rfl | rfl
        · exact ⟨[], [], c :: s, rfl, D0_nil, Or.inl rfl, exp_of_L7 hc hL⟩
        · exact ⟨[], c :: s, rfl, D0_nil, exp_of_L7 hc hL⟩
      · cases hstep
    case dot =>
      have hc := fdot.mp hk
      split at hstep
      · cases hstep
        rename_i hq
        subst hq; subst hc
        obtain ⟨d, e, rfl, hd, he⟩ := hL
        exact ⟨[], 0x2E :: d, e, by simp, D0_nil, Or.inr ⟨d, rfl, hd⟩, he⟩
      · cases hstep
    case sign =>
      have hc := fsign.mp hk
      split at hstep
      · cases hstep
        rename_i hq; subst hq
        obtain ⟨i, f, e, rfl, hi, hf, he⟩ := hL
        exact ⟨[c], i, f, e, by simp, Or.inr ⟨c, rfl, hc⟩, hi, hf, he⟩
      · split at hstep
        · cases hstep
          rename_i hq
          have hL : Digits1 s := hL
          rcases hq with rfl | rfl
          · exact ⟨c, s, rfl, hc, hL⟩
          · exact ⟨[c], s, rfl, Or.inr ⟨c, rfl, hc⟩, hL⟩
        · cases hstep
    case star =>
      have hc := fstar.mp hk
      subst hc
      split at hstep
      · cases hstep
        rename_i hq
        rcases hq with rfl | rfl
        · exact ⟨[], [], 0x2A :: s, rfl, D0_nil, Or.inl rfl, exp_of_L8 hL⟩
        · exact ⟨[], 0x2A :: s, rfl, D0_nil, exp_of_L8 hL⟩
      · cases hstep
    case one =>
      have hd : isDigit c = true := fdig.mp (Or.inl hk)
      have hc := fone.mp hk
      split at hstep
      · cases hstep
        rename_i hq; subst hq; subst hc
        have hL : SD (s.drop 2) ∧ s.take 2 = [0x30, 0x5E] := hL
        exact Or.inr (by simpa using hL)
      · exact L_digit hd hstep hL
    case zero =>
      have hd : isDigit c = true := fdig.mp (Or.inr (Or.inl hk))
      have hc := fzero.mp hk
      split at hstep
      · cases hstep
        rename_i hq; subst hq; subst hc
        have hL : SD (s.drop 1) ∧ s.take 1 = [0x5E] := hL
        show SD ((0x30 :: s).drop 2) ∧ (0x30 :: s).take 2 = [0x30, 0x5E]
        simpa using hL
      · exact L_digit hd hstep hL
    case dig =>
      have hd : isDigit c = true := fdig.mp (Or.inr (Or.inr hk))
      exact L_digit hd hstep hL
    case caret =>
      have hc := fcaret.mp hk
      subst hc
      split at hstep
      · cases hstep
        rename_i hq
        have hL : SD s := hL
        rcases hq with rfl | rfl
        · exact Or.inl (by simpa using hL)
        · show SD ((0x5E :: s).drop 1) ∧ (0x5E :: s).take 1 = [0x5E]
          simpa using hL
      · cases hstep
    case other => cases hstep


/-! ### per-segment scanning lemmas (the ← direction) -/

theorem acc_step {q q' c : Nat} {s : List Nat} (h : specStep q (classOf c) = some q')
    (ha : Acc q' s) : Acc q (c :: s) := (acc_cons q c s).mpr ⟨q', h, ha⟩

theorem step_digit {q c : Nat} (hc : isDigit c = true) (h8 : q ≠ 8) (h10 : q ≠ 10) :
    specStep q (classOf c) = digStep q := by
  rcases (classOf_facts c).2.2.2.2.2.2.2.mpr hc with h | h | h <;> rw [h] <;> simp [specStep, h8, h10]

theorem step_sign {q q' c : Nat} (hc : isSignCh c = true) (h : specStep q .sign = some q') :
    specStep q (classOf c) = some q' := by
  rw [(classOf_facts c).2.2.1.mpr hc]; exact h

theorem acc_digits_loop {q : Nat} (hq : digStep q = some q) (h8 : q ≠ 8) (h10 : q ≠ 10)
    {d r : List Nat} (hd : D0 d) (hr : Acc q r) : Acc q (d ++ r) := by
  induction d with
  | nil => exact hr
  | cons c d ih =>
    have hc : isDigit c = true := hd c (by simp)
    have hd' : D0 d := fun x hx => hd x (by simp [hx])
    exact acc_step (by rw [step_digit hc h8 h10]; exact hq) (ih hd')

theorem acc_digits_first {q q' : Nat} (hq : digStep q = some q') (hq' : digStep q' = some q')
    (h8 : q ≠ 8) (h10 : q ≠ 10) (h8' : q' ≠ 8) (h10' : q' ≠ 10)
    {d r : List Nat} (hd : Digits1 d) (hr : Acc q' r) : Acc q (d ++ r) := by
  obtain ⟨c, d', rfl, hc, hd'⟩ := D1_cases hd
  exact acc_step (by rw [step_digit hc h8 h10]; exact hq) (acc_digits_loop hq' h8' h10' hd' hr)

theorem acc9 {d : List Nat} (hd : Digits1 d) : Acc 9 d := by
  have := acc_digits_first (q := 9) (q' := 12) (by decide) (by decide) (by decide) (by decide)
    (by decide) (by decide) hd ((acc_nil 12).mpr (by decide))
  simpa using this

theorem acc11 {s : List Nat} (h : SD s) : Acc 11 s := by
  obtain ⟨sg, d, rfl, hs, hd⟩ := h
  rcases hs with rfl | ⟨c, rfl, hc⟩
  · have := acc_digits_first (q := 11) (q' := 12) (by decide) (by decide) (by decide) (by decide)
      (by decide) (by decide) hd ((acc_nil 12).mpr (by decide))
    simpa using this
  · exact acc_step (step_sign hc (by decide)) (acc9 hd)

theorem acc_exp {q : Nat} (hq : q = 3 ∨ q = 6) {e : List Nat} (he : Exp e) : Acc q e := by
  rcases he with rfl | ⟨ec, sg, d, rfl, hec, hs, hd⟩ | ⟨sg, d, rfl, hs, hd⟩ | ⟨sg, d, rfl, hs, hd⟩
  · exact (acc_nil q).mpr (by omega)
  · have h7 : Acc 7 (sg :: d) := acc_step (step_sign hs (by decide)) (acc9 hd)
    refine acc_step ?_ h7
    rw [(classOf_facts ec).1.mpr hec]
    rcases hq with rfl | rfl <;> decide
  · have h11 : Acc 11 (sg ++ d) := acc11 ⟨sg, d, rfl, hs, hd⟩
    have h13 : Acc 13 (0x5E :: (sg ++ d)) := acc_step (by decide) h11
    have h10 : Acc 10 (0x30 :: 0x5E :: (sg ++ d)) := acc_step (by decide) h13
    have h8 : Acc 8 (0x31 :: 0x30 :: 0x5E :: (sg ++ d)) := acc_step (by decide) h10
    have : Acc q (0x2A :: 0x31 :: 0x30 :: 0x5E :: (sg ++ d)) :=
      acc_step (by rcases hq with rfl | rfl <;> decide) h8
    simpa using this
  · have h11 : Acc 11 (sg ++ d) := acc11 ⟨sg, d, rfl, hs, hd⟩
    have h8 : Acc 8 (0x5E :: (sg ++ d)) := acc_step (by decide) h11
    have : Acc q (0x2A :: 0x5E :: (sg ++ d)) :=
      acc_step (by rcases hq with rfl | rfl <;> decide) h8
    simpa using this

theorem acc6 {d e : List Nat} (hd : D0 d) (he : Exp e) : Acc 6 (d ++ e) :=
  acc_digits_loop (by decide) (by decide) (by decide) hd (acc_exp (Or.inr rfl) he)

theorem acc2 {d e : List Nat} (hd : Digits1 d) (he : Exp e) : Acc 2 (d ++ e) :=
  acc_digits_first (q := 2) (q' := 6) (by decide) (by decide) (by decide) (by decide)
    (by decide) (by decide) hd (acc_exp (Or.inr rfl) he)

theorem acc_frac_exp {f e : List Nat} (hf : Frac f) (he : Exp e) : Acc 3 (f ++ e) := by
  rcases hf with rfl | ⟨d, rfl, hd⟩
  · simpa using acc_exp (Or.inl rfl) he
  · have : Acc 3 (0x2E :: (d ++ e)) := acc_step (by decide) (acc2 hd he)
    simpa using this

theorem acc3 {i f e : List Nat} (hi : D0 i) (hf : Frac f) (he : Exp e) : Acc 3 (i ++ f ++ e) := by
  rw [List.append_assoc]
  exact acc_digits_loop (by decide) (by decide) (by decide) hi (acc_frac_exp hf he)

theorem acc5 {i f e : List Nat} (hi : Digits1 i) (hf : Frac f) (he : Exp e) :
    Acc 5 (i ++ f ++ e) := by
  rw [List.append_assoc]
  exact acc_digits_first (q := 5) (q' := 3) (by decide) (by decide) (by decide) (by decide)
    (by decide) (by decide) hi (acc_frac_exp hf he)

theorem acc1 {s : List Nat} (h : NumForm s) : Acc 1 s := by
  obtain ⟨sg, i, f, e, rfl, hs, hi, hf, he⟩ := h
  rcases hs with rfl | ⟨c, rfl, hc⟩
  · have := acc_digits_first (q := 1) (q' := 3) (by decide) (by decide) (by decide) (by decide)
      (by decide) (by decide) hi (acc_frac_exp hf he)
    simpa using this
  · have : Acc 1 (c :: (i ++ f ++ e)) := acc_step (step_sign hc (by decide)) (acc5 hi hf he)
    simpa using this

theorem number_form (s : List Nat) : tryParseNumber s = .number ↔ NumForm s :=
  (tpn_number s).trans ⟨acc_sound s 1, acc1⟩


/-! ### name / error exits -/

theorem specStep_target {q q' : Nat} {k : Cls} (h : specStep q k = some q') :
    q' ≠ 1 ∧ (q' = 5 → q = 1) := by
  cases k <;> simp only [specStep, digStep] at h <;> (repeat' split at h) <;>
    (cases h <;> omega)

theorem run_state_good (r : List Nat) (q : Nat) (h1 : q ≠ 1) (h5 : q ≠ 5) :
    (run q r).1 ≠ 5 ∧ (run q r).1 ≠ 1 := by
  induction r generalizing q with
  | nil => exact ⟨h5, h1⟩
  | cons c r ih =>
    unfold run
    rw [dfaStep_eq]
    cases h : specStep q (classOf c) with
    | none => exact ⟨h5, h1⟩
    | some q' =>
      have := specStep_target h
      exact ih q' this.1 (fun h => h1 (this.2 h))

theorem run_step {q q' c : Nat} {r : List Nat} (h : specStep q (classOf c) = some q') :
    run q (c :: r) = run q' r := by
  rw [run, dfaStep_eq, h]

theorem run_stuck {q c : Nat} {r : List Nat} (h : specStep q (classOf c) = none) :
    run q (c :: r) = (q, c :: r) := by
  rw [run, dfaStep_eq, h]

theorem tpn_name_iff (s : List Nat) : tryParseNumber s = .name ↔ ¬ StartsLikeNumber s := by
  rw [tpn_name]
  constructor
  · rintro h ⟨sg, d, rest, rfl, hs, hd⟩
    have h3 : run 1 (sg ++ d :: rest) = run 3 rest := by
      rcases hs with rfl | ⟨c, rfl, hc⟩
      · exact run_step (by rw [step_digit hd (by decide) (by decide)]; decide)
      · show run 1 (c :: d :: rest) = _
        rw [run_step (step_sign hc (by decide) : _ = some 5)]
        exact run_step (by rw [step_digit hd (by decide) (by decide)]; decide)
    rw [h3] at h
    rcases h with h | h
    · have := run_length 3 rest
      simp at h; omega
    · exact (run_state_good rest 3 (by decide) (by decide)).1 h
  · intro h
    cases s with
    | nil => left; rfl
    | cons c r =>
      obtain ⟨_, _, fsign, _, _, _, _, fdig⟩ := classOf_facts c
      by_cases hd : isDigit c = true
      · exact absurd ⟨[], c, r, rfl, Or.inl rfl, hd⟩ h
      by_cases hs : isSignCh c = true
      · right
        rw [run_step (step_sign hs (by decide) : _ = some 5)]
        cases r with
        | nil => rfl
        | cons c2 r2 =>
          by_cases hd2 : isDigit c2 = true
          · exact absurd ⟨[c], c2, r2, rfl, Or.inr ⟨c, rfl, hs⟩, hd2⟩ h
          · rw [run_stuck]
            have := (classOf_facts c2).2.2.2.2.2.2.2
            cases hk : classOf c2 <;> simp_all [specStep]
      · left
        rw [run_stuck]
        cases hk : classOf c <;> simp_all [specStep]

theorem starts_like_number_rejected (s : List Nat) (h1 : StartsLikeNumber s) (h2 : ¬ NumForm s) :
    tryParseNumber s = .error := by
  have hn : tryParseNumber s ≠ .name := fun h => (tpn_name_iff s).mp h h1
  have hm : tryParseNumber s ≠ .number := fun h => h2 ((number_form s).mp h)
  cases h : tryParseNumber s <;> simp_all

theorem otherwise_name (s : List Nat) (h : ¬ StartsLikeNumber s) : tryParseNumber s = .name :=
  (tpn_name_iff s).mpr h


/-! ### the executable spec oracle decides the Prop-level spec -/

theorem digit_not_sign {c : Nat} (h : isDigit c = true) : isSignCh c = false := by
  simp [isDigit, isSignCh] at *; omega

theorem takeDigits_spec (l : List Nat) :
    l = (takeDigits l).1 ++ (takeDigits l).2 ∧ D0 (takeDigits l).1 ∧
    (∀ c r, (takeDigits l).2 = c :: r → isDigit c = false) := by
  induction l with
  | nil => simp [takeDigits, D0_nil]
  | cons c r ih =>
    unfold takeDigits
    by_cases hc : isDigit c = true
    · simp only [hc, if_true]
      exact ⟨by simp [← ih.1], D0_cons hc ih.2.1, ih.2.2⟩
    · simp only [hc]
      refine ⟨rfl, D0_nil, ?_⟩
      intro c' r' h
      cases h
      simpa using hc

theorem takeDigits_append {a b : List Nat} (ha : D0 a)
    (hb : ∀ c r, b = c :: r → isDigit c = false) : takeDigits (a ++ b) = (a, b) := by
  induction a with
  | nil =>
    cases b with
    | nil => rfl
    | cons c r => simp [takeDigits, hb c r rfl]
  | cons c a ih =>
    have hc : isDigit c = true := ha c (by simp)
    have := ih (fun x hx => ha x (by simp [hx]))
    simp [takeDigits, hc, this]

/-- `let (a, b) := takeDigits l; !a.isEmpty && b.isEmpty` -/
def d1B (l : List Nat) : Bool := !(takeDigits l).1.isEmpty && (takeDigits l).2.isEmpty

theorem d1B_iff (l : List Nat) : d1B l = true ↔ Digits1 l := by
  unfold d1B
  obtain ⟨h1, h2, h3⟩ := takeDigits_spec l
  constructor
  · intro h
    simp at h
    rw [h.2] at h1
    simp at h1
    rw [h1]
    exact ⟨by simpa using h.1, h2⟩
  · intro h
    have := takeDigits_append (a := l) (b := []) h.2 (by simp)
    simp at this
    rw [this]
    simpa using h.1

def sdB (l : List Nat) : Bool := d1B (dropSign l)

theorem sdB_iff (l : List Nat) : sdB l = true ↔ SD l := by
  unfold sdB
  rw [d1B_iff]
  constructor
  · intro h
    cases l with
    | nil => exact absurd rfl h.1
    | cons c r =>
      by_cases hc : isSignCh c = true
      · simp only [dropSign, hc, if_true] at h
        exact ⟨[c], r, rfl, Or.inr ⟨c, rfl, hc⟩, h⟩
      · simp only [dropSign, hc] at h
        exact ⟨[], c :: r, rfl, Or.inl rfl, h⟩
  · rintro ⟨sg, d, rfl, hs, hd⟩
    rcases hs with rfl | ⟨c, rfl, hc⟩
    · obtain ⟨c, d', rfl, hc, _⟩ := D1_cases hd
      simpa [dropSign, digit_not_sign hc] using hd
    · simpa [dropSign, hc] using hd


theorem expB_sound (l : List Nat) (h : expB l = true) : Exp l := by
  unfold expB at h
  split at h
  · exact Or.inl rfl
  · rename_i e sg d
    split at h
    · rename_i he
      have h' : (isSignCh sg && d1B d) = true := h
      simp only [Bool.and_eq_true, d1B_iff] at h'
      exact Or.inr (Or.inl ⟨e, sg, d, rfl, by simpa using he, h'.1, h'.2⟩)
    · split at h
      · rename_i he
        have he : e = 0x2A := by simpa using he
        subst he
        dsimp only at h
        split at h
        · cases h
        · rename_i r hr
          have h' : sdB r = true := h
          obtain ⟨s', d', rfl, hs, hd⟩ := (sdB_iff r).mp h'
          split at hr
          · rename_i hsg
            have hsg : sg = 0x5E := by simpa using hsg
            cases hr; subst hsg
            exact Or.inr (Or.inr (Or.inr ⟨s', d', by simp, hs, hd⟩))
          · split at hr
            · cases hr
              exact Or.inr (Or.inr (Or.inl ⟨s', d', by simp, hs, hd⟩))
            · cases hr
      · cases h
  · cases h

theorem expB_complete (l : List Nat) (h : Exp l) : expB l = true := by
  rcases h with rfl | ⟨ec, sg, d, rfl, hec, hs, hd⟩ | ⟨sg, d, rfl, hs, hd⟩ | ⟨sg, d, rfl, hs, hd⟩
  · rfl
  · have h' : (isSignCh sg && d1B d) = true := by simp [hs, (d1B_iff d).mpr hd]
    unfold expB
    rcases hec with rfl | rfl <;> exact h'
  · have h' : sdB (sg ++ d) = true := (sdB_iff _).mpr ⟨sg, d, rfl, hs, hd⟩
    exact h'
  · have h' : sdB (sg ++ d) = true := (sdB_iff _).mpr ⟨sg, d, rfl, hs, hd⟩
    exact h'

theorem expB_iff (l : List Nat) : expB l = true ↔ Exp l := ⟨expB_sound l, expB_complete l⟩

theorem numFormB_eq (s : List Nat) : numFormB s =
    (if (takeDigits (dropSign s)).1.isEmpty then false else
      match (takeDigits (dropSign s)).2 with
      | 0x2E :: r' => if (takeDigits r').1.isEmpty then false else expB (takeDigits r').2
      | _ => expB (takeDigits (dropSign s)).2) := rfl

theorem dropSign_spec (s : List Nat) : ∃ sg, s = sg ++ dropSign s ∧ SignOpt sg := by
  cases s with
  | nil => exact ⟨[], rfl, Or.inl rfl⟩
  | cons c r =>
    by_cases hc : isSignCh c = true
    · exact ⟨[c], by simp [dropSign, hc], Or.inr ⟨c, rfl, hc⟩⟩
    · exact ⟨[], by simp [dropSign, hc], Or.inl rfl⟩

theorem D1_of_D0 {l : List Nat} (h : D0 l) (hne : l.isEmpty = false) : Digits1 l :=
  ⟨by intro h'; subst h'; simp at hne, h⟩

theorem numFormB_sound (s : List Nat) (h : numFormB s = true) : NumForm s := by
  rw [numFormB_eq] at h
  obtain ⟨sg, hsg, hs⟩ := dropSign_spec s
  generalize dropSign s = t at *
  obtain ⟨h1, h2, _⟩ := takeDigits_spec t
  generalize takeDigits t = p at *
  split at h
  · cases h
  · rename_i hi
    have hi : Digits1 p.1 := D1_of_D0 h2 (by simpa using hi)
    split at h
    · rename_i r' hr
      obtain ⟨g1, g2, _⟩ := takeDigits_spec r'
      generalize takeDigits r' = p' at *
      split at h
      · cases h
      · rename_i hf
        have hf : Digits1 p'.1 := D1_of_D0 g2 (by simpa using hf)
        refine ⟨sg, p.1, 0x2E :: p'.1, p'.2, ?_, hs, hi, Or.inr ⟨_, rfl, hf⟩, (expB_iff _).mp h⟩
        rw [hsg, h1, hr, g1]; simp
    · exact ⟨sg, p.1, [], p.2, by rw [hsg, h1]; simp, hs, hi, Or.inl rfl, (expB_iff _).mp h⟩

theorem exp_head {e : List Nat} (he : Exp e) :
    ∀ c r, e = c :: r → isDigit c = false ∧ c ≠ 0x2E := by
  intro c r h
  rcases he with rfl | ⟨ec, sg, d, rfl, hec, _, _⟩ | ⟨sg, d, rfl, _, _⟩ | ⟨sg, d, rfl, _, _⟩
  · cases h
  · cases h; rcases hec with rfl | rfl <;> decide
  · cases h; decide
  · cases h; decide

theorem numFormB_complete (s : List Nat) (h : NumForm s) : numFormB s = true := by
  obtain ⟨sg, i, f, e, rfl, hs, hi, hf, he⟩ := h
  rw [numFormB_eq]
  have hds : dropSign (sg ++ i ++ f ++ e) = i ++ (f ++ e) := by
    obtain ⟨c, i', rfl, hc, _⟩ := D1_cases hi
    rcases hs with rfl | ⟨c', rfl, hc'⟩
    · simp [dropSign, digit_not_sign hc]
    · simp [dropSign, hc']
  have hfe : ∀ c r, f ++ e = c :: r → isDigit c = false := by
    intro c r h
    rcases hf with rfl | ⟨d, rfl, _⟩
    · exact (exp_head he c r h).1
    · cases h; decide
  rw [hds, takeDigits_append hi.2 hfe]
  have hne : i.isEmpty = false := by
    obtain ⟨c, i', rfl, _, _⟩ := D1_cases hi; rfl
  simp only [hne, Bool.false_eq_true, ↓reduceIte]
  rcases hf with rfl | ⟨d, rfl, hd⟩
  · have hexp := (expB_iff e).mpr he
    cases e with
    | nil => exact hexp
    | cons c r =>
      have := (exp_head he c r rfl).2
      simp only [List.nil_append]
      split
      · rename_i heq; cases heq; exact absurd rfl this
      · exact hexp
  · have hne' : d.isEmpty = false := by
      obtain ⟨c, d', rfl, _, _⟩ := D1_cases hd; rfl
    have : takeDigits (d ++ e) = (d, e) := takeDigits_append hd.2 (fun c r h => (exp_head he c r h).1)
    simp [this, hne', (expB_iff e).mpr he]

theorem numFormB_iff (s : List Nat) : numFormB s = true ↔ NumForm s :=
  ⟨numFormB_sound s, numFormB_complete s⟩

theorem startsLikeNumberB_iff (s : List Nat) : startsLikeNumberB s = true ↔ StartsLikeNumber s := by
  unfold startsLikeNumberB
  constructor
  · intro h
    obtain ⟨sg, hsg, hs⟩ := dropSign_spec s
    generalize dropSign s = t at *
    cases t with
    | nil => cases h
    | cons d r => exact ⟨sg, d, r, hsg, hs, h⟩
  · rintro ⟨sg, d, r, rfl, hs, hd⟩
    rcases hs with rfl | ⟨c, rfl, hc⟩
    · simp [dropSign, digit_not_sign hd, hd]
    · simp [dropSign, hc, hd]

theorem classify_eq_model (s : List Nat) :
    classify s = (match tryParseNumber s with
      | .name => IdKind.name | .number => IdKind.number | .error => IdKind.error) := by
  unfold classify
  by_cases hn : NumForm s
  · rw [(numFormB_iff s).mpr hn, (number_form s).mpr hn]; rfl
  · have hb : numFormB s = false := by
      cases h : numFormB s
      · rfl
      · exact absurd ((numFormB_iff s).mp h) hn
    by_cases hsl : StartsLikeNumber s
    · rw [hb, (startsLikeNumberB_iff s).mpr hsl, starts_like_number_rejected s hsl hn]; rfl
    · have hb2 : startsLikeNumberB s = false := by
        cases h : startsLikeNumberB s
        · rfl
        · exact absurd ((startsLikeNumberB_iff s).mp h) hsl
      rw [hb, hb2, otherwise_name s hsl]; rfl


/-! ### the text handed to strconv.ParseFloat -/

theorem replaceFirst_noop (o : Nat) (os new l : List Nat) (h : ∀ c ∈ l, c ≠ o) :
    replaceFirst (o :: os) new l = l := by
  induction l with
  | nil => rfl
  | cons c r ih =>
    have hc : ¬ o = c := fun e => h c (by simp) e.symm
    have := ih (fun x hx => h x (by simp [hx]))
    simp [replaceFirst, hc, this]

theorem replaceFirst_skip (o : Nat) (os new p r : List Nat) (h : ∀ c ∈ p, c ≠ o) :
    replaceFirst (o :: os) new (p ++ r) = p ++ replaceFirst (o :: os) new r := by
  induction p with
  | nil => rfl
  | cons c p ih =>
    have hc : ¬ o = c := fun e => h c (by simp) e.symm
    have := ih (fun x hx => h x (by simp [hx]))
    simp [replaceFirst, hc, this]

theorem nostar_digit {c : Nat} (h : isDigit c = true) : c ≠ 0x2A := by
  simp [isDigit] at h; omega
theorem nostar_signch {c : Nat} (h : isSignCh c = true) : c ≠ 0x2A := by
  simp [isSignCh] at h; omega
theorem nostar_sign {sg : List Nat} (h : SignOpt sg) : ∀ c ∈ sg, c ≠ 0x2A := by
  rcases h with rfl | ⟨c, rfl, hc⟩
  · simp
  · intro x hx; simp at hx; subst hx; exact nostar_signch hc
theorem nostar_D0 {d : List Nat} (h : D0 d) : ∀ c ∈ d, c ≠ 0x2A := fun c hc => nostar_digit (h c hc)
theorem nostar_frac {f : List Nat} (h : Frac f) : ∀ c ∈ f, c ≠ 0x2A := by
  rcases h with rfl | ⟨d, rfl, hd⟩
  · simp
  · intro x hx
    rcases List.mem_cons.mp hx with rfl | hx
    · decide
    · exact nostar_D0 hd.2 x hx
theorem nostar_append {a b : List Nat} (ha : ∀ c ∈ a, c ≠ 0x2A) (hb : ∀ c ∈ b, c ≠ 0x2A) :
    ∀ c ∈ a ++ b, c ≠ 0x2A := by
  intro c hc
  rcases List.mem_append.mp hc with h | h
  · exact ha c h
  · exact hb c h

theorem number_text_for_ParseFloat (sg i f e : List Nat) (hs : SignOpt sg) (hi : Digits1 i)
    (hf : Frac f) (he : Exp e) :
    ∃ e', ExpText e e' ∧ parseFloatText (sg ++ i ++ f ++ e) = sg ++ i ++ f ++ e' := by
  have hp : ∀ c ∈ sg ++ i ++ f, c ≠ 0x2A :=
    nostar_append (nostar_append (nostar_sign hs) (nostar_D0 hi.2)) (nostar_frac hf)
  generalize sg ++ i ++ f = p at hp
  unfold parseFloatText
  rcases he with rfl | ⟨ec, s', d, rfl, hec, hs', hd⟩ | ⟨s', d, rfl, hs', hd⟩ | ⟨s', d, rfl, hs', hd⟩
  · refine ⟨[], Or.inl ⟨rfl, rfl⟩, ?_⟩
    have h0 : ∀ c ∈ p ++ [], c ≠ 0x2A := by simpa using hp
    rw [replaceFirst_noop _ _ _ _ h0, replaceFirst_noop _ _ _ _ h0]
  · refine ⟨ec :: s' :: d, Or.inr (Or.inl ⟨ec, s', d, rfl, hec, hs', hd, rfl⟩), ?_⟩
    have h0 : ∀ c ∈ p ++ ec :: s' :: d, c ≠ 0x2A := by
      refine nostar_append hp ?_
      intro x hx
      rcases List.mem_cons.mp hx with rfl | hx
      · rcases hec with rfl | rfl <;> decide
      rcases List.mem_cons.mp hx with rfl | hx
      · exact nostar_signch hs'
      · exact nostar_D0 hd.2 x hx
    rw [replaceFirst_noop _ _ _ _ h0, replaceFirst_noop _ _ _ _ h0]
  · refine ⟨0x65 :: (s' ++ d), Or.inr (Or.inr ⟨s', d, Or.inl rfl, hs', hd, rfl⟩), ?_⟩
    have ht : ∀ c ∈ 0x31 :: 0x30 :: 0x5E :: (s' ++ d), c ≠ 0x2A := by
      intro x hx
      simp only [List.mem_cons] at hx
      rcases hx with rfl | rfl | rfl | hx
      · decide
      · decide
      · decide
      · exact nostar_append (nostar_sign hs') (nostar_D0 hd.2) x hx
    have e1 : replaceFirst [0x2A, 0x5E] [0x65] (p ++ ([0x2A, 0x31, 0x30, 0x5E] ++ s' ++ d))
        = p ++ ([0x2A, 0x31, 0x30, 0x5E] ++ s' ++ d) := by
      rw [replaceFirst_skip _ _ _ _ _ hp]
      show p ++ replaceFirst [0x2A, 0x5E] [0x65] (0x2A :: 0x31 :: 0x30 :: 0x5E :: (s' ++ d)) = _
      rw [replaceFirst]
      simp only [List.isPrefixOf]
      simp [replaceFirst_noop _ _ _ _ ht]
    rw [e1, replaceFirst_skip _ _ _ _ _ hp]
    simp [replaceFirst]
  · refine ⟨0x65 :: (s' ++ d), Or.inr (Or.inr ⟨s', d, Or.inr rfl, hs', hd, rfl⟩), ?_⟩
    have e1 : replaceFirst [0x2A, 0x5E] [0x65] (p ++ ([0x2A, 0x5E] ++ s' ++ d))
        = p ++ 0x65 :: (s' ++ d) := by
      rw [replaceFirst_skip _ _ _ _ _ hp]
      simp [replaceFirst]
    rw [e1]
    have h0 : ∀ c ∈ p ++ 0x65 :: (s' ++ d), c ≠ 0x2A := by
      refine nostar_append hp ?_
      intro x hx
      rcases List.mem_cons.mp hx with rfl | hx
      · decide
      · exact nostar_append (nostar_sign hs') (nostar_D0 hd.2) x hx
    rw [replaceFirst_noop _ _ _ _ h0]

end ZnVerif.Proofs.NumberForm
