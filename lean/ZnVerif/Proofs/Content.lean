/-
`content`: the deep read of a heap cell into a spec value (DESIGN §3), on fuel, and the facts about it
that the refinement proofs use: it only grows with fuel and with heap extension.

Cells that are not plain data (objects, methods, types, exceptions) are read through an abstraction map
`ω : Addr → Option (SVal ν)` (which must answer a non-plain spec value); `content` is the instance
`ω = fun _ => none`, the read of plain values only.  A dictionary cell is readable only when it is
well-formed: its key order lists exactly the stored keys, in storage order.
-/
import ZnVerif.Model.Interp
import ZnVerif.Spec.Sem

namespace ZnVerif.Proofs
open ZnVerif.Model ZnVerif.Spec

variable {ν : Type}

/-! ### lists -/

inductive Forall2 {α β} (R : α → β → Prop) : List α → List β → Prop
  | nil : Forall2 R [] []
  | cons {a b as bs} : R a b → Forall2 R as bs → Forall2 R (a :: as) (b :: bs)

theorem Forall2.imp {α β} {R S : α → β → Prop} (h : ∀ a b, R a b → S a b) :
    ∀ {as bs}, Forall2 R as bs → Forall2 S as bs
  | _, _, .nil => .nil
  | _, _, .cons r rest => .cons (h _ _ r) (Forall2.imp h rest)

theorem Forall2.length_eq {α β} {R : α → β → Prop} : ∀ {as bs}, Forall2 R as bs → as.length = bs.length
  | _, _, .nil => rfl
  | _, _, .cons _ rest => by simp [Forall2.length_eq rest]

theorem Forall2.append {α β} {R : α → β → Prop} : ∀ {as bs as' bs'}, Forall2 R as bs → Forall2 R as' bs' →
    Forall2 R (as ++ as') (bs ++ bs')
  | _, _, _, _, .nil, h => h
  | _, _, _, _, .cons r rest, h => .cons r (Forall2.append rest h)

def allSome {α} : List (Option α) → Option (List α)
  | [] => some []
  | none :: _ => none
  | some x :: rest => match allSome rest with
    | some r => some (x :: r)
    | none => none

theorem allSome_map_eq_some {α β} (f : α → Option β) :
    ∀ (as : List α) (bs : List β), allSome (as.map f) = some bs ↔ Forall2 (fun a b => f a = some b) as bs
  | [], bs => by
    constructor
    · intro h; simp [allSome] at h; subst h; exact .nil
    · intro h; cases h; rfl
  | a :: as, bs => by
    constructor
    · intro h
      simp only [List.map_cons] at h
      cases hfa : f a with
      | none => rw [hfa] at h; simp [allSome] at h
      | some b =>
        rw [hfa] at h
        simp only [allSome] at h
        cases hr : allSome (as.map f) with
        | none => rw [hr] at h; simp at h
        | some r =>
          rw [hr] at h; simp at h; subst h
          exact .cons hfa ((allSome_map_eq_some f as r).1 hr)
    · intro h
      cases h with
      | cons hab rest =>
        simp only [List.map_cons, hab, allSome, (allSome_map_eq_some f as _).2 rest]

theorem lookup_eq_none_iff {β} (key : String) : ∀ (l : List (String × β)), lookup key l = none ↔ key ∉ l.map Prod.fst
  | [] => by simp [lookup]
  | (k', v) :: rest => by
    by_cases h : key = k'
    · simp [lookup, h]
    · simp [lookup, h, lookup_eq_none_iff key rest]

/-! ### content -/

def isOpaque : SVal ν → Bool
  | .obj _ | .fn _ | .builtinFn _ | .cls _ | .exc _ | .fault _ => true
  | _ => false

/-- the deep read, with `ω` answering for non-plain cells -/
def contentW (ω : Addr → Option (SVal ν)) : Nat → Array (Cell ν) → Addr → Option (SVal ν)
  | 0, _, _ => none
  | k+1, h, a =>
    match h[a]? with
    | none => none
    | some (.num x) => some (.num x)
    | some (.str s) => some (.str s)
    | some (.bool b) => some (.bool b)
    | some .null => some .null
    | some (.arr items) => (allSome (items.map (contentW ω k h))).map .list
    | some (.hm vals order) =>
      if order = vals.map Prod.fst then
        (allSome (order.map fun key => match lookup key vals with
            | some a => (contentW ω k h a).map fun v => (key, v)
            | none => none)).map .dict
      else none
    | some _ => match ω a with
      | some v => if isOpaque v then some v else none
      | none => none

/-- the deep read of plain values (numbers, texts, booleans, 空, lists, dictionaries) -/
abbrev content : Nat → Array (Cell ν) → Addr → Option (SVal ν) := contentW (fun _ => none)

/-- one layer of `contentW`: what a cell `c` at `a` reads as, given the read `child` of its components -/
def Layer (ω : Addr → Option (SVal ν)) (child : Addr → Option (SVal ν)) (a : Addr) (c : Cell ν) (v : SVal ν) : Prop :=
  match c with
  | .num x => v = .num x
  | .str s => v = .str s
  | .bool b => v = .bool b
  | .null => v = .null
  | .arr items => ∃ vs, v = .list vs ∧ Forall2 (fun a v => child a = some v) items vs
  | .hm vals order => order = vals.map Prod.fst ∧ ∃ kvs, v = .dict kvs ∧
      Forall2 (fun key (kv : String × SVal ν) => kv.1 = key ∧ ∃ a, lookup key vals = some a ∧ child a = some kv.2) order kvs
  | _ => ω a = some v ∧ isOpaque v = true

theorem hmItem_iff (child : Addr → Option (SVal ν)) (vals : List (String × Addr)) (key : String) (kv : String × SVal ν) :
    (match lookup key vals with
      | some a => (child a).map fun v => (key, v)
      | none => none) = some kv ↔ (kv.1 = key ∧ ∃ a, lookup key vals = some a ∧ child a = some kv.2) := by
  cases hl : lookup key vals with
  | none => simp
  | some a =>
    cases hc : child a with
    | none => simp [hc]
    | some v =>
      simp [hc]
      constructor
      · rintro rfl; exact ⟨rfl, rfl⟩
      · rintro ⟨h1, h2⟩; cases kv; simp_all

theorem contentW_succ_iff (ω : Addr → Option (SVal ν)) (k : Nat) (h : Array (Cell ν)) (a : Addr) (v : SVal ν) :
    contentW ω (k+1) h a = some v ↔ ∃ c, h[a]? = some c ∧ Layer ω (contentW ω k h) a c v := by
  cases hc : h[a]? with
  | none => simp [contentW, hc]
  | some c =>
    cases c <;> simp only [contentW, hc, Layer, Option.some.injEq, exists_eq_left']
    case num | str | bool | null => exact eq_comm
    case arr items =>
      cases hr : allSome (items.map (contentW ω k h)) with
      | none =>
        simp only [Option.map_none, reduceCtorEq, false_iff, not_exists, not_and]
        intro vs _ hf
        rw [(allSome_map_eq_some _ _ _).2 hf] at hr; cases hr
      | some r =>
        simp only [Option.map_some, Option.some.injEq]
        have := (allSome_map_eq_some _ _ _).1 hr
        constructor
        · intro h; exact ⟨r, h.symm, this⟩
        · rintro ⟨vs, rfl, hf⟩
          rw [(allSome_map_eq_some _ _ _).2 hf] at hr; cases hr; rfl
    case hm vals order =>
      by_cases ho : order = vals.map Prod.fst
      · simp only [ho, if_true, true_and]
        generalize hg : (fun key => match lookup key vals with
            | some a => (contentW ω k h a).map fun v => (key, v)
            | none => none) = g
        have hgi : ∀ key kv, g key = some kv ↔ (kv.1 = key ∧ ∃ a, lookup key vals = some a ∧ contentW ω k h a = some kv.2) := by
          intro key kv; rw [← hg]; exact hmItem_iff _ _ _ _
        cases hr : allSome ((vals.map Prod.fst).map g) with
        | none =>
          simp only [Option.map_none, reduceCtorEq, false_iff, not_exists, not_and]
          intro kvs _ hf
          have hf' := Forall2.imp (fun a b hab => (hgi a b).2 hab) hf
          rw [(allSome_map_eq_some _ _ _).2 hf'] at hr; cases hr
        | some r =>
          simp only [Option.map_some, Option.some.injEq]
          have := Forall2.imp (fun a b hab => (hgi a b).1 hab) ((allSome_map_eq_some _ _ _).1 hr)
          constructor
          · intro h; exact ⟨r, h.symm, this⟩
          · rintro ⟨kvs, rfl, hf⟩
            have hf' := Forall2.imp (fun a b hab => (hgi a b).2 hab) hf
            rw [(allSome_map_eq_some _ _ _).2 hf'] at hr; cases hr; rfl
      · simp [ho]
    all_goals
      cases hw : ω a with
      | none => simp
      | some w =>
        by_cases hop : isOpaque w = true
        · simp only [hop, if_true, Option.some.injEq]
          constructor
          · rintro rfl; exact ⟨rfl, hop⟩
          · rintro ⟨rfl, _⟩; rfl
        · simp only [hop, Option.some.injEq]
          simp only [Bool.false_eq_true, if_false, reduceCtorEq, false_iff, not_and]
          rintro rfl; exact hop

theorem Layer.mono {ω : Addr → Option (SVal ν)} {child child' : Addr → Option (SVal ν)}
    (hc : ∀ a v, child a = some v → child' a = some v) {a : Addr} {c : Cell ν} {v : SVal ν}
    (h : Layer ω child a c v) : Layer ω child' a c v := by
  cases c <;> simp only [Layer] at h ⊢ <;> try exact h
  case arr items =>
    obtain ⟨vs, rfl, hf⟩ := h
    exact ⟨vs, rfl, hf.imp fun a b hab => hc a b hab⟩
  case hm vals order =>
    obtain ⟨ho, kvs, rfl, hf⟩ := h
    exact ⟨ho, kvs, rfl, hf.imp fun key kv ⟨h1, a, h2, h3⟩ => ⟨h1, a, h2, hc _ _ h3⟩⟩

theorem contentW_pos {ω : Addr → Option (SVal ν)} {k h a} {v : SVal ν} (hk : contentW ω k h a = some v) : 0 < k := by
  cases k with
  | zero => simp [contentW] at hk
  | succ k => exact Nat.succ_pos k

theorem contentW_succ {ω : Addr → Option (SVal ν)} : ∀ {k h a} {v : SVal ν},
    contentW ω k h a = some v → contentW ω (k+1) h a = some v
  | 0, _, _, _, hk => by simp [contentW] at hk
  | k+1, h, a, v, hk => by
    obtain ⟨c, hc, hl⟩ := (contentW_succ_iff ω k h a v).1 hk
    exact (contentW_succ_iff ω (k+1) h a v).2 ⟨c, hc, hl.mono fun a v hav => contentW_succ hav⟩

theorem contentW_mono {ω : Addr → Option (SVal ν)} {k k' h a} {v : SVal ν} (hkk : k ≤ k')
    (hk : contentW ω k h a = some v) : contentW ω k' h a = some v := by
  induction hkk with
  | refl => exact hk
  | step _ ih => exact contentW_succ ih

/-- every defined cell of `h` is the same cell in `h'` (evaluation only allocates) -/
def HeapLe (h h' : Array (Cell ν)) : Prop := ∀ (i : Nat) (c : Cell ν), h[i]? = some c → h'[i]? = some c

theorem HeapLe.refl (h : Array (Cell ν)) : HeapLe h h := fun _ _ x => x
theorem HeapLe.trans {h h' h'' : Array (Cell ν)} (a : HeapLe h h') (b : HeapLe h' h'') : HeapLe h h'' :=
  fun i c x => b i c (a i c x)
theorem HeapLe.push (h : Array (Cell ν)) (c : Cell ν) : HeapLe h (h.push c) := by
  intro i c' hi
  have hlt : i < h.size := by
    rcases Nat.lt_or_ge i h.size with hlt | hge
    · exact hlt
    · rw [Array.getElem?_eq_none hge] at hi; cases hi
  rw [Array.getElem?_push]
  have : i ≠ h.size := Nat.ne_of_lt hlt
  simp [this, hi]

theorem contentW_heap {ω : Addr → Option (SVal ν)} {h h' : Array (Cell ν)} (hle : HeapLe h h') : ∀ {k a} {v : SVal ν},
    contentW ω k h a = some v → contentW ω k h' a = some v
  | 0, _, _, hk => by simp [contentW] at hk
  | k+1, a, v, hk => by
    obtain ⟨c, hc, hl⟩ := (contentW_succ_iff ω k h a v).1 hk
    exact (contentW_succ_iff ω k h' a v).2 ⟨c, hle _ _ hc, hl.mono fun a v hav => contentW_heap hle hav⟩

/-- the freshly pushed cell reads as its layer -/
theorem contentW_push_new {ω : Addr → Option (SVal ν)} (k : Nat) (h : Array (Cell ν)) (c : Cell ν) (v : SVal ν)
    (hl : Layer ω (contentW ω k (h.push c)) h.size c v) : contentW ω (k+1) (h.push c) h.size = some v :=
  (contentW_succ_iff ω k _ _ v).2 ⟨c, by simp, hl⟩

end ZnVerif.Proofs
