/-
Helper lemmas for C14: the small unicode/utf8 model of Model/TextOps.lean — decoding undoes encoding on
scalar values, so a text that is a sequence of characters is walked character by character.
-/
import ZnVerif.Model.TextOps

namespace ZnVerif.Proofs.TextUtf8
open ZnVerif.Model.TextOps

/-- a text whose characters are all Unicode scalar values -/
def ValidText (t : List Nat) : Prop := ∀ c ∈ t, isScalar c = true

theorem validText_cons (c : Nat) (t : List Nat) : ValidText (c :: t) ↔ isScalar c = true ∧ ValidText t := by
  simp [ValidText]

theorem validText_append (a b : List Nat) : ValidText (a ++ b) ↔ ValidText a ∧ ValidText b := by
  simp only [ValidText, List.mem_append]
  constructor
  · intro h; exact ⟨fun c hc => h c (Or.inl hc), fun c hc => h c (Or.inr hc)⟩
  · rintro ⟨h1, h2⟩ c (hc | hc)
    · exact h1 c hc
    · exact h2 c hc

theorem isScalar_iff (c : Nat) : isScalar c = true ↔ (c < 0xD800 ∨ (0xE000 ≤ c ∧ c ≤ 0x10FFFF)) := by
  simp [isScalar]

theorem encodeRune_ne_nil (c : Nat) : encodeRune c ≠ [] := by
  unfold encodeRune; split <;> (try split) <;> (try split) <;> (try split) <;> simp

theorem encodeRune_length_pos (c : Nat) : 0 < (encodeRune c).length :=
  List.length_pos_iff.mpr (encodeRune_ne_nil c)

/-- `DecodeRune(AppendRune(c) ++ rest) = (c, len)` for every scalar value -/
theorem decodeRune_encode (c : Nat) (hc : isScalar c = true) (rest : List Nat) :
    decodeRune (encodeRune c ++ rest) = (c, (encodeRune c).length) := by
  have hs := (isScalar_iff c).1 hc
  unfold encodeRune
  by_cases h1 : c < 0x80
  · simp [h1, decodeRune]
  by_cases h2 : c < 0x800
  · simp only [h1, h2, if_false, if_true, List.cons_append, List.nil_append, decodeRune, isCont]
    have a1 : ¬ (0xC0 + c / 64 < 0x80) := by omega
    have a2 : ¬ (0xC0 + c / 64 < 0xC2) := by omega
    have a3 : (0xC0 + c / 64 < 0xE0) := by omega
    simp only [a1, a2, a3, if_false, if_true]
    have a4 : (0x80 ≤ 0x80 + c % 64 && 0x80 + c % 64 ≤ 0xBF) = true := by simp; omega
    simp only [a4, if_true]
    simp; omega
  have hsc : (!isScalar c) = false := by simp [hc]
  have k0 : isCont (0x80 + c % 64) = true := by simp [isCont]; omega
  have k1 : isCont (0x80 + c / 64 % 64) = true := by simp [isCont]; omega
  by_cases h3 : c < 0x10000
  · have e : (if c < 0x80 then [c] else if c < 0x800 then [0xC0 + c / 64, 0x80 + c % 64]
        else if (!isScalar c) = true then [0xEF, 0xBF, 0xBD]
        else if c < 0x10000 then [0xE0 + c / 4096, 0x80 + c / 64 % 64, 0x80 + c % 64]
        else [0xF0 + c / 262144, 0x80 + c / 4096 % 64, 0x80 + c / 64 % 64, 0x80 + c % 64]) =
        [0xE0 + c / 4096, 0x80 + c / 64 % 64, 0x80 + c % 64] := by
      simp [h1, h2, h3, hsc]
    rw [e]
    have a1 : ¬ (0xE0 + c / 4096 < 0x80) := by omega
    have a2 : ¬ (0xE0 + c / 4096 < 0xC2) := by omega
    have a3 : ¬ (0xE0 + c / 4096 < 0xE0) := by omega
    have a4 : (0xE0 + c / 4096 < 0xF0) := by omega
    have a5 : (if 0xE0 + c / 4096 = 0xE0 then 0xA0 else 0x80) ≤ 0x80 + c / 64 % 64 := by
      split <;> omega
    have a6 : 0x80 + c / 64 % 64 ≤ (if 0xE0 + c / 4096 = 0xED then 0x9F else 0xBF) := by
      split <;> omega
    simp only [List.cons_append, List.nil_append, decodeRune, a1, a2, a3, a4, if_false, if_true, a5, a6, k0, and_self,
      List.length_cons, List.length_nil]
    simp; omega
  · have e : (if c < 0x80 then [c] else if c < 0x800 then [0xC0 + c / 64, 0x80 + c % 64]
        else if (!isScalar c) = true then [0xEF, 0xBF, 0xBD]
        else if c < 0x10000 then [0xE0 + c / 4096, 0x80 + c / 64 % 64, 0x80 + c % 64]
        else [0xF0 + c / 262144, 0x80 + c / 4096 % 64, 0x80 + c / 64 % 64, 0x80 + c % 64]) =
        [0xF0 + c / 262144, 0x80 + c / 4096 % 64, 0x80 + c / 64 % 64, 0x80 + c % 64] := by
      simp [h1, h2, h3, hsc]
    rw [e]
    have a1 : ¬ (0xF0 + c / 262144 < 0x80) := by omega
    have a2 : ¬ (0xF0 + c / 262144 < 0xC2) := by omega
    have a3 : ¬ (0xF0 + c / 262144 < 0xE0) := by omega
    have a4 : ¬ (0xF0 + c / 262144 < 0xF0) := by omega
    have a4' : (0xF0 + c / 262144 < 0xF5) := by omega
    have a5 : (if 0xF0 + c / 262144 = 0xF0 then 0x90 else 0x80) ≤ 0x80 + c / 4096 % 64 := by
      split <;> omega
    have a6 : 0x80 + c / 4096 % 64 ≤ (if 0xF0 + c / 262144 = 0xF4 then 0x8F else 0xBF) := by
      split <;> omega
    simp only [List.cons_append, List.nil_append, decodeRune, a1, a2, a3, a4, a4', if_false, if_true, a5, a6, k0, k1,
      and_self, List.length_cons, List.length_nil]
    simp; omega

/-- the first byte of an encoded scalar is no continuation byte, all others are -/
theorem encodeRune_shape (c : Nat) (hc : isScalar c = true) :
    ∃ b bs, encodeRune c = b :: bs ∧ isCont b = false ∧ ∀ x ∈ bs, isCont x = true := by
  have hs := (isScalar_iff c).1 hc
  have hsc : (!isScalar c) = false := by simp [hc]
  unfold encodeRune
  by_cases h1 : c < 0x80
  · refine ⟨c, [], by simp [h1], ?_, by simp⟩
    simp [isCont]; omega
  by_cases h2 : c < 0x800
  · refine ⟨0xC0 + c / 64, [0x80 + c % 64], by simp [h1, h2], ?_, ?_⟩
    · simp [isCont]; omega
    · intro x hx; simp at hx; subst hx; simp [isCont]; omega
  by_cases h3 : c < 0x10000
  · refine ⟨0xE0 + c / 4096, [0x80 + c / 64 % 64, 0x80 + c % 64], by simp [h1, h2, h3, hsc], ?_, ?_⟩
    · simp [isCont]; omega
    · intro x hx; simp at hx; rcases hx with rfl | rfl <;> (simp [isCont]; omega)
  · refine ⟨0xF0 + c / 262144, [0x80 + c / 4096 % 64, 0x80 + c / 64 % 64, 0x80 + c % 64], by simp [h1, h2, h3, hsc], ?_, ?_⟩
    · simp [isCont]; omega
    · intro x hx; simp at hx; rcases hx with rfl | rfl | rfl <;> (simp [isCont]; omega)

theorem encode_cons (c : Nat) (t : List Nat) : encode (c :: t) = encodeRune c ++ encode t := by
  simp [encode]

theorem encode_append (a b : List Nat) : encode (a ++ b) = encode a ++ encode b := by
  simp [encode]

theorem encode_nil : encode [] = [] := rfl

/-- walking an encoded text yields its characters, each with exactly its own bytes -/
theorem decodeLoop_encode : ∀ (t : List Nat), ValidText t → ∀ fuel, (encode t).length ≤ fuel →
    decodeLoop fuel (encode t) = t.map (fun c => (c, encodeRune c)) := by
  intro t
  induction t with
  | nil =>
    intro _ fuel _
    cases fuel <;> simp [encode, decodeLoop]
  | cons c t ih =>
    intro hv fuel hf
    obtain ⟨hc, hvt⟩ := (validText_cons c t).1 hv
    rw [encode_cons] at hf ⊢
    obtain ⟨b, bs, hb, _, _⟩ := encodeRune_shape c hc
    have hdec := decodeRune_encode c hc (encode t)
    cases fuel with
    | zero => rw [hb] at hf; simp at hf
    | succ n =>
      have hlen : (encode t).length ≤ n := by
        rw [hb] at hf; simp at hf; omega
      rw [hb] at hdec ⊢
      simp only [List.cons_append, decodeLoop]
      simp only [List.cons_append] at hdec
      rw [hdec]
      dsimp only
      have htake : (b :: (bs ++ encode t)).take (b :: bs).length = b :: bs := by
        have : b :: (bs ++ encode t) = (b :: bs) ++ encode t := by simp
        rw [this, List.take_left']
        rfl
      have hdrop : (b :: (bs ++ encode t)).drop (b :: bs).length = encode t := by
        have : b :: (bs ++ encode t) = (b :: bs) ++ encode t := by simp
        rw [this, List.drop_left']
        rfl
      rw [htake, hdrop, ih hvt n hlen]
      simp [hb]

theorem runes_encode (t : List Nat) (hv : ValidText t) : runes (encode t) = t := by
  simp [runes, decodeLoop_encode t hv _ (Nat.le_refl _), List.map_map, Function.comp_def]

theorem length_encode (t : List Nat) (hv : ValidText t) : length (encode t) = t.length := by
  simp [length, decodeLoop_encode t hv _ (Nat.le_refl _)]

theorem chars_encode (t : List Nat) (hv : ValidText t) : chars (encode t) = t.map encodeRune := by
  simp [chars, decodeLoop_encode t hv _ (Nat.le_refl _), List.map_map, Function.comp_def]

theorem explode_encode (t : List Nat) (hv : ValidText t) : explode (encode t) = t.map encodeRune := by
  simp [explode, decodeLoop_encode t hv _ (Nat.le_refl _), List.map_map, Function.comp_def]

/-- unique decodability: encodings are prefix-free -/
theorem encode_prefix_cons (a b : Nat) (ha : isScalar a = true) (hb : isScalar b = true) (x y : List Nat)
    (h : encodeRune a ++ x = encodeRune b ++ y) : a = b ∧ x = y := by
  have h1 := decodeRune_encode a ha x
  have h2 := decodeRune_encode b hb y
  rw [h] at h1
  rw [h1] at h2
  have hab : a = b := by simpa using congrArg Prod.fst h2
  subst hab
  exact ⟨rfl, List.append_cancel_left h⟩

end ZnVerif.Proofs.TextUtf8
