/-
C01 refinement, base layer: the pure expression fragment, the environment relation, and the simulation
lemmas for names, literals and `mapM`.
-/
import ZnVerif.Proofs.XEq
set_option linter.unusedSectionVars false
set_option linter.unusedSimpArgs false

namespace ZnVerif.Proofs
open ZnVerif.Model ZnVerif.Spec

variable {ν : Type} [NumOps ν]

/-! ### the fragment -/

/-- the operator codes the parser produces for comparison / logic nodes and for arithmetic nodes -/
def logicTys : List Nat := [LogicOR, LogicAND, LogicEQ, LogicNEQ, LogicGT, LogicGTE, LogicLT, LogicLTE, LogicXEQ, LogicXNEQ]
def arithTys : List Nat := [ArithAdd, ArithSub, ArithMul, ArithDiv, ArithIntDiv, ArithModulo]

/-- expressions built from numbers, names, texts, list and dictionary literals, and the arithmetic,
comparison and logic operators (no calls, member access, assignment, construction) -/
inductive PureExpr : Expr → Prop
  | id (i : Ident) : PureExpr (.id i)
  | str (ln : Nat) (t : String) : PureExpr (.str ln t)
  | arr (ln : Nat) (items : List Expr) : (∀ e ∈ items, PureExpr e) → PureExpr (.arr ln items)
  | hm (ln : Nat) (kvs : List (Expr × Expr)) : (∀ kv ∈ kvs, PureExpr kv.2) → PureExpr (.hm ln kvs)
  | logic (ln ty : Nat) (l r : Expr) : ty ∈ logicTys → PureExpr l → PureExpr r → PureExpr (.logic ln ty l r)
  | arith (ln ty : Nat) (l r : Expr) : ty ∈ arithTys → PureExpr l → PureExpr r → PureExpr (.arith ln ty l r)

/-! ### environments -/

/-- what `findElement` answers: globals first, then the scope of the current module -/
def visible (s : VM ν) (name : String) : Option Addr :=
  match lookup name s.globals with
  | some a => some a
  | none =>
    match getScope s.csModuleID s with
    | none => none
    | some sc =>
      match sc.find name with
      | some sy => some sy.val
      | none => none

theorem findElement_eq (s : VM ν) (name : String) :
    findElement name s = (match visible s name with | some a => .ok a | none => .err (.rt 42), s) := by
  simp only [findElement, visible, M.bind_def, getVM]
  cases lookup name s.globals with
  | some a => rfl
  | none =>
    simp only []
    rw [M.bind_def]
    simp only [currentScope]
    cases getScope s.csModuleID s with
    | none => rfl
    | some sc =>
      simp only []
      cases sc.find name <;> rfl

/-- what `lookupName` answers: predefined names first, then the blocks innermost first -/
def specVisible (σ : SState ν) (name : String) : Option (SVal ν) :=
  match predefVal name with
  | some v => some v
  | none =>
    match findB name σ.env with
    | some b => some b.val
    | none => none

theorem lookupName_eq (σ : SState ν) (name : String) :
    lookupName name σ = (match specVisible σ name with | some v => .ok v | none => .raise (.fault 42), σ) := by
  simp only [lookupName, specVisible]
  cases predefVal (ν := ν) name with
  | some v => rfl
  | none =>
    simp only [SM.bind_def, getS]
    cases findB name σ.env <;> rfl

/-- every name `findElement` can see is bound in the spec state to what its cell reads as (within
fuel `d+1`: `d = 0` means scalars and empty containers), and names undefined on one side are undefined on the other -/
def EnvRel (ω : Addr → Option (SVal ν)) (d : Nat) (s : VM ν) (σ : SState ν) : Prop :=
  ∀ name, match visible s name, specVisible σ name with
    | some a, some v => contentW ω (d+1) s.heap a = some v
    | none, none => True
    | _, _ => False

theorem EnvRel.frame {ω : Addr → Option (SVal ν)} {d : Nat} {s s' : VM ν} {σ : SState ν}
    (h : EnvRel ω d s σ) (hF : Frame s s') : EnvRel ω d s' σ := by
  intro name
  have hv : visible s' name = visible s name := by
    rw [hF.same]; rfl
  have := h name
  rw [hv]
  cases h1 : visible s name <;> cases h2 : specVisible σ name <;> simp only [h1, h2] at this ⊢
  exact contentW_heap hF.le this

theorem sim_find {ω : Addr → Option (SVal ν)} {d : Nat} {s : VM ν} {σ : SState ν} (h : EnvRel ω d s σ) (name : String) :
    Sim d (Reads ω (d+1)) s σ (findElement name) (lookupName name) := by
  unfold Sim
  rw [findElement_eq, lookupName_eq]
  have := h name
  cases h1 : visible s name <;> cases h2 : specVisible σ name <;> simp only [h1, h2] at this ⊢
  · exact ⟨_, rfl, .inr ⟨_, s, rfl, Frame.refl s, .rt 42⟩⟩
  · exact ⟨_, rfl, .inr ⟨_, s, rfl, Frame.refl s, .ok this⟩⟩

/-! ### literals and identifiers -/

inductive IdRel : IdType ν → IdK ν → Prop
  | name (t : String) : IdRel (.name t) (.name t)
  | number (x : ν) : IdRel (.number x) (.number x)

theorem sim_matchID {d : Nat} {s : VM ν} {σ : SState ν} (lit : String) :
    Sim d (fun _ => IdRel) s σ (matchIDType lit) (classifyId lit) := by
  unfold matchIDType classifyId
  have : Spec.strCps lit = Model.strCps lit := rfl
  rw [this]
  cases tryParseNumber (Model.strCps lit)
  · exact sim_pure (.name lit)
  · exact sim_pure (.number _)
  · exact sim_sem 30

/-! ### `mapM` -/

theorem sim_mapM {ι α α' : Type} {d : Nat} {σ : SState ν} {f : ι → M ν α} {f' : ι → SM ν α'}
    {Q : VM ν → α → α' → Prop} (hQ : ∀ s s' a v, Frame s s' → Q s a v → Q s' a v) :
    ∀ (is : List ι) (s : VM ν), (∀ i ∈ is, ∀ s1, Frame s s1 → Sim d Q s1 σ (f i) (f' i)) →
      Sim d (fun s as vs => Forall2 (Q s) as vs) s σ (is.mapM f) (is.mapM f')
  | [], s, _ => by
    rw [List.mapM_nil, List.mapM_nil]; exact sim_pure .nil
  | i :: is, s, h => by
    rw [List.mapM_cons, List.mapM_cons]
    refine sim_bind (h i (List.mem_cons_self) s (Frame.refl s)) fun s1 a v hF1 hq => ?_
    refine sim_bind (sim_mapM hQ is s1 fun j hj s2 hF2 => h j (List.mem_cons_of_mem _ hj) s2 (hF1.trans hF2))
      fun s2 as vs hF2 hqs => ?_
    exact sim_pure (.cons (hQ _ _ _ _ hF2 hq) hqs)

/-! ### helpers shared by the operator cases -/

theorem Reads.cell {ω : Addr → Option (SVal ν)} {k : Nat} {s : VM ν} {a : Addr} {v : SVal ν} (h : Reads ω k s a v) :
    ∃ k' c, k = k' + 1 ∧ s.heap[a]? = some c ∧ Layer ω (contentW ω k' s.heap) a c v := by
  cases k with
  | zero => simp [Reads, contentW] at h
  | succ k' =>
    obtain ⟨c, hc, hl⟩ := (contentW_succ_iff ω k' _ _ _).1 h
    exact ⟨k', c, rfl, hc, hl⟩

/-- allocation of a scalar cell -/
theorem sim_alloc_scalar {d : Nat} {ω : Addr → Option (SVal ν)} {k : Nat} {s : VM ν} {σ : SState ν} (c : Cell ν) (v : SVal ν)
    (hk : 0 < k) (hl : ∀ child a, Layer ω child a c v) :
    Sim d (Reads ω k) s σ (alloc c) (pure v) := by
  obtain ⟨k', rfl⟩ : ∃ k', k = k' + 1 := ⟨k - 1, by omega⟩
  exact sim_alloc c v (hl _ _)

theorem sim_fuelCmp {α α' : Type} {d : Nat} {Q : VM ν → α → α' → Prop} {s : VM ν} {σ : SState ν} (hd : d ≠ 0) :
    Sim d Q s σ outOfFuel (fault 83) :=
  ⟨_, rfl, .inr ⟨_, s, rfl, Frame.refl s, .fuelCmp hd⟩⟩

/-- the induction hypothesis of the refinement theorem at fuel `n` -/
abbrev IH (ω : Addr → Option (SVal ν)) (d n : Nat) : Prop :=
  ∀ (e : Expr) (s : VM ν) (σ : SState ν), PureExpr e → EnvRel ω d s σ →
    Sim d (Reads ω (n + d)) s σ (evalExpr n e) (evalE n e)

macro "reject " h:ident v:ident " with " t:term : tactic =>
  `(tactic| first
    | (subst $h; exact $t)
    | (obtain ⟨_, rfl, _⟩ := $h; exact $t)
    | (obtain ⟨_, _, rfl, _⟩ := $h; exact $t)
    | (obtain ⟨_, hop⟩ := $h; cases $v:ident <;> simp [isOpaque] at hop <;> exact $t))

end ZnVerif.Proofs
