/-
C03 at character level, parser part 1: the relational logic between the parser driven by the REAL lexer (`realOps`: tokens from
`NextToken`, line table as known so far) and the parser on the token list read against the final layout (`layoutOps Y`), along a
`Run` (Proofs/LexRun.lean).

`OK R j s`     — the real-side state `s` has its lexer at `R.st (j+1)` (the tokens `0 … j` have been read), its line indices lie inside
                 the table known there, and its peek token is one of the tokens read.
`toL s ts`     — the layout-side state: the same window over the token list `ts`.
`Sim R j s x1 x2 Q` — from related states at index `j`, `x1` (real) and `x2` (layout) end alike: equal values and related states at some
                 later index `j'`, where `Q j' a` holds of the value; equal errors; both panic; both out of fuel.
Values are equal on both sides; the only values that need a side condition are TOKENS held in local variables: the line of a token
(`lineOf`) is the same on both sides only for tokens already read (`PastTok`), because the real side knows the table only so far.
-/
import ZnVerif.Proofs.LexRun

namespace ZnVerif.Proofs.LexSim
open ZnVerif.Model ZnVerif.Model.Parser ZnVerif.Generated.Tokens ZnVerif.Generated.ParserTables
open ZnVerif.Spec.StmtSyntax ZnVerif.Proofs.LexRun

/-! ### `findLineIdx` on a table that is known as far as the position's line -/

theorem aux_lt (L : Array LineInfo) (c : Nat) : ∀ (k i : Nat), i < L.size → findLineIdxAux L c k i < L.size := by
  intro k
  induction k with
  | zero => intro i h; exact h
  | succ k ih =>
    intro i h
    unfold findLineIdxAux
    split
    · split
      · exact h
      · exact ih _ ‹_›
    · exact h

theorem findLineIdx_lt (L : Array LineInfo) (c i : Nat) (h : i < L.size) : findLineIdx L c i < L.size :=
  aux_lt L c _ i h

/-- the position `c` lies on line `K`: every line up to `K` starts at or before `c`, the next line (if any) after `c` -/
theorem aux_on_line (L : Array LineInfo) (c K : Nat) (hK : K < L.size)
    (hle : ∀ m a, m ≤ K → L[m]? = some a → a.startIdx ≤ c)
    (hgt : ∀ b, L[K + 1]? = some b → c < b.startIdx) :
    ∀ (k i : Nat), i ≤ K → K - i ≤ k → findLineIdxAux L c k i = K := by
  intro k
  induction k with
  | zero => intro i h1 h2; show i = K; omega
  | succ k ih =>
    intro i h1 h2
    unfold findLineIdxAux
    by_cases hi : i = K
    · subst hi
      split
      · rename_i h
        have := hgt L[i + 1] (by simp [h])
        simp [this]
      · rfl
    · have h : i + 1 < L.size := by omega
      simp only [h, ↓reduceDIte]
      have := hle (i + 1) L[i + 1] (by omega) (by simp [h])
      have hn : ¬ c < L[i + 1].startIdx := by omega
      simp only [hn, ↓reduceIte]
      exact ih (i + 1) (by omega) (by omega)

theorem findLineIdx_on_line (L : Array LineInfo) (c K i : Nat) (hK : K < L.size)
    (hle : ∀ m a, m ≤ K → L[m]? = some a → a.startIdx ≤ c)
    (hgt : ∀ b, L[K + 1]? = some b → c < b.startIdx) (hi : i ≤ K) : findLineIdx L c i = K :=
  aux_on_line L c K hK hle hgt _ i hi (by omega)

section run
variable {Y : Layout} (R : Run Y)

/-- number of lines known after token `j` -/
def nl (j : Nat) : Nat := (R.st (j + 1)).lines.size

theorem nl_mono {i j : Nat} (h : i ≤ j) : nl R i ≤ nl R j := by
  induction j with
  | zero => have : i = 0 := by omega
            subst this; exact Nat.le_refl _
  | succ j ih =>
    by_cases hij : i = j + 1
    · subst hij; exact Nat.le_refl _
    · exact Nat.le_trans (ih (by omega)) (R.size_mono j)

theorem nl_pos (j : Nat) : 0 < nl R j := R.size_pos j

theorem start_known {j m : Nat} (hm : m < nl R j) : ∃ a b, (R.st (j + 1)).lines[m]? = some a ∧ Y.lines[m]? = some b ∧
    a.startIdx = b.startIdx ∧ a.indents = b.indents := by
  obtain ⟨h1, h2⟩ := R.pre j m hm
  have ha : (R.st (j + 1)).lines[m]? = some ((R.st (j + 1)).lines[m]'hm) := by simp [nl] at hm; simp [hm]
  rw [ha] at h1 h2
  cases hb : Y.lines[m]? with
  | none => rw [hb] at h1; simp at h1
  | some b =>
    rw [hb] at h1 h2
    simp at h1 h2
    exact ⟨_, b, ha, rfl, h1, h2⟩

theorem nl_le_final (j : Nat) : nl R j ≤ Y.lines.size := by
  have hp := nl_pos R j
  obtain ⟨a, b, _, hb, _⟩ := start_known R (j := j) (m := nl R j - 1) (by omega)
  have : nl R j - 1 < Y.lines.size := by
    rcases Nat.lt_or_ge (nl R j - 1) Y.lines.size with h | h
    · exact h
    · rw [Array.getElem?_eq_none h] at hb; cases hb
  omega

/-- the final table around a position on line `K`, seen from the table known after token `j` -/
theorem known_line {j K : Nat} (hK : K < nl R j) (c : Nat)
    (f1 : ∀ m a, m ≤ K → Y.lines[m]? = some a → a.startIdx ≤ c) (f2 : ∀ b, Y.lines[K + 1]? = some b → c < b.startIdx) :
    ∀ h, h ≤ K → findLineIdx (R.st (j + 1)).lines c h = K ∧ findLineIdx Y.lines c h = K := by
  have hfin := nl_le_final R j
  intro h hh
  constructor
  · apply findLineIdx_on_line _ c K h (by unfold nl at hK; exact hK) ?_ ?_ hh
    · intro m a hm ha
      obtain ⟨a', b', ha', hb', he, _⟩ := start_known R (j := j) (m := m) (by omega)
      rw [ha'] at ha; cases ha
      have := f1 m b' hm hb'
      omega
    · intro b hb
      have hlt : K + 1 < nl R j := by
        rcases Nat.lt_or_ge (K + 1) (nl R j) with h | h
        · exact h
        · rw [Array.getElem?_eq_none (by unfold nl at h; exact h)] at hb; cases hb
      obtain ⟨a', b', ha', hb', he, _⟩ := start_known R (j := j) (m := K + 1) hlt
      rw [ha'] at hb; cases hb
      have := f2 b' hb'
      omega
  · exact findLineIdx_on_line _ c K h (by omega) f1 f2 hh

/-- the final table around the start of token `i` -/
theorem start_around (i : Nat) :
    (∀ m a, m ≤ R.sline i → Y.lines[m]? = some a → a.startIdx ≤ (R.tk i).startIdx) ∧
    (∀ b, Y.lines[R.sline i + 1]? = some b → (R.tk i).startIdx < b.startIdx) := by
  have hlt : R.sline i < nl R i := R.sline_lt i
  obtain ⟨a0, b0, _, hb0, _⟩ := start_known R (j := i) (m := R.sline i) hlt
  have hon := R.onStart i b0 hb0
  constructor
  · intro m a hm ha
    by_cases hmk : m = R.sline i
    · subst hmk; rw [hb0] at ha; cases ha; exact hon
    · have := R.sorted m (R.sline i) a b0 (by omega) ha hb0
      omega
  · exact R.beforeNextStart i

/-- the final table around the end of token `i` -/
theorem end_around (i : Nat) :
    (∀ m a, m ≤ nl R i - 1 → Y.lines[m]? = some a → a.startIdx ≤ (R.tk i).endIdx) ∧
    (∀ b, Y.lines[nl R i - 1 + 1]? = some b → (R.tk i).endIdx < b.startIdx) := by
  have hp := nl_pos R i
  obtain ⟨a0, b0, _, hb0, _⟩ := start_known R (j := i) (m := nl R i - 1) (by omega)
  have hon := R.onLast i b0 hb0
  constructor
  · intro m a hm ha
    by_cases hmk : m = nl R i - 1
    · subst hmk; rw [hb0] at ha; cases ha; exact hon
    · have := R.sorted m (nl R i - 1) a b0 (by omega) ha hb0
      omega
  · intro b hb
    have e : nl R i - 1 + 1 = (R.st (i + 1)).lines.size := by unfold nl at hp ⊢; omega
    rw [e] at hb
    exact R.beforeNext i b hb

/-- the start of an earlier (or the same) token `i`, on the table known after token `j` and on the final one -/
theorem known_start {i j : Nat} (hij : i ≤ j) :
    ∀ h, h ≤ R.sline i → findLineIdx (R.st (j + 1)).lines (R.tk i).startIdx h = R.sline i ∧
      findLineIdx Y.lines (R.tk i).startIdx h = R.sline i := by
  obtain ⟨f1, f2⟩ := start_around R i
  exact known_line R (Nat.lt_of_lt_of_le (R.sline_lt i) (nl_mono R hij)) _ f1 f2

theorem known_end {i j : Nat} (hij : i ≤ j) :
    ∀ h, h ≤ nl R i - 1 → findLineIdx (R.st (j + 1)).lines (R.tk i).endIdx h = nl R i - 1 ∧
      findLineIdx Y.lines (R.tk i).endIdx h = nl R i - 1 := by
  obtain ⟨f1, f2⟩ := end_around R i
  have hp := nl_pos R i
  exact known_line R (by have := nl_mono R hij; omega) _ f1 f2

/-- a token starts at or after the last line known before it -/
theorem sline_ge' {i j : Nat} (hij : j < i) : nl R j - 1 ≤ R.sline i := by
  obtain ⟨i', rfl⟩ : ∃ i', i = i' + 1 := ⟨i - 1, by omega⟩
  have h1 := R.sline_ge i'
  have h2 := nl_mono R (show j ≤ i' by omega)
  unfold nl at h2 ⊢
  omega

/-- the tokens not yet handed out -/
def rest (j : Nat) : List Token := (List.range' j (R.N - j)).map R.tk

theorem rest_lt {j : Nat} (h : j < R.N) : rest R j = R.tk j :: rest R (j + 1) := by
  unfold rest
  have : R.N - j = (R.N - (j + 1)) + 1 := by omega
  rw [this, List.range'_succ]
  rfl

theorem rest_ge {j : Nat} (h : R.N ≤ j) : rest R j = [] := by
  unfold rest
  have : R.N - j = 0 := by omega
  rw [this]; rfl

theorem rest_zero : rest R 0 = R.toks := by
  unfold rest Run.toks
  rw [List.range_eq_range']
  rfl

/-- both lexers hand out the same token and move on together -/
theorem nextToken_both (i : Nat) :
    realOps.nextToken (R.st i) = (.tok (R.tk i), R.st (i + 1)) ∧
    (layoutOps Y).nextToken (rest R i) = (.tok (R.tk i), rest R (i + 1)) := by
  constructor
  · show (match ZnVerif.Model.nextToken (R.st i) with
      | (.ok t, l') => (TokRes.tok t, l')
      | (.err e, l') => (.err e, l')
      | (.panic, l') => (.panic, l')) = _
    rw [R.step i]
  · by_cases h : i < R.N
    · rw [rest_lt R h]; rfl
    · rw [rest_ge R (by omega), rest_ge R (by omega), R.eof i (by omega)]; rfl

/-- `fetch` (the head of `next()`: comments are dropped) on both sides -/
theorem fetch_both (m : Nat) : ∀ i : Nat,
    (fetch realOps m (R.st i) = .fuel ∧ fetch (layoutOps Y) m (rest R i) = .fuel) ∨
    ∃ i', i ≤ i' ∧ fetch realOps m (R.st i) = .ok (R.tk i') (R.st (i' + 1)) ∧
      fetch (layoutOps Y) m (rest R i) = .ok (R.tk i') (rest R (i' + 1)) := by
  induction m with
  | zero => intro i; exact Or.inl ⟨rfl, rfl⟩
  | succ m ih =>
    intro i
    obtain ⟨h1, h2⟩ := nextToken_both R i
    by_cases hc : (R.tk i).type = cTypeComment
    · rcases ih (i + 1) with ⟨a, b⟩ | ⟨i', hi', a, b⟩
      · left
        simp only [fetch, h1, h2, hc, if_true]
        exact ⟨a, b⟩
      · right
        refine ⟨i', by omega, ?_, ?_⟩
        · simp only [fetch, h1, hc, if_true]; exact a
        · simp only [fetch, h2, hc, if_true]; exact b
    · right
      refine ⟨i, Nat.le_refl _, ?_, ?_⟩
      · simp only [fetch, h1, hc, if_false]
      · simp only [fetch, h2, hc, if_false]

/-! ### states -/

abbrev S1 := PState Lexer
abbrev S2 := PState (List Token)

/-- the layout-side state: the same window over a token list -/
def toL (s : S1) (ts : List Token) : S2 :=
  { lex := ts, p1 := s.p1, p2 := s.p2, sl1 := s.sl1, el1 := s.el1, sl2 := s.sl2, el2 := s.el2, flag := s.flag }

@[simp] theorem toL_p1 (s : S1) (ts : List Token) : (toL s ts).p1 = s.p1 := rfl
@[simp] theorem toL_p2 (s : S1) (ts : List Token) : (toL s ts).p2 = s.p2 := rfl
@[simp] theorem toL_sl1 (s : S1) (ts : List Token) : (toL s ts).sl1 = s.sl1 := rfl
@[simp] theorem toL_el1 (s : S1) (ts : List Token) : (toL s ts).el1 = s.el1 := rfl
@[simp] theorem toL_sl2 (s : S1) (ts : List Token) : (toL s ts).sl2 = s.sl2 := rfl
@[simp] theorem toL_el2 (s : S1) (ts : List Token) : (toL s ts).el2 = s.el2 := rfl
@[simp] theorem toL_flag (s : S1) (ts : List Token) : (toL s ts).flag = s.flag := rfl
@[simp] theorem toL_lex (s : S1) (ts : List Token) : (toL s ts).lex = ts := rfl

/-- a token already read when the lexer stands at `R.st (j+1)` -/
def PastTok (j : Nat) (tk : Token) : Prop := ∃ i, i ≤ j ∧ tk = R.tk i

theorem PastTok.mono {R : Run Y} {j j' : Nat} {tk : Token} (h : PastTok R j tk) (hj : j ≤ j') : PastTok R j' tk := by
  obtain ⟨i, hi, e⟩ := h
  exact ⟨i, by omega, e⟩

/-- the real-side state at index `j` -/
structure OK (j : Nat) (s : S1) : Prop where
  lex : s.lex = R.st (j + 1)
  sl1 : s.sl1 < nl R j
  sl2 : s.sl2 < nl R j
  el2 : s.el2 < nl R j
  p2 : PastTok R j s.p2

/-- matching results -/
def Out {β : Type} (j : Nat) (Q : Nat → β → Prop) (r1 : Res Lexer β) (r2 : Res (List Token) β) : Prop :=
  match r1, r2 with
  | .ok a1 t1, .ok a2 t2 => a1 = a2 ∧ ∃ j', j ≤ j' ∧ OK R j' t1 ∧ t2 = toL t1 (rest R (j' + 1)) ∧ Q j' a1
  | .err e1, .err e2 => e1 = e2
  | .panic, .panic => True
  | .fuel, .fuel => True
  | _, _ => False

/-- matching computations, from the real-side state `s` at index `j` -/
def Sim {β : Type} (j : Nat) (s : S1) (x1 : PM Lexer β) (x2 : PM (List Token) β) (Q : Nat → β → Prop) : Prop :=
  OK R j s → Out R j Q (x1 s) (x2 (toL s (rest R (j + 1))))

/-- no condition on the value -/
def Any {β : Type} : Nat → β → Prop := fun _ _ => True

/-- an optional token is one already read -/
def QTok (j : Nat) (a : Option Token) : Prop := ∀ tk, a = some tk → PastTok R j tk

end run

section rules
variable {Y : Layout} {R : Run Y} {β γ : Type} {j : Nat} {s : S1}

theorem Out.mono {Q : Nat → β → Prop} {j0 j : Nat} {r1 : Res Lexer β} {r2 : Res (List Token) β} (h : Out R j Q r1 r2)
    (hj : j0 ≤ j) : Out R j0 Q r1 r2 := by
  cases r1 <;> cases r2 <;> simp only [Out] at h ⊢
  case ok.ok =>
    obtain ⟨e, j', hj', rest⟩ := h
    exact ⟨e, j', by omega, rest⟩
  all_goals exact h

theorem S_intro {Q : Nat → β → Prop} {x1 : PM Lexer β} {x2 : PM (List Token) β}
    (h : OK R j s → Sim R j s x1 x2 Q) : Sim R j s x1 x2 Q := fun hok => h hok hok

theorem S_pure (a : β) : Sim R j s (pure a) (pure a) Any :=
  fun hok => ⟨rfl, j, Nat.le_refl _, hok, rfl, trivial⟩

theorem S_bind {Q : Nat → β → Prop} {Q' : Nat → γ → Prop} {x1 : PM Lexer β} {x2 : PM (List Token) β}
    {f1 : β → PM Lexer γ} {f2 : β → PM (List Token) γ}
    (hx : Sim R j s x1 x2 Q) (hf : ∀ a j' s', j ≤ j' → Q j' a → Sim R j' s' (f1 a) (f2 a) Q') :
    Sim R j s (x1 >>= f1) (x2 >>= f2) Q' := by
  intro hok
  have h := hx hok
  show Out R j Q' (PM.bind x1 f1 s) (PM.bind x2 f2 (toL s (rest R (j + 1))))
  unfold PM.bind
  generalize x1 s = r1 at h ⊢
  generalize x2 (toL s (rest R (j + 1))) = r2 at h ⊢
  cases r1 <;> cases r2 <;> simp only [Out] at h ⊢
  case ok.ok a1 t1 a2 t2 =>
    obtain ⟨rfl, j', hj', hok', rfl, hq⟩ := h
    exact (hf a1 j' t1 hj' hq hok').mono hj'
  all_goals first | exact h | trivial

/-- a bind whose value carries no condition -/
theorem S_bind_any {Q' : Nat → γ → Prop} {x1 : PM Lexer β} {x2 : PM (List Token) β}
    {f1 : β → PM Lexer γ} {f2 : β → PM (List Token) γ}
    (hx : Sim R j s x1 x2 Any) (hf : ∀ a j' s', j ≤ j' → Sim R j' s' (f1 a) (f2 a) Q') :
    Sim R j s (x1 >>= f1) (x2 >>= f2) Q' :=
  S_bind hx (fun a j' s' hj _ => hf a j' s' hj)

/-- a bind whose value is an optional TOKEN: the `some` branch learns that the token has been read -/
theorem S_bind_tok {Q' : Nat → γ → Prop} {x1 : PM Lexer (Option Token)} {x2 : PM (List Token) (Option Token)}
    {f1 : Option Token → PM Lexer γ} {f2 : Option Token → PM (List Token) γ}
    (hx : Sim R j s x1 x2 (QTok R))
    (hnone : ∀ j' s', j ≤ j' → Sim R j' s' (f1 none) (f2 none) Q')
    (hsome : ∀ tk j' s', j ≤ j' → PastTok R j' tk → Sim R j' s' (f1 (some tk)) (f2 (some tk)) Q') :
    Sim R j s (x1 >>= f1) (x2 >>= f2) Q' :=
  S_bind hx (fun a j' s' hj hq => by
    cases a with
    | none => exact hnone j' s' hj
    | some tk => exact hsome tk j' s' hj (hq tk rfl))

/-- a bind whose value is any other optional value -/
theorem S_bind_opt {Q' : Nat → γ → Prop} {x1 : PM Lexer (Option β)} {x2 : PM (List Token) (Option β)}
    {f1 : Option β → PM Lexer γ} {f2 : Option β → PM (List Token) γ}
    (hx : Sim R j s x1 x2 Any)
    (hnone : ∀ j' s', j ≤ j' → Sim R j' s' (f1 none) (f2 none) Q')
    (hsome : ∀ a j' s', j ≤ j' → Sim R j' s' (f1 (some a)) (f2 (some a)) Q') :
    Sim R j s (x1 >>= f1) (x2 >>= f2) Q' :=
  S_bind hx (fun a j' s' hj _ => by
    cases a with
    | none => exact hnone j' s' hj
    | some a => exact hsome a j' s' hj)

/-- `getS` hands each side its own state -/
theorem S_bind_getS {Q' : Nat → γ → Prop} {f1 : S1 → PM Lexer γ} {f2 : S2 → PM (List Token) γ}
    (hf : Sim R j s (f1 s) (f2 (toL s (rest R (j + 1)))) Q') : Sim R j s (getS >>= f1) (getS >>= f2) Q' := hf

theorem S_ite {Q : Nat → β → Prop} {c : Prop} [Decidable c] {a1 b1 : PM Lexer β} {a2 b2 : PM (List Token) β}
    (ha : c → Sim R j s a1 a2 Q) (hb : ¬ c → Sim R j s b1 b2 Q) :
    Sim R j s (if c then a1 else b1) (if c then a2 else b2) Q := by
  by_cases h : c
  · simp only [h, if_true]; exact ha h
  · simp only [h, if_false]; exact hb h

theorem S_throwErr (e : SynErr) : Sim R j s (throwErr e : PM Lexer β) (throwErr e) Any := fun _ => rfl
theorem S_goPanic : Sim R j s (goPanic : PM Lexer β) goPanic Any := fun _ => trivial

theorem S_unsetFlag : Sim R j s unsetFlag unsetFlag Any :=
  fun hok => ⟨rfl, j, Nat.le_refl _, ⟨hok.lex, hok.sl1, hok.sl2, hok.el2, hok.p2⟩, rfl, trivial⟩

theorem S_setFlag : Sim R j s setFlag setFlag Any :=
  fun hok => ⟨rfl, j, Nat.le_refl _, ⟨hok.lex, hok.sl1, hok.sl2, hok.el2, hok.p2⟩, rfl, trivial⟩

theorem S_errPeek (v : Variant) (code : Nat) : Sim R j s (errPeek v code : PM Lexer β) (errPeek v code) Any := by
  intro _
  unfold errPeek
  simp only [toL_p1, toL_p2]
  cases s.p1 with
  | none => simp only []; split <;> trivial
  | some t => exact rfl

theorem S_errCurr (v : Variant) : Sim R j s (errCurr v : PM Lexer β) (errCurr v) Any := by
  intro _
  unfold errCurr
  simp only [toL_p1, toL_p2]
  cases s.p1 with
  | none => simp only []; split <;> trivial
  | some t => exact rfl

theorem S_endOfStmt (v : Variant) : Sim R j s (endOfStmt v) (endOfStmt v) Any := by
  intro hok
  unfold endOfStmt
  have hm : meetStmtBreak (toL s (rest R (j + 1))) = meetStmtBreak s := rfl
  simp only [toL_flag, hm]
  by_cases hc : (s.flag || meetStmtBreak s) = true
  · simp only [hc, if_true]; exact ⟨rfl, j, Nat.le_refl _, hok, rfl, trivial⟩
  · simp only [hc]; exact S_errPeek v 20 hok

end rules

section prims
variable {Y : Layout} {R : Run Y} {j : Nat} {s : S1}

/-- the line of a token already read -/
theorem S_lineOf {tk : Token} (h : PastTok R j tk) : Sim R j s (lineOf realOps tk) (lineOf (layoutOps Y) tk) Any := by
  intro hok
  obtain ⟨i, hi, rfl⟩ := h
  obtain ⟨h1, h2⟩ := known_start R hi 0 (Nat.zero_le _)
  show Out R j Any (Res.ok (findLineIdx s.lex.lines (R.tk i).startIdx 0) s)
    (Res.ok (findLineIdx Y.lines (R.tk i).startIdx 0) (toL s (rest R (j + 1))))
  rw [hok.lex, h1, h2]
  exact ⟨rfl, j, Nat.le_refl _, hok, rfl, trivial⟩

theorem S_newID {tk : Token} (h : PastTok R j tk) : Sim R j s (newID realOps tk) (newID (layoutOps Y) tk) Any := by
  unfold newID
  exact S_bind (S_lineOf h) (fun _ _ _ _ _ => S_pure _)

theorem S_newString {tk : Token} (h : PastTok R j tk) : Sim R j s (newString realOps tk) (newString (layoutOps Y) tk) Any := by
  unfold newString
  exact S_bind (S_lineOf h) (fun _ _ _ _ _ => S_pure _)

/-- the indentation of a known line is the same in both tables -/
theorem indents_eq (hok : OK R j s) {m : Nat} (hm : m < nl R j) :
    ∃ a b, s.lex.lines[m]? = some a ∧ Y.lines[m]? = some b ∧ a.indents = b.indents := by
  obtain ⟨a, b, ha, hb, _, he⟩ := start_known R hm
  exact ⟨a, b, by rw [hok.lex]; exact ha, hb, he⟩

theorem peekIndentOf_toL (hok : OK R j s) :
    peekIndentOf (layoutOps Y) (toL s (rest R (j + 1))) = peekIndentOf realOps s := by
  obtain ⟨a, b, ha, hb, he⟩ := indents_eq hok hok.sl2
  show (match Y.lines[s.sl2]? with | some li => li.indents | none => 0) =
    (match s.lex.lines[s.sl2]? with | some li => li.indents | none => 0)
  rw [ha, hb]; exact he.symm

theorem currIndentOf_toL (hok : OK R j s) :
    currIndentOf (layoutOps Y) (toL s (rest R (j + 1))) = currIndentOf realOps s := by
  obtain ⟨a, b, ha, hb, he⟩ := indents_eq hok hok.sl1
  show (match Y.lines[s.sl1]? with | some li => li.indents | none => 0) =
    (match s.lex.lines[s.sl1]? with | some li => li.indents | none => 0)
  rw [ha, hb]; exact he.symm

theorem blockCond_toL (hok : OK R j s) (d : Nat) :
    blockCond (layoutOps Y) d (toL s (rest R (j + 1))) = blockCond realOps d s := by
  unfold blockCond
  rw [peekIndentOf_toL hok]
  rfl

theorem S_expectBlockIndent : Sim R j s (expectBlockIndent realOps) (expectBlockIndent (layoutOps Y)) Any := by
  intro hok
  obtain ⟨a2, b2, ha2, hb2, he2⟩ := indents_eq hok hok.sl2
  obtain ⟨a1, b1, ha1, hb1, he1⟩ := indents_eq hok hok.sl1
  show Out R j Any
    (match s.lex.lines[s.sl2]?, s.lex.lines[s.sl1]? with
      | some pl, some cl' => Res.ok (if pl.indents = cl'.indents + 1 then some pl.indents else none) s
      | _, _ => .panic)
    (match Y.lines[s.sl2]?, Y.lines[s.sl1]? with
      | some pl, some cl' => Res.ok (if pl.indents = cl'.indents + 1 then some pl.indents else none) (toL s (rest R (j + 1)))
      | _, _ => .panic)
  rw [ha2, ha1, hb2, hb1]
  simp only [he2, he1]
  exact ⟨rfl, j, Nat.le_refl _, hok, rfl, trivial⟩

-- ---- the one primitive that reads the lexer ------------------------------------------------------------------------

/-- `next()` on both sides -/
theorem S_next (m : Nat) : Sim R j s (next realOps m) (next (layoutOps Y) m) Any := by
  intro hok
  unfold next
  simp only [toL_lex, hok.lex]
  rcases fetch_both R m (j + 1) with ⟨a, b⟩ | ⟨i', hi', a, b⟩
  · rw [a, b]; trivial
  · rw [a, b]
    have hmono := nl_mono R (show j ≤ i' by omega)
    have hs2 := hok.sl2
    have he2 := hok.el2
    have hp := nl_pos R i'
    have hge := sline_ge' R (show j < i' by omega)
    have hslt := R.sline_lt i'
    obtain ⟨hs_r, hs_l⟩ := known_start R (Nat.le_refl i') s.sl2 (by omega)
    obtain ⟨he_r, he_l⟩ := known_end R (Nat.le_refl i') s.el2 (by omega)
    show Out R j Any (Res.ok () _) (Res.ok () _)
    refine ⟨rfl, i', by omega, ⟨rfl, ?_, ?_, ?_, ⟨i', Nat.le_refl _, rfl⟩⟩, ?_, trivial⟩
    · show s.sl2 < nl R i'; omega
    · show findLineIdx (realOps.lines (R.st (i' + 1))) (R.tk i').startIdx s.sl2 < nl R i'
      show findLineIdx (R.st (i' + 1)).lines (R.tk i').startIdx s.sl2 < nl R i'
      rw [hs_r]; exact hslt
    · show findLineIdx (R.st (i' + 1)).lines (R.tk i').endIdx s.el2 < nl R i'
      rw [he_r]; omega
    · show _ = toL _ _
      unfold toL
      show (⟨rest R (i' + 1), some s.p2, R.tk i', s.sl2, s.el2, findLineIdx Y.lines (R.tk i').startIdx s.sl2,
          findLineIdx Y.lines (R.tk i').endIdx s.el2,
          s.flag || meetStmtLineBreak (some s.p2) (R.tk i') (findLineIdx Y.lines (R.tk i').startIdx s.sl2) s.el2⟩ : S2) =
        ⟨rest R (i' + 1), some s.p2, R.tk i', s.sl2, s.el2, findLineIdx (R.st (i' + 1)).lines (R.tk i').startIdx s.sl2,
          findLineIdx (R.st (i' + 1)).lines (R.tk i').endIdx s.el2,
          s.flag || meetStmtLineBreak (some s.p2) (R.tk i') (findLineIdx (R.st (i' + 1)).lines (R.tk i').startIdx s.sl2) s.el2⟩
      rw [hs_r, hs_l, he_r, he_l]

theorem S_tryConsumeCore (m : Nat) (tys : List Nat) :
    Sim R j s (tryConsumeCore realOps m tys) (tryConsumeCore (layoutOps Y) m tys) (QTok R) := by
  unfold tryConsumeCore
  apply S_bind_getS
  simp only [toL_flag, toL_p2]
  apply S_intro
  intro hok
  apply S_ite
  · intro _ hok'; exact ⟨rfl, j, Nat.le_refl _, hok', rfl, fun _ h => by cases h⟩
  · intro _
    apply S_ite
    · intro _
      refine S_bind (S_next m) (fun _ j' s' hj _ => ?_)
      intro hok'
      exact ⟨rfl, j', Nat.le_refl _, hok', rfl, fun tk h => by cases h; exact hok.p2.mono hj⟩
    · intro _ hok'; exact ⟨rfl, j, Nat.le_refl _, hok', rfl, fun _ h => by cases h⟩

theorem S_tryConsume (m : Nat) (tys : List Nat) :
    Sim R j s (tryConsume realOps m tys) (tryConsume (layoutOps Y) m tys) (QTok R) := by
  unfold tryConsume
  apply S_bind_getS
  simp only [toL_p2]
  apply S_ite
  · intro _
    exact S_bind (S_next m) (fun _ _ _ _ _ => S_tryConsumeCore m tys)
  · intro _; exact S_tryConsumeCore m tys

theorem S_consume (v : Variant) (m : Nat) (tys : List Nat) :
    Sim R j s (consume v realOps m tys) (consume v (layoutOps Y) m tys) Any := by
  unfold consume
  refine S_bind_tok (S_tryConsume m tys) (fun _ _ _ => ?_) (fun _ _ _ _ _ => ?_)
  · exact S_errPeek v 20
  · exact S_pure _

theorem S_swallowAll (m : Nat) (tys : List Nat) : ∀ (k : Nat) (j : Nat) (s : S1),
    Sim R j s (swallowAll realOps m tys k) (swallowAll (layoutOps Y) m tys k) Any
  | 0, _, _ => fun _ => trivial
  | k + 1, j, s => by
    unfold swallowAll
    refine S_bind_tok (S_tryConsume m tys) (fun _ _ _ => ?_) (fun _ _ _ _ _ => ?_)
    · exact S_pure _
    · exact S_swallowAll m tys k _ _

theorem S_parseID (v : Variant) (m : Nat) :
    Sim R j s (parseID v realOps m) (parseID v (layoutOps Y) m) Any := by
  unfold parseID
  refine S_bind_tok (S_tryConsume m _) (fun _ _ _ => ?_) (fun _ _ _ _ h => ?_)
  · exact S_errPeek v 20
  · exact S_newID h

theorem S_optYield (v : Variant) (m : Nat) :
    Sim R j s (optYield v realOps m) (optYield v (layoutOps Y) m) Any := by
  unfold optYield
  refine S_bind_tok (S_tryConsume m _) (fun _ _ _ => ?_) (fun _ _ _ _ _ => ?_)
  · exact S_pure _
  · exact S_bind (S_parseID v m) (fun _ _ _ _ _ => S_pure _)

theorem S_calleeTail (v : Variant) (m : Nat) (hasRoot : Bool) (rootType : Nat) (root : Expr) :
    Sim R j s (calleeTail v realOps m hasRoot rootType root) (calleeTail v (layoutOps Y) m hasRoot rootType root) Any := by
  unfold calleeTail
  refine S_bind_tok (S_tryConsume m _) (fun _ _ _ => ?_) (fun _ _ _ _ h => ?_)
  · exact S_errPeek v 20
  · exact S_bind (S_newID h) (fun _ _ _ hj _ => S_bind (S_lineOf (h.mono hj)) (fun _ _ _ _ _ => S_pure _))

end prims

/-- the recursive calls of the real run are matched by those of the layout run -/
def RecOK {Y : Layout} (R : Run Y) (rec1 : Rec Lexer) (rec2 : Rec (List Token)) : Prop :=
  ∀ (nt : NT) (j : Nat) (s : S1), Sim R j s (rec1 nt) (rec2 nt) Any

end ZnVerif.Proofs.LexSim
