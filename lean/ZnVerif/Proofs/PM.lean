/-
Helper lemmas for C20: the inductive invariant of the repaired master bookkeeping and its preservation by
every event; termination of the master's own work (`drain`); the worker pool's request accounting.
Property statements are in Properties/C20.lean.
-/
import ZnVerif.Model.PM

namespace ZnVerif.Proofs.PM
open ZnVerif.Model.PM

/-! ### list helpers -/

theorem reserved_append (bs : List Batch) (b : Batch) : reserved (bs ++ [b]) = reserved bs + b.remaining := by
  induction bs with
  | nil => simp [reserved]
  | cons x xs ih => simp [reserved, ih]; omega

theorem decAt_reserved : ∀ (i : Nat) (bs bs' : List Batch), decAt i bs = some bs' → reserved bs = reserved bs' + 1
  | _, [], _, h => by simp [decAt] at h
  | 0, b :: bs, bs', h => by
    simp only [decAt] at h
    split at h
    · cases h; simp [reserved]; omega
    · cases h
  | i + 1, b :: bs, bs', h => by
    simp only [decAt, Option.map_eq_some_iff] at h
    obtain ⟨r, hr, rfl⟩ := h
    have := decAt_reserved i bs r hr
    simp [reserved]; omega

theorem takeUnreg_spec : ∀ (pid : Nat) (us : List (Nat × Bool)) (a : Bool) (us' : List (Nat × Bool)),
    takeUnreg pid us = some (a, us') →
      us.length = us'.length + 1 ∧ (us.map (·.1)).Perm (pid :: us'.map (·.1)) ∧
      us.countP (·.2) ≤ us'.countP (·.2) + 1 ∧ (a = true → us.countP (·.2) = us'.countP (·.2) + 1) ∧
      (a = false → us.countP (·.2) = us'.countP (·.2))
  | _, [], _, _, h => by simp [takeUnreg] at h
  | pid, u :: us, a, us', h => by
    simp only [takeUnreg] at h
    split at h
    · next hp =>
      cases h
      refine ⟨by simp, by simp [hp], ?_, ?_, ?_⟩
      · simp [List.countP_cons]; split <;> omega
      · intro ha; simp [ha]
      · intro ha; simp [ha]
    · next hp =>
      simp only [Option.map_eq_some_iff] at h
      obtain ⟨⟨a', r⟩, hr, heq⟩ := h
      simp only [Prod.mk.injEq] at heq
      obtain ⟨rfl, rfl⟩ := heq
      obtain ⟨h1, h2, h3, h4, h5⟩ := takeUnreg_spec pid us a' r hr
      refine ⟨by simp [h1], ?_, ?_, ?_, ?_⟩
      · simp only [List.map_cons]
        exact (List.Perm.cons _ h2).trans (List.Perm.swap _ _ _)
      · simp only [List.countP_cons]; omega
      · intro ha; have := h4 ha; simp only [List.countP_cons]; omega
      · intro ha; have := h5 ha; simp only [List.countP_cons]; omega

theorem hasKey_false_iff (cs : List Child) (pid : Nat) : hasKey cs pid = false ↔ pid ∉ cs.map (·.pid) := by
  induction cs with
  | nil => simp [hasKey]
  | cons c cs ih =>
    simp only [hasKey, List.any_cons, Bool.or_eq_false_iff, List.map_cons, List.mem_cons, not_or] at ih ⊢
    constructor
    · rintro ⟨h1, h2⟩
      exact ⟨by intro h; simp [h] at h1, ih.mp h2⟩
    · rintro ⟨h1, h2⟩
      exact ⟨by simp; exact fun h => h1 h.symm, ih.mpr h2⟩

theorem setState_length (cs : List Child) (pid : Nat) (st : WState) : (setState cs pid st).length = cs.length := by
  simp [setState]

theorem setState_pids (cs : List Child) (pid : Nat) (st : WState) :
    (setState cs pid st).map (·.pid) = cs.map (·.pid) := by
  induction cs with
  | nil => rfl
  | cons c cs ih =>
    simp only [setState, List.map_cons] at ih ⊢
    rw [ih]; split <;> simp

theorem setState_alive (cs : List Child) (pid : Nat) (st : WState) :
    (setState cs pid st).countP (·.alive) = cs.countP (·.alive) := by
  induction cs with
  | nil => rfl
  | cons c cs ih =>
    simp only [setState, List.map_cons, List.countP_cons] at ih ⊢
    rw [ih]; split <;> simp

theorem markDead_length (pid : Nat) (cs : List Child) : (markDead pid cs).length = cs.length := by simp [markDead]

theorem markDead_pids (pid : Nat) (cs : List Child) : (markDead pid cs).map (·.pid) = cs.map (·.pid) := by
  induction cs with
  | nil => rfl
  | cons c cs ih =>
    simp only [markDead, List.map_cons] at ih ⊢
    rw [ih]; split <;> simp

theorem markDeadU_length (pid : Nat) (us : List (Nat × Bool)) : (markDeadU pid us).length = us.length := by
  simp [markDeadU]

theorem markDeadU_pids (pid : Nat) (us : List (Nat × Bool)) : (markDeadU pid us).map (·.1) = us.map (·.1) := by
  induction us with
  | nil => rfl
  | cons c cs ih =>
    simp only [markDeadU, List.map_cons] at ih ⊢
    rw [ih]; split <;> simp

theorem delChild_length (pid : Nat) (cs : List Child) (h : pid ∈ cs.map (·.pid)) :
    cs.length = (delChild pid cs).length + 1 := by
  induction cs with
  | nil => simp at h
  | cons c cs ih =>
    simp only [delChild]
    split
    · simp
    · next hne =>
      simp only [List.map_cons, List.mem_cons] at h
      rcases h with h | h
      · exact absurd h.symm hne
      · simp [ih h]

theorem delChild_sublist (pid : Nat) (cs : List Child) : (delChild pid cs).Sublist cs := by
  induction cs with
  | nil => exact List.Sublist.refl _
  | cons c cs ih =>
    simp only [delChild]
    split
    · exact List.sublist_cons_self _ _
    · exact List.Sublist.cons_cons _ ih

theorem isDeadChild_mem (s : State) (pid : Nat) (h : isDeadChild s pid = true) : pid ∈ s.childs.map (·.pid) := by
  simp only [isDeadChild, List.any_eq_true, Bool.and_eq_true, beq_iff_eq] at h
  obtain ⟨ch, hm, hp, _⟩ := h
  exact List.mem_map.mpr ⟨ch, hm, hp⟩

/-! ### the invariant of the repaired bookkeeping -/

def pidsOf (s : State) : List Nat := s.childs.map (·.pid) ++ s.unreg.map (·.1)

/-- `refCount` counts exactly the registered processes, the started-but-unregistered ones and the starts still
owed by unfinished batches; it stays between `InitProcs` and `MaxProcs`; tracked pids are distinct and older than
the next pid the OS hands out. -/
structure Inv (c : Config) (s : State) : Prop where
  count : s.refCount = (s.childs.length : Int) + (s.unreg.length : Int) + (reserved s.batches : Int)
  lo : (c.init : Int) ≤ s.refCount
  hi : s.refCount ≤ (c.max : Int)
  nodup : (pidsOf s).Nodup
  fresh : ∀ p ∈ pidsOf s, p < s.nextPid

theorem inv_init (c : Config) (h : c.init ≤ c.max) : Inv c (init .repaired c) := by
  refine ⟨?_, ?_, ?_, ?_, ?_⟩ <;> simp [init, reserved, pidsOf]
  exact h

theorem inv_update (c : Config) (s : State) (pid : Nat) (st : WState) (hI : Inv c s) :
    Inv c (updateH c s pid st) := by
  obtain ⟨hc, hlo, hhi, hnd, hfr⟩ := hI
  unfold updateH
  simp only
  split
  · exact ⟨by simpa [setState_length] using hc, hlo, hhi, by simpa [pidsOf, setState_pids] using hnd,
      by simpa [pidsOf, setState_pids] using hfr⟩
  · refine ⟨?_, ?_, ?_, by simpa [pidsOf, setState_pids] using hnd, by simpa [pidsOf, setState_pids] using hfr⟩
    · simp only [setState_length, reserved_append]
      split <;> (push_cast; omega)
    · simp only; split <;> omega
    · simp only; split <;> omega

theorem inv_exit (c : Config) (s : State) (pid : Nat) (hI : Inv c s) : Inv c (exitH s pid) := by
  obtain ⟨hc, hlo, hhi, hnd, hfr⟩ := hI
  exact ⟨by simpa [exitH, markDead_length, markDeadU_length] using hc, hlo, hhi,
    by simpa [exitH, pidsOf, markDead_pids, markDeadU_pids] using hnd,
    by simpa [exitH, pidsOf, markDead_pids, markDeadU_pids] using hfr⟩

theorem inv_del (c : Config) (_hcfg : c.init ≤ c.max) (s : State) (pid : Nat) (hI : Inv c s)
    (hd : isDeadChild s pid = true) : Inv c (delH c s pid) := by
  obtain ⟨hc, hlo, hhi, hnd, hfr⟩ := hI
  have hlen := delChild_length pid s.childs (isDeadChild_mem s pid hd)
  have hsub : (pidsOf { s with childs := delChild pid s.childs }).Sublist (pidsOf s) := by
    simp only [pidsOf]
    exact List.Sublist.append ((delChild_sublist pid s.childs).map _) (List.Sublist.refl _)
  unfold delH
  simp only
  split
  · refine ⟨?_, ?_, ?_, hsub.nodup hnd, fun p hp => hfr p (hsub.subset hp)⟩
    · simp only [reserved_append]; push_cast; omega
    · simp only; omega
    · simp only; omega
  · refine ⟨?_, ?_, ?_, hsub.nodup hnd, fun p hp => hfr p (hsub.subset hp)⟩
    · simp only; omega
    · simp only; omega
    · simp only; omega

theorem inv_step (c : Config) (hcfg : c.init ≤ c.max) (s s' : State) (e : Ev) (hI : Inv c s)
    (hs : step .repaired c s e = some s') : Inv c s' := by
  cases e with
  | spawnStart b =>
    simp only [step, Option.map_eq_some_iff] at hs
    obtain ⟨bs, hb, rfl⟩ := hs
    obtain ⟨hc, hlo, hhi, hnd, hfr⟩ := hI
    have hr := decAt_reserved b s.batches bs hb
    refine ⟨?_, hlo, hhi, ?_, ?_⟩
    · simp only [List.length_append, List.length_cons, List.length_nil]; push_cast; omega
    · simp only [pidsOf, List.map_append, List.map_cons, List.map_nil, ← List.append_assoc]
      rw [List.nodup_append]
      refine ⟨hnd, by simp, ?_⟩
      intro a ha b hb
      simp only [List.mem_singleton] at hb
      have := hfr a ha
      omega
    · intro p hp
      show p < s.nextPid + 1
      simp only [pidsOf, List.map_append, List.map_cons, List.map_nil, ← List.append_assoc, List.mem_append,
        List.mem_singleton] at hp
      rcases hp with hp | hp
      · have := hfr p (by simpa [pidsOf] using hp); omega
      · omega
  | add pid =>
    simp only [step, Option.map_eq_some_iff] at hs
    obtain ⟨⟨a, us⟩, ht, rfl⟩ := hs
    obtain ⟨hc, hlo, hhi, hnd, hfr⟩ := hI
    obtain ⟨hl, hperm, -, -, -⟩ := takeUnreg_spec pid s.unreg a us ht
    -- pid is tracked as unregistered, hence (distinct pids) not a key of childs
    have hperm2 : (pidsOf s).Perm (s.childs.map (·.pid) ++ pid :: us.map (·.1)) := by
      simp only [pidsOf]; exact List.Perm.append_left _ hperm
    have hnd2 := hperm2.nodup_iff.mp hnd
    have hnot : pid ∉ s.childs.map (·.pid) := by
      intro hm
      rw [List.nodup_append] at hnd2
      exact hnd2.2.2 pid hm pid (by simp) rfl
    have hk : hasKey s.childs pid = false := (hasKey_false_iff _ _).mpr hnot
    have hperm3 : (s.childs.map (·.pid) ++ pid :: us.map (·.1)).Perm
        (pidsOf (addH .repaired s pid a us)) := by
      simp only [pidsOf, addH, setChild, hk, Bool.false_eq_true, if_false, List.map_append, List.map_cons,
        List.map_nil, List.append_assoc, List.singleton_append]
      exact List.Perm.refl _
    refine ⟨?_, hlo, hhi, hperm3.nodup_iff.mp hnd2, ?_⟩
    · simp only [addH, setChild, hk, Bool.false_eq_true, if_false, List.length_append, List.length_cons,
        List.length_nil]
      push_cast; omega
    · intro p hp
      have : p ∈ pidsOf s := hperm2.mem_iff.mpr (hperm3.mem_iff.mpr hp)
      simpa [addH] using hfr p this
  | update pid st =>
    simp only [step, Option.some.injEq] at hs
    subst hs
    exact inv_update c s pid st hI
  | exit pid =>
    simp only [step] at hs
    split at hs
    · cases hs; exact inv_exit c s pid hI
    · cases hs
  | del pid =>
    simp only [step] at hs
    split at hs
    · next hd => cases hs; exact inv_del c hcfg s pid hI hd
    · cases hs
  | timeoutKill pid =>
    simp only [step] at hs
    split at hs
    · cases hs; exact inv_exit c _ pid (inv_update c s pid .stopped hI)
    · cases hs

theorem inv_run (c : Config) (hcfg : c.init ≤ c.max) : ∀ (evs : List Ev) (s s' : State), Inv c s →
    run .repaired c s evs = some s' → Inv c s'
  | [], s, s', hI, h => by simp only [run, Option.some.injEq] at h; exact h ▸ hI
  | e :: es, s, s', hI, h => by
    simp only [run] at h
    split at h
    · next s1 hs => exact inv_run c hcfg es s1 s' (inv_step c hcfg s s1 e hI hs) h
    · cases h

theorem inv_reachable (c : Config) (hcfg : c.init ≤ c.max) (s : State) (h : Reachable .repaired c s) : Inv c s := by
  obtain ⟨evs, h⟩ := h
  exact inv_run c hcfg evs _ s (inv_init c hcfg) h

theorem aliveCount_le (s : State) : aliveCount s ≤ s.childs.length + s.unreg.length := by
  unfold aliveCount
  have h1 := List.countP_le_length (p := fun ch : Child => ch.alive) (l := s.childs)
  have h2 := List.countP_le_length (p := fun u : Nat × Bool => u.2) (l := s.unreg)
  omega

theorem quiet_spec (s : State) (hq : quiet s = true) :
    reserved s.batches = 0 ∧ s.unreg = [] ∧ aliveCount s = s.childs.length := by
  simp only [quiet, Bool.and_eq_true, beq_iff_eq, List.isEmpty_iff, List.all_eq_true] at hq
  obtain ⟨⟨h1, h2⟩, h3⟩ := hq
  refine ⟨h1, h2, ?_⟩
  simp only [aliveCount, h2, List.countP_nil, Nat.add_zero]
  exact List.countP_eq_length.mpr (by simpa using h3)


/-! ### `quiet` says exactly: none of the master's own events is enabled -/

theorem decAt_none_of_reserved_zero : ∀ (i : Nat) (bs : List Batch), reserved bs = 0 → decAt i bs = none
  | _, [], _ => by simp [decAt]
  | 0, b :: bs, h => by
    simp only [reserved] at h
    have : ¬ 0 < b.remaining := by omega
    simp [decAt, this]
  | i + 1, b :: bs, h => by
    simp only [reserved] at h
    simp [decAt, decAt_none_of_reserved_zero i bs (by omega)]

theorem exists_decAt_of_reserved_pos : ∀ (bs : List Batch), 0 < reserved bs → ∃ i bs', decAt i bs = some bs'
  | [], h => by simp [reserved] at h
  | b :: bs, h => by
    by_cases hb : 0 < b.remaining
    · exact ⟨0, { b with remaining := b.remaining - 1 } :: bs, by simp [decAt, hb]⟩
    · simp only [reserved] at h
      obtain ⟨i, bs', hi⟩ := exists_decAt_of_reserved_pos bs (by omega)
      exact ⟨i + 1, b :: bs', by simp [decAt, hi]⟩

theorem quiet_iff_no_internal (v : Variant) (c : Config) (s : State) :
    quiet s = true ↔ (∀ b, step v c s (.spawnStart b) = none) ∧ (∀ p, step v c s (.add p) = none) ∧
      (∀ p, step v c s (.del p) = none) := by
  simp only [quiet, Bool.and_eq_true, beq_iff_eq, List.isEmpty_iff, List.all_eq_true]
  constructor
  · rintro ⟨⟨h1, h2⟩, h3⟩
    refine ⟨fun b => ?_, fun p => ?_, fun p => ?_⟩
    · simp [step, decAt_none_of_reserved_zero b s.batches h1]
    · simp [step, h2, takeUnreg]
    · have : isDeadChild s p = false := by
        simp only [isDeadChild, List.any_eq_false, Bool.and_eq_true, beq_iff_eq, Bool.not_eq_eq_eq_not,
          Bool.not_true, not_and, Bool.not_eq_false]
        intro ch hm _
        exact h3 ch hm
      simp [step, this]
  · rintro ⟨h1, h2, h3⟩
    refine ⟨⟨?_, ?_⟩, ?_⟩
    · apply Classical.byContradiction
      intro hne
      obtain ⟨i, bs', hi⟩ := exists_decAt_of_reserved_pos s.batches (by omega)
      have := h1 i
      simp [step, hi] at this
    · cases hu : s.unreg with
      | nil => rfl
      | cons u us =>
        have := h2 u.1
        simp [step, hu, takeUnreg] at this
    · intro ch hm
      apply Classical.byContradiction
      intro hna
      have hd : isDeadChild s ch.pid = true := by
        simp only [isDeadChild, List.any_eq_true, Bool.and_eq_true, beq_iff_eq, Bool.not_eq_eq_eq_not, Bool.not_true]
        exact ⟨ch, hm, rfl, by simpa using hna⟩
      have := h3 ch.pid
      simp [step, hd] at this

/-! ### a time-out touches one table entry only -/

theorem mem_markDead_setState_of_ne (pid : Nat) (st : WState) (cs : List Child) (ch : Child) (hne : ch.pid ≠ pid) :
    ch ∈ markDead pid (setState cs pid st) ↔ ch ∈ cs := by
  simp only [markDead, setState, List.map_map, List.mem_map, Function.comp]
  constructor
  · rintro ⟨x, hx, rfl⟩
    by_cases hp : x.pid = pid
    · simp [hp] at hne
    · simpa [hp] using hx
  · intro h
    exact ⟨ch, h, by simp [hne]⟩

theorem mem_delChild_of_ne (pid : Nat) (cs : List Child) (ch : Child) (hne : ch.pid ≠ pid) :
    ch ∈ delChild pid cs ↔ ch ∈ cs := by
  induction cs with
  | nil => simp [delChild]
  | cons c cs ih =>
    simp only [delChild]
    split
    · next hp =>
      simp only [List.mem_cons]
      constructor
      · exact Or.inr
      · rintro (h | h)
        · subst h; exact absurd hp hne
        · exact h
    · simp only [List.mem_cons, ih]

theorem delChild_pids_of_nodup (pid : Nat) (cs : List Child) (hnd : (cs.map (·.pid)).Nodup) :
    pid ∉ (delChild pid cs).map (·.pid) := by
  induction cs with
  | nil => simp [delChild]
  | cons c cs ih =>
    simp only [List.map_cons, List.nodup_cons] at hnd
    simp only [delChild]
    split
    · next hp => rw [← hp]; exact hnd.1
    · next hp =>
      simp only [List.map_cons, List.mem_cons, not_or]
      exact ⟨fun h => hp h.symm, ih hnd.2⟩

theorem markDeadU_of_not_mem (pid : Nat) (us : List (Nat × Bool)) (h : pid ∉ us.map (·.1)) : markDeadU pid us = us := by
  induction us with
  | nil => rfl
  | cons u us ih =>
    simp only [List.map_cons, List.mem_cons, not_or] at h
    simp only [markDeadU, List.map_cons] at ih ⊢
    rw [ih h.2]
    have : ¬ u.1 = pid := fun hh => h.1 hh.symm
    simp [this]

theorem updateH_childs (c : Config) (s : State) (pid : Nat) (st : WState) :
    (updateH c s pid st).childs = setState s.childs pid st := by
  unfold updateH; simp only; split <;> rfl

theorem updateH_unreg (c : Config) (s : State) (pid : Nat) (st : WState) : (updateH c s pid st).unreg = s.unreg := by
  unfold updateH; simp only; split <;> rfl

theorem delH_childs (c : Config) (s : State) (pid : Nat) : (delH c s pid).childs = delChild pid s.childs := by
  unfold delH; simp only; split <;> rfl

theorem delH_unreg (c : Config) (s : State) (pid : Nat) : (delH c s pid).unreg = s.unreg := by
  unfold delH; simp only; split <;> rfl

/-! ### the worker pool: a request is in exactly one place -/

theorem Worker.step_taken (w w' : Worker) (e : WEv) (h : w.step e = some w') :
    match e with
    | .accept r => w.phase = .accepting ∧ w'.phase = .serving r ∧ (Worker.taken w').Perm (r :: Worker.taken w)
    | _ => (Worker.taken w').Perm (Worker.taken w) := by
  cases e with
  | accept r =>
    simp only [Worker.step] at h
    split at h
    · next hp =>
      cases h
      refine ⟨hp, rfl, ?_⟩
      simp only [Worker.taken, hp, List.append_nil, List.append_assoc, List.singleton_append]
      exact List.perm_middle
    · cases h
  | finish =>
    simp only [Worker.step] at h
    split at h
    · next r hp => cases h; simp [Worker.taken, hp]
    · cases h
  | timeout =>
    simp only [Worker.step] at h
    split at h
    · next r hp =>
      cases h
      simp only [Worker.taken, hp, List.append_nil, List.append_assoc]
      exact List.Perm.append_left _ (List.perm_append_comm (l₁ := w.dropped) (l₂ := [r]))
    · cases h
  | crash =>
    simp only [Worker.step] at h
    split at h
    · cases h
    · next r hp =>
      cases h
      simp only [Worker.taken, hp, List.append_nil, List.append_assoc]
      exact List.Perm.append_left _ (List.perm_append_comm (l₁ := w.dropped) (l₂ := [r]))
    · next hp => cases h; simp [Worker.taken, hp]

theorem modifyAt_flatten_perm (f : Worker → Option Worker) (xs : List Nat)
    (hf : ∀ w w', f w = some w' → (Worker.taken w').Perm (xs ++ Worker.taken w)) :
    ∀ (i : Nat) (ws ws' : List Worker), modifyAt f i ws = some ws' →
      ((ws'.map Worker.taken).flatten).Perm (xs ++ (ws.map Worker.taken).flatten)
  | _, [], _, h => by simp [modifyAt] at h
  | 0, w :: ws, ws', h => by
    simp only [modifyAt, Option.map_eq_some_iff] at h
    obtain ⟨w', hw, rfl⟩ := h
    simp only [List.map_cons, List.flatten_cons, ← List.append_assoc]
    exact List.Perm.append_right _ (hf w w' hw)
  | i + 1, w :: ws, ws', h => by
    simp only [modifyAt, Option.map_eq_some_iff] at h
    obtain ⟨r, hr, rfl⟩ := h
    have ih := modifyAt_flatten_perm f xs hf i ws r hr
    simp only [List.map_cons, List.flatten_cons]
    refine (List.Perm.append_left _ ih).trans ?_
    simp only [← List.append_assoc]
    exact List.Perm.append_right _ List.perm_append_comm

theorem Pool.step_all (p p' : Pool) (e : PEv) (h : p.step e = some p') : (Pool.all p').Perm (Pool.all p) := by
  cases e with
  | accept i =>
    simp only [Pool.step] at h
    split at h
    · cases h
    · next r q hq =>
      simp only [Option.map_eq_some_iff] at h
      obtain ⟨ws, hm, rfl⟩ := h
      have := modifyAt_flatten_perm (·.step (.accept r)) [r]
        (fun w w' hw => by simpa using (Worker.step_taken w w' (.accept r) hw).2.2) i p.workers ws hm
      simp only [Pool.all, hq]
      refine (List.Perm.append_right _ this).trans ?_
      simp only [List.cons_append]
      exact List.perm_middle.symm
  | finish i =>
    simp only [Pool.step, Option.map_eq_some_iff] at h
    obtain ⟨ws, hm, rfl⟩ := h
    have := modifyAt_flatten_perm (·.step .finish) []
      (fun w w' hw => by simpa using Worker.step_taken w w' .finish hw) i p.workers ws hm
    simpa [Pool.all] using List.Perm.append_right p.queue this
  | timeout i =>
    simp only [Pool.step, Option.map_eq_some_iff] at h
    obtain ⟨ws, hm, rfl⟩ := h
    have := modifyAt_flatten_perm (·.step .timeout) []
      (fun w w' hw => by simpa using Worker.step_taken w w' .timeout hw) i p.workers ws hm
    simpa [Pool.all] using List.Perm.append_right p.queue this
  | crash i =>
    simp only [Pool.step, Option.map_eq_some_iff] at h
    obtain ⟨ws, hm, rfl⟩ := h
    have := modifyAt_flatten_perm (·.step .crash) []
      (fun w w' hw => by simpa using Worker.step_taken w w' .crash hw) i p.workers ws hm
    simpa [Pool.all] using List.Perm.append_right p.queue this
  | spawn =>
    simp only [Pool.step, Option.some.injEq] at h
    subst h
    simp [Pool.all, Worker.fresh, Worker.taken]

theorem Pool.run_all : ∀ (evs : List PEv) (p p' : Pool), Pool.run p evs = some p' → (Pool.all p').Perm (Pool.all p)
  | [], p, p', h => by simp only [Pool.run, Option.some.injEq] at h; subst h; exact List.Perm.refl _
  | e :: es, p, p', h => by
    simp only [Pool.run] at h
    split at h
    · next p1 hs => exact (Pool.run_all es p1 p' h).trans (Pool.step_all p p1 e hs)
    · cases h

/-! ### the master's own work terminates in a quiet state -/

theorem add_hasKey_false (c : Config) (s : State) (hI : Inv c s) (pid : Nat) (a : Bool) (us : List (Nat × Bool))
    (ht : takeUnreg pid s.unreg = some (a, us)) : hasKey s.childs pid = false := by
  obtain ⟨_, _, _, hnd, _⟩ := hI
  obtain ⟨_, hperm, -, -, -⟩ := takeUnreg_spec pid s.unreg a us ht
  have hperm2 : (pidsOf s).Perm (s.childs.map (·.pid) ++ pid :: us.map (·.1)) := by
    simp only [pidsOf]; exact List.Perm.append_left _ hperm
  have hnd2 := hperm2.nodup_iff.mp hnd
  refine (hasKey_false_iff _ _).mpr ?_
  intro hm
  rw [List.nodup_append] at hnd2
  exact hnd2.2.2 pid hm pid (by simp) rfl

theorem firstOpen_decAt : ∀ (bs : List Batch) (i : Nat), firstOpen bs = some i → ∃ bs', decAt i bs = some bs'
  | [], _, h => by simp [firstOpen] at h
  | b :: bs, i, h => by
    simp only [firstOpen] at h
    split at h
    · next hb => cases h; exact ⟨{ b with remaining := b.remaining - 1 } :: bs, by simp [decAt, hb]⟩
    · simp only [Option.map_eq_some_iff] at h
      obtain ⟨j, hj, rfl⟩ := h
      obtain ⟨bs', hb'⟩ := firstOpen_decAt bs j hj
      exact ⟨b :: bs', by simp [decAt, hb']⟩

theorem firstOpen_none : ∀ (bs : List Batch), firstOpen bs = none → reserved bs = 0
  | [], _ => rfl
  | b :: bs, h => by
    simp only [firstOpen] at h
    split at h
    · cases h
    · next hb =>
      simp only [Option.map_eq_none_iff] at h
      simp only [reserved, firstOpen_none bs h]; omega

theorem nextInternal_none (s : State) (h : nextInternal s = none) : quiet s = true := by
  unfold nextInternal at h
  split at h
  · cases h
  · next hu =>
    split at h
    · cases h
    · next hf =>
      split at h
      · cases h
      · next hd =>
        simp only [quiet, Bool.and_eq_true, beq_iff_eq, List.isEmpty_iff, List.all_eq_true]
        refine ⟨⟨firstOpen_none _ hf, hu⟩, fun ch hm => ?_⟩
        have := List.find?_eq_none.mp hd ch hm
        simpa using this

theorem delChild_dead (pid : Nat) : ∀ (cs : List Child) (ch : Child), (cs.map (·.pid)).Nodup → ch ∈ cs →
    ch.pid = pid → ch.alive = false →
    (delChild pid cs).countP (fun x => !x.alive) + 1 = cs.countP (fun x => !x.alive)
  | [], _, _, hm, _, _ => by cases hm
  | c :: cs, ch, hnd, hm, hp, ha => by
    simp only [List.map_cons, List.nodup_cons] at hnd
    simp only [delChild]
    split
    · next hc =>
      have : ch = c := by
        rcases List.mem_cons.mp hm with h | h
        · exact h
        · exact absurd (List.mem_map.mpr ⟨ch, h, by rw [hp, ← hc]⟩) hnd.1
      subst this
      simp [ha]
    · next hc =>
      have hm' : ch ∈ cs := by
        rcases List.mem_cons.mp hm with h | h
        · subst h; exact absurd hp hc
        · exact h
      have ih := delChild_dead pid cs ch hnd.2 hm' hp ha
      simp only [List.countP_cons]; omega

theorem nextInternal_progress (c : Config) (s : State) (hI : Inv c s) (e : Ev) (h : nextInternal s = some e) :
    e.internal = true ∧ ∃ s', step .repaired c s e = some s' ∧ workLeft s' < workLeft s := by
  unfold nextInternal at h
  split at h
  · next u us hu =>
    cases h
    refine ⟨rfl, ?_⟩
    have ht : takeUnreg u.1 s.unreg = some (u.2, us) := by simp [hu, takeUnreg]
    have hk := add_hasKey_false c s hI u.1 u.2 us ht
    refine ⟨addH .repaired s u.1 u.2 us, by simp [step, ht], ?_⟩
    simp only [workLeft, deadCount, addH, setChild, hk, Bool.false_eq_true, if_false, hu, List.length_cons,
      List.countP_cons, List.countP_append, List.countP_nil]
    cases u.2 <;> simp <;> omega
  · next hu =>
    split at h
    · next i hf =>
      cases h
      refine ⟨rfl, ?_⟩
      obtain ⟨bs', hb⟩ := firstOpen_decAt _ _ hf
      have hr := decAt_reserved i s.batches bs' hb
      refine ⟨_, by simp [step, hb]; rfl, ?_⟩
      simp only [workLeft, deadCount, hu, List.nil_append, List.length_cons, List.length_nil, List.countP_cons,
        List.countP_nil]
      simp; omega
    · next hf =>
      split at h
      · next ch hd =>
        cases h
        refine ⟨rfl, ?_⟩
        have hm := List.mem_of_find?_eq_some hd
        have ha : ch.alive = false := by simpa using List.find?_some hd
        have hdead : isDeadChild s ch.pid = true := by
          simp only [isDeadChild, List.any_eq_true, Bool.and_eq_true, beq_iff_eq, Bool.not_eq_eq_eq_not, Bool.not_true]
          exact ⟨ch, hm, rfl, ha⟩
        refine ⟨delH c s ch.pid, by simp [step, hdead], ?_⟩
        obtain ⟨hc, hlo, hhi, hnd, hfr⟩ := hI
        have hndc : (s.childs.map (·.pid)).Nodup := by
          simp only [pidsOf] at hnd; exact (List.nodup_append.mp hnd).1
        have hcnt := delChild_dead ch.pid s.childs ch hndc hm rfl ha
        unfold delH
        simp only
        split
        · next hlt =>
          have : ((c.init : Int) - (s.refCount - 1)).toNat = 1 := by omega
          simp only [workLeft, deadCount, reserved_append, this]
          omega
        · simp only [workLeft, deadCount]
          omega
      · cases h

theorem drain_spec (c : Config) (hcfg : c.init ≤ c.max) : ∀ (n : Nat) (s : State), Inv c s → workLeft s ≤ n →
    run .repaired c s (drainTrace .repaired c n s) = some (drain .repaired c n s) ∧
    (∀ e ∈ drainTrace .repaired c n s, e.internal = true) ∧ quiet (drain .repaired c n s) = true
  | 0, s, hI, hn => by
    have hq : nextInternal s = none := by
      cases hni : nextInternal s with
      | none => rfl
      | some e =>
        obtain ⟨_, s', _, hlt⟩ := nextInternal_progress c s hI e hni
        omega
    exact ⟨rfl, by simp [drainTrace], by simpa [drain] using nextInternal_none s hq⟩
  | n + 1, s, hI, hn => by
    cases hni : nextInternal s with
    | none => exact ⟨by simp [drainTrace, drain, hni, run], by simp [drainTrace, hni],
        by simpa [drain, hni] using nextInternal_none s hni⟩
    | some e =>
      obtain ⟨hint, s', hs, hlt⟩ := nextInternal_progress c s hI e hni
      have ih := drain_spec c hcfg n s' (inv_step c hcfg s s' e hI hs) (by omega)
      refine ⟨by simpa [drainTrace, drain, hni, hs, run] using ih.1, ?_, by simpa [drain, hni, hs] using ih.2.2⟩
      intro e' he'
      simp only [drainTrace, hni, hs, List.mem_cons] at he'
      rcases he' with rfl | he'
      · exact hint
      · exact ih.2.1 e' he'

/-! ### an event only ever takes away the worker it is about -/

def Ev.target : Ev → Option Nat
  | .exit p | .timeoutKill p | .del p => some p
  | _ => none

theorem mem_alivePids (s : State) (j : Nat) :
    j ∈ alivePids s ↔ (∃ ch ∈ s.childs, ch.alive = true ∧ ch.pid = j) ∨ (∃ u ∈ s.unreg, u.2 = true ∧ u.1 = j) := by
  simp only [alivePids, List.mem_append, List.mem_map, List.mem_filter]
  constructor
  · rintro (⟨ch, ⟨h1, h2⟩, h3⟩ | ⟨u, ⟨h1, h2⟩, h3⟩)
    · exact Or.inl ⟨ch, h1, h2, h3⟩
    · exact Or.inr ⟨u, h1, h2, h3⟩
  · rintro (⟨ch, h1, h2, h3⟩ | ⟨u, h1, h2, h3⟩)
    · exact Or.inl ⟨ch, ⟨h1, h2⟩, h3⟩
    · exact Or.inr ⟨u, ⟨h1, h2⟩, h3⟩

theorem alivePids_length (s : State) : (alivePids s).length = aliveCount s := by
  simp [alivePids, aliveCount, List.countP_eq_length_filter]

theorem takeUnreg_mem : ∀ (pid : Nat) (us : List (Nat × Bool)) (a : Bool) (us' : List (Nat × Bool)),
    takeUnreg pid us = some (a, us') → ∀ u ∈ us, u = (pid, a) ∨ u ∈ us'
  | _, [], _, _, h, _, hu => by cases hu
  | pid, x :: xs, a, us', h, u, hu => by
    simp only [takeUnreg] at h
    split at h
    · next hp =>
      simp only [Option.some.injEq, Prod.mk.injEq] at h
      obtain ⟨rfl, rfl⟩ := h
      rcases List.mem_cons.mp hu with rfl | hu
      · exact Or.inl (by rw [← hp])
      · exact Or.inr hu
    · simp only [Option.map_eq_some_iff] at h
      obtain ⟨⟨a', r⟩, hr, heq⟩ := h
      simp only [Prod.mk.injEq] at heq
      obtain ⟨rfl, rfl⟩ := heq
      rcases List.mem_cons.mp hu with rfl | hu
      · exact Or.inr (List.mem_cons_self ..)
      · rcases takeUnreg_mem pid xs a' r hr u hu with h | h
        · exact Or.inl h
        · exact Or.inr (List.mem_cons_of_mem _ h)

theorem alive_update (c : Config) (s : State) (pid : Nat) (st : WState) (j : Nat) (hj : j ∈ alivePids s) :
    j ∈ alivePids (updateH c s pid st) := by
  rw [mem_alivePids] at hj ⊢
  rw [updateH_childs, updateH_unreg]
  rcases hj with ⟨ch, h1, h2, h3⟩ | h
  · left
    refine ⟨if ch.pid = pid then { ch with st := st } else ch, ?_, ?_, ?_⟩
    · exact List.mem_map.mpr ⟨ch, h1, rfl⟩
    · split <;> simp [h2]
    · split <;> simp [h3]
  · exact Or.inr h

theorem alive_exit (s : State) (pid : Nat) (j : Nat) (hne : j ≠ pid) (hj : j ∈ alivePids s) :
    j ∈ alivePids (exitH s pid) := by
  rw [mem_alivePids] at hj ⊢
  rcases hj with ⟨ch, h1, h2, h3⟩ | ⟨u, h1, h2, h3⟩
  · left
    refine ⟨ch, ?_, h2, h3⟩
    simp only [exitH, markDead, List.mem_map]
    exact ⟨ch, h1, by simp [h3, hne]⟩
  · right
    refine ⟨u, ?_, h2, h3⟩
    simp only [exitH, markDeadU, List.mem_map]
    exact ⟨u, h1, by simp [h3, hne]⟩

theorem alive_step (c : Config) (s s' : State) (e : Ev) (hI : Inv c s) (hs : step .repaired c s e = some s')
    (j : Nat) (hne : Ev.target e ≠ some j) (hj : j ∈ alivePids s) : j ∈ alivePids s' := by
  cases e with
  | spawnStart b =>
    simp only [step, Option.map_eq_some_iff] at hs
    obtain ⟨bs, _, rfl⟩ := hs
    rw [mem_alivePids] at hj ⊢
    rcases hj with h | ⟨u, h1, h2, h3⟩
    · exact Or.inl h
    · exact Or.inr ⟨u, List.mem_append_left _ h1, h2, h3⟩
  | add pid =>
    simp only [step, Option.map_eq_some_iff] at hs
    obtain ⟨⟨a, us⟩, ht, rfl⟩ := hs
    have hk := add_hasKey_false c s hI pid a us ht
    rw [mem_alivePids] at hj ⊢
    simp only [addH, setChild, hk, Bool.false_eq_true, if_false]
    rcases hj with ⟨ch, h1, h2, h3⟩ | ⟨u, h1, h2, h3⟩
    · exact Or.inl ⟨ch, List.mem_append_left _ h1, h2, h3⟩
    · rcases takeUnreg_mem pid s.unreg a us ht u h1 with rfl | hu
      · exact Or.inl ⟨⟨pid, .idle, a⟩, by simp, h2, h3⟩
      · exact Or.inr ⟨u, hu, h2, h3⟩
  | update pid st =>
    simp only [step, Option.some.injEq] at hs
    subst hs
    exact alive_update c s pid st j hj
  | exit pid =>
    simp only [step] at hs
    split at hs
    · cases hs
      exact alive_exit s pid j (fun h => hne (by simp [Ev.target, h])) hj
    · cases hs
  | del pid =>
    simp only [step] at hs
    split at hs
    · cases hs
      have hjp : j ≠ pid := fun h => hne (by simp [Ev.target, h])
      rw [mem_alivePids] at hj ⊢
      rw [delH_childs, delH_unreg]
      rcases hj with ⟨ch, h1, h2, h3⟩ | h
      · exact Or.inl ⟨ch, (mem_delChild_of_ne pid _ ch (by rw [h3]; exact hjp)).mpr h1, h2, h3⟩
      · exact Or.inr h
    · cases hs
  | timeoutKill pid =>
    simp only [step] at hs
    split at hs
    · cases hs
      exact alive_exit _ pid j (fun h => hne (by simp [Ev.target, h])) (alive_update c s pid .stopped j hj)
    · cases hs

end ZnVerif.Proofs.PM
