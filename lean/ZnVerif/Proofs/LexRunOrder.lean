/-
C03 at character level: the tokens of a `Run` come in reading order against the run's layout (`Layout.InOrder`, the hypothesis of
`parse_statements_roundtrip`) — each token lies on the last line known when it is read, and the table only grows.
-/
import ZnVerif.Proofs.LexSimBase

namespace ZnVerif.Proofs.LexSim
open ZnVerif.Model ZnVerif.Model.Parser ZnVerif.Generated.Tokens
open ZnVerif.Spec.StmtSyntax ZnVerif.Proofs.LexRun

variable {Y : Layout} (R : Run Y)

theorem sl_tk (i : Nat) : Y.sl (R.tk i) = nl R i - 1 :=
  (known_around R (Nat.le_refl i) (R.tk i).startIdx (Nat.le_refl _) (R.span i)).2.1

theorem el_tk (i : Nat) : Y.el (R.tk i) = nl R i - 1 :=
  (known_around R (Nat.le_refl i) (R.tk i).endIdx (R.span i) (Nat.le_refl _)).2.1

theorem peek_rest (i : Nat) : Y.peek (rest R i) = R.tk i := by
  by_cases h : i < R.N
  · rw [rest_lt R h]; rfl
  · rw [rest_ge R (by omega), R.eof i (by omega)]; rfl

theorem rest_inOrder (hnc : ∀ j, j < R.N → (R.tk j).type ≠ cTypeComment) :
    ∀ (n i : Nat), R.N - i = n → Y.InOrder (rest R i) := by
  intro n
  induction n with
  | zero => intro i h; rw [rest_ge R (by omega)]; trivial
  | succ n ih =>
    intro i h
    have hi : i < R.N := by omega
    rw [rest_lt R hi]
    refine ⟨hnc i hi, ?_, ?_, ih (i + 1) (by omega)⟩
    · rw [peek_rest, sl_tk, sl_tk]
      have := nl_mono R (show i ≤ i + 1 by omega)
      omega
    · rw [peek_rest, el_tk, el_tk]
      have := nl_mono R (show i ≤ i + 1 by omega)
      omega

/-- **the tokens of a run come in reading order** -/
theorem run_inOrder (hnc : ∀ j, j < R.N → (R.tk j).type ≠ cTypeComment) : Y.InOrder R.toks := by
  rw [← rest_zero R]
  exact rest_inOrder R hnc R.N 0 rfl

theorem tk_mem_toks {j : Nat} (h : j < R.N) : R.tk j ∈ R.toks := by
  unfold Run.toks
  exact List.mem_map.mpr ⟨j, List.mem_range.mpr h, rfl⟩

end ZnVerif.Proofs.LexSim
