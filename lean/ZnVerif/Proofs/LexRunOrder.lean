/-
C03 at character level: the tokens of a `Run` come in reading order against the run's layout (`Layout.InOrder`, the hypothesis of
`parse_statements_roundtrip`) — each token lies on the last line known when it is read, and the table only grows.
-/
import ZnVerif.Proofs.LexSimBase
import ZnVerif.Proofs.CmtSimBase

namespace ZnVerif.Proofs.LexSim
open ZnVerif.Model ZnVerif.Model.Parser ZnVerif.Generated.Tokens
open ZnVerif.Spec.StmtSyntax ZnVerif.Proofs.LexRun

variable {Y : Layout} (R : Run Y)

theorem sl_tk (i : Nat) : Y.sl (R.tk i) = R.sline i := (known_start R (Nat.le_refl i) 0 (Nat.zero_le _)).2

theorem el_tk (i : Nat) : Y.el (R.tk i) = nl R i - 1 := (known_end R (Nat.le_refl i) 0 (Nat.zero_le _)).2

/-- start lines do not decrease along the run -/
theorem sline_mono {i i' : Nat} (h : i < i') : R.sline i ≤ R.sline i' := by
  have h1 := R.sline_lt i
  have h2 := sline_ge' R h
  unfold nl at h2
  omega

theorem peek_rest (i : Nat) : Y.peek (rest R i) = R.tk i := by
  by_cases h : i < R.N
  · rw [rest_lt R h]; rfl
  · rw [rest_ge R (by omega), R.eof i (by omega)]; rfl

theorem rest_inOrder (hnc : ∀ j, j < R.N → (R.tk j).type ≠ cTypeComment) :
    ∀ (n i : Nat), R.N - i = n → Y.InOrder (rest R i) := by
  intro n
  induction n with
  | zero => intro i h; rw [rest_ge R (by omega)]; trivial
  | succ n ih =>
    intro i h
    have hi : i < R.N := by omega
    rw [rest_lt R hi]
    refine ⟨hnc i hi, ?_, ?_, ih (i + 1) (by omega)⟩
    · rw [peek_rest, sl_tk, sl_tk]
      exact sline_mono R (Nat.lt_succ_self i)
    · rw [peek_rest, el_tk, el_tk]
      have := nl_mono R (show i ≤ i + 1 by omega)
      omega

/-- **the tokens of a run come in reading order** -/
theorem run_inOrder (hnc : ∀ j, j < R.N → (R.tk j).type ≠ cTypeComment) : Y.InOrder R.toks := by
  rw [← rest_zero R]
  exact rest_inOrder R hnc R.N 0 rfl

theorem tk_mem_toks {j : Nat} (h : j < R.N) : R.tk j ∈ R.toks := by
  unfold Run.toks
  exact List.mem_map.mpr ⟨j, List.mem_range.mpr h, rfl⟩


/-! ### with comment tokens in the run: the other tokens come in reading order -/

open ZnVerif.Proofs.CmtSim (clean noC)

theorem clean_cons_comment {t : Token} {r : List Token} (h : t.type = cTypeComment) : clean (t :: r) = clean r := by
  have : noC t = false := by simp [noC, h]
  simp only [clean, List.filter_cons, this]; rfl

theorem clean_cons_other {t : Token} {r : List Token} (h : t.type ≠ cTypeComment) : clean (t :: r) = t :: clean r := by
  have : noC t = true := by simp [noC, h]
  simp only [clean, List.filter_cons, this]; rfl

/-- the next token that is not a comment is a later token of the run (or the EOF the run ends with) -/
theorem peek_clean_rest : ∀ (n i : Nat), R.N - i = n → ∃ i', i ≤ i' ∧ Y.peek (clean (rest R i)) = R.tk i' := by
  intro n
  induction n with
  | zero =>
    intro i h
    refine ⟨i, Nat.le_refl _, ?_⟩
    rw [rest_ge R (by omega), R.eof i (by omega)]; rfl
  | succ n ih =>
    intro i h
    have hi : i < R.N := by omega
    rw [rest_lt R hi]
    by_cases hc : (R.tk i).type = cTypeComment
    · rw [clean_cons_comment hc]
      obtain ⟨i', h1, h2⟩ := ih (i + 1) (by omega)
      exact ⟨i', by omega, h2⟩
    · rw [clean_cons_other hc]
      exact ⟨i, Nat.le_refl _, rfl⟩

theorem clean_rest_inOrder : ∀ (n i : Nat), R.N - i = n → Y.InOrder (clean (rest R i)) := by
  intro n
  induction n with
  | zero => intro i h; rw [rest_ge R (by omega)]; trivial
  | succ n ih =>
    intro i h
    have hi : i < R.N := by omega
    rw [rest_lt R hi]
    by_cases hc : (R.tk i).type = cTypeComment
    · rw [clean_cons_comment hc]; exact ih (i + 1) (by omega)
    · rw [clean_cons_other hc]
      obtain ⟨i', h1, h2⟩ := peek_clean_rest R (R.N - (i + 1)) (i + 1) rfl
      refine ⟨hc, ?_, ?_, ih (i + 1) (by omega)⟩
      · rw [h2, sl_tk, sl_tk]
        exact sline_mono R (by omega)
      · rw [h2, el_tk, el_tk]
        have := nl_mono R (show i ≤ i' by omega)
        omega

/-- **the tokens of a run, comments dropped, come in reading order** -/
theorem run_inOrder_clean : Y.InOrder (clean R.toks) := by
  rw [← rest_zero R]
  exact clean_rest_inOrder R R.N 0 rfl

end ZnVerif.Proofs.LexSim
