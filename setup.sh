#!/bin/bash
# MANIFEST.setup_cmd — builds the framework from files on disk only (offline).
set -e
cd "$(dirname "$0")"
export GOFLAGS=-mod=mod GOPROXY=off GOSUMDB=off GOTOOLCHAIN=local
mkdir -p .build evidence replays
tools/build.sh
.build/znextract -repo ${ZN_REPO:-/repo} -out lean/ZnVerif/Generated -facts .build/facts.json || true
(cd lean && lake build zndriver ZnVerif 2>&1 | grep -v '^✔' | tail -30)
test -x lean/.lake/build/bin/zndriver
echo SETUP-OK
