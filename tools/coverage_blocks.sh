#!/bin/bash
# coverage blocks for selected checks: prints uncovered blocks of chosen files
export GOFLAGS=-mod=mod GOPROXY=off GOSUMDB=off GOTOOLCHAIN=local
V=$(cd "$(dirname "$0")/.." && pwd)
W=$(mktemp -d /tmp/zncovb.XXXXXX)
rsync -a --exclude .git $V/ $W/verif/
cd $W/verif
rm -f .build/znharness
export ZN_COVER=1 ZN_RACE=0 GOCOVERDIR=$W/cov
mkdir -p $GOCOVERDIR
for c in "$@"; do ./check $c --tier quick 2>&1 | grep -E "VIOLATION|tier=" || true; done
mkdir -p $W/merged && go tool covdata merge -i=$GOCOVERDIR -o=$W/merged
go tool covdata textfmt -i=$W/merged -o=$W/cover.txt
grep -v "^znharness/" $W/cover.txt | awk 'NR==1 || $NF==0' > ${OUT:-/tmp/uncovered_blocks.txt}
wc -l ${OUT:-/tmp/uncovered_blocks.txt}
cd /; rm -rf $W
