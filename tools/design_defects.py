#!/usr/bin/env python3
"""rewrites the defects table of DESIGN.md (between <!-- DEFECTS-BEGIN --> and <!-- DEFECTS-END -->) from known_findings.json"""
import json, os
V = os.path.dirname(os.path.dirname(os.path.abspath(__file__)))
d = json.load(open(V + '/known_findings.json'))['findings']
rows = ['| property | disposition | what failed on the pinned tree |', '|---|---|---|']
for k in sorted(d, key=lambda x: (x['property'], x.get('commit', ''))):
    disp = ('fixed `%s`' % k['commit']) if k['status'] == 'fixed' else ('known finding `%s`' % k.get('id', ''))
    rows.append('| %s | %s | %s |' % (k['property'], disp, k.get('what', '').replace('|', '\\|').replace('\n', ' ⏎ ')))
s = open(V + '/DESIGN.md').read()
a, b = s.index('<!-- DEFECTS-BEGIN -->'), s.index('<!-- DEFECTS-END -->')
s = s[:a] + '<!-- DEFECTS-BEGIN -->\n' + '\n'.join(rows) + '\n' + s[b:]
open(V + '/DESIGN.md', 'w').write(s)
print(len(rows) - 2, 'defects listed')
