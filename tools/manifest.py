#!/usr/bin/env python3
"""regenerates MANIFEST.json from the table below (kept in one place so it stays valid)"""
import json, os
V = os.path.dirname(os.path.dirname(os.path.abspath(__file__)))
props = [json.loads(l) for l in open(V + '/properties.jsonl')]

CLAIMED = {
 'C01': ("Theorems on the model evaluator for all expressions/fuel/states: 且/或 short-circuit (right operand not evaluated), zero-divisor and non-number/non-boolean operands are errors, | and % are floor(a/b) and a−floor(a/b)·b as applications of abstract number operations; tied to /repo by a three-way run (real interpreter = model evaluator on the real parser's tree = spec semantics on the generator's intended tree, which also checks precedence/associativity).",
         "IEEE-754 arithmetic, ParseFloat and %v formatting are the Go runtime's (abstract NumOps in theorems; compared bit-for-bit per generated case)."),
 'C02': ("Theorems on the model's control-flow mechanism for all programs/fuel/states: 输出 sets the frame's return slot, no later statement of a block and no further loop pass runs once it is set, 每当 re-tests before every pass, 遍历 visits in order with 1-based indices, first true branch only, non-boolean condition is an error; tied to /repo by the three-way run on generated nested control-flow programs.",
         "termination is by fuel in the model; generated loops terminate by construction."),
 'C04': ("Lean theorems for all strings / all code points: the numeric DFA (regenerated from the Go switch, tied by a finite reflection) accepts exactly the documented numeric form, starts-like-a-number-but-is-not is rejected, binary search over idRange equals linear membership (table facts by decide +kernel), keyword table equals the documented keyword list and is prefix-exclusive; correspondence on all 0x110000 code points and exhaustive short + grammar-derived numeric strings.",
         "correct rounding is strconv's (checked against exact rational arithmetic per case); keyword/identifier segmentation at character level awaits the lexer model."),
 'C07': ("Theorems about value duplication in the heap model (objects/methods/types shared, scalars copied into fresh cells) and three-way runs on generated copy/mutate/read histories through every copying form the property lists.",
         "Go slice backing arrays are not modelled; spec semantics is value semantics for lists/dictionaries, reference semantics for objects."),
 'C08': ("Theorems on receiver binding (其 = top frame's receiver; error 48 without one), unknown property errors, locality of property writes; three-way runs on generated programs with methods, arities, recursion to depth 300, 得到, chains, types with defaults and constructors.",
         "Go stack exhaustion by unbounded recursion is outside the quantifier."),
 'C09': ("Theorems: a raising statement skips the rest of its block, 抛出 constructs and raises, break/continue are signals; three-way runs on generated call chains with planted faults × handler placements × class matches, with caller-state probes after the catch.",
         "message text of runtime faults is implementation-defined and not compared."),
 'C12': ("Refinement theorems for all operation histories: the dictionary (Go map + keyOrder slice, delete loop on an explicit backing array) refines an insertion-ordered map and the list a 1-indexed sequence, invariant keyOrder.Nodup ∧ keys = dom map, all sequence laws; correspondence on random and exhaustive-short histories driving the real value.Array/value.HashMap.",
         "elements are abstract (generic α); 生成JSON order is C19's."),
}
PENDING = {
 'C03': 'check under construction in this round (parser model not yet registered)',
 'C05': 'check under construction in this round (lexer/parser totality model not yet registered)',
 'C06': 'check under construction in this round',
 'C10': 'check under construction in this round',
 'C11': 'check under construction in this round',
 'C13': 'check under construction in this round',
 'C14': 'check under construction in this round',
 'C15': 'check under construction in this round',
 'C16': 'check under construction in this round',
 'C17': 'check under construction in this round',
 'C18': 'check under construction in this round',
 'C19': 'check under construction in this round',
 'C20': 'check under construction in this round',
}
extra = os.path.join(V, 'tools', 'manifest_extra.json')
if os.path.exists(extra):
    ex = json.load(open(extra))
    for k, v in ex.get('claimed', {}).items():
        CLAIMED[k] = tuple(v)
        PENDING.pop(k, None)
for k in CLAIMED:
    PENDING.pop(k, None)

hooks = json.load(open(os.path.join(V, 'tools', 'hooks.json'))) if os.path.exists(os.path.join(V, 'tools', 'hooks.json')) else {'source_commits': []}
checks = []
for p in props:
    pid = p['id']
    if pid in CLAIMED:
        text, note = CLAIMED[pid]
        checks.append({
            "property_id": pid,
            "quick_cmd": "./check %s --tier quick" % pid,
            "thorough_cmd": "./check %s --tier thorough" % pid,
            "evidence_file": "/verif/evidence/%s.json" % pid,
            "replay_cmd_template": "./check %s --replay {path}" % pid,
            "engine": "lean4-proof+correspondence",
            "level_claimed": {"category": "proof", "text": text, "design_ref": "DESIGN.md §6 " + pid},
            "level_note": note + " Trusted base: DESIGN.md §8.",
            "technique": "Lean 4 machine-checked proof over a formal model; model tied to source by regenerated tables and differential correspondence (Go vs model vs spec)",
        })
m = {"version": 1, "setup_cmd": "./setup.sh",
     "hooks": {"guard": "verif", "enable": "go build -tags verif (harness module with `replace github.com/DemoHn/Zn => /repo`)",
               "baseline_off_cmd": "cd /repo && go test -mod=mod -json -vet=off -count=1 ./...",
               "source_commits": hooks.get('source_commits', []), "add_only": True},
     "engines": [{"name": "lean4-proof+correspondence", "path": "/verif/check", "serves_properties": sorted(CLAIMED),
                  "kind_free_text": "Lean 4 machine-checked proof over a formal model; model tied to source by a go/ast table translator (regenerated every run) and a differential correspondence harness (real Go code vs Lean model vs Lean spec oracle)"}],
     "checks": checks,
     "not_applicable": [{"property_id": k, "reason": v} for k, v in sorted(PENDING.items())],
     "notes": "see DESIGN.md; known findings in known_findings.json"}
json.dump(m, open(V + '/MANIFEST.json', 'w'), indent=1, ensure_ascii=False)
print('claimed', sorted(CLAIMED), 'pending', sorted(PENDING))
