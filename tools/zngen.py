"""Generator of Zn programs as trees, with two renderings:
   src(tree)  -> Zn source text (minimal braces + random extra braces / spellings)
   sx(tree)   -> the S-expression of the *intended* syntax tree, in the format of the harness `ast` op
                 (line numbers are filled in by the renderer, which knows on which line each token lands)
Every random choice comes from the rng passed in."""
import struct

LOGIC = {'or': 1, 'and': 2, 'eq': 4, 'ne': 5, 'gt': 6, 'ge': 7, 'lt': 8, 'le': 9, 'xeq': 10, 'xne': 11}
ARITH = {'+': 12, '-': 13, '*': 14, '/': 15, '|': 16, '%': 17}
SPELL = {
    'or': ['或'], 'and': ['且'],
    'eq': ['==', '等于'], 'ne': ['/=', '不等于'], 'gt': ['>', '大于'], 'ge': ['>=', '不小于'],
    'lt': ['<', '小于'], 'le': ['<=', '不大于'], 'xeq': ['为'], 'xne': ['不为'],
}
# precedence: or 1, and 2, cmp 3, add 5, mul 6, atom 7
PREC = {'or': 1, 'and': 2, '+': 5, '-': 5, '*': 6, '/': 6, '|': 6, '%': 6}
for _k in ('eq', 'ne', 'gt', 'ge', 'lt', 'le', 'xeq', 'xne'):
    PREC[_k] = 3


def hx(s):
    return s.encode('utf-8').hex() if s else '-'


def cps(s):
    return '.'.join('%x' % ord(c) for c in s) if s else '-'


class R:
    """rendering state: text so far, current line"""

    def __init__(self, rng=None, layout=None):
        self.parts = []
        self.line = 0
        self.rng = rng
        self.layout = layout or {}
        self.tags = {}

    def w(self, s):
        self.parts.append(s)
        self.line += s.count('\n')

    def text(self):
        return ''.join(self.parts)


# ---- expressions: each returns its s-expression after writing its text -----------------------------

class E:
    prec = 7


class Num(E):
    def __init__(self, lit):
        self.lit = lit

    def emit(self, r):
        r.w(self.lit)
        return '(id %d %s)' % (r.line, hx(self.lit))


class Var(E):
    def __init__(self, name):
        self.name = name

    def emit(self, r):
        r.w(self.name)
        return '(id %d %s)' % (r.line, hx(self.name))


class Str(E):
    def __init__(self, s, q='“”'):
        self.s, self.q = s, q

    def emit(self, r):
        r.w(self.q[0] + self.s + self.q[1])
        return '(str %d %s)' % (r.line, hx(self.s))


class Bin(E):
    """arith / logic binary operator"""

    def __init__(self, op, l, rr, spell=None):
        self.op, self.l, self.r, self.spell = op, l, rr, spell
        self.prec = PREC[op]

    def emit(self, r):
        op = self.op
        p = self.prec
        if op in ('or', 'and', '+', '-', '*', '/', '|', '%'):
            lmin, rmin = p, p + 1
            if op in ('+', '-'):
                rmin = 6
            if op in ('*', '/', '|', '%'):
                rmin = 7
            if op == 'or':
                rmin = 2
            if op == 'and':
                rmin = 3
        else:
            lmin = rmin = 5  # comparison operands are arithmetic expressions (no chaining)
        ls = emit_child(self.l, lmin, r)
        sp = self.spell or (SPELL[op][0] if op in SPELL else op)
        r.w(' ' + sp + ' ')
        opline = r.line
        rs = emit_child(self.r, rmin, r)
        if op in LOGIC:
            return '(logic %d %d %s %s)' % (opline, LOGIC[op], ls, rs)
        return '(arith %d %d %s %s)' % (opline, ARITH[op], ls, rs)


class Brace(E):
    """explicit { e } — no tree node of its own"""

    def __init__(self, e):
        self.e = e

    def emit(self, r):
        r.w('{')
        s = self.e.emit(r)
        r.w('}')
        return s


def emit_child(e, minprec, r):
    if e.prec < minprec:
        r.w('{')
        s = e.emit(r)
        r.w('}')
        return s
    return e.emit(r)


def emit_arg(a, r, last):
    """an argument: a 以…（…） chain followed by 、 would swallow the next argument as a chain link, so brace it"""
    if isinstance(a, MCall) and not last:
        r.w('{')
        x = a.emit(r)
        r.w('}')
        return x
    return a.emit(r)


class Call(E):
    def __init__(self, name, args, yld=None):
        self.name, self.args, self.yld = name, args, yld

    def emit(self, r):
        r.w('（')
        line = r.line
        r.w(self.name)
        ps = []
        if self.args:
            r.w('：')
            for i, a in enumerate(self.args):
                if i:
                    r.w('、')
                ps.append(emit_arg(a, r, i == len(self.args) - 1))
        r.w('）')
        y = 'nil'
        if self.yld:
            r.w('得到' + self.yld)
            y = '(id %d %s)' % (r.line, hx(self.yld))
        return '(call %d (id %d %s) (%s) %s)' % (line, line, hx(self.name), ' '.join(ps), y)


class MCall(E):
    """以 root （m：a、b）、（m2）  [得到 Y]"""

    def __init__(self, root, chain, yld=None):
        self.root, self.chain, self.yld = root, chain, yld

    def emit(self, r):
        r.w('以')
        line = r.line
        rs = self.root.emit(r)
        cs = []
        for i, (m, args) in enumerate(self.chain):
            if i:
                r.w('、')
            r.w('（')
            cl = r.line
            r.w(m)
            ps = []
            if args:
                r.w('：')
                for j, a in enumerate(args):
                    if j:
                        r.w('、')
                    ps.append(emit_arg(a, r, j == len(args) - 1))
            r.w('）')
            cs.append('(call %d (id %d %s) (%s) nil)' % (cl, cl, hx(m), ' '.join(ps)))
        y = 'nil'
        if self.yld:
            r.w('得到' + self.yld)
            y = '(id %d %s)' % (r.line, hx(self.yld))
        return '(mcall %d %s (%s) %s)' % (line, rs, ' '.join(cs), y)


class New(E):
    def __init__(self, cls, args):
        self.cls, self.args = cls, args

    def emit(self, r):
        r.w('（新建')
        line = r.line
        r.w(self.cls)
        ps = []
        if self.args:
            r.w('：')
            for j, a in enumerate(self.args):
                if j:
                    r.w('、')
                ps.append(emit_arg(a, r, j == len(self.args) - 1))
        r.w('）')
        return '(new %d (id %d %s) (%s))' % (line, line, hx(self.cls), ' '.join(ps))


class Arr(E):
    def __init__(self, items):
        self.items = items

    def emit(self, r):
        r.w('【')
        line = r.line
        ps = []
        for i, a in enumerate(self.items):
            if i:
                r.w('，')
            ps.append(a.emit(r))
        r.w('】')
        return '(arr %d (%s))' % (line, ' '.join(ps))


class Dict(E):
    """【k = v，…】 ; keys are Str or Var/Num (literal keys); empty dict is 【=】"""

    def __init__(self, kvs):
        self.kvs = kvs

    def emit(self, r):
        r.w('【')
        line = r.line
        if not self.kvs:
            r.w('=】')
            return '(hm %d ())' % line
        ps = []
        for i, (k, v) in enumerate(self.kvs):
            if i:
                r.w('，')
            ks = k.emit(r)
            r.w(' = ')
            vs = v.emit(r)
            ps.append('(%s %s)' % (ks, vs))
        r.w('】')
        return '(hm %d (%s))' % (line, ' '.join(ps))


class Index(E):
    """root # idx   (idx: Num/Var literal → ID, Str → String, other → {expr})"""

    def __init__(self, root, idx):
        self.root, self.idx = root, idx

    def emit(self, r):
        rs = emit_child(self.root, 7, r)
        r.w('#')
        line = r.line
        if isinstance(self.idx, (Num, Var, Str)):
            xs = self.idx.emit(r)
        else:
            r.w('{')
            xs = self.idx.emit(r)
            r.w('}')
        return '(member %d 1 %s 2 nil %s)' % (line, rs, xs)


class Prop(E):
    """root 之 name — the member node stands on the line of the member NAME (calleeTailParser: setStmtCurrentLine(memberExpr, name
    token)); a root that spans lines (a multi-line text, a list over several lines) therefore does not give the node its first line"""

    def __init__(self, root, name, dot='之'):
        self.root, self.name, self.dot = root, name, dot

    def emit(self, r):
        rs = emit_child(self.root, 7, r)
        r.w(self.dot)
        r.w(self.name)
        line = r.line
        return '(member %d 1 %s 1 (id %d %s) nil)' % (line, rs, line, hx(self.name))


class This(E):
    """其 name — the member node stands on the line of the member name, like `root 之 name`"""

    def __init__(self, name):
        self.name = name

    def emit(self, r):
        r.w('其' + self.name)
        line = r.line
        return '(member %d 2 nil 1 (id %d %s) nil)' % (line, line, hx(self.name))


class Assign(E):
    prec = 4

    def __init__(self, target, e, spell='='):
        self.target, self.e, self.spell = target, e, spell

    def emit(self, r):
        ts = self.target.emit(r)
        r.w(' ' + self.spell + ' ')
        line = r.line
        es = emit_child(self.e, 5, r)
        return '(assign %d %s %s)' % (line, ts, es)


# ---- statements ----------------------------------------------------------------------------------

class S:
    pass


def emit_block(stmts, r, indent):
    out = []
    for s in stmts:
        r.w('    ' * indent)
        if getattr(s, 'tag', None) is not None:
            r.tags[s.tag] = r.line      # 0-based physical line on which the statement starts
        out.append(s.emit(r, indent))
        r.w('\n')
    return '(block' + ''.join(' ' + x for x in out if x) + ')'


class Raw(S):
    """verbatim source lines (comments, multi-line literals) with a known s-expression ('' = no tree node)"""

    def __init__(self, text, sx=''):
        self.text, self.sx = text, sx

    def emit(self, r, indent):
        r.w(self.text)
        return self.sx


class Empty(S):
    """`；` written n times on a line of its own: n empty statements (the parser gives them no line: 0)"""

    def __init__(self, n=1):
        self.n = n

    def emit(self, r, indent):
        r.w('；' * self.n)
        return ' '.join(['(empty 0)'] * self.n)


class Semi(S):
    """a SIMPLE statement (one that ends on the line it starts on) with `；` written before and / or after it on the same line:
    every `；` is an empty statement of the same block"""

    def __init__(self, s, before=0, after=1):
        self.s, self.before, self.after = s, before, after

    def emit(self, r, indent):
        r.w('；' * self.before)
        x = self.s.emit(r, indent)
        r.w('；' * self.after)
        return ' '.join(['(empty 0)'] * self.before + [x] + ['(empty 0)'] * self.after)


class ExprS(S):
    def __init__(self, e):
        self.e = e

    def emit(self, r, indent):
        return self.e.emit(r)


class Decl(S):
    def __init__(self, names, e, const=False):
        self.names, self.e, self.const = names, e, const

    def emit(self, r, indent):
        line = r.line
        r.w('令')
        ids = []
        for i, n in enumerate(self.names):
            if i:
                r.w('、')
            r.w(n)
            ids.append('(id %d %s)' % (r.line, hx(n)))
        r.w('恒为' if self.const else '设为')
        es = self.e.emit(r)
        return '(vardecl %d (pair %d (%s) %s))' % (line, 3 if self.const else 1, ' '.join(ids), es)


class DeclBlock(S):
    """令：  followed by one `names 设为/恒为 expr` line per pair"""

    def __init__(self, pairs):
        self.pairs = pairs      # [(names, expr, const)]

    def emit(self, r, indent):
        line = r.line
        r.w('令：\n')
        out = []
        for names, e, const in self.pairs:
            r.w('    ' * (indent + 1))
            ids = []
            for i, n in enumerate(names):
                if i:
                    r.w('、')
                r.w(n)
                ids.append('(id %d %s)' % (r.line, hx(n)))
            r.w('恒为' if const else '设为')
            es = e.emit(r)
            out.append('(pair %d (%s) %s)' % (3 if const else 1, ' '.join(ids), es))
            r.w('\n')
        strip_nl(r)
        return '(vardecl %d %s)' % (line, ' '.join(out))


class If(S):
    def __init__(self, cond, then, elifs=(), els=None):
        self.cond, self.then, self.elifs, self.els = cond, then, list(elifs), els

    def emit(self, r, indent):
        line = r.line
        r.w('如果')
        cs = self.cond.emit(r)
        r.w('：\n')
        tb = emit_block(self.then, r, indent + 1)
        others = []
        for c, b in self.elifs:
            r.w('    ' * indent + '再如')
            oc = c.emit(r)
            r.w('：\n')
            ob = emit_block(b, r, indent + 1)
            others.append('(%s %s)' % (oc, ob))
        eb = 'nil'
        he = 0
        if self.els is not None:
            r.w('    ' * indent + '否则：\n')
            eb = emit_block(self.els, r, indent + 1)
            he = 1
        strip_nl(r)
        return '(branch %d %s %s (%s) %d %s)' % (line, cs, tb, ' '.join(others), he, eb)


def strip_nl(r):
    # statements are terminated by the caller; a block statement already ended with a newline
    if r.parts and r.parts[-1] == '\n':
        r.parts.pop()
        r.line -= 1


class While(S):
    def __init__(self, cond, body):
        self.cond, self.body = cond, body

    def emit(self, r, indent):
        line = r.line
        r.w('每当')
        cs = self.cond.emit(r)
        r.w('：\n')
        b = emit_block(self.body, r, indent + 1)
        strip_nl(r)
        return '(while %d %s %s)' % (line, cs, b)


class Iter(S):
    def __init__(self, names, e, body):
        self.names, self.e, self.body = names, e, body

    def emit(self, r, indent):
        line = r.line
        ids = []
        if self.names:
            r.w('以')
            for i, n in enumerate(self.names):
                if i:
                    r.w('、')
                r.w(n)
                ids.append('(id %d %s)' % (r.line, hx(n)))
        r.w('遍历')
        es = self.e.emit(r)
        r.w('：\n')
        b = emit_block(self.body, r, indent + 1)
        strip_nl(r)
        return '(iterate %d %s (%s) %s)' % (line, es, ' '.join(ids), b)


class Ret(S):
    def __init__(self, e):
        self.e = e

    def emit(self, r, indent):
        line = r.line
        r.w('输出 ')
        return '(ret %d %s)' % (line, self.e.emit(r))


class Break(S):
    def emit(self, r, indent):
        r.w('结束循环')
        return '(break %d)' % r.line


class Continue(S):
    def emit(self, r, indent):
        r.w('继续循环')
        return '(continue %d)' % r.line


class Throw(S):
    def __init__(self, cls, args):
        self.cls, self.args = cls, args

    def emit(self, r, indent):
        line = r.line
        r.w('抛出' + self.cls + '：')
        ps = []
        for i, a in enumerate(self.args):
            if i:
                r.w('、')
            ps.append(a.emit(r))
        r.w('！')
        return '(throw %d (id %d %s) (%s))' % (line, line, hx(self.cls), ' '.join(ps))


def emit_exec(inputs, body, catches, r, indent):
    ids = []
    if inputs:
        r.w('    ' * indent + '输入')
        for i, n in enumerate(inputs):
            if i:
                r.w('、')
            r.w(n)
            ids.append('(id %d %s)' % (r.line, hx(n)))
        r.w('\n')
    b = emit_block(body, r, indent)
    cs = []
    for cls, blk in catches:
        r.w('    ' * indent + '拦截' + cls + '：\n')
        cid = '(id %d %s)' % (r.line - 1, hx(cls))
        cs.append('(catch %s %s)' % (cid, emit_block(blk, r, indent + 1)))
    return '(exec (%s) %s (%s))' % (' '.join(ids), b, ' '.join(cs))


class Func(S):
    def __init__(self, name, inputs, body, catches=(), ctor=False, getter=False):
        self.name, self.inputs, self.body, self.catches, self.ctor, self.getter = name, inputs, body, list(catches), ctor, getter

    def emit(self, r, indent):
        line = r.line
        r.w(('何为' if self.getter else '如何') + ('新建' if self.ctor else '') + self.name + '？\n')
        ex = emit_exec(self.inputs, self.body, self.catches, r, indent + 1)
        strip_nl(r)
        return '(funcdecl %d (id %d %s) %d %s)' % (line, line, hx(self.name), 3 if self.ctor else (2 if self.getter else 1), ex)


class Class(S):
    def __init__(self, name, props, methods, getters=()):
        self.name, self.props, self.methods, self.getters = name, props, methods, list(getters)

    def emit(self, r, indent):
        line = r.line
        r.w('定义' + self.name + '：\n')
        ps = []
        for pn, pe in self.props:
            r.w('    ' * (indent + 1) + '其' + pn + '设为')
            pid = '(id %d %s)' % (r.line, hx(pn))
            ps.append('(prop %s %s)' % (pid, pe.emit(r)))
            r.w('\n')
        ms = []
        for m in self.methods:
            r.w('    ' * (indent + 1))
            ms.append(m.emit(r, indent + 1))
            r.w('\n')
        gs = []
        for m in self.getters:
            r.w('    ' * (indent + 1))
            gs.append(m.emit(r, indent + 1))
            r.w('\n')
        strip_nl(r)
        return '(classdecl %d (id %d %s) (%s) (%s) (%s))' % (line, line, hx(self.name), ' '.join(ps), ' '.join(ms), ' '.join(gs))


class Program:
    """imports: [(libType, name, [item names], separator)] — libType 1 = 导入《name》 (library), 2 = 导入“name” (file);
    separator = the text after the statement: '\n', or ' ' to put the next 导入 on the same line, or any mix of `；`, blanks and a final
    '\n' — every `；` that follows a 导入 statement ON ITS LINE belongs to the import section (‹导入语句› [‹间隔符› ‹导入语句›]*) and
    leaves no empty statement in the tree.
    header: text written before everything else (blank lines, comment lines): the 导入 statements then stand on later lines.
    An import node carries the 0-based line its 导入 keyword stands on (ParseProgram: setStmtCurrentLine(stmt, 导入 token))."""

    def __init__(self, inputs, body, catches=(), imports=(), header=''):
        self.inputs, self.body, self.catches = inputs, body, list(catches)
        self.imports, self.header = list(imports), header
        self.import_lines = []

    def render(self, rng=None):
        r = R(rng)
        ims = []
        self.import_lines = []
        if self.header:
            r.w(self.header)
        for ty, name, items, sep in self.imports:
            line = r.line
            self.import_lines.append(line)
            r.w('导入' + ('《%s》' % name if ty == 1 else '“%s”' % name))
            ids = []
            for i, n in enumerate(items):
                r.w('之' if i == 0 else '、')
                r.w(n)
                ids.append('(id %d %s)' % (r.line, hx(n)))
            ims.append('(import %d %d %s (%s))' % (line, ty, hx(name), ' '.join(ids)))
            r.w(sep)
        if self.imports and not r.text().endswith('\n'):
            r.w('\n')
        ex = emit_exec(self.inputs, self.body, self.catches, r, 0)
        self.tags = r.tags
        return r.text(), '(prog (%s) %s)' % (' '.join(ims), ex)


# ---- helpers for inputs ----------------------------------------------------------------------------

def bits_of(x):
    if x != x:
        return 'nan'
    return '%016x' % struct.unpack('>Q', struct.pack('>d', x))[0]


def input_spec(name, v):
    if v is None:
        return hx(name) + '=null'
    if isinstance(v, bool):
        return hx(name) + '=b:' + ('1' if v else '0')
    if isinstance(v, float):
        return hx(name) + '=n:' + bits_of(v)
    if isinstance(v, str):
        return hx(name) + '=s:' + hx(v)
    raise ValueError(v)
