"""C13 — every text value round-trips through a string literal.

Streams (all through the real lexer `zh.NextToken` via op `lex`, the Lean lexer model via the same op, and the spec
oracle `Spec.Literal` via `spec:lexstr` / `spec:encode`):
  critical-exhaustive  every body over the critical alphabet (ten quote characters, back-tick, CR, LF, the letters of
                       the escape names C R L F T A B S P K U, `+`, hex digits 0 4) up to a length, in three opening
                       styles (“ 『 《), once closed by the own closing quote and (short ones) once left open
  escape-edits         every documented escape, near-escapes and out-of-range code points, with every single-character
                       insertion / replacement / deletion over the critical alphabet, in several contexts
  roundtrip-safe       random long texts t over everything troublesome, five opening quotes: the literal
                       `open ++ encodeSafe q t ++ close` (computed by the Lean spec) must lex to exactly t
  roundtrip-verbatim   random texts with balanced own quotes written verbatim
  roundtrip-run        end to end: program `输出‹literal›` executed by the interpreter, value compared with t
  lex-strings          multi-line / nested / escaped string soup (lexgen), real lexer vs model incl. the Lines table
"""
import itertools
from props import lexgen

RULE = ("critical-exhaustive: all bodies of length ≤ L over the 27-glyph critical alphabet and of length L+1 over its "
        "12-glyph core (quick: L = 3, 10-glyph core; thorough: L = 4, plus length 6 over a 9-glyph core) × three opening "
        "styles (exhaustive); escape-edits: all single-character edits of 22 escape skeletons × contexts (quick: every 6th); roundtrip-*: random texts (every quote pair, back-ticks, CR/LF mixes, NUL, astral and "
        "boundary code points) through the spec encoders; non-trivial = the body contains a back-tick, a quote or a "
        "line break (the lexer leaves the plain-character path)")
ASSUMPTIONS = ["source texts are sequences of valid scalar values (the file decoder's job, C17)",
               "the value of a text token becomes the text value by Go's string([]rune) conversion (runtime), exercised by roundtrip-run"]
PARTIAL = ("none for the lexer; the spec reads 'back-tick text' as the text between a back-tick and the next one (an "
           "undocumented group is kept whole); the number of generated inputs on which a looser reading would differ is counted")

BT, CR, LF = 0x60, 0x0D, 0x0A
QUOTES = [0x201C, 0x201D, 0x300C, 0x300D, 0x2018, 0x2019, 0x300E, 0x300F, 0x300A, 0x300B]
OPEN = [0x201C, 0x300C, 0x2018, 0x300E, 0x300A]          # index = Spec.Literal.Quote.all
CLOSE = {0x201C: 0x201D, 0x300C: 0x300D, 0x2018: 0x2019, 0x300E: 0x300F, 0x300A: 0x300B}
TYPE = {0x201C: 2, 0x300C: 2, 0x2018: 6, 0x300E: 6, 0x300A: 7}
LETTERS = [ord(c) for c in 'CRLFTABSPKU']
CRITICAL = QUOTES + [BT, CR, LF] + LETTERS + [0x2B, 0x30, 0x34]          # 27 glyphs
STYLES = [0x201C, 0x300E, 0x300A]


def core_alphabet(op):
    other = 0x300C if op != 0x300C else 0x201C
    return [op, CLOSE[op], other, CLOSE[other], BT, LF, CR, ord('C'), ord('R'), ord('U'), 0x2B, 0x34]


cps = lexgen.cps


def first(ans):
    f = ans.split(' ')
    if f[0] != 'ok':
        return (f[0],)
    if len(f) < 2:
        return ('none',)
    if f[1] == 'err':
        return ('err', f[3], int(f[4]))
    if f[1] in ('|', 'nonterminating'):
        return ('none',)
    t = f[1].split(':')
    return ('tok', t[0], t[1], t[2], t[3])


def spec_first(ans):
    f = ans.split(' ')
    if f[0] == 'ok':
        t = f[1].split(':')
        return ('tok', t[0], '0', t[1], t[2])
    if f[0] == 'unterminated':
        return ('err', '27', None)
    return (f[0],)


def same(go, spec):
    if go[0] != spec[0]:
        return False
    if go[0] == 'err':
        return go[1] == spec[1]
    return go == spec


def three_way(ctx, stream, sources, nontriv=None):
    """lex on Go and model (whole answer compared), first token against the spec decoder"""
    cases = ['lex ' + cps(s) for s in sources]
    go = lexgen.run_go_retry(ctx, cases)
    model = ctx.run_lean(cases)
    spec = ctx.run_lean(['spec:lexstr ' + cps(s) for s in sources])
    for i, (src, c, g, m, s) in enumerate(zip(sources, cases, go, model, spec)):
        ctx.evaluations += 1
        if g != m:
            ctx.disagreement(stream, c, g, m)
        gf = first(g)
        sf = spec_first(s)
        ok = same(gf, sf)
        if s.endswith(' amb'):
            ctx.count('looser_reading_would_differ')
        if not ok:
            ctx.violation(stream, c, g, s)
        elif gf[0] == 'err' and not (1 <= gf[2] <= len(src)):
            ctx.violation(stream + ':error-cursor-outside-text', c, g, 'error 27 with 1 ≤ cursor ≤ %d' % len(src))
        ctx.count('first_' + (gf[0] if gf[0] != 'err' else 'err' + gf[1]))
        body = src[1:]
        if any(ch == BT or ch in (CR, LF) or ch in QUOTES for ch in body[:-1]):
            ctx.nontriv(c)
    for j in (0, len(cases) // 3, len(cases) - 1):
        if cases:
            ctx.sample({'op': cases[j], 'go': go[j][:120], 'model': model[j][:120], 'spec': spec[j][:120]})
    return go


# ---- generators ----------------------------------------------------------------------------------------

def gen_text(rng, maxlen):
    """a text with everything that could disturb a literal"""
    n = rng.randint(0, maxlen)
    out = []
    for _ in range(n):
        k = rng.random()
        if k < 0.22:
            out.append(rng.choice(QUOTES))
        elif k < 0.32:
            out.append(BT)
        elif k < 0.44:
            out.append(rng.choice([CR, LF]))
        elif k < 0.56:
            out.append(rng.choice(LETTERS + [0x2B, 0x30, 0x34, 0x44, 0x38]))
        elif k < 0.60:
            out.append(0)
        elif k < 0.66:
            out.append(rng.choice([0x09, 0x20, 0x3000, 0xFF0C, 0x3002, 0xFF1A, 0x3B, 0x7B, 0x7D]))
        elif k < 0.72:
            out.append(rng.choice([0x1F600, 0x10FFFF, 0xFFFD, 0xD7FF, 0xE000, 0xFFFF, 0x10000, 0x7F, 0x80, 1]))
        elif k < 0.80:
            out.append(rng.choice(lexgen.KW_GLYPHS + [0x6CE8]))
        else:
            out.append(rng.choice(lexgen.LETTERS + lexgen.DIGITS))
    return out


def gen_balanced(rng, op, maxlen):
    cl = CLOSE[op]
    out, depth = [], 0
    for _ in range(rng.randint(0, maxlen)):
        k = rng.random()
        if k < 0.15:
            out.append(op); depth += 1
        elif k < 0.3 and depth > 0:
            out.append(cl); depth -= 1
        elif k < 0.45:
            out.append(rng.choice([q for q in QUOTES if q not in (op, cl)]))
        elif k < 0.6:
            out.append(rng.choice([CR, LF]))
        elif k < 0.7:
            out.append(rng.choice([0x09, 0x20, 0x3000, 0xFF0C, 0x3002, 0xFF1A, 0x1F600, 0x10FFFF]))
        else:
            out.append(rng.choice(lexgen.LETTERS + lexgen.DIGITS + LETTERS + [0x2B]))
    return out + [cl] * depth


SKELETONS = ['CR', 'LF', 'CRLF', 'TAB', 'SP', 'BK', 'U+41', 'U+1F005', 'U+D800', 'U+DFFF', 'U+D7FF', 'U+E000', 'U+10FFFF',
             'U+110000', 'U+7FFFFFFF', 'U+80000000', 'U+FFFFFFFF', 'U+100000000', 'U+0', 'U+00000041', 'TABK', 'CRLFCR']


def escape_edits(op):
    cl = CLOSE[op]
    alpha = CRITICAL + [0x44, 0x38, 0x67, 0x61]
    seen = set()
    for sk in SKELETONS:
        base = [BT] + [ord(c) for c in sk] + [BT]
        variants = [base]
        for i in range(len(base) + 1):
            for a in alpha:
                variants.append(base[:i] + [a] + base[i:])
                if i < len(base):
                    variants.append(base[:i] + [a] + base[i + 1:])
            if i < len(base):
                variants.append(base[:i] + base[i + 1:])
        for v in variants:
            for pre, suf in (([], []), ([0x78], [0x79]), ([BT], []), ([], [BT, 0x43, 0x52, BT]), ([op], [cl])):
                t = tuple([op] + pre + v + suf + [cl])
                if t not in seen:
                    seen.add(t)
                    yield t
    # a lone quote between back-ticks is the quote itself; the characters NEXT to the quote characters in the code charts
    # (‚ ‛ „ ‗ 〈 〉 【 …) are ordinary characters there, like anywhere else in a literal
    near = [0x2017, 0x201A, 0x201B, 0x201E, 0x201F, 0x3008, 0x3009, 0x3010, 0x3011, 0x2039, 0x00AB]
    for q in QUOTES + near:
        for tail in ([BT], [], [0x78], [BT, BT], [q, BT]):
            t = tuple([op, BT, q] + tail + [cl])
            if t not in seen:
                seen.add(t)
                yield t
        if q in near:
            for t in ([op, 0x78, BT, q, BT, 0x79, cl], [op, BT, 0x61, 0x62, q, 0x63, 0x64, BT, 0x4C, 0x46, BT, cl],
                      [op, BT, 0x43, q, 0x52, BT, 0x54, 0x41, 0x42, BT, cl], [op, q, cl], [op, BT, 0x53, 0x50, BT, q, cl]):
                t = tuple(t)
                if t not in seen:
                    seen.add(t)
                    yield t


def run(ctx):
    rng = ctx.rng
    quick = ctx.quick() and not getattr(ctx, 'escalated', False)

    # ---- corpus: the witnesses of past failures first -------------------------------------------------------
    corpus = [t for t in lexgen.load_corpus('C13', 'witnesses.txt') if t and t[0] in OPEN]
    if corpus:
        three_way(ctx, 'corpus', corpus)
        ctx.streams.append({'stream': 'corpus', 'cases': len(corpus)})

    # ---- critical-exhaustive ----------------------------------------------------------------------------
    L = 3 if quick else 4
    srcs = []
    for op in STYLES:
        cl = CLOSE[op]
        for n in range(0, L + 1):
            for body in itertools.product(CRITICAL, repeat=n):
                srcs.append((op,) + body + (cl,))
                if n <= 2:
                    srcs.append((op,) + body)
        for body in itertools.product(core_alphabet(op)[:10] if quick else core_alphabet(op), repeat=L + 1):
            srcs.append((op,) + body + (cl,))
        if not quick:
            for body in itertools.product(core_alphabet(op)[:9], repeat=L + 2):
                srcs.append((op,) + body + (cl,))
    srcs = list(dict.fromkeys(srcs))
    three_way(ctx, 'critical-exhaustive', srcs)
    ctx.count('critical_exhaustive_cases', len(srcs))
    ctx.streams.append({'stream': 'critical-exhaustive', 'cases': len(srcs), 'full_alphabet_upto_len': L,
                        'core_alphabet_len': L + 1, 'styles': 3, 'exhaustive': True})
    ctx.exhaustive = True

    # ---- escape-edits ---------------------------------------------------------------------------------------
    ed = []
    for op in STYLES:
        ed += list(escape_edits(op))
    if quick:
        ed = [e for i, e in enumerate(ed) if i % 6 == ctx.seed % 6]
    three_way(ctx, 'escape-edits', ed)
    ctx.streams.append({'stream': 'escape-edits', 'cases': len(ed), 'skeletons': len(SKELETONS)})

    # ---- round trips through the spec encoders -----------------------------------------------------------------
    n = ctx.n(20000, 500000)
    maxlen = 24 if quick else 60
    texts, enc_cases = [], []
    for i in range(n):
        qi = rng.randrange(5)
        op = OPEN[qi]
        if i % 4 == 3:
            t, mode = gen_balanced(rng, op, maxlen), 'verbatim'
        else:
            t, mode = gen_text(rng, maxlen), 'safe'
        texts.append((qi, mode, t))
        enc_cases.append('spec:encode %d %s %s' % (qi, mode, cps(t)))
    enc = ctx.run_lean(enc_cases)
    lits = [e.split(' ')[1] for e in enc]
    cases = ['lex ' + l for l in lits]
    go = lexgen.run_go_retry(ctx, cases)
    model = ctx.run_lean(cases)
    for (qi, mode, t), lit, c, g, m in zip(texts, lits, cases, go, model):
        ctx.evaluations += 1
        ln = 1 if lit == '-' else lit.count('.') + 1
        want = 'ok %d:0:%d:%s 0:%d:%d:-' % (TYPE[OPEN[qi]], ln, cps(t), ln, ln)
        if g != m:
            ctx.disagreement('roundtrip-' + mode, c, g, m)
        if not g.startswith(want + ' |'):
            ctx.violation('roundtrip-' + mode, c, g, want + ' | …  (text ' + cps(t) + ')')
        ctx.count('roundtrip_' + mode)
        if any(ch == BT or ch in (CR, LF, 0) or ch in QUOTES for ch in t):
            ctx.nontriv(c)
    ctx.sample({'op': enc_cases[0], 'literal': lits[0], 'go': go[0][:120]})
    ctx.sample({'op': enc_cases[3], 'literal': lits[3], 'go': go[3][:120]})
    ctx.streams.append({'stream': 'roundtrip-safe/verbatim', 'cases': n, 'maxlen': maxlen})

    # ---- end to end: 输出‹literal› -------------------------------------------------------------------------------
    prog_prefix = '8f93.51fa.'           # 输出
    runs, wants = [], []
    for (qi, mode, t), lit in zip(texts, lits):
        if qi > 1:
            continue                     # only “ ” and 「 」 are text expressions
        runs.append('run ' + prog_prefix + lit)
        b = ''.join(chr(c) for c in t).encode('utf-8', 'surrogatepass').hex()
        wants.append('ok s:' + (b if b else '-') + ' | -')
        if len(runs) >= ctx.n(6000, 150000):
            break
    got = lexgen.run_go_retry(ctx, runs)
    for c, g, w in zip(runs, got, wants):
        ctx.evaluations += 1
        if g != w:
            ctx.violation('roundtrip-run', c, g, w)
    ctx.sample({'op': runs[0], 'go': got[0], 'spec': wants[0]})
    ctx.streams.append({'stream': 'roundtrip-run', 'cases': len(runs)})

    # ---- several literals in one statement: each reads back as ITS text (a literal must not be disturbed by the tokens
    # lexed after it — the parser holds a token while it reads ahead): 输出【‹lit1› ‹lit2› ‹lit3›】 without commas
    adj_runs, adj_wants = [], []
    pool = [(t, lit) for (qi, mode, t), lit in zip(texts, lits) if qi <= 1 and lit != '-']
    for i in range(0, min(len(pool) - 2, ctx.n(3000, 60000)), 3):
        (t1, l1), (t2, l2), (t3, l3) = pool[i], pool[i + 1], pool[i + 2]
        sep = rng.choice(['20', '20.20', '20.2f.2a.4e00.2a.2f.20'])     # blank(s) or an inline /*一*/ comment (no line break: not allowed between items)
        adj_runs.append('run 8f93.51fa.3010.%s.%s.%s.%s.%s.3011' % (l1, sep, l2, '20', l3))
        hexs_ = [(''.join(chr(c) for c in t).encode('utf-8', 'surrogatepass').hex() or '-') for t in (t1, t2, t3)]
        adj_wants.append('ok [s:%s,s:%s,s:%s] | -' % tuple(hexs_))
    adj_got = lexgen.run_go_retry(ctx, adj_runs)
    for c, g, w in zip(adj_runs, adj_got, adj_wants):
        ctx.evaluations += 1
        if g != w:
            ctx.violation('adjacent-literals', c, g, w)
        ctx.nontriv(c)
    ctx.streams.append({'stream': 'adjacent-literals', 'cases': len(adj_runs)})

    # ---- string soup incl. Lines bookkeeping (Go vs model) ------------------------------------------------------------
    soup = list(dict.fromkeys(lexgen.gen_sources(rng, ctx.n(6000, 120000), 'strings', 12 if quick else 40)))
    lexgen.lex_compare(ctx, 'lex-strings', soup)
    ctx.streams.append({'stream': 'lex-strings', 'cases': len(soup)})

    # ---- an unterminated literal is an error wherever it stands: first token of the text, after a statement, and as the first
    # token after a comment of any of the four kinds (the parser skips comments; what follows them is lexed the same way)
    comments = ['注：说明', '注：“两行\n注释”', '// c', '/* a\n b */', '注12：说', '']
    heads = ['', '令甲设为1\n', '（显示：1）\n', '令甲设为1 ']
    opens = ['“未收尾', '「未收尾', '“甲`“乙”', '“', '“a”“b', '『未』“x']
    cases, wants = [], []
    for h in heads:
        for c in comments:
            for o in opens:
                sep = '\n' if c else ''
                text = h + c + sep + o
                if h.endswith(' ') and not c:
                    continue
                cases.append('run ' + cps([ord(ch) for ch in text]))
    got = lexgen.run_go_retry(ctx, cases)
    for c, g in zip(cases, got):
        ctx.evaluations += 1
        if not g.startswith('err syn '):
            ctx.violation('unterminated-after-comment', c, g, 'err syn 27 (a literal that is never closed is a syntax error; nothing of the text runs)')
        elif g.startswith('err syn 27'):
            ctx.nontriv(c)
        ctx.count('unterminated:' + ' '.join(g.split(' ')[:3]))
    ctx.streams.append({'stream': 'unterminated-after-comment', 'cases': len(cases)})


def replay(ctx, data):
    case = data['case']
    print('case :', case)
    print('go   :', ctx.run_go([case])[0])
    if case.startswith('lex '):
        arg = case.split(' ')[1]
        print('model:', ctx.run_lean([case])[0])
        print('spec :', ctx.run_lean(['spec:lexstr ' + arg])[0], '| looser reading:', ctx.run_lean(['spec:lexstr2 ' + arg])[0])
    if 'spec' in data:
        print('want :', data['spec'])
