"""C06 — block scoping / constants, symbol-table level.

Streams (every case is one history on a fresh object; one answer per operation, so a history also checks
all of its prefixes):
  scope-exhaustive  ALL histories of length L over {b, e, d:x, c:x, s:x, g:x | x in 2 names} on runtime.Scope
  scope-random      random histories (3-4 names, nesting depth <= 6, mostly well bracketed, imports at the top)
  scope-malformed   random histories with unmatched `e` (EndScope below depth 0) and imports inside blocks:
                    Go vs model on everything; Go vs spec where the spec speaks (see spec_view)
  vmscope           the same through the real VM wrappers with two predefined names (G, H), plus no-frame VMs
The program-level streams (probe programs through `run`) are added by run_program_stream (hook below):
  scope-prog        random scope programs (props/progs.py scope_program)
  rebind-prog       the rebinding matrix (props/rebind.py): two bindings of one name — 令 / 恒为 / 令： / several names / 得到 in both
                    call forms, at statement level, inside expressions and in loop conditions / loop variables / 输入 / method and
                    type definitions / predefined names — × assignment (direct, and by a callee) × same block / inner block /
                    after the inner block ended, inside program bodies, method bodies, handlers, branches, loop bodies run for
                    several passes and object methods, with probes that read the name after every step
"""
import itertools

RULE = ("scope-exhaustive: all 10^L histories (L=5 quick, 6 thorough; prefixes included through per-op answers) over "
        "begin/end/declare/declare-const/assign/lookup on 2 names. scope-random / vmscope: random histories, length <= 30 "
        "quick / <= 200 thorough, nesting depth <= 6, 3-4 names (vmscope: 2 locals + 2 predefined). scope-malformed: unmatched "
        "ends and imports inside blocks. non-trivial = the history opens a block, declares successfully, and some lookup/"
        "assignment answers a value or an error 42/43/44. rebind-prog: 1 200 quick / 30 000 thorough programs that walk the "
        "matrix (way of binding) x (way of binding | assignment) x (same block | inner block | after the inner block) cell by cell, "
        "1-3 cells per program, block kind drawn per cell; judged by the spec semantics on the intended tree. input-prog (props/edges.py): 120 "
        "programs with 输入 at program level — all inputs supplied / one or all missing (error 95 before any statement) / more than asked for, "
        "names clashing with a predefined name / each other / a method or type of the body (43), numerals as names, inputs assigned (44) "
        "and redeclared in an inner block")
ASSUMPTIONS = ["element values are opaque to the symbol table (harness uses small integers wrapped in value.Number)",
               "balanced use: the spec is silent once an `end` has no open block (evaluator pairs every BeginScope with a deferred EndScope); "
               "Go and model are still compared there",
               "imports (DeclareExternalValue) happen at a module's top level (the parser admits 导入 only in the leading import block); "
               "outside that, the module id reported by GetValueWithModuleID is compared Go-vs-model only (stale externalRefs entry, see report)"]
PARTIAL = ("symbol-table core only in this module; evaluator-level half (programs: declare-error propagation, 输入/得到 constants, "
           "blocks_balance) is a separate stream/theorem set")

NAMES2 = ['a', 'b']


def depth_walk(toks):
    """(balanced, ext_at_root, maxdepth): balanced = no `e` at depth 0; ext_at_root = every x: at depth 0"""
    d = 0
    bal, ext, mx = True, True, 0
    for t in toks:
        if t == 'b':
            d += 1
            mx = max(mx, d)
        elif t == 'e':
            if d == 0:
                bal = False
                # keep walking with the model's reading (depth would be negative); ext judgement stops mattering
                return bal, ext, mx
            d -= 1
        elif t[0] == 'x' and d != 0:
            ext = False
    return bal, ext, mx


def strip_mod(ans):
    return ' '.join(w.split('@')[0] for w in ans.split(' '))


def spec_view(toks, go, spec):
    """the observables the property names, as (go_view, spec_view) or None when the spec is silent"""
    bal, ext, _ = depth_walk(toks)
    if not bal or spec == 'undef':
        return None
    if not ext:
        return strip_mod(go), strip_mod(spec)
    return go, spec


def vm_match(go, spec):
    """spec token `E` = rejected with whatever code"""
    g, s = go.split(' '), spec.split(' ')
    if len(g) != len(s):
        return False
    for x, y in zip(g, s):
        if y == 'E':
            if not x.startswith('e'):
                return False
        elif x != y:
            return False
    return True


def nontrivial(toks, go):
    if 'b' not in toks:
        return False
    res = go.split(' ')[1:]
    if len(res) != len(toks):
        return True  # panic etc.
    decl_ok = any(t[0] in 'dcx' and r == 'ok' for t, r in zip(toks, res))
    obs = any(t[0] in 'gsm' and (r[0] == 'v' or r in ('e42', 'e44')) or r == 'e43' for t, r in zip(toks, res))
    return decl_ok and obs


def gen_history(rng, maxlen, names, ext=False, malformed=False, glob=()):
    n = rng.randint(1, maxlen)
    toks = []
    d = 0
    val = 0
    allnames = list(names) + list(glob)
    while len(toks) < n:
        val += 1
        k = rng.random()
        nm = rng.choice(allnames)
        if k < 0.14 and d < 6:
            toks.append('b')
            d += 1
        elif k < 0.26:
            if d > 0:
                toks.append('e')
                d -= 1
            elif malformed and rng.random() < 0.5:
                toks.append('e')
            else:
                continue
        elif k < 0.44:
            toks.append('d:%s:%d' % (nm, val))
        elif k < 0.54:
            toks.append('c:%s:%d' % (nm, val))
        elif k < 0.60 and ext:
            if d == 0 or malformed:
                toks.append('x:%s:%d:%d' % (nm, val, rng.randint(1, 3)))
            else:
                continue
        elif k < 0.76:
            toks.append('s:%s:%d' % (nm, val))
        elif k < 0.92 or not ext:
            toks.append('g:' + nm)
        else:
            toks.append('m:' + nm)
    # mostly close what is open
    if not malformed and rng.random() < 0.7:
        toks += ['e'] * d
        for nm in names[:2]:
            toks.append('g:' + nm)
    return toks


def contradicts(toks, g, s, vm):
    """does the real code's answer contradict the spec on the observables the property names?"""
    body = toks[1:] if vm else toks
    if vm:
        bal, ext, _ = depth_walk(body)
        if s == 'undef' or not bal:
            return False
        gg, ss = (g, s) if ext else (strip_mod(g), strip_mod(s))
        return not vm_match(gg, ss)
    v = spec_view(body, g, s)
    return v is not None and v[0] != v[1]


def three_way(ctx, stream, op, cases, vm=False):
    """cases: list of token lists. Runs Go, model, spec; files disagreements/violations."""
    lines = [(op + ' ' + ' '.join(t)) if t else op for t in cases]
    go = ctx.run_go(lines)
    model = ctx.run_lean(lines)
    spec = ctx.run_lean(['spec:' + ln for ln in lines])
    bad_d = bad_v = 0
    for toks, ln, g, m, s in zip(cases, lines, go, model, spec):
        ctx.evaluations += 1
        if g != m:
            bad_d += 1
            if bad_d <= 2:
                ctx.disagreement(stream, *shrink(ctx, op, toks, vm, against_spec=False))
            else:
                ctx.disagreement(stream, ln, g, m)
        if contradicts(toks, g, s, vm):
            bad_v += 1
            if bad_v <= 2:
                ctx.violation(stream, *shrink(ctx, op, toks, vm, against_spec=True))
            else:
                ctx.violation(stream, ln, g, s)
        body = toks[1:] if vm else toks
        if nontrivial(body, g):
            ctx.nontriv(ln)
        for r in g.split(' ')[1:]:
            if r in ('e42', 'e43', 'e44', 'nil'):
                ctx.count(stream + ':' + r)
        if g == 'panic':
            ctx.count(stream + ':panic')
    return lines, go, model, spec


def shrink(ctx, op, toks, vm, against_spec):
    """ddmin over the token list (the F/N head of a vmscope case is kept); returns (line, go, other)"""
    from framework import ddmin
    k = 1 if vm else 0
    head, body = toks[:k], toks[k:]

    def answers(full):
        ln = op + ' ' + ' '.join(full)
        g = ctx.run_go([ln], parallel=False)[0]
        o = ctx.run_lean([('spec:' if against_spec else '') + ln], parallel=False)[0]
        return ln, g, o

    def failing(cand):
        full = head + list(cand)
        ln, g, o = answers(full)
        return contradicts(full, g, o, vm) if against_spec else g != o

    small = ddmin(body, failing) if len(body) > 1 else body
    return answers(head + list(small))


def run(ctx):
    from props import sites
    sites.report(ctx)   # regenerated site inventory vs the modelled sites (diagnosis of a broken obligation; DESIGN §12)
    rng = ctx.rng
    # ---- corpus: hand-written seeds, replayed first ---------------------------------------------
    seeds = [
        'b d:x:1 c:y:2 s:x:3 g:x s:y:9 e g:x',
        'd:a:1 b d:a:2 g:a s:a:3 g:a e g:a',                  # shadow until end, outer untouched
        'd:a:1 d:a:2 g:a b d:a:3 d:a:4 g:a e g:a',            # redeclare in the same block
        'c:a:1 s:a:2 g:a b s:a:3 g:a d:a:4 s:a:5 g:a e g:a',  # constants
        's:a:1 g:a b d:a:1 e s:a:2 g:a',                      # undeclared
        'b b b d:a:1 e d:a:2 e d:a:3 g:a e g:a',
        'x:f:1:2 m:f g:f s:f:2 b d:f:3 m:f e m:f',            # imports are constants with a module
        'b x:a:1:3 e d:a:2 m:a',                              # stale externalRefs (outside the import-at-top assumption)
        'e d:a:1 g:a b g:a e e g:a',                          # unmatched end
    ]
    cases = [s.split(' ') for s in seeds]
    lines, go, model, spec = three_way(ctx, 'scope-seeds', 'scope', cases)
    for i in (0, 1, 3, 7):
        ctx.sample({'op': lines[i], 'go': go[i], 'model': model[i], 'spec': spec[i]})
    ctx.streams.append({'stream': 'scope-seeds', 'cases': len(cases)})

    # ---- exhaustive -------------------------------------------------------------------------------
    L = 5 if (ctx.quick() and not getattr(ctx, 'escalated', False)) else 6
    alpha = ['b', 'e'] + [k + ':' + n for n in NAMES2 for k in ('d', 'c', 's', 'g')]

    def with_vals(t):
        return [x + (':%d' % (i + 1) if x[0] in 'dcs' else '') for i, x in enumerate(t)]
    cases = [with_vals(t) for t in itertools.product(alpha, repeat=L)]
    lines, go, model, spec = three_way(ctx, 'scope-exhaustive', 'scope', cases)
    ctx.count('exhaustive_histories_len_%d' % L, len(cases))
    ctx.sample({'op': lines[len(lines) // 3], 'go': go[len(lines) // 3], 'spec': spec[len(lines) // 3]})
    ctx.streams.append({'stream': 'scope-exhaustive', 'cases': len(cases), 'length': L, 'alphabet': len(alpha), 'exhaustive': True})
    ctx.exhaustive = True

    # ---- random -----------------------------------------------------------------------------------
    maxlen = ctx.n(30, 200)
    nrand = ctx.n(5000, 200000)
    cases = []
    for i in range(nrand):
        names = ['a', 'b', 'c', 'd'][:rng.choice([3, 4])]
        cases.append(gen_history(rng, maxlen if i % 4 else min(maxlen, 12), names, ext=(i % 3 == 0)))
    lines, go, model, spec = three_way(ctx, 'scope-random', 'scope', cases)
    for c in cases:
        ctx.count('random_len_%s' % ('le10' if len(c) <= 10 else 'le30' if len(c) <= 30 else 'le100' if len(c) <= 100 else 'gt100'))
        ctx.count('random_maxdepth_%d' % depth_walk(c)[2])
    ctx.sample({'op': lines[1], 'go': go[1], 'model': model[1], 'spec': spec[1]})
    ctx.streams.append({'stream': 'scope-random', 'cases': len(cases), 'maxlen': maxlen})

    # ---- malformed --------------------------------------------------------------------------------
    cases = [gen_history(rng, maxlen, ['a', 'b', 'c'], ext=True, malformed=True) for _ in range(ctx.n(1500, 40000))]
    lines, go, model, spec = three_way(ctx, 'scope-malformed', 'scope', cases)
    ctx.count('malformed_unbalanced', sum(1 for c in cases if not depth_walk(c)[0]))
    ctx.count('malformed_import_in_block', sum(1 for c in cases if not depth_walk(c)[1]))
    ctx.sample({'op': lines[0], 'go': go[0], 'model': model[0], 'spec': spec[0]})
    ctx.streams.append({'stream': 'scope-malformed', 'cases': len(cases)})

    # ---- through the VM wrappers --------------------------------------------------------------------
    cases = []
    for i in range(ctx.n(2500, 60000)):
        mal = (i % 10 == 0)
        body = gen_history(rng, maxlen, ['a', 'b'], ext=True, malformed=mal, glob=['G', 'H'])
        cases.append(['N' if i % 25 == 0 else 'F'] + body)
    lines, go, model, spec = three_way(ctx, 'vmscope', 'vmscope', cases, vm=True)
    ctx.sample({'op': lines[1], 'go': go[1], 'model': model[1], 'spec': spec[1]})
    ctx.streams.append({'stream': 'vmscope', 'cases': len(cases)})

    run_program_stream(ctx)


# ---- HOOK: program-level stream ---------------------------------------------------------------------
# The evaluator-level half of C06 (probe programs through the `run` op: shadowing, recursion, exceptions, follow-up
# statements that must answer 42 / 43 / 44, 输入/得到 constants, per-module depth after the run) plugs in here.
def run_program_stream(ctx):
    from props import progs
    g = progs.G(ctx.rng)
    n = ctx.n(2000, 50000)
    ps = [g.scope_program() for _ in range(n)]
    progs.run_stream(ctx, 'scope-prog', ps, nontrivial=lambda src, go: src.count('    令') >= 1)
    run_rebind_stream(ctx, g)
    # program inputs: supplied / missing (error 95) / more than asked for / clashing names / numerals — props/edges.py
    from props import edges
    st = {}
    ips = edges.input_programs(ctx.rng, ctx.n(120, 5000), st)
    progs.run_stream(ctx, 'input-prog', ips, nontrivial=lambda src, go: True)
    for k, v in sorted(st.items()):
        ctx.count('input-prog:gen:' + k, v)
    import os
    if os.environ.get('VERIF_C06_METHODS_DEFINED_INSIDE_METHODS', '0') == '1':
        # kept out of the check (edges.nested_method_programs): the unchanged tree answers error 43 where the spec runs the program
        progs.run_stream(ctx, 'nested-method-prog', edges.nested_method_programs(ctx.rng, 40), nontrivial=lambda src, go: True)


def run_rebind_stream(ctx, g, n=None):
    """the rebinding matrix (props/rebind.py): way of binding × way of binding × same block / inner block / after the inner block,
    in every kind of block, with probes; judged by the spec semantics on the intended tree"""
    from props import progs, rebind
    ps, tags = rebind.programs(g, n or ctx.n(1200, 30000))
    marks = ('令', '得到', '遍历', '输入', ' = ')
    progs.run_stream(ctx, 'rebind-prog', ps, nontrivial=lambda src, go: sum(src.count(m) for m in marks) >= 4)
    cells = set()
    for t in tags:
        for first, second, place, ctxk in t:
            cells.add((first, second, place))
            ctx.count('rebind:first=' + first)
            ctx.count('rebind:second=' + second)
            ctx.count('rebind:place=' + place)
            ctx.count('rebind:block=' + ctxk)
            if place in ('same', 'after2') and first in rebind.CONST_KINDS and second in ('yield', 'chain', 'yieldx', 'chainx', 'yieldw'):
                ctx.count('rebind:得到-over-a-constant-of-its-own-block')
            if place in ('same', 'after2') and second in rebind.STMT_BINDERS and second != 'iter' and first != 'iter':
                ctx.count('rebind:second-binding-in-the-same-block')
            if second in ('assign', 'cassign') and first in rebind.CONST_KINDS:
                ctx.count('rebind:assignment-to-a-constant')
    ctx.count('rebind:cells-covered', len(cells))
    ctx.count('rebind:cells-total', len(rebind.cells()))
    ctx.streams[-1]['cells_covered'] = len(cells)
    ctx.streams[-1]['cells_total'] = len(rebind.cells())


def replay(ctx, data):
    case = data['case']
    if case.startswith('run '):
        from props import progs
        return progs.replay(ctx, data)
    print('case :', case)
    print('go   :', ctx.run_go([case])[0])
    print('model:', ctx.run_lean([case])[0])
    print('spec :', ctx.run_lean(['spec:' + case])[0])
