"""C06 — block scoping, constants, inputs. Program stream (three-way); the symbol-table op stream is added by scope ops."""
from props import progs
from props.progs import replay  # noqa

RULE = ("programs over three names with shadowing in nested 如果/遍历 blocks, a method (declaring the same names) called from several "
        "depths, 得到, 恒为, inputs, predefined names; 0–8 % deliberately invalid accesses (use after block end 42, redeclaration 43, "
        "assignment to constants/inputs/得到 44, predefined names); everything visible is displayed at each block end. "
        "Non-trivial = at least one nested block and one declaration inside it.")
ASSUMPTIONS = []
PARTIAL = ""


def run(ctx):
    g = progs.G(ctx.rng)
    n = ctx.n(2000, 50000)
    ps = [g.scope_program() for _ in range(n)]
    progs.run_stream(ctx, 'scope-prog', ps, nontrivial=lambda src, go: src.count('    令') >= 1)
    try:
        from props import c06_scope
        c06_scope.run_scope_stream(ctx)
    except ImportError:
        pass
