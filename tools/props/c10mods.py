"""C10 stream `mods` — method values, objects and types that cross MODULE borders, with faults planted far from the
line tables of the modules involved.

Every case is a program of two or three file modules run through the harness op `runfiles` (LoadFile + Execute, every error
RENDERED by exec.DisplayError: a Go panic while the error is rendered is answered `panic`).  One module (the OWNER: the main
file or the helper 助手) declares the things that fail — methods, a method taking an argument, a class with a failing method,
a failing constructor — and another one (the CARRIER) the things that move them: it calls its parameter, calls it with an
argument, returns it, wraps it in a list, calls every item of a list, calls a method of an object it is handed, constructs
the class it is handed, declares the type the owner's constructor is for, stores a method value through a constructor.  A
third module (工具) optionally sits between (the carrier hands on to it), or declares the type (constructor in 助手, used
from the main file), or is a bystander.  The main script then sends the value across the border by one ROUTE.

Layout is the point: the fault's line number (in the owner's file) is placed relative to the NUMBER OF LINES of another
module of the program: delta ∈ {…, −2, −1, 0, +1, +2, …, +40} (last line, first line past the end, far below), by filler
lines at the top of the owner or at the end of the other module — SHORT helper / LONG main and the other way round.  Files
end with or without a newline, with LF or CRLF.  Faults are of every kind the evaluator knows (arithmetic, index, key,
undefined name / method / class, wrong argument of a built-in, method of 空, thrown exception, wrong arity, faults inside
conditions and loop bodies), plain or one call deeper (so that the foreign frame is a BODY frame of the chain), uncaught, or
caught by a handler that re-throws / fails itself / swallows it before a late fault of the main script.

What such a call does (whose scope the body sees, which module the chain names) is NOT fixed by any property (DESIGN §12.8).
Judged (ground truth = the property text only):
  (a) the answer is never `panic` / `crash` / `timeout` / nil,
  (b) an error answer is well formed: a known class (运行异常 / 语法错误 / IO错误 found in the rendered text), and for a
      runtime error a head location (`noloc` = the renderer produced no "在…发生异常" line) with line numbers ≥ 1.
The evaluator model (`runfilesast` on the trees the real parser built) is compared where it answers: a difference is a
correspondence disagreement, never a violation.
"""
from zngen import *  # noqa
from props import progs

MAIN, HELP, TOOL = '主', '助手', '工具'
SPEC = 'a value or a well-formed Zn error (class, head location), never panic / nil / crash / timeout'

# (lines of a body that fails at its LAST line — indices are relative, the last line carries the fault)
FAULTS = [
    ['输出 1 / 0'],
    ['令甲 = 10', '输出 甲 / 0'],
    ['令乙 = 【1，2】', '输出 乙#5'],
    ['令乙 = 【1，2】', '乙#0 = 1'],
    ['输出 以“文本”（取样：“一”、2）'],
    ['输出 以空（加：1）'],
    ['输出 无此名'],
    ['无此名 = 3'],
    ['（无此方法：1）'],
    ['输出 以1（无此方法）'],
    ['输出 “a” + 1'],
    ['令典 = 【a = 1】', '输出 典#“b”'],
    ['抛出异常：“坏”！'],
    ['令物设为（新建无此类）'],
    ['（显示）', '（出错：1、2、3）'],          # wrong arity of a user method (itself)
    ['输出 （取随机数：“a”）'],
    ['如果 1 / 0 == 1：', '    输出 1'],       # the fault is in the condition (first line)
    ['每当 真：', '    输出 【】#1'],
    ['以数遍历【1，2】：', '    输出 数 / 0'],
    ['令丙 = 1', '', '输出 丙 / 0'],
]
# faults that depend on the argument: (statement, failing argument, harmless argument)
PFAULTS = [
    ('输出 10 / X', '0', '4'),
    ('输出 【1，2】#X', '5', '1'),
    ('输出 以“文本”（取样：X、2）', '“一”', '1'),
    ('输出 以X（加：1）', '空', '【1】'),
    ('输出 X + 1', '“a”', '1'),
]
OKBODY = ['令甲 = 10', '输出 甲 / 4']


def cps(s):
    return '.'.join('%x' % ord(c) for c in s) if s else '-'


def hx(s):
    return s.encode('utf-8').hex() if s else '-'


class Mod:
    def __init__(self, name):
        self.name = name
        self.imports = []
        self.top = 0          # filler lines after the imports
        self.defs = []        # blocks (lists of lines)
        self.script = []
        self.tail = 0         # filler lines at the very end
        self.fault_at = None  # (block index | 'script', line index inside)

    def lines(self):
        out = ['导入“%s”' % i for i in self.imports]
        if self.imports:
            out.append('')
        out += ['令%s占位%d = %d' % (self.name, k, k) if k % 4 else '' for k in range(1, self.top + 1)]
        fault = None
        for bi, b in enumerate(self.defs):
            if self.fault_at and self.fault_at[0] == bi:
                fault = len(out) + self.fault_at[1]
            out += b + ['']
        if self.fault_at and self.fault_at[0] == 'script':
            fault = len(out) + self.fault_at[1]
        out += self.script
        out += ['令%s尾%d = %d' % (self.name, k, k) for k in range(self.tail)]
        return out, fault


def ind(lines, n=1):
    return [('    ' * n + ln) if ln else '' for ln in lines]


def method(name, params, body, handler=None, depth=0):
    b = ['如何%s？' % name]
    if params:
        b.append('    输入' + '、'.join(params))
    b += ind(body)
    if handler:
        b.append('    拦截异常：')
        b += ind(handler, 2)
    return ind(b, depth) if depth else b


ROUTES = ['pass', 'pass-arg', 'return', 'list-back', 'each', 'object', 'ctor-for-imported', 'ctor-calls', 'class-passed',
          'object-back', 'ctor-third']
HANDLERS = ['none', 'none', 'none', 'none', 'owner-rethrow', 'owner-fault', 'carrier-rethrow', 'carrier-fault', 'swallow-late']
DELTAS = [-6, -2, -1, 0, 0, 1, 1, 2, 3, 7, 15, 40]


def gen_case(rng):
    route = rng.choice(ROUTES)
    flipped = rng.random() < 0.4 and route not in ('ctor-for-imported', 'ctor-third')
    third = 'type' if route == 'ctor-third' else rng.choice(['none', 'none', 'chain', 'bystander'])
    if third == 'chain' and route not in ('pass', 'pass-arg', 'list-back', 'each'):
        third = 'bystander'
    handler = rng.choice(HANDLERS)
    nested = rng.random() < 0.3
    faulty = rng.random() < 0.9
    main, helper, tool = Mod(MAIN), Mod(HELP), Mod(TOOL)
    main.imports.append(HELP)
    owner, carrier = (helper, main) if flipped else (main, helper)
    if route == 'ctor-third':
        owner, carrier = helper, tool
        helper.imports.append(TOOL)

    # ---- the failing body -------------------------------------------------------------------------
    arg_bad = arg_ok = None
    if route == 'pass-arg' or route in ('ctor-for-imported', 'ctor-third'):
        st, arg_bad, arg_ok = rng.choice(PFAULTS)
        body = ['令甲 = 10', st] if rng.random() < 0.5 else [st]
        if route != 'pass-arg':
            body[-1] = body[-1].replace('输出 ', '其值设为')
        arg = arg_bad if faulty else arg_ok
    else:
        body = list(rng.choice(FAULTS)) if faulty else list(OKBODY)
        arg = None
    # the line of the body on which it fails
    frel = 0 if body[0].startswith('如果') else len(body) - 1
    deep = None
    if nested and route not in ('ctor-for-imported', 'ctor-third') and arg is None:
        deep = method('深层', [], body)
        body = ['令甲 = 10', '（深层）', '输出 甲']
        frel = 1
    oh = None
    if handler == 'owner-rethrow':
        oh = ['抛出异常：“再”！']
    elif handler == 'owner-fault':
        oh = ['输出 1 / 0']
    elif handler == 'swallow-late':
        oh = ['输出 0']
    ch = None
    if handler == 'carrier-rethrow':
        ch = ['抛出异常：“转”！']
    elif handler == 'carrier-fault':
        ch = ['输出 【】#2']

    # ---- owner / carrier definitions and the script per route ----------------------------------------------
    script = []
    odefs, cdefs = [], []
    fault_block = 0
    npar = 1 if (route in ('pass-arg', 'ctor-for-imported', 'ctor-third')) else 0
    call_line = '（再转交：回调）' if third == 'chain' else '（回调）'
    if deep is not None and rng.random() < 0.5:
        odefs.append(deep)
        deep = None
    if route in ('pass', 'return', 'list-back', 'each', 'ctor-calls'):
        fault_block = len(odefs)
        odefs.append(method('出错', [], body, oh))
        foff = 1 + frel
        if route == 'pass':
            cdefs.append(method('转交', ['回调'], [call_line], ch))
            script = ['（转交：出错）']
        elif route == 'return':
            cdefs.append(method('原样', ['函'], ['输出 函'], ch))
            script = ['令函一设为（原样：出错）', '（函一）']
        elif route == 'list-back':
            cdefs.append(method('包装', ['函'], ['输出【函】']))
            cdefs.append(method('转交', ['回调'], [call_line], ch))
            script = ['令列设为（包装：出错）', '令函一设为列#1', '（转交：函一）']
        elif route == 'each':
            odefs.append(method('无错', [], OKBODY))
            cdefs.append(method('逐个', ['列'], ['以回调遍历列：', '    ' + call_line], ch))
            script = ['（逐个：【无错，出错】）']
        else:
            cdefs.append(['定义盒：', '    其值设为0', ''] + method('新建盒', ['回调'], ['其值设为（回调）'], ch))
            script = ['令盒一设为（新建盒：出错）', '输出 盒一之值']
    elif route == 'pass-arg':
        fault_block = len(odefs)
        odefs.append(method('出错参', ['X'], body, oh))
        foff = 2 + frel
        cl = '输出 （再转交参：回调、值）' if third == 'chain' else '输出 （回调：值）'
        cdefs.append(method('转交带参', ['回调', '值'], [cl], ch))
        script = ['（转交带参：出错参、%s）' % arg]
    elif route in ('object', 'object-back'):
        fault_block = len(odefs)
        cls = ['定义乙类：', '    其值设为0', ''] + method('做', [], body, oh, depth=1)
        foff = 3 + 1 + frel
        odefs.append(cls)
        if route == 'object':
            cdefs.append(method('用物', ['物'], ['输出 以物（做）'], ch))
            script = ['（用物：（新建乙类））']
        else:
            # the object is built over there (from the class it is handed) and comes back; its method runs here
            cdefs.append(method('造', ['类'], ['输出 （新建类）'], ch))
            script = ['令物一设为（新建乙类）', '令物二设为（原物：物一）', '以物二（做）']
            cdefs.append(method('原物', ['物'], ['输出 物']))
    elif route == 'class-passed':
        fault_block = len(odefs)
        ctor = ['其值设为1'] + body
        odefs.append(['定义乙类：', '    其值设为0', ''] + method('新建乙类', [], ctor, oh))
        foff = 3 + 1 + 1 + frel
        cdefs.append(method('造', ['类'], ['令物设为（新建类）', '输出 物'], ch))
        cdefs.append(method('造乙', [], ['输出 （新建乙类）']))
        script = [rng.choice(['（造：乙类）', '（造乙）'])] if not flipped else ['（造：乙类）']
    elif route == 'ctor-for-imported':
        # the type lives in the (short) helper, its constructor in the main file
        cdefs.append(['定义盒：', '    其值设为0'])
        fault_block = len(odefs)
        odefs.append(method('新建盒', ['X'], body, oh))
        foff = 2 + frel
        script = ['令盒一设为（新建盒：%s）' % arg, '输出 盒一之值']
    else:  # ctor-third: type in 工具, constructor and factory in 助手, used from the main file
        cdefs.append(['定义盒：', '    其值设为0'])
        fault_block = len(odefs)
        odefs.append(method('新建盒', ['X'], body, oh))
        foff = 2 + frel
        odefs.append(method('造盒', ['X'], ['输出 （新建盒：X）']))
        script = ['令盒一设为（造盒：%s）' % arg, '输出 盒一之值']
    if deep is not None:
        odefs.append(deep)
    if handler == 'swallow-late':
        script.append(rng.choice(['输出 1 / 0', '（无此方法）', '输出 【】#1']))
    # decoys: harmless definitions around, so that the blocks are not always first
    if rng.random() < 0.5:
        k = rng.randrange(len(odefs) + 1)
        odefs.insert(k, method('旁观', [], ['输出 7']))
        if k <= fault_block:
            fault_block += 1
    if rng.random() < 0.3:
        cdefs.insert(0, method('旁观二', [], ['输出 8']))
    owner.defs += odefs
    carrier.defs += cdefs
    owner.fault_at = (len(owner.defs) - len(odefs) + fault_block, foff)
    main.script += script

    # ---- the third module ------------------------------------------------------------------------------
    mods = [main, helper]
    if third == 'chain':
        carrier.imports.append(TOOL)
        tool.defs.append(method('再转交', ['回调'], ['（回调）']))
        tool.defs.append(method('再转交参', ['回调', '值'], ['输出 （回调：值）']))
        mods.append(tool)
    elif third == 'bystander':
        rng.choice([main, helper]).imports.append(TOOL)
        tool.defs.append(method('旁观三', [], ['输出 9']))
        if rng.random() < 0.5:
            tool.script.append('令工具量 = 1')
        mods.append(tool)
    elif third == 'type':
        mods.append(tool)
    for m in mods:
        m.imports = list(dict.fromkeys(m.imports))

    # ---- layout: the fault line against the length of another module ---------------------------------------
    others = [m for m in mods if m is not owner]
    ref = carrier if rng.random() < 0.7 else rng.choice(others)
    if third == 'chain' and rng.random() < 0.5:
        ref = tool
    delta = rng.choice(DELTAS)
    if rng.random() < 0.15:
        delta = rng.randrange(-10, 60)
    _, fl = owner.lines()
    n = len(ref.lines()[0])
    d0 = fl - n
    if d0 < delta:
        owner.top += delta - d0
    elif d0 > delta:
        ref.tail += d0 - delta
    if rng.random() < 0.2:       # a long unrelated module as well
        x = rng.choice(mods)
        if x is not ref and x is not owner:
            x.tail += rng.randrange(1, 30)
    files = []
    for m in mods:
        ls, _ = m.lines()
        nl = '\r\n' if rng.random() < 0.1 else '\n'
        text = nl.join(ls)
        if rng.random() < 0.8:
            text += nl
        files.append((m.name + '.zn', text))
    _, fl = owner.lines()
    meta = {'route': route, 'owner': owner.name, 'third': third, 'handler': handler, 'nested': nested, 'faulty': faulty,
            'delta': fl - len(ref.lines()[0]), 'ref': ref.name, 'fault-line': fl + 1}
    return files, meta


def go_line(files):
    fs = ['runfiles', str(len(files))]
    for n, t in files:
        fs += [hx(n), cps(t)]
    fs.append(hx(MAIN + '.zn'))
    return ' '.join(fs)


def well_formed(g):
    """None, or what is wrong with the error answer `err <class> <code> <loc>(>loc)* [caret=…] | trace`"""
    head = g.split(' | ')[0].split(' ')
    if len(head) < 4:
        return 'short'
    cls, code, locs = head[1], head[2], head[3]
    if cls not in ('rt', 'syn', 'io'):
        return 'no error class in the rendered text'
    if not code.lstrip('-').isdigit():
        return 'code'
    if cls == 'rt':
        if locs == 'noloc':
            return 'runtime error rendered without a location'
        for l in locs.split('>'):
            if l == 'native':
                continue
            mod, _, ln = l.rpartition(':')
            if not mod or not ln.isdigit() or int(ln) < 1:
                return 'location ' + l
    return None


def bad_answer(g):
    return g.startswith(('panic', 'crash', 'timeout')) or 'nil!' in g


def run_stream(ctx, go_run, n):
    rng = ctx.rng
    cases = [gen_case(rng) for _ in range(n)]
    lines = [go_line(f) for f, _ in cases]
    go = go_run(ctx, lines, 8000)
    # the trees of every file (for the evaluator model)
    flat = []
    for f, _ in cases:
        flat += ['ast ' + cps(t) for _, t in f]
    ast = ctx.run_go(flat)
    mlines, k = [], 0
    for f, _ in cases:
        parts = [hx(MAIN + '.zn'), str(len(f))]
        ok = True
        for name, _t in f:
            a = ast[k]
            k += 1
            if a.startswith('ok '):
                toks = a[3:].split(' ')
                parts += [hx(name), str(len(toks))] + toks
            else:
                ok = False
        mlines.append('runfilesast ' + ' '.join(parts) if ok else 'noop')
    model = ctx.run_lean(mlines)
    for i, ((files, meta), c) in enumerate(zip(cases, lines)):
        g, m = go[i], model[i]
        ctx.evaluations += 1
        if g.startswith(('bad-', 'skip', 'notrun')):
            raise RuntimeError('generator/harness bug: %s -> %s' % (c[:200], g))
        if g.startswith(('timeout', 'crash')):
            g = go_run(ctx, [c], 30000, False)[0]
            ctx.count('mods:rerun-alone')
        tag = 'mods:' + meta['route']
        if bad_answer(g):
            ctx.violation(tag, c, g, SPEC)
            ctx.count('mods:' + g.split(' ')[0])
            continue
        if g.startswith('err'):
            w = well_formed(g)
            if w is not None:
                ctx.violation(tag + ':ill-formed-error', c, g, SPEC + ' [' + w + ']')
                continue
        if mlines[i] == 'noop':
            ctx.count('mods:does-not-parse')
        elif m == 'unmodelled' or m.startswith(('fuel', 'noop')):
            ctx.count('mods:unmodelled')
        else:
            ctx.count('mods:modelled')
            if not progs.model_matches(g, m):
                ctx.disagreement(tag, c, g, m)
        key = 'ok' if g.startswith('ok') else ' '.join(g.split(' ')[:2])
        ctx.count('mods:' + key)
        ctx.count('mods:route:' + meta['route'])
        ctx.count('mods:owner:' + meta['owner'])
        ctx.count('mods:third:' + meta['third'])
        ctx.count('mods:handler:' + meta['handler'])
        d = meta['delta']
        ctx.count('mods:fault-line-vs-other-module:' + ('inside' if d < -1 else 'last-line' if d == -1 else 'first-past-end' if d == 0
                                                          else 'past-end' if d < 5 else 'far-past-end'))
        if g.startswith('err'):
            ctx.nontriv(c)
            locs = g.split(' | ')[0].split(' ')[3].split('>')
            if len(set(l.rpartition(':')[0] for l in locs if l != 'native')) >= 2:
                ctx.count('mods:error-chain-spans-modules')
            if meta['faulty'] and d >= 0:
                ctx.count('mods:rendered-error-with-fault-line-past-the-other-module')
        elif meta['faulty'] and meta['handler'] != 'swallow-late':
            ctx.count('mods:planted-fault-not-reported')
    if cases:
        f, meta = cases[0]
        ctx.sample({'stream': 'mods', 'files': dict(f), 'meta': meta, 'go': go[0], 'model': model[0]})
    ctx.streams.append({'stream': 'mods', 'cases': n})
