"""C18 — "calls that had already returned never appear in the chain": the EARLIER, HANDLED part of the chain programs.

Before the planted fault (tools/props/c18.py `gen`) 1–3 *episodes* take place.  One episode = a chain of 1–5 calls (methods, methods of
objects, constructors) whose innermost body raises (抛出 of 异常 / of a user type, 1/0, undefined name, index out of range, a failing
built-in method — its built-in frame is on top —, a call with the wrong number of arguments or of a name that is no method — the callee's
frame never started), and 1–4 handlers on the way out:
  * every handler but the outermost one RAISES AGAIN — 抛出 of the same or of another exception type, a runtime fault in the handler
    block, a failing built-in method, a call of a method that fails (one more call frame above the handler's frame), a call with the
    wrong number of arguments — so the frame of a 拦截 block that itself failed is left on the stack, above the frames of the calls
    that failed below it;
  * the outermost handler (0…n frames further out than the previous one; in the same body as the raise, or up to the entry of the
    episode) ends normally: with 输出, without, or with an expression;
  * a handler block may first call another (smaller) episode that fails and is handled INSIDE that handler block;
  * levels in between have handlers for another type (first clause of a matching handler, or alone): the exception passes them;
  * the call below a level, or the entry call of the episode, may stand in a loop of 2–3 passes (每当 / 遍历) or in a branch.
The episode is entered from the program body (before the call that leads to the fault) or from the body of one of the calls that are
ACTIVE when the fault arises (before that level calls the next one): unwinding must drop exactly the frames above the handler's body —
dropping too few leaves returned calls in the later chain, dropping too many removes active ones.
The expected chain stays what `gen` computes: the call-site line of every call active at the fault, innermost statement last.
All randomness comes from the rng handed in (ctx.rng)."""
from zngen import *

# the user exception type of the episodes (one declaration per program, shared by all episodes)
ETYPE = '早错'

# Switches for input classes that the UNCHANGED tree gets wrong (kept out of the random stream so that the check stays green; see the
# worker report / DESIGN §12.7).  None at present.


def etype_defs():
    return [Class(ETYPE, [('内容', Str(''))], []),
            Func(ETYPE, ['话'], [ExprS(Assign(This('内容'), Var('话')))], ctor=True)]


class Episode:
    def __init__(self):
        self.defs = []        # top-level declarations (hoisted: they may stand anywhere in the program body)
        self.entry = None     # () -> expression that calls the outermost level
        self.kinds = []       # evidence keys


def _show(*xs):
    return ExprS(Call('显示', list(xs)))


def _raise(g, rng, ep, u):
    """the statement that raises first, and the type a handler has to name to take it"""
    k = rng.random()
    if k < 0.22:
        return Throw('异常', [Str('早%d' % u)]), '异常', 'throw'
    if k < 0.40:
        return Throw(ETYPE, [Str('早文%d' % u)]), ETYPE, 'throw-user-type'
    if k < 0.52:
        return _show(Bin('/', Num('1'), Num('0'))), '异常', 'fault'
    if k < 0.62:
        return _show(Var('未定名')), '异常', 'fault'
    if k < 0.70:
        return _show(Index(Arr([Num('1')]), Num('5'))), '异常', 'fault'
    if k < 0.80:
        return ExprS(MCall(Arr([Num('1')]), [('交换', [Num('5'), Num('6')])])), '异常', 'builtin-method'
    if k < 0.90:
        name = '缺参%d' % u
        ep.defs.append(Func(name, ['入'], [Ret(Num('1'))]))
        return _show(Call(name, [])), '异常', 'arity'
    v = '非法%d' % u
    return [Decl([v], Num('3')), _show(Call(v, []))], '异常', 'not-a-method'


def _reraise(g, rng, ep, u, caught):
    """what a handler that does not end normally does last: (statements, type that leaves the handler, evidence key)"""
    k = rng.random()
    if k < 0.22:
        return [Throw('异常', [Str('再%d' % u)])], '异常', 'throw'
    if k < 0.36:
        return [Throw(ETYPE, [Str('再文%d' % u)])], ETYPE, 'throw-user-type'
    if k < 0.48:
        # the same type as the one that was caught
        return [Throw(caught, [Str('同%d' % u)])], caught, 'throw-same-type'
    if k < 0.60:
        return [_show(Bin('/', Num('1'), Num('0')))], '异常', 'fault'
    if k < 0.68:
        return [_show(Var('未定名'))], '异常', 'fault'
    if k < 0.74:
        return [Decl(['列'], Arr([Num('1'), Num('2')])), _show(Index(Var('列'), Num('7')))], '异常', 'fault'
    if k < 0.80:
        return [ExprS(MCall(Num('1'), [('无此法', [])]))], '异常', 'builtin-method'
    if k < 0.93:
        # a call that fails: one more call frame above the handler's frame
        name = '必败%d' % g.fresh()
        cls = rng.choice(['异常', '异常', ETYPE])
        inner = [Throw(cls, [Str('败')])] if rng.random() < 0.7 else [_show(Bin('/', Num('1'), Num('0')))]
        if cls == ETYPE and not isinstance(inner[0], Throw):
            cls = '异常'
        ep.defs.append(Func(name, [], [_show(Str('败入'))] + inner))
        return [rng.choice([_show(Call(name, [])), ExprS(Call(name, [])), Decl(['败得'], Call(name, []))])], cls, 'failing-call'
    name = '缺参%d' % g.fresh()
    ep.defs.append(Func(name, ['入'], [Ret(Num('1'))]))
    return [_show(Call(name, [Num('1'), Num('2')]))], '异常', 'arity'


def _ending(rng, j):
    """the handler that takes the exception for good"""
    k = rng.random()
    if k < 0.5:
        return [Ret(Num(str(100 + j)))]
    if k < 0.75:
        return [_show(Str('拦毕'))]
    if k < 0.9:
        return [Decl(['次'], Num('1')), ExprS(Assign(Var('次'), Bin('+', Var('次'), Num('1'))))]
    return [ExprS(Bin('+', Num('40'), Num(str(j))))]


def _wrap(g, rng, stmts, loops=True):
    """the statements as they are, in a branch, or in a loop of 2–3 passes (每当 / 遍历): (statements, evidence key or None)"""
    k = rng.random()
    if k < 0.55 or not loops and k < 0.8:
        return stmts, None
    if k < 0.7:
        return [If(Var('真'), [_show(Str('支'))] + stmts)], None
    if k < 0.85:
        c = '计%d' % g.fresh()
        n = rng.choice([2, 2, 3])
        return [Decl([c], Num('0')),
                While(Bin('lt', Var(c), Num(str(n))), [ExprS(Assign(Var(c), Bin('+', Var(c), Num('1'))))] + stmts)], 'loop'
    lv = '项%d' % g.fresh()
    return [Iter([lv], Arr([Num(str(i)) for i in range(1, rng.choice([2, 2, 3]) + 1)]), [_show(Var(lv))] + stmts)], 'loop'


def _use(rng, e, u, ctor):
    """a call as a statement"""
    k = rng.random()
    if ctor:
        # (what 显示 prints for an object is not this stream's business)
        return Decl(['物%d' % u], e) if k < 0.5 else ExprS(e)
    if k < 0.5:
        return _show(e)
    if k < 0.75:
        return Decl(['果%d' % u], e)
    return ExprS(e)


def episode(g, rng, nest=0, simple=False):
    ep = Episode()
    u = g.fresh()
    # number of calls below the entry, levels that take an exception (deepest first)
    k = 0 if nest >= 2 else rng.choice([0, 1, 1, 2, 2, 3, 4] if nest == 0 else [0, 1, 1, 2])
    if simple:
        m = 1
    else:
        m = min(k + 1, rng.choice([1, 2, 2, 2, 3, 3, 4] if nest == 0 else [1, 1, 2]))
    hs = sorted(rng.sample(range(k + 1), m), reverse=True)
    kind = [rng.choice(['func', 'func', 'func', 'meth', 'meth', 'ctor']) for _ in range(k + 1)]
    name = ['试%d级%d' % (u, j) for j in range(k + 1)]
    cname = ['试%d型%d' % (u, j) for j in range(k + 1)]

    def call_of(j):
        if kind[j] == 'meth':
            return MCall(New(cname[j], []), [(name[j], [])])
        if kind[j] == 'ctor':
            return New(cname[j], [])
        return Call(name[j], [])
    ep.entry = lambda: call_of(0)
    ep.entry_ctor = kind[0] == 'ctor'
    ep.u = u

    first, passing, rk = _raise(g, rng, ep, u)
    ep.kinds.append('raise-' + rk)
    ep.kinds.append('calls-%d' % (k + 1))
    ep.kinds.append('handlers-raising-again-%d' % (m - 1))
    if m > 1:
        ep.kinds.append('final-handler-%d-frames-further-out' % (hs[-2] - hs[-1]))
    for j in range(k, -1, -1):
        fb = [_show(Str('入%d' % j))]
        if j == k:
            inner = first if isinstance(first, list) else [first]
            inner, lk = _wrap(g, rng, inner, loops=False)
        else:
            inner, lk = _wrap(g, rng, [_use(rng, call_of(j + 1), g.fresh(), kind[j + 1] == 'ctor')])
            if lk and j < hs[-1]:
                ep.kinds.append('loop-around-handled-call')
        fb += inner
        if rng.random() < 0.6:
            fb.append(_show(Str('出%d' % j)))
        if kind[j] != 'ctor' and rng.random() < 0.8:
            fb.append(Ret(Num(str(10 + j))))
        catches = []
        if j in hs:
            hb = [_show(Str('拦%d' % j))]
            if rk.startswith('throw') and j == hs[0] and m == 1 and rng.random() < 0.4:
                hb.append(_show(This('内容')))       # the message of a thrown exception is the program's own
            if nest < 2 and not simple and rng.random() < (0.22 if nest == 0 else 0.12):
                # a call that fails and is handled INSIDE this handler block
                sub = episode(g, rng, nest + 1)
                ep.defs += sub.defs
                ep.kinds += ['in-handler:' + x for x in sub.kinds if not x.startswith('in-handler:')] + ['handled-inside-handler']
                hb.append(_use(rng, sub.entry(), g.fresh(), sub.entry_ctor))
                hb.append(_show(Str('拦续%d' % j)))
            other = [('异常' if passing != '异常' else ETYPE, [_show(Str('另')), Ret(Num('-1'))])] if rng.random() < 0.25 else []
            if j == hs[-1]:
                hb += _ending(rng, j)
                catches = other + [(passing, hb)]
            else:
                again, leaving, ak = _reraise(g, rng, ep, u, passing)
                hb += again
                catches = other + [(passing, hb)]
                passing = leaving
                ep.kinds.append('handler-' + ak)
            ep.kinds.append('handler-in-' + kind[j])
        elif j > hs[-1] and rng.random() < 0.25:
            catches = [('异常' if passing != '异常' else ETYPE, [_show(Str('旁')), Ret(Num('-2'))])]
            ep.kinds.append('handler-of-another-type-passed')
        if kind[j] == 'func':
            ep.defs.append(Func(name[j], [], fb, catches))
        elif kind[j] == 'meth':
            ep.defs.append(Class(cname[j], [('名', Str('型'))], [Func(name[j], [], fb, catches)]))
        else:
            ep.defs.append(Class(cname[j], [('名', Str('型'))], []))
            ep.defs.append(Func(cname[j], [], fb, catches, ctor=True))
    return ep


def site_stmts(g, rng, ep):
    """the statements that enter the episode at its site (possibly in a loop / branch)"""
    st, lk = _wrap(g, rng, [_use(rng, ep.entry(), ep.u, ep.entry_ctor)])
    if lk:
        ep.kinds.append('loop-around-handled-call')
    return st


def plan(g, rng, depth):
    """the episodes of one program: [(level at which it is entered: 0 = program body, i = body of the i-th active call, Episode)]"""
    n = rng.choice([1, 1, 1, 1, 2, 2, 3])
    out = []
    for _ in range(n):
        simple = rng.random() < 0.15
        ep = episode(g, rng, simple=simple)
        at = 0 if depth == 0 or rng.random() < 0.5 else rng.randint(1, depth)
        ep.kinds.append('entered-from-program-body' if at == 0 else 'entered-from-active-call')
        out.append((at, ep))
    return out
