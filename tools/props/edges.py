"""Input classes added after measuring which statements of the interpreter the quick correspondence streams never execute
(block coverage of pkg/exec, pkg/value, pkg/runtime: tools/coverage_blocks.sh).  Every generator here returns a list of
(zngen.Program, inputs) for progs.run_stream: the programs are judged three ways like every other program stream (Go = model on
Go's tree, Go's tree = intended tree, Go = spec semantics on the intended tree).

  cmp_programs       C01  为 / 不为 / == / /= / > … on lists and dictionaries of unequal length, with other key sets, with items that
                          cannot be compared (objects, methods, types, exception values) at every position, nested; all type pairs
  semicolon_programs C02  `；` statements (syntax.EmptyStmt) in every kind of block at every place; bodies made of definitions only
  sprinkle           C02  random flow programs with `；` sprinkled over every statement list
  input_programs     C06  program inputs: supplied / missing (error 95) / more than asked for; names that clash (predefined, twice,
                          a method of the body), numeral-like names
  new_programs       C08  新建 of names that are no types; 如何新建 of undefined / non-type / predefined names, before the 定义 it
                          belongs to, twice, through a parameter that holds a type
  throw_programs     C09  抛出 of names that are no types; 拦截 of names that are undefined / no types / no names; order of handlers
All randomness comes from the rng handed in."""
from zngen import *

SMALL = ['0', '1', '2', '3', '5', '-1']
TXT = ['', 'a', 'ab', '甲']
KEYS = ['a', 'b', 'c', '甲', 'k1']


def _show(*xs):
    return ExprS(Call('显示', list(xs)))


# =================================================================================================
# C01 — comparisons of collections
# =================================================================================================

CMP_OPS = ['xeq', 'xne', 'eq', 'ne', 'gt', 'ge', 'lt', 'le']


def _cmp_prelude():
    body = [Class('物', [('值', Num('1'))], []), Func('法', [], [Ret(Num('1'))]),
            Decl(['体'], New('物', [])), Decl(['错'], New('异常', [Str('a')]))]
    for i, op in enumerate(CMP_OPS):
        # one guarded comparer per operator: a comparison that is an error yields “误” and the program goes on
        body.append(Func('比%d' % i, ['左', '右'], [Ret(Bin(op, Var('左'), Var('右')))], [('异常', [Ret(Str('误'))])]))
    # 包含 / 寻找 compare every item of the list (on the left) with the value looked for, by the same equality
    for i, m in ((8, '包含'), (9, '寻找')):
        body.append(Func('比%d' % i, ['左', '右'], [Ret(MCall(Var('左'), [(m, [Var('右')])]))], [('异常', [Ret(Str('误'))])]))
    return body


def _scalar(rng):
    k = rng.randrange(5)
    if k == 0:
        return Num(rng.choice(SMALL))
    if k == 1:
        return Str(rng.choice(TXT))
    if k == 2:
        return Var(rng.choice(['真', '假']))
    if k == 3:
        return Var('空')
    return Num(rng.choice(['0.5', '2*10^3', '1', '1.0']))


def _noncmp(rng):
    """values that 为 cannot compare when they stand on the LEFT (error 83); on the right they are just different"""
    return rng.choice([lambda: Var('显示'), lambda: Var('法'), lambda: Var('物'), lambda: Var('异常'), lambda: Var('体'),
                       lambda: Var('错'), lambda: New('物', [])])()


def _plain(rng, depth):
    k = rng.random()
    if depth <= 0 or k < 0.5:
        return _scalar(rng)
    if k < 0.75:
        return Arr([_plain(rng, depth - 1) for _ in range(rng.randint(0, 3))])
    ks = rng.sample(KEYS, rng.randint(1, 3))
    return Dict([(Var(x), _plain(rng, depth - 1)) for x in ks])


def _clone(e):
    import copy
    return copy.deepcopy(e)


def _cmp_pair(rng):
    """(kind, A, B)"""
    kind = rng.choice(['len', 'len', 'poison', 'poison', 'dictkeys', 'dictkeys', 'dictpoison', 'types', 'nested', 'nested'])
    if kind == 'len':
        items = [_plain(rng, 1) for _ in range(rng.randint(0, 4))]
        a = Arr([_clone(x) for x in items])
        extra = _noncmp(rng) if rng.random() < 0.4 else _plain(rng, 1)
        how = rng.randrange(3)
        if how == 0 or not items:
            b = Arr([_clone(x) for x in items] + [extra])                     # one more at the end
        elif how == 1:
            b = Arr([_clone(x) for x in items[:-1]])                         # one less
        else:
            b = Arr([extra] + [_clone(x) for x in items])                    # one more in front
        if rng.random() < 0.3:
            # the shorter one holds something that cannot be compared: the lengths decide first
            a.items.insert(rng.randint(0, len(a.items)), _noncmp(rng))
            b.items.insert(rng.randint(0, len(b.items)), _plain(rng, 0))
            b.items.append(_plain(rng, 0))
    elif kind == 'poison':
        n = rng.randint(1, 4)
        items = [_plain(rng, 1) for _ in range(n)]
        a = [_clone(x) for x in items]
        b = [_clone(x) for x in items]
        k = rng.randrange(n)
        side = rng.randrange(3)
        if side == 0:
            a[k] = _noncmp(rng)
        elif side == 1:
            b[k] = _noncmp(rng)
        else:
            a[k] = _noncmp(rng)
            b[k] = _clone(a[k])
        if rng.random() < 0.5 and n > 1:
            # a differing item before / after the one that cannot be compared: items are compared in order, the first
            # difference ends the comparison
            j = rng.choice([x for x in range(n) if x != k])
            b[j] = Num('99')
        a, b = Arr(a), Arr(b)
    elif kind == 'dictkeys':
        ks = rng.sample(KEYS, rng.randint(1, 4))
        vals = [Num(rng.choice(SMALL)) for _ in ks]
        a = Dict([(Var(x), _clone(v)) for x, v in zip(ks, vals)])
        how = rng.randrange(5)
        kb, vb = list(ks), [_clone(v) for v in vals]
        if how == 0:        # one key renamed (same size)
            j = rng.randrange(len(kb))
            kb[j] = rng.choice([x for x in KEYS + ['z'] if x not in ks])
        elif how == 1:      # one key missing
            j = rng.randrange(len(kb))
            del kb[j], vb[j]
        elif how == 2:      # one key more
            kb.append('z')
            vb.append(Num('1'))
        elif how == 3:      # other insertion order, same contents
            idx = list(range(len(kb)))
            rng.shuffle(idx)
            kb, vb = [kb[i] for i in idx], [vb[i] for i in idx]
        else:               # a key spelled as a text / a numeral key
            kb[0] = kb[0]
        b = Dict([((Str(x) if rng.random() < 0.3 else Var(x)), v) for x, v in zip(kb, vb)])
        if not b.kvs:
            b = Dict([])
    elif kind == 'dictpoison':
        ks = rng.sample(KEYS, rng.randint(1, 4))
        a = [(Var(x), Num(rng.choice(SMALL))) for x in ks]
        b = [(_clone(kx), _clone(v)) for kx, v in a]
        k = rng.randrange(len(ks))
        side = rng.randrange(3)
        p = _noncmp(rng)
        if side != 1:
            a[k] = (a[k][0], p)
        if side != 0:
            b[k] = (b[k][0], _clone(p))
        if rng.random() < 0.5 and len(ks) > 1:
            j = rng.choice([x for x in range(len(ks)) if x != k])
            if rng.random() < 0.5:
                b[j] = (b[j][0], Num('99'))                 # other value at another key
            else:
                b[j] = (Var('z'), b[j][1])                  # another key missing on the right (same size)
        if rng.random() < 0.3:
            rng.shuffle(b)
        a, b = Dict(a), Dict(b)
    elif kind == 'types':
        pool = [lambda: _scalar(rng), lambda: _scalar(rng), lambda: _noncmp(rng), lambda: Arr([]), lambda: Dict([]),
                lambda: Arr([Num('1')]), lambda: Dict([(Var('a'), Num('1'))]), lambda: Var('空')]
        a, b = rng.choice(pool)(), rng.choice(pool)()
    else:
        # nested collections: the difference (length, key set, item that cannot be compared) sits one or two levels down
        _, ia, ib = _cmp_pair_flat(rng)
        pre = [_plain(rng, 1) for _ in range(rng.randint(0, 2))]
        post = [_plain(rng, 1) for _ in range(rng.randint(0, 2))]
        if rng.random() < 0.5:
            a = Arr([_clone(x) for x in pre] + [ia] + [_clone(x) for x in post])
            b = Arr([_clone(x) for x in pre] + [ib] + [_clone(x) for x in post])
        else:
            a = Dict([(Var('p%d' % i), _clone(x)) for i, x in enumerate(pre)] + [(Var('内'), ia)])
            b = Dict([(Var('p%d' % i), _clone(x)) for i, x in enumerate(pre)] + [(Var('内'), ib)])
    if rng.random() < 0.5:
        a, b = b, a
    return kind, a, b


def _cmp_pair_flat(rng):
    while True:
        k, a, b = _cmp_pair(rng)
        if k != 'nested':
            return k, a, b


def cmp_programs(rng, n, stats=None):
    out = []
    for _ in range(n):
        body = _cmp_prelude()
        for _ in range(rng.randint(3, 7)):
            kind, a, b = _cmp_pair(rng)
            if stats is not None:
                stats[kind] = stats.get(kind, 0) + 1
            i = rng.randrange(4) if rng.random() < 0.8 else rng.randrange(len(CMP_OPS))
            if rng.random() < 0.15:
                # the same pair through 包含 / 寻找: A among other items of a list, B looked for
                i = rng.choice([8, 9])
                a = Arr([_plain(rng, 1) for _ in range(rng.randint(0, 2))] + [a] + [_plain(rng, 1) for _ in range(rng.randint(0, 1))])
                if stats is not None:
                    stats['through-包含/寻找'] = stats.get('through-包含/寻找', 0) + 1
            body.append(_show(Call('比%d' % i, [a, b])))
        kind, a, b = _cmp_pair(rng)
        if stats is not None:
            stats[kind] = stats.get(kind, 0) + 1
            stats['programs'] = stats.get('programs', 0) + 1
        op = rng.choice(CMP_OPS[:4] * 3 + CMP_OPS[4:])
        # the last comparison stands unguarded: its error (if it is one) ends the program with its class and code
        body.append(Ret(Bin(op, a, b, spell=rng.choice(SPELL[op]))))
        out.append((Program([], body), {}))
    return out


# =================================================================================================
# C02 — `；` statements, bodies of definitions only
# =================================================================================================

def _simple(s):
    return isinstance(s, (ExprS, Decl, Ret, Break, Continue, Throw))


def sprinkle(rng, stmts, p=0.15):
    """`；` statements sprinkled over a statement list and (recursively) over every block below it"""
    out = []
    for s in stmts:
        for blk in _blocks_of(s):
            blk[:] = sprinkle(rng, blk, p)
        if rng.random() < p * 0.6:
            out.append(Empty(rng.choice([1, 1, 2])))
        if _simple(s) and rng.random() < p:
            s = Semi(s, before=rng.choice([0, 0, 1, 2]), after=rng.choice([0, 1, 1, 2]))
            if s.before == 0 and s.after == 0:
                s.after = 1
        out.append(s)
    if rng.random() < p * 0.6:
        out.append(Empty())
    return out


def _blocks_of(s):
    """the statement lists directly below a statement (lists, so that they can be edited in place)"""
    if isinstance(s, If):
        bl = [s.then] + [b for _, b in s.elifs] + ([s.els] if s.els is not None else [])
    elif isinstance(s, (While, Iter)):
        bl = [s.body]
    elif isinstance(s, Func):
        bl = [s.body] + [b for _, b in s.catches]
    elif isinstance(s, Class):
        bl = []
        for m in s.methods:
            bl += [m.body] + [b for _, b in m.catches]
    else:
        bl = []
    return [b for b in bl if isinstance(b, list)]


def sprinkled_flow_programs(g, rng, n):
    out = []
    for _ in range(n):
        p, ins = g.flow_program(rng.choice([2, 3, 3]))
        # (the same statement object may stand twice in a flow program: give every list its own copy first)
        import copy
        p = copy.deepcopy(p)
        p.body = sprinkle(rng, p.body, rng.choice([0.1, 0.2, 0.35]))
        out.append((p, ins))
    return out


PLACEMENTS = ['alone-first', 'alone-mid', 'alone-last', 'trail', 'lead', 'double', 'only', 'after-value']
BLOCK_KINDS = ['prog', 'if', 'elif', 'else', 'while', 'iter-list', 'iter-dict', 'method', 'method-noret', 'ctor', 'objmethod',
               'handler', 'prog-handler']


def _placed(placement, k):
    m1, m2 = _show(Num(str(k))), _show(Num(str(k + 1)))
    val = ExprS(Bin('+', Num('40'), Num(str(k))))     # a statement with a value: the value of a body without 输出 is its last statement's
    return {
        'alone-first': [Empty(), m1, m2],
        'alone-mid': [m1, Empty(), m2],
        'alone-last': [m1, m2, Empty()],
        'trail': [Semi(m1, 0, 1), m2],
        'lead': [m1, Semi(m2, 1, 0)],
        'double': [Semi(m1, 1, 2), Empty(2), m2],
        'only': [Empty()],
        'after-value': [m1, val, Empty()],
    }[placement]


def semicolon_programs(rng):
    """every kind of block × every place of a `；`: the markers around it are displayed exactly as without it, the loop goes on,
    the method returns what it returned; a `；` after the last statement of a body without 输出 makes the body's value 空"""
    out = []
    k = 10
    for kind in BLOCK_KINDS:
        for pl in PLACEMENTS:
            k += 10
            c = _placed(pl, k)
            tail = [_show(Str('后'))]
            if kind == 'prog':
                body = c + ([Ret(Num('7'))] if rng.random() < 0.5 else [])
            elif kind == 'if':
                body = [If(Var('真'), c, [], [_show(Str('否'))])] + tail
            elif kind == 'elif':
                body = [If(Var('假'), [_show(Str('首'))], [(Var('真'), c)], [_show(Str('否'))])] + tail
            elif kind == 'else':
                body = [If(Var('假'), [_show(Str('首'))], [], c)] + tail
            elif kind == 'while':
                body = [Decl(['计'], Num('0')),
                        While(Bin('lt', Var('计'), Num('2')), [ExprS(Assign(Var('计'), Bin('+', Var('计'), Num('1'))))] + c)] + tail
            elif kind == 'iter-list':
                body = [Iter(['序', '项'], Arr([Num('5'), Num('6')]), [_show(Var('序'), Var('项'))] + c)] + tail
            elif kind == 'iter-dict':
                body = [Iter(['键', '值'], Dict([(Var('a'), Num('1')), (Var('b'), Num('2'))]), [_show(Var('键'), Var('值'))] + c)] + tail
            elif kind == 'method':
                body = [Func('试', ['参'], c + [Ret(Bin('+', Var('参'), Num('1')))]),
                        _show(Call('试', [Num('1')])), _show(Call('试', [Num('2')]))] + tail
            elif kind == 'method-noret':
                body = [Func('试', [], c), _show(Call('试', [])), Decl(['果'], Call('试', [])), _show(Var('果'))] + tail
            elif kind == 'ctor':
                body = [Class('件', [('值', Num('1'))], []),
                        Func('件', ['初'], c + [ExprS(Assign(This('值'), Var('初')))], ctor=True),
                        _show(Prop(New('件', [Num('5')]), '值'))] + tail
            elif kind == 'objmethod':
                body = [Class('件', [('值', Num('1'))], [Func('增', ['步'], c + [ExprS(Assign(This('值'), Bin('+', This('值'), Var('步')))),
                                                                             Ret(This('值'))])]),
                        Decl(['体'], New('件', [])), _show(MCall(Var('体'), [('增', [Num('2')])])), _show(MCall(Var('体'), [('增', [Num('3')])]))] + tail
            elif kind == 'handler':
                hb = c + ([Ret(Num('-1'))] if rng.random() < 0.6 else [])
                body = [Func('险', [], [_show(Str('入')), Throw('异常', [Str('x')]), Ret(Num('1'))], [('异常', hb)]),
                        _show(Call('险', [])), _show(Call('险', []))] + tail
            else:
                p = Program([], [_show(Str('入')), Throw('异常', [Str('x')])], [('异常', c + [Ret(Num('9'))])])
                out.append((p, {}))
                continue
            out.append((Program([], body), {}))
    # bodies that consist of definitions only (and nothing else): their value is 空
    f = lambda name, b: Func(name, [], b)
    out.append((Program([], [f('甲法', [Ret(Num('1'))])]), {}))
    out.append((Program([], [Class('件', [('值', Num('1'))], [])]), {}))
    out.append((Program([], [f('甲法', [Ret(Num('1'))]), Class('件', [('值', Num('1'))], []), f('乙法', [Ret(Num('2'))])]), {}))
    out.append((Program([], [f('外', [f('内', [Ret(Num('1'))])]), _show(Call('外', [])), _show(Str('后'))]), {}))
    out.append((Program([], [f('外', [f('内', [Ret(Num('5'))]), Empty()]), _show(Call('外', []))]), {}))
    out.append((Program([], [f('外', [f('内', [Ret(Num('5'))]), Ret(Call('内', []))]), _show(Call('外', []))]), {}))
    out.append((Program([], [f('外', [Class('内件', [('值', Num('3'))], []), Ret(Prop(New('内件', []), '值'))]), _show(Call('外', []))]), {}))
    out.append((Program([], [Empty()]), {}))
    out.append((Program([], [Empty(3), f('甲法', [Ret(Num('1'))]), Empty()]), {}))
    # `；` on the lines of a 令： block: a line that is only `；` declares nothing, a `；` before / after a pair changes nothing (the block may
    # even declare nothing at all)
    pair = lambda n, v, c=1: '(pair %d ((id 0 %s)) (id 0 %s))' % (c, hx(n), hx(v))
    out.append((Program([], [Raw('令：\n    ；\n    甲设为1\n    乙设为2；\n    ；；', '(vardecl 0 %s %s)' % (pair('甲', '1'), pair('乙', '2'))),
                             _show(Var('甲'), Var('乙'))]), {}))
    out.append((Program([], [If(Var('真'), [Raw('令：\n        ；甲设为1\n        乙恒为2', '(vardecl 0 %s %s)' % (pair('甲', '1'), pair('乙', '2', 3))),
                                            _show(Var('甲'), Var('乙')), ExprS(Assign(Var('乙'), Num('3')))])]), {}))
    out.append((Program([], [Raw('令：\n    ；', '(vardecl 0)'), _show(Num('1'))]), {}))
    return out


# =================================================================================================
# C06 — program inputs
# =================================================================================================

def input_programs(rng, n, stats=None):
    """输入 at program level: every name the program asks for is supplied (any order, more than asked for is ignored) or one is
    missing (the run ends with error 95 before any statement); the names clash with a predefined name / each other / a method
    or type the body defines (error 43), or are no names (numerals)"""
    out = []
    pool = ['甲', '乙', '丙', '丁']

    def note(k):
        if stats is not None:
            stats[k] = stats.get(k, 0) + 1
    for _ in range(n):
        names = rng.sample(pool, rng.randint(1, 3))
        vals = {x: rng.choice([1.0, 2.5, -3.0, 'a', '你好', True, None]) for x in pool}
        body = [_show(Str('始'))] + [_show(Var(x)) for x in names]
        # inputs are constants
        k = rng.random()
        kind = rng.choice(['all', 'all', 'missing', 'missing', 'none', 'extra', 'clash-predefined', 'clash-twice', 'clash-method',
                           'clash-type', 'numeral', 'assign', 'redeclare-inner'])
        note(kind)
        ins = {x: vals[x] for x in names}
        if kind == 'missing':
            del ins[rng.choice(names)]
        elif kind == 'none':
            ins = {}
        elif kind == 'extra':
            ins = dict(vals)
            ins['余'] = 9.0
        elif kind == 'clash-predefined':
            g = rng.choice(['真', '假', '空', '异常', '显示', '数值', '取随机数'])
            names.insert(rng.randint(0, len(names)), g)
            ins[g] = 1.0
        elif kind == 'clash-twice':
            names.insert(rng.randint(0, len(names)), rng.choice(names))
        elif kind == 'clash-method':
            body.insert(rng.randint(0, len(body)), Func(rng.choice(names), [], [Ret(Num('1'))]))
        elif kind == 'clash-type':
            body.insert(rng.randint(0, len(body)), Class(rng.choice(names), [('值', Num('1'))], []))
        elif kind == 'numeral':
            bad = rng.choice(['1', '2.5', '-3', '1x', '7*10^2', '+4'])
            names.insert(rng.randint(0, len(names)), bad)
            ins[bad] = 1.0
        elif kind == 'assign':
            body.append(ExprS(Assign(Var(rng.choice(names)), Num('5'))))
            body.append(_show(Str('不达')))
        elif kind == 'redeclare-inner':
            # an inner block may declare the name again; afterwards the input is what it was
            x = rng.choice(names)
            body.append(If(Var('真'), [Decl([x], Num('77')), _show(Var(x))]))
            body.append(_show(Var(x)))
        if rng.random() < 0.5:
            body.append(Ret(Arr([Var(x) for x in names if x in pool])))
        out.append((Program(names, body), ins))
    return out


# =================================================================================================
# C08 — 新建 / 如何新建 of names that are no (program) types
# =================================================================================================

def _guard(k, stmts, ret=None):
    """method 试k whose handler turns an exception of its body into “拦k”"""
    return Func('试%d' % k, [], [_show(Str('入%d' % k))] + stmts + [Ret(ret if ret is not None else Str('过%d' % k))],
                [('异常', [Ret(Str('拦%d' % k))])])


def _things():
    """names of every kind of value"""
    return [Decl(['数'], Num('5')), Decl(['文'], Str('字')), Decl(['列'], Arr([Num('1')])), Decl(['典'], Dict([(Var('a'), Num('1'))])),
            Func('法', [], [Ret(Num('1'))]), Class('物', [('值', Num('1'))], []), Decl(['体'], New('物', []))]


NOT_TYPES = ['文', '列', '典', '法', '显示', '体', '空', '真', '无名']


def new_programs(rng, n, stats=None):
    out = []

    def note(k):
        if stats is not None:
            stats[k] = stats.get(k, 0) + 1
    for _ in range(n):
        body = _things()
        main = []
        nprobe = rng.randint(2, 4)
        for k in range(1, nprobe + 1):
            guarded = k < nprobe or rng.random() < 0.4
            kind = rng.choice(['new-nontype', 'new-nontype', 'new-args', 'ctor-nontype', 'ctor-nontype', 'ctor-before-type', 'ctor-twice',
                               'ctor-alias-own', 'ctor-alias-predefined', 'ctor-arity'])
            note(kind)
            st, ret = [], None
            if kind == 'new-nontype':
                x = rng.choice(NOT_TYPES)
                st = [Decl(['造%d' % k], New(x, [Num('1')] * rng.choice([0, 0, 1])))]
            elif kind == 'new-args':
                # a type without constructor takes any arguments (they are evaluated, left to right); 异常 wants one text
                if rng.random() < 0.5:
                    st = [Decl(['造%d' % k], New('物', [Call('记', [Num(str(10 * k + j)), Num(str(j))]) for j in range(rng.randint(1, 3))]))]
                    ret = Prop(Var('造%d' % k), '值')
                else:
                    args = rng.choice([[], [Num('1')], [Str('a'), Str('b')], [Str('话')], [Var('空')]])
                    st = [Decl(['造%d' % k], New('异常', args))]
                    ret = Prop(Var('造%d' % k), '内容')
            elif kind == 'ctor-nontype':
                x = rng.choice(NOT_TYPES + ['数', '异常'])
                st = [Func(x, [], [_show(Str('造'))], ctor=True), _show(Str('不达%d' % k))]
            elif kind == 'ctor-before-type':
                # definitions are evaluated in the order they stand: the constructor of a type defined further down has no type yet
                t = '后型%d' % k
                st = [Func(t, [], [ExprS(Assign(This('值'), Num('9')))], ctor=True), Class(t, [('值', Num('1'))], []), _show(Str('不达%d' % k))]
            elif kind == 'ctor-twice':
                t = '重型%d' % k
                st = [Class(t, [('值', Num('1'))], []),
                      Func(t, [], [ExprS(Assign(This('值'), Num('2')))], ctor=True),
                      Func(t, [], [ExprS(Assign(This('值'), Num('3')))], ctor=True)]
                ret = Prop(New(t, []), '值')
            elif kind == 'ctor-arity':
                t = '元型%d' % k
                ar = rng.randint(0, 2)
                st = [Class(t, [('值', Num('1'))], []),
                      Func(t, ['初%d' % j for j in range(ar)], [ExprS(Assign(This('值'), Num('2')))], ctor=True)]
                ret = Prop(New(t, [Num('7')] * rng.choice([ar, ar, ar + 1, max(ar - 1, 0)])), '值')
            else:
                # a type handed to a method: 如何新建‹参数›？ there gives the constructor to THAT type (one the program defined), and is
                # refused for the predefined 异常
                t = '递型%d' % k
                arg = t if kind == 'ctor-alias-own' else '异常'
                setter = Func('配%d' % k, ['类'], [Func('类', ['初'], [ExprS(Assign(This('值'), Var('初')))], ctor=True), Ret(Num('1'))])
                st = [Class(t, [('值', Num('1'))], []), setter, _show(Call('配%d' % k, [Var(arg)]))]
                ret = Prop(New(t, [Num('8')]), '值') if kind == 'ctor-alias-own' else Prop(New('异常', [Str('话')]), '内容')
            if guarded:
                body.append(_guard(k, st, ret))
                main.append(_show(Call('试%d' % k, [])))
            else:
                main += st + ([_show(ret)] if ret is not None else [])
        main.append(_show(Str('终'), Prop(Var('体'), '值')))
        out.append((Program([], [Func('记', ['号', '值'], [_show(Var('号')), Ret(Var('值'))])] + body + main), {}))
    return out


# =================================================================================================
# C09 — 抛出 / 拦截 of names that are no types
# =================================================================================================

def throw_programs(rng, n, stats=None):
    out = []

    def note(k):
        if stats is not None:
            stats[k] = stats.get(k, 0) + 1
    for _ in range(n):
        body = _things() + [Class('自定错', [('内容', Str(''))], []),
                            Func('自定错', ['话'], [ExprS(Assign(This('内容'), Var('话')))], ctor=True)]
        main = []
        nprobe = rng.randint(2, 4)
        for k in range(1, nprobe + 1):
            last = k == nprobe
            kind = rng.choice(['throw-nontype', 'throw-nontype', 'throw-plain-type', 'throw-args', 'catch-nontype', 'catch-nontype',
                               'catch-order', 'catch-numeral', 'catch-numeral-unreached', 'throw-numeral'])
            if kind == 'catch-numeral' and not last:
                kind = 'catch-numeral-unreached'      # (a numeral that is reached ends the run: only as the last probe)
            if kind == 'throw-numeral' and not last:
                kind = 'throw-nontype'
            note(kind)
            fault = rng.choice([lambda: Throw('异常', [Str('话%d' % k)]), lambda: Throw('自定错', [Str('文%d' % k)]),
                                lambda: _show(Bin('/', Num('1'), Num('0'))), lambda: _show(Var('未定名'))])
            inner_catch = []
            if kind == 'throw-numeral':
                # a numeral where the type's name belongs: no exception at all, the run ends (no handler sees it)
                st = [Throw(rng.choice(['1', '2.5', '-3', '7*10^2', '1x']), [Str('话')])]
            elif kind == 'throw-nontype':
                st = [Throw(rng.choice(NOT_TYPES + ['数']), [Str('话')] * rng.choice([1, 1, 2]))]     # (抛出 takes at least one argument)
            elif kind == 'throw-plain-type':
                # a type without constructor and without 内容: thrown as it is, caught by its own name only
                st = [Throw('物', [Num('1')] * rng.choice([1, 2]))]
                inner_catch = [(rng.choice(['物', '物', '异常', '自定错']), [_show(Str('内拦%d' % k)), Ret(Prop(This('自身'), '值'))])]
            elif kind == 'throw-args':
                st = [Throw('异常', rng.choice([[Num('1')], [Str('a'), Str('b')], [Var('空')], [Arr([])], [Str('甲'), Num('2'), Num('3')]]))]
            elif kind in ('catch-nontype', 'catch-order', 'catch-numeral', 'catch-numeral-unreached'):
                st = [fault()]
                if kind == 'catch-nontype':
                    # the name after 拦截 is compared with the NAME of the exception's type: a name that is undefined, or holds
                    # something else, matches nothing
                    inner_catch = [(rng.choice(NOT_TYPES + ['数']), [_show(Str('误拦%d' % k)), Ret(Num('-9'))])]
                    if rng.random() < 0.5:
                        inner_catch.append((rng.choice(['异常', '自定错']), [_show(Str('次拦%d' % k)), Ret(Num('-8'))]))
                elif kind == 'catch-order':
                    cl = rng.sample(['异常', '自定错', '物', '无名'], rng.randint(2, 4))
                    inner_catch = [(c, [_show(Str('拦%d·%d' % (k, j))), Ret(Num(str(-j)))]) for j, c in enumerate(cl)]
                else:
                    bad = rng.choice(['1', '2.5', '-3', '7*10^2'])
                    good = ('异常' if not isinstance(st[0], Throw) or st[0].cls == '异常' else '自定错')
                    if kind == 'catch-numeral':
                        # handlers are looked at in order: a numeral where the type's name belongs ends the run — when it is reached
                        inner_catch = [(bad, [Ret(Num('-7'))]), (good, [Ret(Num('-6'))])]
                    else:
                        inner_catch = [(good, [_show(Str('先拦%d' % k)), Ret(Num('-6'))]), (bad, [Ret(Num('-7'))])]
            if inner_catch:
                body.append(Func('险%d' % k, [], [_show(Str('险%d' % k))] + st + [Ret(Str('险过'))], inner_catch))
                st = [_show(Call('险%d' % k, []))]
            if not last or rng.random() < 0.4:
                body.append(_guard(k, st))
                main.append(_show(Call('试%d' % k, [])))
            else:
                main += st
        main.append(_show(Str('终')))
        catches = [(rng.choice(['异常', '自定错', '物', '无名']), [_show(Str('主拦')), Ret(Num('55'))])] if rng.random() < 0.3 else []
        out.append((Program([], body + main, catches), {}))
    return out


# =================================================================================================
# C12 — keys of dictionary literals
# =================================================================================================

def dictkey_programs(rng, n, stats=None):
    """【键 = 值，…】: a key is a name, a numeral or a text, taken LITERALLY (the numeral as it is spelled: 1, 1.0 and +1 are three keys;
    a name is not looked up); the same key written twice keeps its first place and its last value; a key that is any other expression is
    an error (80) raised when that pair is reached — the values before it have been evaluated, nothing after it; a malformed
    numeral (1x, 2.) is no identifier at all.  The dictionary is then read back: 所有索引, 所有值, 长度, every key through #“…”"""
    out = []

    def note(k):
        if stats is not None:
            stats[k] = stats.get(k, 0) + 1
    names = ['a', 'b', '甲', 'k1', '真', '显示', '未定名']       # (predefined and undefined names are keys like any other: not looked up)
    nums = ['1', '1.0', '+1', '01', '2.5', '-3', '1E+2', '2*10^3', '25*^-2', '100', '1*10^999', '0', '-0']
    texts = ['a', '1', '', 'x y', '甲', '1.0', '你好']
    bad = ['1x', '2.', '3..4', '1e', '5*10^', '1.5.2', '-', ]
    for _ in range(n):
        body = [Func('记', ['号', '值'], [_show(Var('号')), Ret(Var('值'))]), Decl(['甲'], Num('7'))]
        kvs, keys = [], []
        k = rng.randint(1, 5)
        fail = rng.choice(['none', 'none', 'none', 'expr', 'expr', 'malformed'])
        fail_at = rng.randrange(k) if fail != 'none' else -1
        for i in range(k):
            val = Call('记', [Num(str(i + 1)), Num(str(10 * (i + 1)))])       # evaluation of the values is visible, in order
            if i == fail_at:
                if fail == 'expr':
                    note('key-is-an-expression')
                    key = rng.choice([lambda: Bin('+', Num('1'), Num('2')), lambda: Arr([Num('1')]), lambda: Call('记', [Num('99'), Str('k')]),
                                      lambda: Prop(Var('甲'), '文本'), lambda: Brace(Var('a')), lambda: Index(Arr([Str('k')]), Num('1')),
                                      lambda: Bin('+', Str('a'), Str('b'))])()
                    if isinstance(key, Bin):
                        key = Brace(key)
                else:
                    note('key-malformed-numeral')
                    key = Var(rng.choice(bad[:-1]))
                kvs.append((key, val))
                continue
            r = rng.random()
            if keys and r < 0.2:
                note('key-repeated')
                kk = rng.choice(keys)
                key = Str(kk) if rng.random() < 0.5 else (Var(kk) if kk and all(c not in kk for c in ' ') and kk not in ('',) else Str(kk))
                if isinstance(key, Var) and not _plain_key(kk):
                    key = Str(kk)
            elif r < 0.5:
                note('key-name')
                kk = rng.choice(names)
                key = Var(kk)
            elif r < 0.8:
                note('key-numeral')
                kk = rng.choice(nums)
                key = Var(kk)
            else:
                note('key-text')
                kk = rng.choice(texts)
                key = Str(kk)
            keys.append(kk)
            kvs.append((key, val))
        body.append(Decl(['典'], Dict(kvs)))
        body.append(_show(Var('典'), Prop(Var('典'), '所有索引'), Prop(Var('典'), '所有值'), Prop(Var('典'), '长度')))
        seen = []
        for kk in keys:
            if kk not in seen:
                seen.append(kk)
                body.append(_show(Index(Var('典'), Str(kk))))
        if rng.random() < 0.5:
            body.append(Iter(['键', '值'], Var('典'), [_show(Var('键'), Var('值'))]))
        body.append(Ret(Var('典')))
        out.append((Program([], body), {}))
    return out


def _plain_key(kk):
    """can this key be written bare (as an identifier / numeral) in a literal?"""
    import re
    return bool(kk) and re.fullmatch(r'[A-Za-z0-9甲真显示未定名k.+\-*^E]+', kk) is not None and ' ' not in kk


# =================================================================================================
# C06 — methods defined inside methods (behind a switch: the unchanged tree differs from the spec semantics here)
# =================================================================================================

def nested_method_programs(rng, n):
    """A method body may define a method of its own (a body is a statement list like the program's): the inner name lives in that
    body's block and shadows an outer method of the same name until the body ends.  The unchanged interpreter adds EVERY method
    definition to the exports of the current module (evalFunctionDeclareStmt → Module.AddExportValue), so (1) the second call of the
    outer method fails — `标识「内」被重复定义` —, and (2) an inner method spelled like a method of the program fails at once.  Cf. DESIGN §12.8
    (2), the same for types defined inside methods.  c06.py: VERIF_C06_METHODS_DEFINED_INSIDE_METHODS=1"""
    out = []
    for _ in range(n):
        inner = Func('内', [], [Ret(Num(str(rng.randint(2, 9))))])
        outer = Func('外', ['参'], [inner, _show(Str('外'), Var('参')), Ret(Bin('+', Call('内', []), Var('参')))])
        body = [outer]
        if rng.random() < 0.5:
            body.insert(rng.randint(0, 1), Func('内', [], [Ret(Num('100'))]))      # a method of the program with the same name
            main = [_show(Call('内', [])), _show(Call('外', [Num('1')])), _show(Call('内', []))]
        else:
            main = [_show(Call('外', [Num('1')]))] + ([_show(Call('外', [Num('2')]))] if rng.random() < 0.7 else []) + [_show(Var('内'))]
        out.append((Program([], body + main), {}))
    return out
