"""Steps for the handler/server ops of harness/ops_server.go (hseq, hrep, srv), shared by c16.py and c11.py.

A step is one HTTP request for one of the real handlers of pkg/server:  <kind>:<entry-hex|->:<descriptor-hex>
(see the head of ops_server.go). A response comes back as `<status> [<name-hex>=<value-hex>,…] <body-hex> | <displayed>`."""
import json
from urllib.parse import quote


def hx(s):
    b = s if isinstance(s, bytes) else s.encode('utf-8')
    return b.hex() if b else '-'


def descriptor(method, target, headers, body):
    head = '\n'.join(['%s %s' % (method, quote(target, safe='/?&=%'))] + ['%s: %s' % kv for kv in headers])
    b = body if isinstance(body, bytes) else body.encode('utf-8')
    return head.encode('utf-8') + b'\n\n' + b


def pg_step(source=None, varinput=None, raw=None, truncated=False, extra=None):
    """a request for the playground handler: JSON body {"SourceCode":…, "VarInput":…} (or `raw` bytes sent as they are)"""
    if raw is None:
        d = {}
        if source is not None:
            d['SourceCode'] = source
        if varinput is not None:
            d['VarInput'] = varinput
        if extra:
            d.update(extra)
        raw = json.dumps(d, ensure_ascii=False)
    return '%s:-:%s' % ('pgT' if truncated else 'pg', hx(descriptor('POST', '/playground', [('Content-Type', 'application/json')], raw)))


def http_step(entry, method='GET', target='/', headers=(), body='', kind='http'):
    return '%s:%s:%s' % (kind, hx(entry), hx(descriptor(method, target, list(headers), body)))


def unhx(h):
    return b'' if h == '-' else bytes.fromhex(h)


def parse_resp(resp):
    """`<status> [hdrs] <body-hex> | trace` → (status, {name: [values]}, body bytes, trace) ; None for panic / malformed"""
    head, _, trace = resp.partition(' | ')
    f = head.split(' ')
    if len(f) != 3 or not f[0].isdigit():
        return None
    hdrs = {}
    inner = f[1][1:-1]
    if inner:
        for kv in inner.split(','):
            k, _, v = kv.partition('=')
            hdrs.setdefault(unhx(k).decode('utf-8', 'replace'), []).append(unhx(v).decode('utf-8', 'replace'))
    return int(f[0]), hdrs, unhx(f[2]), trace


def wire_want(resp):
    """what a client of the real server must see for a request whose recorder answer is `resp`: `<status> <content-type-hex> <body-hex>`"""
    p = parse_resp(resp)
    if p is None:
        return None
    status, hdrs, body, _ = p
    ct = (hdrs.get('Content-Type') or [''])[0]
    return '%d %s %s' % (status, hx(ct), hx(body))


def show(resp):
    p = parse_resp(resp)
    if p is None:
        return resp[:200]
    return '%d %s %r' % (p[0], (p[1].get('Content-Type') or ['-'])[0], p[2].decode('utf-8', 'replace')[:160])
