"""C08 — program-level three-way comparison (Go interpreter, Lean model evaluator, Lean spec semantics)."""
from props import progs
from props.progs import replay  # noqa

GEN = 'call'
RULE = ("programs with 1–4 methods of arity 0–3 (bodies display their name and arguments, call earlier methods), a recursive method "
        "(depth 0…300), recursion through an argument of a 2–3-argument call (the recursive call at a random argument position of a "
        "position-sensitive combiner: plain method, method of an object through 其自身, constructor call building a linked chain; "
        "Ackermann's function), a type with default properties (one a list), optional constructor, methods using 其 and returning 其自身; calls "
        "with planted display calls in arguments (evaluation order, once), right and wrong arities, 得到, chains, unknown methods and "
        "properties; a method of one object calling a method of a linked object that handles a failure (抛出 / 1/0 / unknown method) "
        "raised 0–3 calls below its handler, then reading and writing its own 其横; all objects' properties displayed after each object "
        "operation. Non-trivial = at least one call with arguments "
        "and one object operation.")
ASSUMPTIONS = ["unbounded recursion (Go stack exhaustion) is outside the quantifier"]
PARTIAL = "computed properties (何为) are compiled but never consulted by the evaluator; not generated"


def run(ctx):
    g = progs.G(ctx.rng)
    n = ctx.n(1500, 40000)
    ps = [g.call_program() for _ in range(n)]
    progs.run_stream(ctx, 'call', ps, nontrivial=lambda src, go: '新建点' in src and '（算' in src)
