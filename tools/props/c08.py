"""C08 — program-level three-way comparison (Go interpreter, Lean model evaluator, Lean spec semantics)."""
from props import progs, sites, callcopy
from props.progs import replay  # noqa

GEN = 'call'
RULE = ("programs with 1–4 methods of arity 0–3 (bodies display their name and arguments, call earlier methods), a recursive method "
        "(depth 0…300), recursion through an argument of a 2–3-argument call (the recursive call at a random argument position of a "
        "position-sensitive combiner: plain method, method of an object through 其自身, constructor call building a linked chain; "
        "Ackermann's function), a type with default properties (one a list), optional constructor, methods using 其 and returning 其自身; calls "
        "with planted display calls in arguments (evaluation order, once), right and wrong arities, 得到, chains, unknown methods and "
        "properties; a method of one object calling a method of a linked object that handles a failure (抛出 / 1/0 / unknown method) "
        "raised 0–3 calls below its handler, then reading and writing its own 其横; all objects' properties displayed after each object "
        "operation. Non-trivial = at least one call with arguments "
        "and one object operation. Stream `inst`: one or two types whose default properties are scalars (numbers in every notation, "
        "numerals as texts, truth values, 空), a list, a dictionary, an object (shared by reference) and expressions over program "
        "inputs / planted display calls (evaluated once, at the definition); constructors that assign, change in place, do both or are "
        "absent; 2–3 instances created first and more in between; properties changed IN PLACE without having been assigned on that "
        "object (自增 / 自减 / 转换数值 through 其, through 对象之属性, through a chain, through a linked object, on items of the default "
        "containers) and by plain assignment; after every step every property of every instance, of a fresh instance of every type "
        "and the program inputs are displayed. Non-trivial there = at least one in-place change and two instances. Stream `new-edge` "
        "(props/edges.py, 150 programs of 2–4 probes, each in a method with its own handler or bare): 新建 of a name that holds a text / list / "
        "dictionary / method / object / 空 / nothing; 新建 with arguments for a type without constructor and for 异常; 如何新建 of a name "
        "that is no type, of 异常, of a type defined further down, twice for one type, with the wrong number of arguments at 新建, and "
        "through a parameter that holds a type of the program / the predefined 异常. "
        "Stream `callcopy`: 其属性 / 对象之属性 / names / elements assigned the result of a call that yields another object's property "
        "(getter, chain ending in a getter), its own argument or a part of it, then both holders changed in place at nesting "
        "level 0–2 (自增 自减 后增 前增 # 写入 移除), all properties displayed after every step.")
ASSUMPTIONS = ["unbounded recursion (Go stack exhaustion) is outside the quantifier"]
PARTIAL = "computed properties (何为) are compiled but never consulted by the evaluator; not generated"


def run(ctx):
    sites.report(ctx)   # regenerated site inventory vs the modelled sites (diagnosis of a broken obligation; DESIGN §12)
    g = progs.G(ctx.rng)
    n = ctx.n(1500, 40000)
    ps = [g.call_program() for _ in range(n)]
    progs.run_stream(ctx, 'call', ps, nontrivial=lambda src, go: '新建点' in src and '（算' in src)
    # instances and their defaults (after the call stream, so that the call stream of a given seed is what it was)
    m = ctx.n(400, 12000)
    qs = [g.inst_program() for _ in range(m)]
    progs.run_stream(ctx, 'inst', qs, nontrivial=lambda src, go: src.count('令件') >= 2 and ('（自增' in src or '（增：' in src or '（减：' in src))
    # 新建 / 如何新建 of names that are no (program) types, constructors before their type / twice / through a parameter — props/edges.py
    from props import edges
    st = {}
    ns = edges.new_programs(ctx.rng, ctx.n(150, 6000), st)
    progs.run_stream(ctx, 'new-edge', ns, nontrivial=lambda src, go: True)
    for k, v in sorted(st.items()):
        ctx.count('new-edge:gen:' + k, v)
    # properties (and names, elements) assigned the result of a call that yields another object's property / its argument, then one
    # of the two holders changed in place (props/callcopy.py)
    rs = callcopy.programs(g, ctx.n(250, 7500))
    for k, v in sorted(g.stats.items()):
        if k.startswith('callcopy:'):
            ctx.count('gen-' + k, v)
    progs.run_stream(ctx, 'callcopy', rs, nontrivial=callcopy.nontrivial)
