"""Shared by c03.py / c05.py: corpus of valid programs, corruptions, running Go vs the parser model, outcome classes."""
import re
from zngen import cps
from props import progs

GENS = ['expr', 'flow', 'copy', 'call', 'exc', 'scope']


def corpus(rng, n, gens=GENS):
    """n programs (zngen.Program) drawn round-robin from the program generators"""
    g = progs.G(rng)
    mk = {'expr': lambda: g.expr_program(rng.randint(1, 5)), 'flow': lambda: g.flow_program(rng.randint(1, 3)),
          'copy': lambda: g.copy_program(rng.randint(3, 10)), 'call': g.call_program, 'exc': g.exc_program,
          'scope': g.scope_program}
    out = []
    for i in range(n):
        p = mk[gens[i % len(gens)]]()
        out.append(p[0] if isinstance(p, tuple) else p)
    return out


# ---- corruptions (character level; token-aware ones use the token spans reported by the harness `tokens` op) --------

NOISE = ['\u0000', '\u0001', '\u0007', '\u001b', '\u007f', '\u0085', ' ', '​', '‍', ' ', '﻿', '�',
         '\U0001F600', '\U000E0001', '́', '　', 'é', 'ｘ', '𝟙', '\ud800', '\udfff',
         '“', '”', '「', '」', '『', '』', '《', '》', '‘', '’', '`', '（', '）', '(', ')', '【', '】', '[', ']', '{', '}',
         '：', ':', '？', '?', '！', '!', '，', ',', '、', '；', ';', '#', '@', '&', '=', '==', '/=', '/', '//', '/*', '*/', '*', '+', '-', '|', '%',
         '注', '注：', '注1：「', '\r', '\n', '\r\n', '\n\r', '\t', ' ', '    ', '  ',
         '令', '为', '设为', '恒为', '如果', '否则', '再如', '每当', '遍历', '以', '之', '的', '其', '如何', '何为', '定义', '新建', '输入', '输出',
         '抛出', '拦截', '得到', '导入', '结束循环', '继续循环', '或', '且', '等于', '不等于', '大于', '小于', '不为', '不大于', '不小于']


def token_spans(tokens_line):
    """[(start, end, type)] of the non-EOF tokens of a harness `tokens` answer"""
    out = []
    if not tokens_line.startswith('ok'):
        return out
    for f in tokens_line.split(' ')[1:]:
        if f.startswith('T:'):
            p = f.split(':')
            if p[1] != '0':
                out.append((int(p[2]), int(p[3]), int(p[1])))
    return out


def corruptions(rng, src, spans, k):
    """k corrupted variants of src: token deletion / duplication / swap, splices, noise, unbalanced quotes, indentation damage"""
    out = []
    n = len(src)
    for _ in range(k):
        r = rng.random()
        s = src
        if spans and r < 0.18:      # delete a token
            a, b, _ = rng.choice(spans)
            s = src[:a] + src[b:]
        elif spans and r < 0.32:    # duplicate a token
            a, b, _ = rng.choice(spans)
            s = src[:b] + src[a:b] + src[b:]
        elif len(spans) > 1 and r < 0.46:  # swap two tokens
            i, j = sorted(rng.sample(range(len(spans)), 2))
            (a, b, _), (c, d, _) = spans[i], spans[j]
            s = src[:a] + src[c:d] + src[b:c] + src[a:b] + src[d:]
        elif r < 0.56 and n > 0:    # splice: a random slice moved / copied elsewhere
            a = rng.randrange(n)
            b = min(n, a + rng.randint(1, 12))
            c = rng.randrange(n + 1)
            s = src[:c] + src[a:b] + src[c:]
        elif r < 0.80:              # noise insertion / replacement
            c = rng.randrange(n + 1)
            x = rng.choice(NOISE)
            s = src[:c] + x + src[c + (1 if rng.random() < 0.4 else 0):]
        elif r < 0.90:              # indentation damage: change the indent of one line
            ls = src.split('\n')
            i = rng.randrange(len(ls))
            ls[i] = rng.choice(['', ' ', '  ', '    ', '\t', '\t\t', ' \t', '        ', '     ']) + ls[i].lstrip(' \t')
            s = '\n'.join(ls)
        else:                       # line-break damage
            c = rng.randrange(n + 1)
            s = src[:c] + rng.choice(['\r', '\n', '\r\n', '\n\r', '\r\r']) + src[c:]
        out.append(s)
    return out


# ---- a complete statement followed by an over-indented line ------------------------------------------------------------------

T_INPUTW = 0x4B
OPENERS, CLOSERS = (20, 22, 24), (21, 23, 25)          # 【 （ {   /   】 ） }
NO_BREAK_AFTER = (11, 26, 24, 20, 13, 14)              # ， 、 { 【 ： ？  — a line break after these does not end the statement
OVER_BODIES = ['输出2', '（显示：9）', '令新设为1', '甲乙', '“文”', '9', '）', '为', '拦截异常：', '否则：', '如果真：', '每当真：', '以甲（乙）',
               '如何f？', '+ 1', '】', '结束循环', '输出2\n输出3', '（显示：“跨\n行”）']


def _line_of(text, pos):
    """0-based physical line of offset pos (CR, LF, CRLF, LFCR are one line end each — the lexer's rule)"""
    n, i = 0, 0
    while i < pos:
        c = text[i]
        if c in '\r\n':
            if i + 1 < len(text) and text[i + 1] in '\r\n' and text[i + 1] != c:
                i += 1
            n += 1
        i += 1
    return n


def overindented(rng, src, spans, k):
    """k variants of the VALID canonical program `src` (LF line ends, 4-space indentation, token spans from the real lexer): after a
    physical line on which a statement is complete (no open bracket, last token not one of ， 、 { 【 ： ？; 输入 lines included since the
    repair of ParseExecBlock's input-state error, 07aabbd — `after_input_line` below aims at them) a line is
    inserted that is indented deeper than the statement it follows (by one or two steps, or deeper than every line before it) — 4 spaces or TAB per step (TAB: the whole program is re-indented
    with TABs), directly or after a blank / comment line.  The parser leaves every open block at such a
    line (no block has that indentation) and `ParseAST` finds tokens left over — or, right after an 输入 line, `ParseExecBlock` finds its
    block ended while still in the 输入 section —: syntax error 20 positioned ON the inserted line at its first token.  (Not started with a comma: `tryConsume` swallows one comma even when the statement is complete, and the first
    LEFT-OVER token then is the one after it.)
    Returns [(text, cursor of the expected error, 0-based physical line of the expected error)]."""
    if not spans:
        return []
    line_start = [0] + [i + 1 for i, c in enumerate(src) if c == '\n']

    def lno(pos):
        lo, hi = 0, len(line_start) - 1
        while lo < hi:
            mid = (lo + hi + 1) // 2
            if line_start[mid] <= pos:
                lo = mid
            else:
                hi = mid - 1
        return lo
    nlines = len(line_start)
    src_end = len(src)
    # lines on which a token starts as the first thing of the line, with their indentation (in steps of 4 spaces)
    indent = {}
    for a, b, ty in spans:
        ln = lno(a)
        lead = src[line_start[ln]:a]
        if ln not in indent and lead.strip(' ') == '' and len(lead) % 4 == 0:
            indent[ln] = len(lead) // 4
    cands = []
    depth = 0
    for i, (a, b, ty) in enumerate(spans):
        if ty in OPENERS:
            depth += 1
        elif ty in CLOSERS:
            depth -= 1
        endl = lno(max(a, b - 1))
        nxt = spans[i + 1] if i + 1 < len(spans) else None
        if nxt is not None and lno(nxt[0]) <= endl:
            continue                       # not the last token on its line
        if depth != 0 or ty in NO_BREAK_AFTER:
            continue
        if nxt is not None and nxt[2] in CLOSERS:
            continue
        cands.append((endl, indent[max(l for l in indent if l <= endl)], max(v for l, v in indent.items() if l <= endl)))
    out = []
    for _ in range(k):
        if not cands:
            break
        endl, cur, deepest = rng.choice(cands)
        tab = rng.random() < 0.5
        unit = '\t' if tab else '    '
        text = src
        if tab:
            ls = src.split('\n')
            for ln, v in indent.items():
                ls[ln] = '\t' * v + ls[ln][4 * v:]
            text = '\n'.join(ls)
        ls = text.split('\n')
        # deeper than the statement it follows (no open block has that indentation), sometimes deeper than every line so far
        steps = rng.choice([cur + 1, cur + 1, cur + 2, deepest + 1])
        between = rng.choice([[], [], [], [''], ['注：说明'], [unit * steps + '// x'], ['/* 多\n行 */']])
        body = rng.choice(OVER_BODIES)
        new_ls = ls[:endl + 1] + between + [unit * steps + body] + ls[endl + 1:]
        res = '\n'.join(new_ls)
        cursor = len('\n'.join(ls[:endl + 1] + between)) + 1 + len(unit * steps)
        out.append((res, cursor, _line_of(res, cursor)))
    return out


def _width(t):
    return sum(2 if ord(c) > 0x2E80 else 1 for c in t)


# valid programs with 输入 lines at several depths (the corpus has them too; these make sure every run meets each shape)
INPUT_BASES = ['如何算？\n    输入N\n    输出 N', '如何算？\n    输入甲、乙\n    令和设为甲+乙\n    输出 和\n（显示：1）',
               '定义盒：\n    其甲设为1\n    如何取？\n        输入N、M\n        输出 N\n（显示：2）', '输入甲\n（显示：甲）',
               '如何外？\n    输入N\n    如何内？\n        输入M\n        输出 M\n    输出 N', '（显示：0）\n如何算？\n    输入N\n    输出 N\n    拦截异常：\n        输出 0']


def after_input_line(rng, src, spans, k):
    """k variants of the VALID canonical program `src` (as for `overindented`) in which the exec block of a method (or of the file) ends
    while it is still in its 输入 section — `ParseExecBlock` leaves its loop in the input state and answers syntax error 20 at the PEEK
    token (repair 07aabbd; before it: at the last token of the 输入 line):
      over    a line indented deeper than the 输入 line is inserted right after it (directly or after a blank / comment line),
      dedent  … a line indented less than the 输入 line (the 输入 line is indented),
      last    the text ends with the 输入 line (nothing, blanks, line ends or a comment after it): the error is at the end of the text.
    Returns [(text, cursor, 0-based physical line, caret column, kind)]."""
    if not spans:
        return []
    line_start = [0] + [i + 1 for i, c in enumerate(src) if c == '\n']

    def lno(pos):
        lo, hi = 0, len(line_start) - 1
        while lo < hi:
            mid = (lo + hi + 1) // 2
            if line_start[mid] <= pos:
                lo = mid
            else:
                hi = mid - 1
        return lo
    indent = {}
    last_on = {}
    for a, b, ty in spans:
        ln = lno(a)
        lead = src[line_start[ln]:a]
        if ln not in indent and lead.strip(' ') == '' and len(lead) % 4 == 0:
            indent[ln] = len(lead) // 4
        last_on[ln] = (a, b, ty)
    cands = []
    for a, b, ty in spans:
        ln = lno(a)
        if ty != T_INPUTW or ln not in indent or src[line_start[ln]:a].strip(' ') != '':
            continue
        la, lb, lty = last_on[ln]
        if lty in NO_BREAK_AFTER or lty == T_INPUTW or lno(max(la, lb - 1)) != ln:
            continue
        cands.append((ln, indent[ln]))
    out = []
    for _ in range(k):
        if not cands:
            break
        endl, cur = rng.choice(cands)
        kind = rng.choice(['over', 'dedent', 'last'] if cur > 0 else ['over', 'last'])
        tab = rng.random() < 0.5
        unit = '\t' if tab else '    '
        text = src
        if tab:
            ls = src.split('\n')
            for ln, v in indent.items():
                ls[ln] = '\t' * v + ls[ln][4 * v:]
            text = '\n'.join(ls)
        ls = text.split('\n')
        if kind == 'last':
            tail = rng.choice(['', '', '\n', '\n\n', '\n注：说明', '\n' + unit * cur + '// x', '\n/* 多\n行 */', '\r\n', '\n' + unit * cur])
            res = '\n'.join(ls[:endl + 1]) + tail
            cursor = len(res)
            k0 = max(res.rfind('\n'), res.rfind('\r')) + 1
            out.append((res, cursor, _line_of(res, cursor), _width(res[k0:].lstrip(' \t')), kind))
            continue
        steps = cur + rng.choice([1, 1, 2]) if kind == 'over' else rng.randrange(cur)
        between = rng.choice([[], [], [], [''], ['注：说明'], [unit * steps + '// x'], ['/* 多\n行 */']])
        body = rng.choice(OVER_BODIES)
        new_ls = ls[:endl + 1] + between + [unit * steps + body] + ls[endl + 1:]
        res = '\n'.join(new_ls)
        cursor = len('\n'.join(ls[:endl + 1] + between)) + 1 + len(unit * steps)
        out.append((res, cursor, _line_of(res, cursor), 0, kind))
    return out


def truncations(src):
    return [src[:i] for i in range(len(src) + 1)]


# ---- texts the grammar does not derive: the parser must reject each (with a syntax error, promptly) ----------------------

UNGRAMMATICAL = [
    # a comparison does not chain
    '令甲设为1 < 2 < 3', '输出 甲 == 乙 == 丙', '如果 1 小于 2 小于 3：\n    输出1', '输出 甲 为 乙 为 丙', '甲 大于 乙 == 丙',
    '（显示：1 >= 2 /= 3）', '令甲设为{1 < 2} < 3 < 4',
    # each tryConsume swallows only ONE comma: two commas where a single token is awaited are an error
    # (after an operand several tails are probed in turn, each may swallow one — `【1，，2】` is accepted and is not listed here)
    '（显示：甲，，乙）', '（显示，，：甲）', '如何f，，？\n    输出1', '抛出异常，，：1！', '定义盒，，：\n    其甲为1', '每当真，，：\n    输出1'[:0] + '以甲，，（f）'[:0] + '如何f？，，',
    # missing parts
    '如果：\n    输出1', '如果', '每当：\n    输出1', '每当', '令甲', '令甲设为', '令', '（显示：）', '抛出异常：！', '抛出异常', '以甲', '以甲、乙',
    '遍历：\n    输出1', '如何？\n    输出1', '定义：\n    其甲为1', '输出', '甲 +', '甲 设为', '甲 #', '甲 之', '其', '（新建）', '（）', '【=',
    '如果真：', '如果真：\n输出1', '每当真：\n输出1', '如何f？\n输出1', '导入', '导入 甲',
    # a statement after a 拦截 block
    '如何f？\n    输出1\n    拦截异常：\n        输出2\n    输出3', '输出1\n拦截异常：\n    输出2\n输出3',
    '如何f？\n    输出1\n    拦截异常：\n        输出2\n    ，输出3', '输出1\n拦截异常：\n    输出2\n令甲设为1\n拦截异常：\n    输出2',
    # a first token that cannot start a statement
    '）', '为', '】', '设为1', '}', '：', '？', '！', '、', '等于1', '否则：\n    输出1', '再如真：\n    输出1', '拦截异常：\n    输出1'[:0] + '得到甲',
    # unbalanced
    '（显示：甲', '【1，2', '{1 + 2', '令甲设为{1', '（显示：【1，2）】', '令甲设为【1，2}', '（显示：甲））',
    # not assignable / misplaced operators
    '1 + 2 设为 3', '（显示）设为1', '甲 + + 乙', '甲 * / 乙', '令1 + 2设为3', '甲 且 或 乙',
    # a loop variable that is not a name (one of two, or both), a parameter / 得到 target that is not a name
    '以“键”、值遍历典：\n    （显示：值）', '以键、值 + 1遍历典：\n    （显示：键）', '以“键”、“值”遍历典：\n    （显示：1）', '以甲#1遍历典：\n    （显示：1）',
    '以（f）、值遍历典：\n    （显示：值）', '以键、【1】遍历典：\n    （显示：键）', '如何f？\n    输入“甲”\n    输出1', '（f）得到“甲”',
    # two statements on a line without ；
    '令甲设为1 令乙设为2', '输出1 输出2', '（显示：1）（显示：2）',
]


def ungrammatical(rng, n):
    out = []
    pre = ['', '', '令丁设为0\n', '（显示：0）\n', '注：说明\n', '\n\n']
    for i in range(n):
        t = UNGRAMMATICAL[i % len(UNGRAMMATICAL)]
        out.append(rng.choice(pre) + t + rng.choice(['', '', '\n', '\n（显示：9）']))
    return out


# ---- running -----------------------------------------------------------------------------------------------------

def outcome_class(ans):
    """Go `compile`/`ast` answer or model answer → tree | err syn C K | err other | timeout | panic | crash"""
    a = ans.split(' | ')[0]
    if a.startswith('ok '):
        return 'tree'
    return a


def go_compile(ctx, srcs):
    return ctx.run_go(['compile ' + cps(s) for s in srcs], timeout_ms=2000)


def model_parse(ctx, srcs, op='parse-tokens'):
    """the parser model driven by the real token stream (until Model/Lexer is wired in: see Ops/Parse.lean)"""
    tk = ctx.run_go(['tokens ' + cps(s) for s in srcs], timeout_ms=2000)
    lines = [(op + t[2:]) if t.startswith('ok') else 'noop' for t in tk]
    return ctx.run_lean(lines), tk


def strip_lines(sx):
    return progs.strip_lines(sx)


# ---- completeness walker over the dumped S-expression of the REAL tree ------------------------------------------------

def sx_parse(s):
    toks = re.findall(r'\(|\)|[^\s()]+', s)
    stack = [[]]
    for t in toks:
        if t == '(':
            stack.append([])
        elif t == ')':
            x = stack.pop()
            stack[-1].append(x)
        else:
            stack[-1].append(t)
    return stack[0][0]


def _is(x, tag):
    return isinstance(x, list) and x and x[0] == tag


def c_id(x):
    return _is(x, 'id') and len(x) == 3


def c_expr(x):
    if not isinstance(x, list) or not x:
        return False
    t = x[0]
    if t in ('id', 'str'):
        return len(x) == 3
    if t == 'arr':
        return all(c_expr(e) for e in x[2])
    if t == 'hm':
        return all(len(kv) == 2 and c_expr(kv[0]) and c_expr(kv[1]) for kv in x[2])
    if t == 'assign':
        return x[2][0] in ('id', 'member') and c_expr(x[2]) and c_expr(x[3]) if isinstance(x[2], list) else False
    if t == 'logic':
        ty = int(x[2])
        return (ty in (1, 2) or 4 <= ty <= 11) and c_expr(x[3]) and c_expr(x[4])
    if t == 'arith':
        return 12 <= int(x[2]) <= 17 and c_expr(x[3]) and c_expr(x[4])
    if t == 'member':
        _, _l, rt, root, mt, mid, idx = x
        if rt == '1' and mt == '1':
            return c_expr(root) and c_id(mid) and idx == 'nil'
        if rt == '2' and mt == '1':
            return root == 'nil' and c_id(mid) and idx == 'nil'
        if rt == '1' and mt == '2':
            return c_expr(root) and mid == 'nil' and c_expr(idx)
        return False
    if t == 'call':
        return c_id(x[2]) and all(c_expr(p) for p in x[3])
    if t == 'mcall':
        return c_expr(x[2]) and len(x[3]) > 0 and all(_is(f, 'call') and c_expr(f) for f in x[3])
    if t == 'new':
        return c_id(x[2]) and all(c_expr(p) for p in x[3])
    return False


def c_block(b):
    return _is(b, 'block') and all(c_stmt(s) for s in b[1:])


def c_exec(x):
    if not _is(x, 'exec'):
        return False
    _, ins, body, cs = x
    return all(c_id(i) for i in ins) and c_block(body) and all(_is(c, 'catch') and c_id(c[1]) and c_block(c[2]) for c in cs)


def c_func(x, want=None):
    if not _is(x, 'funcdecl'):
        return False
    dt = int(x[3])
    return c_id(x[2]) and (dt == want if want else 1 <= dt <= 3) and c_exec(x[4])


def c_stmt(x):
    if not isinstance(x, list) or not x:
        return False
    t = x[0]
    if t == 'vardecl':
        return all(_is(p, 'pair') and p[1] in ('1', '3') and len(p[2]) > 0 and all(c_id(i) for i in p[2]) and c_expr(p[3]) for p in x[2:])
    if t == 'while':
        return c_expr(x[2]) and c_block(x[3])
    if t == 'branch':
        _, _l, ie, ib, others, he, eb = x
        if 'mismatch' in others:
            return False
        return (c_expr(ie) and c_block(ib) and all(len(o) == 2 and c_expr(o[0]) and c_block(o[1]) for o in others)
                and ((he == '1' and c_block(eb)) or (he == '0' and eb == 'nil')))
    if t in ('empty', 'continue', 'break'):
        return True
    if t == 'funcdecl':
        return c_func(x)
    if t == 'classdecl':
        _, _l, name, props, ms, gs = x
        return (c_id(name) and all(_is(p, 'prop') and c_id(p[1]) and c_expr(p[2]) for p in props)
                and all(c_func(m, 1) for m in ms) and all(c_func(g, 2) for g in gs))
    if t == 'iterate':
        return c_expr(x[2]) and len(x[3]) <= 2 and all(c_id(i) for i in x[3]) and c_block(x[4])
    if t == 'ret':
        return c_expr(x[2])
    if t == 'throw':
        return c_id(x[2]) and len(x[3]) > 0 and all(c_expr(p) for p in x[3])
    return c_expr(x)


def complete(sx_text):
    """every construct of the dumped tree has all parts the grammar requires"""
    try:
        x = sx_parse(sx_text)
    except Exception:
        return False
    if not _is(x, 'prog') or len(x) != 3:
        return False
    for im in x[1]:
        if not (_is(im, 'import') and im[2] in ('1', '2') and im[3] != 'nil' and all(c_id(i) for i in im[4])):
            return False
    return x[2] == 'nil' or c_exec(x[2])
