"""C06 — the rebinding matrix: two bindings of ONE name, every way of binding × every way of binding × where the second
one stands relative to the first (same block / inner block / after the inner block has ended), inside every kind of block
(program body, method body, handler, branch, loop body run for several passes, object method), each followed by probes that
read the name (and try to assign it).

Ways of binding a name (`KINDS`):
  let const        令X设为v / 令X恒为v
  letblk constblk  the block form 令： (X on the first or a later line, lines of both operators mixed)
  multi            令X、Y设为v / 令Y、X恒为v / 令X、X设为v
  yield chain      （取：v）得到X  /  以v（加：0）得到X, 以盒子（给：v）得到X, two links          (statement level)
  yieldx chainx    the same clause INSIDE an expression: argument, operand, list / dictionary literal, right-hand side of a 令 or of
                   an assignment, condition of 如果 / 每当
  yieldw           the clause in the condition of a 每当 that runs for two passes (the condition belongs to the enclosing block)
  iter             loop variable(s) of 遍历 (list: one or two variables, dictionary: key and value; the same name twice)
  input            输入X of the method (or of the program) whose body holds the block
  func class       如何X？ / 定义X： among the statements of the program body
  predef           X is a predefined name (真 假 空 异常 显示 数值): every binding of it is an error
Second action (`SECOND`): any of the binders above that are statements, or `assign` (X = v), `cassign` (X = v executed by a method
the block calls: names live in blocks, so the callee reaches the caller's X; its handler reports a rejection and the caller goes
on — the one way to look at a name AFTER a rejected assignment), or `none`.
Placement: same / inner / after (first binder inside an inner block that has ended) / after2 (first; an inner block that shadows;
second in the outer block again).

The expected answer is never computed here: every program goes to the spec semantics on the intended tree (progs.run_stream).
What this module has to guarantee is only that the programs stay inside the fragment the spec speaks about.

Kept out (switch BODY_REBINDS_HOISTED_NAME, off): a statement of a body that binds a name which the SAME body holds as an
input, a method or a type. The pinned code keeps inputs / 此 / method and type definitions one scope level above the statements
of the body, so `如何取？…` followed by `令取设为1` (or `（取）得到取`) in the same statement list is accepted and shadows the
method; the spec (one body = one block) says error 43. See DESIGN §12.8 for the 输入 half; the method / type half is the same
mechanism and is reported by the worker that added this stream.
"""
from zngen import *

BODY_REBINDS_HOISTED_NAME = False

NAMES = ['甲', '乙', '丙']
PREDEF = ['真', '假', '空', '数值', '异常', '显示']
SHOWABLE_PREDEF = PREDEF[:4]
AUX = [p + s for p in '辅佐佑' for s in '子丑寅卯辰巳午申酉戌亥']
STMT_BINDERS = ['let', 'const', 'letblk', 'constblk', 'multi', 'yield', 'chain', 'yieldx', 'chainx', 'yieldw', 'iter']
FIRST = STMT_BINDERS + ['input', 'func', 'class', 'predef']
SECOND = STMT_BINDERS + ['assign', 'cassign', 'none']
PLACES = ['same', 'inner', 'after', 'after2']
CONTEXTS = ['main', 'method', 'methodraw', 'handler', 'branch', 'loop', 'objmethod']
CONST_KINDS = ('const', 'constblk', 'yield', 'chain', 'yieldx', 'chainx', 'yieldw', 'input', 'func', 'class')


def guarded(first, second, place, ctxk):
    """a statement of a body binds a name that the body holds one level up in the pinned code (input / method / type)"""
    if second not in STMT_BINDERS or second == 'iter' or place not in ('same', 'after2'):
        return False
    if first == 'input':
        return ctxk in ('main', 'method', 'methodraw', 'objmethod')
    if first in ('func', 'class'):
        return ctxk == 'main'
    return False


def cells():
    """the matrix: (first, second, place); contexts are drawn per program"""
    out = []
    for f in FIRST:
        for s in SECOND:
            if f == 'yieldw' and s != 'none':
                continue            # a 每当 condition that binds fails on its own second evaluation: nothing after it runs
            for p in PLACES:
                if s == 'none' and p != 'same':
                    continue
                if f in ('input', 'func', 'class', 'predef') and p == 'after':
                    continue        # these are not statements of a block: they cannot stand inside an inner block that ends
                if f == 'predef' and p == 'after2':
                    continue
                out.append((f, s, p))
    return out


class RB:
    def __init__(self, g):
        self.g = g                  # progs.G: fresh numbers
        self.rng = g.rng

    # ---- small pieces ----------------------------------------------------------------------------
    def val(self):
        return str(self.g.fresh())

    def aux(self):
        """a name no other statement of the program uses"""
        i = self.auxn
        self.auxn += 1
        base = AUX[(self.aux0 + i) % len(AUX)]
        return base if i < len(AUX) else base + AUX[(i // len(AUX)) % len(AUX)][1]

    def show(self, *names):
        return ExprS(Call('显示', [Var(n) for n in names]))

    def clause(self, X, chain):
        """the call expression that carries 得到X"""
        rng = self.rng
        v = self.val()
        if not chain:
            return Call('取', [Num(v)], yld=X)
        k = rng.randrange(4)
        if k == 0:
            return MCall(Num(v), [('加', [Num('0')])], yld=X)
        if k == 1:
            return MCall(Num(v), [('加', [Num('1')]), ('减', [Num('1')])], yld=X)
        if k == 2:
            return MCall(Var('盒子'), [('给', [Num(v)])], yld=X)
        return MCall(Arr([Num(v), Num('0')]), [('寻找', [Num(v)])], yld=X)

    def clause_in_expr(self, X, chain):
        """statements (no statement-level clause) whose expression binds X in the block that executes them"""
        rng = self.rng
        c = self.clause(X, chain)
        k = rng.randrange(12)
        if k == 11:
            # the collection of a 遍历 is evaluated in the block of that statement (where its loop variables live): X is bound
            # THERE, is seen by every pass of the body, and is gone after the loop
            return [Iter([self.aux()] if rng.random() < 0.7 else [], Arr([c, Num(self.val())]), [self.show(X)])]
        if k == 0:
            return [ExprS(Call('显示', [c]))]
        if k == 1:
            return [ExprS(Call('显示', [Num('0'), c]))] if not chain else [ExprS(Call('显示', [c, Num('0')]))]
        if k == 2:
            return [ExprS(Call('显示', [Arr([Num('1'), c])]))]
        if k == 3:
            return [ExprS(Call('显示', [Bin('+', c, Num('1'))]))]
        if k == 4:
            return [Decl([self.aux()], c, const=rng.random() < 0.5)]
        if k == 5:
            w = self.aux()
            return [Decl([w], Num('0')), ExprS(Assign(Var(w), c)), self.show(w)]
        if k == 6:
            return [If(Bin('gt', c, Num('-100')), [ExprS(Call('显示', [Str('是')]))])]
        if k == 7:
            return [If(Bin('lt', c, Num('-100')), [ExprS(Call('显示', [Str('非')]))], els=[ExprS(Call('显示', [Str('否')]))])]
        if k == 8:
            return [While(Bin('lt', c, Num('-100')), [ExprS(Call('显示', [Str('不达')]))])]
        if k == 9:
            return [ExprS(Call('显示', [Dict([(Var('k1'), c)])]))]
        return [ExprS(Call('显示', [Call('取', [c])]))] if not chain else [ExprS(Call('显示', [Call('取', [Brace(c)])]))]

    def binder(self, kind, X, inside=None):
        """statements that bind X by `kind`; `inside` = what follows INSIDE the construct when the kind owns a block (iter)"""
        rng = self.rng
        v = self.val()
        if kind == 'let':
            return [Decl([X], Num(v))]
        if kind == 'const':
            return [Decl([X], Num(v), const=True)]
        if kind in ('letblk', 'constblk'):
            pairs = [([X], Num(v), kind == 'constblk')]
            for _ in range(rng.choice([0, 1, 1, 2])):
                pairs.insert(rng.randint(0, len(pairs)), ([self.aux()], Num(self.val()), rng.random() < 0.5))
            return [DeclBlock(pairs)]
        if kind == 'multi':
            r = rng.random()
            names = [X, X] if r < 0.12 else ([X, self.aux()] if r < 0.5 else [self.aux(), X])
            return [Decl(names, Num(v), const=rng.random() < 0.5)]
        if kind == 'yield':
            return [ExprS(self.clause(X, False))]
        if kind == 'chain':
            return [ExprS(self.clause(X, True))]
        if kind == 'yieldx':
            return self.clause_in_expr(X, False)
        if kind == 'chainx':
            return self.clause_in_expr(X, True)
        if kind == 'yieldw':
            c = self.aux()
            call = Call('取', [Var(c)], yld=X) if rng.random() < 0.6 else MCall(Var(c), [('加', [Num('0')])], yld=X)
            return [Decl([c], Num('0')),
                    While(Bin('lt', call, Num('2')), [ExprS(Assign(Var(c), Bin('+', Var(c), Num('1')))), self.show(X)])]
        if kind == 'iter':
            body = list(inside) if inside else [self.show(X)]
            r = rng.random()
            if rng.random() < 0.08:
                # the collection binds the very name of the loop variable: both belong to the block of the 遍历 statement
                return [Iter([X], Arr([self.clause(X, rng.random() < 0.5), Num(v)]), body)]
            if r < 0.45:
                return [Iter([X], Arr([Num(v), Num(self.val())] + ([Num(self.val())] if rng.random() < 0.4 else [])), body)]
            k2 = X if r < 0.55 else self.aux()
            names = [k2, X] if rng.random() < 0.6 else [X, k2]
            if rng.random() < 0.5:
                return [Iter(names, Dict([(Var('k1'), Num(v)), (Var('k2'), Num(self.val()))]), body)]
            return [Iter(names, Arr([Num(v), Num(self.val())]), body)]
        raise ValueError(kind)

    def inner(self, stmts):
        """an inner block holding stmts: branch arms, loop bodies run for 1-3 passes"""
        rng = self.rng
        k = rng.randrange(7)
        if k == 0:
            return [If(Var('真'), stmts)]
        if k == 1:
            return [If(Var('假'), [ExprS(Call('显示', [Num('0')]))], els=stmts)]
        if k == 2:
            return [If(Var('假'), [ExprS(Call('显示', [Num('0')]))], elifs=[(Var('真'), stmts)])]
        if k in (3, 4):
            return [Iter([self.aux()] if k == 3 else [], Arr([Num(str(i)) for i in range(1, rng.randint(2, 4))]), stmts)]
        c = self.aux()
        return [Decl([c], Num('0')),
                While(Bin('lt', Var(c), Num(str(rng.randint(1, 3)))), [ExprS(Assign(Var(c), Bin('+', Var(c), Num('1'))))] + stmts)]

    def second(self, kind, X):
        if kind == 'none':
            return []
        if kind == 'assign':
            return [ExprS(Assign(Var(X), Num(self.val())))]
        if kind == 'cassign':
            self.need_cassign.add(X)
            return [ExprS(Call('显示', [Call('改' + X, [])]))]
        return self.binder(kind, X)

    def tail(self, X):
        """after the second action (if the block is still alive): probes that read, assign, read"""
        rng = self.rng
        out = [self.show(X)]
        r = rng.random()
        if r < 0.35:
            out += [ExprS(Assign(Var(X), Num(self.val()))), self.show(X)]
        elif r < 0.6:
            self.need_cassign.add(X)
            out += [ExprS(Call('显示', [Call('改' + X, [])])), self.show(X)]
        elif r < 0.7:
            w = self.aux()
            out += [Decl([w], Bin('+', Var(X), Num('1')), const=True), self.show(w, X)]
        return out

    # ---- one cell → statements of the block B ------------------------------------------------------
    def block_of(self, first, second, place, X):
        rng = self.rng
        stmt_first = first in STMT_BINDERS
        probe = [self.show(X)]
        sec = self.second(second, X)
        if first == 'iter':
            # X lives in the block of the 遍历 statement; its body is the place where everything else happens
            if place in ('same', 'after'):
                rest = probe + sec + self.tail(X)
            elif place == 'inner':
                rest = probe + self.inner(sec + self.tail(X)) + probe
            else:
                rest = probe + self.inner(self.binder(rng.choice(['let', 'const', 'yield']), X) + probe) + probe + sec + self.tail(X)
            return self.binder('iter', X, inside=rest) + ([self.show(X)] if rng.random() < 0.3 else [])
        fst = self.binder(first, X) if stmt_first else []
        if first == 'yieldw':
            return fst + probe
        pre = probe if first != 'predef' or (X in SHOWABLE_PREDEF and rng.random() < 0.5) else []
        if place == 'same':
            return fst + pre + sec + self.tail(X)
        if place == 'inner':
            return fst + pre + self.inner(sec + self.tail(X)) + probe + (self.tail(X) if rng.random() < 0.4 else [])
        if place == 'after':
            gone = probe if rng.random() < 0.1 else []         # the inner block has ended: X is not defined (42)
            return self.inner(fst + probe) + gone + sec + self.tail(X)
        # after2
        shadow = self.binder(rng.choice(['let', 'const', 'yield', 'chain', 'yieldx']), X)
        return fst + pre + self.inner(shadow + probe + ([ExprS(Assign(Var(X), Num(self.val()))), self.show(X)] if rng.random() < 0.3 else [])) \
            + probe + sec + self.tail(X)

    # ---- a program: 1-3 cells, each in a context --------------------------------------------------
    def program(self, cell_list):
        rng = self.rng
        self.aux0, self.auxn = rng.randrange(len(AUX)), 0
        self.need_cassign = set()
        defs = [Func('取', ['数'], [Ret(Var('数'))]),
                Class('盒', [('值', Num('7'))], [Func('给', ['数'], [Ret(Bin('+', Bin('-', This('值'), Num('7')), Var('数')))])])]
        main = [Decl(['盒子'], New('盒', []))]
        prog_inputs, ins = [], {}
        used_main = set()
        tags = []
        last = None
        tnames = ['试一', '试二', '试三']
        for ci, (first, second, place) in enumerate(cell_list):
            final = ci == len(cell_list) - 1
            if first == 'predef':
                # 异常 / 显示 only where the rejected binding is the first thing that happens to the name (no probe shows a function)
                X = rng.choice(PREDEF if second in STMT_BINDERS else SHOWABLE_PREDEF)
            else:
                X = rng.choice(NAMES)
            ctxs = list(CONTEXTS)
            if not final:
                ctxs = [c for c in ctxs if c not in ('main', 'methodraw')]     # unprotected blocks come last
            if first in ('func', 'class'):
                # the definition stands among the statements of the program body; the block is the body itself or below it
                if X in used_main:
                    X = next((n for n in NAMES if n not in used_main), None)
                    if X is None:
                        continue
            if first == 'input' and 'main' in ctxs and (prog_inputs or X in used_main):
                ctxs.remove('main')
            if not BODY_REBINDS_HOISTED_NAME:
                ctxs = [c for c in ctxs if not guarded(first, second, place, c)]
            if first in ('func', 'class', 'input') and X in used_main and 'main' in ctxs:
                ctxs.remove('main')
            if not ctxs:
                continue
            ctxk = rng.choice(ctxs)
            if ctxk == 'main' and X in used_main:
                free = [n for n in NAMES if n not in used_main]
                if first == 'predef':
                    pass
                elif free:
                    X = rng.choice(free)
                else:
                    ctxk = 'method'
            B = self.block_of(first, second, place, X)
            T = tnames[ci % 3]
            inputs, args = [], []
            if first == 'input' and ctxk != 'main':
                other = self.aux()
                r = rng.random()
                inputs = [X] if r < 0.5 else ([X, other] if r < 0.7 else ([other, X] if r < 0.9 else [X, X]))
                args = [Num(self.val()) for _ in inputs]
            if first == 'func':
                defs.append(Func(X, [], [Ret(Num(self.val()))]))
                used_main.add(X)
            if first == 'class':
                defs.append(Class(X, [('值', Num(self.val()))], []))
                used_main.add(X)
            reject = [('异常', [Ret(Str('拒'))])]
            done = [Ret(Str('完'))]
            calls = rng.randint(1, 2)
            # names of the caller that the block below it shadows / reaches (names live in blocks, not in lexical scopes)
            if ctxk not in ('main',) and first not in ('predef', 'func', 'class') and X not in used_main and rng.random() < 0.3:
                main.append(Decl([X], Num(self.val()), const=rng.random() < 0.5))
                used_main.add(X)
            if ctxk == 'main':
                if first == 'input':
                    prog_inputs.append(X)
                    ins[X] = float(rng.randint(1, 9))
                main += B
                used_main.add(X)
            elif ctxk in ('method', 'methodraw'):
                defs.append(Func(T, inputs, B + done, catches=reject if ctxk == 'method' else []))
                main += [ExprS(Call('显示', [Call(T, list(args))])) for _ in range(calls)]
            elif ctxk == 'handler':
                defs.append(Func(T, inputs, [Throw('异常', [Str('x')])], catches=[('异常', B + done)]))
                defs.append(Func(T + '外', ['数'], [Ret(Call(T, list(args)))], catches=reject))
                main += [ExprS(Call('显示', [Call(T + '外', [Num(str(i))])])) for i in range(calls)]
            elif ctxk == 'branch':
                blk = [If(Var('真'), B)] if rng.random() < 0.6 else [If(Var('假'), [ExprS(Call('显示', [Num('0')]))], els=B)]
                defs.append(Func(T, inputs, blk + done, catches=reject))
                main += [ExprS(Call('显示', [Call(T, list(args))])) for _ in range(calls)]
            elif ctxk == 'loop':
                if rng.random() < 0.6:
                    blk = [Iter([self.aux()], Arr([Num('1'), Num('2'), Num('3')][:rng.randint(2, 3)]), B)]
                else:
                    c = self.aux()
                    blk = [Decl([c], Num('0')),
                           While(Bin('lt', Var(c), Num(str(rng.randint(2, 3)))), [ExprS(Assign(Var(c), Bin('+', Var(c), Num('1'))))] + B)]
                defs.append(Func(T, inputs, blk + done, catches=reject))
                main += [ExprS(Call('显示', [Call(T, list(args))])) for _ in range(calls)]
            elif ctxk == 'objmethod':
                cn, on = '类' + T, '物' + T
                defs.append(Class(cn, [('值', Num('1'))], [Func(T, inputs, B + done, catches=reject)]))
                main.append(Decl([on], New(cn, [])))
                main += [ExprS(Call('显示', [MCall(Var(on), [(T, list(args))])])) for _ in range(calls)]
            tags.append((first, second, place, ctxk))
            last = ctxk
        for X in sorted(self.need_cassign):
            defs.append(Func('改' + X, [], [ExprS(Assign(Var(X), Num(self.val()))), Ret(Str('成'))], catches=[('异常', [Ret(Str('拒'))])]))
        # at the end: what the program body still sees
        if last not in ('main', 'methodraw'):
            vis = [n for n in NAMES if n in used_main]
            if vis:
                main.append(ExprS(Call('显示', [Var(n) for n in vis])))
            elif rng.random() < 0.3:
                main.append(self.show(rng.choice(NAMES)))      # nothing of the blocks below is left: 42
        return (Program(prog_inputs, defs + main), ins), tags


def programs(g, n):
    """n programs covering the matrix cell by cell (shuffled, cycled), 1-3 cells per program"""
    rng = g.rng
    rb = RB(g)
    # the one cell whose first binder is a 每当 condition evaluated twice stands for a whole family (no second action can follow it)
    allc = [c for c in cells()] + [('yieldw', 'none', 'same')] * 7
    out, tags = [], []
    pool = []
    while len(out) < n:
        k = rng.choice([1, 1, 2, 2, 3])
        if len(pool) < k:
            more = list(allc)
            rng.shuffle(more)
            pool += more
        p, t = rb.program([pool.pop() for _ in range(k)])
        if not t:
            continue
        out.append(p)
        tags.append(t)
    return out, tags
