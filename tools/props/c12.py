"""C12 — lists are 1-indexed sequences, dictionaries insertion-ordered maps (container core).

Streams (every case is one protocol line = one whole history on ONE real value.Array / value.HashMap, see
lean/ZnVerif/Ops/C12.lean for the line format; after every operation the line carries the operation's result and the
displayed form, 长度 and — dictionaries — 所有索引 / 所有值):

  list-hist        random histories on one list (every getter, setter, method, indexed read/write; indices in range,
                   out of range, negative, fractional; wrong arity / argument type now and then)
  dict-hist        random histories on one dictionary (construction with duplicate keys, 读取 chains, 写入, 移除, keyed
                   read/write with text and number keys, missing keys)
  list-exhaustive  ALL histories of length ≤ 3 (thorough ≤ 4) over a 17-operation alphabet, from [] and [1，2]
  dict-exhaustive  ALL histories of length ≤ 4 (thorough ≤ 5) over {写入, #k=, 移除, #k} × 3 keys, from 【】 and a literal
                   with a duplicate key
  delete-loop-raw  移除 on a key-order slice PLANTED with duplicates (reflect/unsafe in the harness; not reachable through
                   the interpreter): validates the backing-array model of the in-place edit, Go vs model only

Three-way: Go vs model (correspondence), Go vs spec oracle (the property).  The later program-level streams (遍历 trace,
copies, 生成JSON key order) hook in at run_program_stream.
"""
import itertools

RULE = ("one case = one operation history on a single real list or dictionary, observed after every operation "
        "(result, displayed form, 长度, 所有索引, 所有值). Random histories: quick 5 000 of length ≤ 30, thorough 200 000 of "
        "length ≤ 300; exhaustive: every dictionary history of length ≤ 4/5 over 12 operations on 3 keys from two start "
        "states, every list history of length ≤ 3/4 over 17 operations from two start states, every 移除 on every planted "
        "key-order slice of length ≤ 5 over 3 keys. non-trivial = the collection's observation changed at least twice "
        "during the history, or an index/key error was answered")
ASSUMPTIONS = [
    "element values are small numbers (multiples of 1/4) and short texts; CompareValues on them is == (numbers) / string equality",
    "Number.String() (`%v`) of a small multiple of 1/4 is its plain decimal form (checked by the displayed forms of every run)",
    "int(float64) truncates toward zero, math.Floor is the floor (Go runtime); indices stay far inside the int range",
    "argument copying by DuplicateValue (新增 前增 后增 写入) is invisible on numbers/texts; aliasing belongs to C07",
]
PARTIAL = ("container core only: iteration order (遍历), copies and generated-JSON key order are program-level observations "
           "checked by the streams to be attached at run_program_stream (JSON order is C19/C11's)")
TRUSTED_EXTRA = ["reflect/unsafe planting of HashMap.keyOrder in the harness (delete-loop-raw stream only)"]

TEXTS = ['61', '62', '6162', '', 'e4bda0', '33']          # a b ab "" 你 "3"
KEYS = ['61', '62', '63', '', 'e4bda0', '33', '322e35']   # a b c "" 你 "3" "2.5"


# ---------------------------------------------------------------------------------------------------
# generators

def gen_elem(rng):
    x = rng.random()
    if x < 0.55:
        return 'n%d' % rng.randint(-3, 9)
    if x < 0.65:
        return 'q%d' % rng.choice([1, 2, 3, 5, 6, 10, -1, -2, -7, 13])
    if x < 0.73:
        return 'z'          # 空 stored as an element / value
    return 't' + rng.choice(TEXTS)


def gen_index(rng, n, ctx=None):
    """a number token for an index: mostly near 1..n, sometimes far, negative, fractional"""
    x = rng.random()
    if x < 0.5:
        i = rng.randint(1, n) if n else rng.randint(0, 1)
        return 'n%d' % i
    if x < 0.7:
        return 'n%d' % rng.choice([0, n + 1, n + 2, -1, -n, -n - 1, n, 1])
    if x < 0.9:
        return 'q%d' % rng.randint(-4 * n - 9, 4 * n + 9)
    return 'n%d' % rng.choice([1000, -1000, 37, -37])


def trunc4(q):
    return abs(q) // 4 * (1 if q >= 0 else -1)


def num_q(tok):
    return int(tok[1:]) * 4 if tok[0] == 'n' else int(tok[1:])


def gen_list_history(rng, maxlen, ctx):
    kind = rng.random()
    n = rng.choice([0, 0, 1, 2, 3, 4, 6])
    if kind < 0.15:
        init = ['t' + rng.choice(TEXTS) for _ in range(n)]
    else:
        init = [gen_elem(rng) for _ in range(n)]
    L = pick_length(rng, maxlen)
    ops = []
    for _ in range(L):
        x = rng.random()
        grow = 0.30 if n < 10 else 0.10
        if x < grow:
            k = rng.random()
            if k < 0.3:
                ops.append('m:app:' + gen_elem(rng)); n += 1
            elif k < 0.55:
                ops.append('m:pre:' + gen_elem(rng)); n += 1
            elif k < 0.9:
                idx = gen_index(rng, n)
                ops.append('m:%s:%s:%s' % (rng.choice(['ins', 'ins', 'add']), gen_elem(rng), idx))
                i = trunc4(num_q(idx))
                if i < 0 and n + i < 0:
                    ctx.count('list_insert_before_first_item(err40)')
                else:
                    n += 1
            else:
                args = ['a' + ','.join(gen_elem(rng) for _ in range(rng.randint(0, 3))) for _ in range(rng.randint(0, 3))]
                ops.append(':'.join(['m:mrg'] + args))
                n += sum(len(a[1:].split(',')) if a != 'a' else 0 for a in args)
        elif x < grow + (0.15 if n < 10 else 0.35):
            ops.append(rng.choice(['m:shl', 'm:shr']))
            n = max(0, n - 1)
        elif x < 0.62:
            k = rng.random()
            if k < 0.45:
                ops.append('r:' + gen_index(rng, n))
            else:
                ops.append('w:%s:%s' % (gen_index(rng, n), gen_elem(rng)))
        elif x < 0.72:
            ops.append('m:swp:%s:%s' % (gen_index(rng, n), gen_index(rng, n)))
        elif x < 0.82:
            ops.append('m:%s:%s' % (rng.choice(['has', 'find', 'find']), gen_elem(rng)))
        elif x < 0.90:
            ops.append('g:' + rng.choice(['first', 'last', 'len', 'num', 'rev', 'rev', 'text']))
        elif x < 0.95:
            ops.append('s:%s:%s' % (rng.choice(['first', 'last']), gen_elem(rng)))
            n = max(n, 1)
        elif x < 0.975:
            ops.append('m:join:' + rng.choice(['t2d', 't', 'te4bda0', 'n1']))
        else:
            ops.append(rng.choice(['m:bad', 'g:bad', 's:bad:n1', 'm:ins:n1', 'm:ins:n1:t61', 'm:app', 'm:pre:n1:n2', 'm:swp:n1',
                                   'm:swp:t61:n1', 'm:mrg:n1', 'm:mrg:an1:t61', 'm:has', 'm:find:n1:n2', 'm:join', 'm:shl:n1:n2']))
    return 'coll L %s%s' % (','.join(init) if init else '-', ''.join(' ' + o for o in ops))


def gen_key(rng, pool):
    return rng.choice(pool)


def gen_dict_history(rng, maxlen, ctx):
    pool = rng.sample(KEYS, rng.randint(2, len(KEYS)))
    n0 = rng.choice([0, 0, 1, 2, 3, 5, 8])
    init = ['k%s=%s' % (gen_key(rng, pool), gen_elem(rng)) for _ in range(n0)]
    if len(set(p.split('=')[0] for p in init)) < len(init):
        ctx.count('dict_literal_with_duplicate_keys')
    L = pick_length(rng, maxlen)
    ops = []
    for _ in range(L):
        x = rng.random()
        k = gen_key(rng, pool)
        if x < 0.22:
            ops.append('m:set:t%s:%s' % (k, gen_elem(rng)))
        elif x < 0.40:
            ops.append('m:del:t' + k)
        elif x < 0.55:
            ops.append('w:t%s:%s' % (k, gen_elem(rng)))
        elif x < 0.60:
            ops.append('w:%s:%s' % (rng.choice(['n3', 'q10']), gen_elem(rng)))      # number keys "3", "2.5"
        elif x < 0.72:
            ops.append('r:t' + k)
        elif x < 0.76:
            ops.append('r:' + rng.choice(['n3', 'q10', 'n4']))
        elif x < 0.86:
            ops.append(':'.join(['m:get'] + ['t' + gen_key(rng, pool) for _ in range(rng.choice([0, 1, 1, 1, 2, 3]))]))
        elif x < 0.94:
            ops.append('g:' + rng.choice(['len', 'num', 'keys', 'vals']))
        else:
            ops.append(rng.choice(['m:bad', 'g:bad', 's:len:n1', 'm:get:n1', 'm:get:t61:n2', 'm:set:n1:n2', 'm:set:t61', 'm:set',
                                   'm:del', 'm:del:n1', 'm:del:t61:t62', 'g:first']))
    return 'coll D %s%s' % (','.join(init) if init else '-', ''.join(' ' + o for o in ops))


def pick_length(rng, maxlen):
    x = rng.random()
    if maxlen <= 30:
        return rng.randint(1, maxlen)
    if x < 0.90:
        return rng.randint(1, 40)
    if x < 0.99:
        return rng.randint(40, 120)
    return rng.randint(120, maxlen)


LIST_ALPHA = ['m:app:n7', 'm:pre:n8', 'm:ins:n9:n1', 'm:ins:n6:n-1', 'm:ins:n5:n-3', 'm:shl', 'm:shr', 'g:rev', 'm:swp:n1:n2',
              'm:swp:n2:n3', 'r:n1', 'r:n3', 'w:n2:n4', 'w:n0:n4', 's:first:n3', 's:last:n2', 'm:find:n7']
DICT_KEYS3 = ['61', '62', '63']


def dict_alpha(step):
    """12 operations; written values are the step number so that every write is distinguishable"""
    ops = []
    for k in DICT_KEYS3:
        ops += ['m:set:t%s:n%d' % (k, step), 'w:t%s:n%d' % (k, step + 10), 'm:del:t' + k, 'r:t' + k]
    return ops


# ---------------------------------------------------------------------------------------------------
# comparison

def steps(line):
    return line.split(' ')


def first_diff(a, b):
    sa, sb = steps(a), steps(b)
    for i in range(max(len(sa), len(sb))):
        if i >= len(sa) or i >= len(sb) or sa[i] != sb[i]:
            return i
    return -1


def truncate(case, nsteps):
    """keep the first nsteps operations of a history line"""
    f = case.split(' ')
    return ' '.join(f[:3 + nsteps])


def is_nontrivial(go):
    st = steps(go)
    if len(st) < 3:
        return False
    obs = [st[1]] + [s.split('|', 1)[1] for s in st[2:] if '|' in s]
    changes = sum(1 for a, b in zip(obs, obs[1:]) if a != b)
    return changes >= 2 or 'err:40' in go or 'err:41' in go


def shrink(ctx, case, side):
    """delta-debug the operation list of a history line: side = 'spec' (Go vs spec) or 'model' (Go vs model)"""
    f = case.split(' ')
    head, ops = f[:3], f[3:]

    def failing(cand):
        line = ' '.join(head + cand)
        g = ctx.run_go([line], parallel=False)[0]
        o = ctx.run_lean([('spec:' if side == 'spec' else '') + line], parallel=False)[0]
        return g != o
    if not ops or not failing(ops):
        return case
    from framework import ddmin
    ops = ddmin(ops, failing)
    return ' '.join(head + ops)


def compare(ctx, stream, cases, with_spec=True, batch=20000):
    nviol = ndis = 0
    for lo in range(0, len(cases), batch):
        part = cases[lo:lo + batch]
        go = ctx.run_go(part)
        model = ctx.run_lean(part)
        spec = ctx.run_lean(['spec:' + c for c in part]) if with_spec else None
        for i, c in enumerate(part):
            ctx.evaluations += 1
            g = go[i]
            nsteps = len(g.split(' ')) - 2
            ctx.count('steps_' + stream, max(0, nsteps))
            for code in ('err:40', 'err:41', 'err:45', 'err:46', 'err:53', 'err:82'):
                if code in g:
                    ctx.count('histories_answering_' + code.replace(':', ''))
            if g.endswith('panic') or not g.startswith('ok'):
                ctx.count('go_panic_or_crash_' + stream)
            if g != model[i]:
                ndis += 1
                if ndis <= 3:
                    d = first_diff(g, model[i])
                    small = shrink(ctx, truncate(c, max(1, d - 1)), 'model') if c.startswith('coll L') or c.startswith('coll D') else c
                    ctx.disagreement(stream, small, ctx.run_go([small], parallel=False)[0], ctx.run_lean([small], parallel=False)[0])
                else:
                    ctx.disagreement(stream, c, g[:400], model[i][:400])
            if spec is not None and g != spec[i]:
                nviol += 1
                if nviol <= 3:
                    d = first_diff(g, spec[i])
                    small = shrink(ctx, truncate(c, max(1, d - 1)), 'spec')
                    ctx.violation(stream, small, ctx.run_go([small], parallel=False)[0],
                                  ctx.run_lean(['spec:' + small], parallel=False)[0])
                else:
                    ctx.violation(stream, c, g[:400], spec[i][:400])
            if is_nontrivial(g):
                ctx.nontriv(c)
        if lo == 0 and part:
            for j in (0, len(part) // 2):
                ctx.sample({'stream': stream, 'op': part[j][:300], 'go': go[j][:300], 'model': model[j][:300],
                            'spec': (spec[j][:300] if spec else None)})
    ctx.streams.append({'stream': stream, 'cases': len(cases)})


# ---------------------------------------------------------------------------------------------------

def run_program_stream(ctx):
    """HOOK (to be filled by the program-level work): histories run as Zn programs through the interpreter —
    遍历 trace order, copies between steps, and 生成JSON key order compared with the displayed order; loops whose body removes items from / adds items to the list being
    traversed (every pass or one chosen pass; one body never does both), and loops that write new keys into the dictionary
    being traversed."""
    from props import progs
    g = progs.G(ctx.rng)
    n = ctx.n(1200, 30000)
    ps = [g.coll_program(ctx.rng.randint(3, 14)) for _ in range(n)]
    progs.run_stream(ctx, 'coll-prog', ps, nontrivial=lambda src, go: src.count('\n') > 8)
    # keys of dictionary literals: names / numerals / texts taken literally, repeated keys, keys that are other expressions (error 80
    # when reached), malformed numerals — props/edges.py
    from props import edges
    st = {}
    ks = edges.dictkey_programs(ctx.rng, ctx.n(150, 6000), st)
    progs.run_stream(ctx, 'dictkey-prog', ks, nontrivial=lambda src, go: True)
    for k, v in sorted(st.items()):
        ctx.count('dictkey-prog:gen:' + k, v)


def run(ctx):
    rng = ctx.rng
    quick = ctx.quick()
    maxlen = 30 if quick else 300
    nhist = 5000 if quick else 200000
    if getattr(ctx, 'escalated', False) and quick:
        nhist *= 4

    # ---- exhaustive small domains first (cheap, deterministic) ----------------------------------------
    # delete loop on planted key orders (with duplicates)
    raw = []
    for n in range(0, 6):
        for ks in itertools.product(DICT_KEYS3, repeat=n):
            for k in DICT_KEYS3 + ['7a']:
                for extra in ((0,) if quick and n == 5 else (0, 2)):
                    raw.append('coll R %d %s k%s' % (extra, ','.join('k' + x for x in ks) if ks else '-', k))
    ctx.count('delete_loop_planted_states', len(raw))
    go = ctx.run_go(raw)
    model = ctx.run_lean(raw)
    for c, g, m in zip(raw, go, model):
        ctx.evaluations += 1
        if g != m:
            ctx.disagreement('delete-loop-raw', c, g, m)
        if g == 'panic':
            ctx.count('delete_loop_planted_panics')
        keys = c.split(' ')[3]
        if keys != '-' and len(set(keys.split(','))) < len(keys.split(',')):
            ctx.nontriv(c)
    ctx.sample({'stream': 'delete-loop-raw', 'op': 'coll R 0 k61,k62,k61 k61', 'go': ctx.run_go(['coll R 0 k61,k62,k61 k61'])[0],
                'note': 'with a duplicate in keyOrder the in-place edit slices past the shrunken header: Go panics, model says panic'})
    ctx.streams.append({'stream': 'delete-loop-raw', 'cases': len(raw), 'exhaustive': True})

    # dictionary: all histories of length Ld over 12 ops × 3 keys (shorter ones are their prefixes: observed after every op)
    Ld = 4 if quick else 5
    dcases = []
    for init in ('-', 'k61=n1,k62=n2,k61=n3'):
        for combo in itertools.product(range(12), repeat=Ld):
            ops = [dict_alpha(step + 1)[j] for step, j in enumerate(combo)]
            dcases.append('coll D %s %s' % (init, ' '.join(ops)))
    ctx.count('dict_exhaustive_histories_len_%d' % Ld, len(dcases))
    compare(ctx, 'dict-exhaustive', dcases)

    Ll = 3 if quick else 4
    lcases = []
    for init in ('-', 'n1,n2'):
        for combo in itertools.product(LIST_ALPHA, repeat=Ll):
            lcases.append('coll L %s %s' % (init, ' '.join(combo)))
    ctx.count('list_exhaustive_histories_len_%d' % Ll, len(lcases))
    compare(ctx, 'list-exhaustive', lcases)
    ctx.exhaustive = True

    # ---- random histories ----------------------------------------------------------------------------
    # hand-written seeds first (the former crash region of 新增, the manual's own examples)
    seeds = [
        'coll L n1,n2,n3 m:ins:n9:n-10 m:ins:n9:n-4 m:ins:n9:n-3 m:add:n8:q-15',
        'coll L t61,t62,t63 m:ins:t64:n-1 g:text',                       # 【一，二，三】之（新增：四，-1）→ 一 二 四 三
        'coll L n6,n9 m:ins:n54:n1 m:pre:n3 m:app:n3 m:shl m:shr',
        'coll L n2,n4,n6 m:has:n6 m:find:n6 m:find:n5',
        'coll L - m:shl m:shr g:first g:last s:last:n1 s:first:n2 r:n1 r:n0 r:n2 w:n1:n5 w:n2:n5',
        'coll D k61=n1,k62=n2,k61=n3 m:del:t61 m:set:t61:n4 m:set:t62:n5 r:t61 r:t7a w:t7a:n6 g:keys g:vals g:len',
        'coll D - r:t61 m:get:t61 m:del:t61 w:t61:n1 m:del:t61 w:t61:n2 w:t62:n3 w:t61:n4',
    ]
    compare(ctx, 'seeds', seeds)
    nl = nhist // 2
    lists = [gen_list_history(rng, maxlen, ctx) for _ in range(nl)]
    compare(ctx, 'list-hist', lists)
    dicts = [gen_dict_history(rng, maxlen, ctx) for _ in range(nhist - nl)]
    compare(ctx, 'dict-hist', dicts)
    # big containers that grow and then shrink (deterministic shapes, props/bigcoll.py): the quick tier's random histories stop at 30 steps
    from props import bigcoll
    bigd, bigl = bigcoll.c12_histories(rng)
    compare(ctx, 'dict-hist-big', bigd)
    compare(ctx, 'list-hist-big', bigl)
    ctx.count('excluded_known_crash_region_cases', 0)   # 新增 before the first item is an index error since the fix: nothing excluded

    run_program_stream(ctx)


def replay(ctx, data):
    case = data['case']
    if case.startswith('run '):
        from props import progs
        return progs.replay(ctx, data)
    print('case :', case)
    print('go   :', ctx.run_go([case])[0])
    print('model:', ctx.run_lean([case])[0])
    if not case.startswith('coll R'):
        print('spec :', ctx.run_lean(['spec:' + case])[0])
