"""BIG containers that grow and then shrink (streams `c11:big-*` / `rep:big-*` of C11, `dict-hist-big` / `list-hist-big` of C12).

Every other stream works on dictionaries of ≤ 8 keys and lists of a handful of items: anything the implementation does only
to LARGE storage (re-packing / re-hashing / "give memory back" after many removals, capacity thresholds 64 / 128 / 256 / 512 of the
key list, amortised growth after a shrink, copies of a half-empty store) is never reached by them. Here:

  dictionary   30…300 keys written (a 每当 loop that builds the key text, two nested 遍历, 典#{键} = 值 in a loop, or one big literal),
               then most of them removed with 移除 — the first / the last m, three of every four, every second (twice), a random three
               quarters, all but a few, all, or as a queue (write one, remove the oldest) — by a loop over the keys to remove,
               then (any of) growth after the shrink (new keys, removed keys again, surviving keys overwritten), a second wave of
               removals, copies taken before / after, the dictionary nested in another one and shrunk there; observed by 显示,
               所有索引, 所有值, 数目, 遍历 (键、值), 生成JSON, and a comparison 为 whose answer depends on which differing member is met first
               (an object under one key → error 83, another value under another key → 假)
  list         30…300 items (后增 / 前增 in a loop), shrunk by 左移 / 右移 / both alternately in a loop, grown again, shrunk again;
               observed by 显示, 首项, 末项, 数目, 遍历

Judged three ways: the programs are modelled programs (progs.run_stream: Go = Lean evaluator model = Lean spec semantics on the
intended tree — Spec/Sem.lean keeps a dictionary as an insertion-ordered association list, Spec/OrderedMap); the generator keeps its
own ground truth (an insertion-ordered key list) and the returned 所有索引 / list must be exactly that; `repeat N` must give ONE
outcome and it must be the outcome of the plain run. All randomness comes from the rng handed in.
"""
from zngen import *
from props import progs

# a genuine defect of the unchanged tree found on one of these classes would be switched off HERE (and reported), never hidden
ENABLED = {'dict': True, 'list': True, 'nested': True, 'json': True, 'first-difference': True}

BUILDS = ['while-join', 'nested-iter', 'literal', 'index-assign']
REMOVALS = ['first', 'last', 'three-of-four', 'every-second-twice', 'random-three-quarters', 'all-but-few', 'all', 'queue']
SIZES = [30, 33, 40, 63, 64, 65, 80, 100, 127, 128, 129, 150, 200, 256, 257, 300]


def pick_size(rng):
    return rng.choice(SIZES) if rng.random() < 0.6 else rng.randint(30, 300)


def keylist(keys):
    return Arr([Str(k) for k in keys])


def cap_after_appends(n):
    """capacity of a Go string slice grown from empty by n single appends (1, 2, 4, …, 256, then 512 + …: powers of two up to 256)"""
    c = 0
    for i in range(n):
        if i + 1 > c:
            c = 1 if c == 0 else (2 * c if c < 256 else c + (c + 3 * 256) // 4)
    return c


class Truth:
    """the generator's ground truth: an insertion-ordered dictionary"""

    def __init__(self):
        self.keys, self.peak, self.quarter = [], 0, False

    def write(self, k):
        if k not in self.keys:
            self.keys.append(k)
        self.peak = max(self.peak, len(self.keys))

    def remove(self, k):
        if k in self.keys:
            self.keys.remove(k)
            if self.peak >= 33 and 2 <= len(self.keys) and len(self.keys) * 4 <= cap_after_appends(self.peak):
                self.quarter = True     # at most a quarter of a ≥ 64-slot store in use, ≥ 2 survivors whose order is observable


def removal(rng, keys, kind):
    """the keys to remove, in removal order"""
    n = len(keys)
    if kind == 'first':
        return keys[:rng.randint(3 * n // 4, n - 2)]
    if kind == 'last':
        out = keys[n - rng.randint(3 * n // 4, n - 2):]
        return out[::-1] if rng.random() < 0.5 else out
    if kind == 'three-of-four':
        r = rng.randrange(4)
        return [k for i, k in enumerate(keys) if i % 4 != r]
    if kind == 'every-second-twice':
        a = [k for i, k in enumerate(keys) if i % 2 == 0]
        rest = [k for i, k in enumerate(keys) if i % 2 == 1]
        return a + [k for i, k in enumerate(rest) if i % 2 == 0]
    if kind == 'random-three-quarters':
        out = rng.sample(keys, rng.randint(3 * n // 4, n - 2))
        return out
    if kind == 'all-but-few':
        keep = set(rng.sample(keys, rng.randint(2, 5)))
        out = [k for k in keys if k not in keep]
        if rng.random() < 0.5:
            rng.shuffle(out)
        return out
    return list(keys)       # all


def remove_stmts(rng, target, gone, truth, mixed_absent=True):
    """a loop removing `gone` from the dictionary expression `target` (sometimes with absent keys among them)"""
    ks = list(gone)
    if mixed_absent and rng.random() < 0.3 and ks:
        for _ in range(rng.randint(1, 3)):
            ks.insert(rng.randrange(len(ks) + 1), rng.choice(['无', 'k0', '']))
    for k in ks:
        truth.remove(k)
    if len(ks) > 6 and rng.random() < 0.25:
        # two loops (a pause between the waves: something may be observed in between by the caller)
        h = rng.randint(1, len(ks) - 1)
        return [Iter(['去'], keylist(ks[:h]), [ExprS(MCall(target, [('移除', [Var('去')])]))]),
                Iter(['去'], keylist(ks[h:]), [ExprS(MCall(target, [('移除', [Var('去')])]))])]
    return [Iter(['去'], keylist(ks), [ExprS(MCall(target, [('移除', [Var('去')])]))])]


def observe(rng, d, tags, json_ok, nonempty=True):
    """order-dependent observations of the dictionary expression d"""
    out = []
    kinds = ['show', 'keys', 'values', 'iter', 'iter-value', 'json', 'ends']
    for kind in rng.sample(kinds, rng.randint(2, 5)):
        if kind == 'show':
            out.append(ExprS(Call('显示', [d])))
        elif kind == 'keys':
            out.append(ExprS(Call('显示', [Prop(d, '所有索引'), Prop(d, '数目')])))
        elif kind == 'values':
            out.append(ExprS(Call('显示', [Prop(d, '所有值')])))
        elif kind == 'iter':
            out.append(Iter(['键', '值'], d, [ExprS(Call('显示', [Var('键'), Var('值')]))]))
        elif kind == 'iter-value':
            out.append(Iter(['值'], d, [ExprS(Call('显示', [Var('值')]))]))
        elif kind == 'json':
            if not (json_ok and ENABLED['json']):
                continue
            out.append(ExprS(Call('显示', [Call('生成JSON', [d])])))
        elif nonempty:
            out.append(ExprS(Call('显示', [Prop(Prop(d, '所有索引'), '首项'), Prop(Prop(d, '所有索引'), '末项'),
                                           Prop(Prop(d, '所有值'), '首项'), Prop(Prop(d, '所有值'), '末项')])))
        tags.add('see-' + kind)
    return out


def dict_program(rng):
    """→ (Program, tag, expected result text or None, reaches-the-quarter)"""
    n = pick_size(rng)
    build = rng.choice(BUILDS)
    kind = rng.choice(REMOVALS)
    tags = {'build-' + build, 'remove-' + kind}
    t = Truth()
    body = []
    json_ok, imports = False, []     # (programs that import are outside the modelled fragment: 生成JSON has its own cases, json_cases)
    textual = rng.random() < 0.3        # values are texts (v1, v2, …) instead of numbers
    val = (lambda num: MCall(Str('v'), [('拼接', [Prop(num, '文本')])])) if textual else (lambda num: num)
    # ---- growth ------------------------------------------------------------------------------------------------------
    if build == 'nested-iter':
        p = rng.randint(5, 17)
        q = max(2, min(18, n // p))
        la = ['%s' % c for c in rng.sample('abcdefghijklmnopqrstuvwxyz甲乙丙丁', p)]
        lb = ['%d' % i for i in range(q)]
        keys = [a + b for a in la for b in lb]
        n = len(keys)
        body += [Decl(['典'], Dict([])), Decl(['数'], Num('0')),
                 Iter(['前'], keylist(la), [Iter(['后'], keylist(lb), [
                     ExprS(Assign(Var('数'), Bin('+', Var('数'), Num('1')))),
                     ExprS(MCall(Var('典'), [('写入', [MCall(Var('前'), [('拼接', [Var('后')])]), val(Var('数'))])]))])])]
    elif build == 'literal':
        keys = ['k%d' % i for i in range(1, n + 1)]
        kvs = [(Str(k), Str('v%d' % (i + 1)) if textual else Num(str(i + 1))) for i, k in enumerate(keys)]
        if rng.random() < 0.3:
            # a literal naming some keys again: first place, last value
            for _ in range(rng.randint(1, 3)):
                j = rng.randrange(n)
                kvs.insert(rng.randint(j + 1, len(kvs)), (Str(keys[j]), kvs[j][1]))
        body += [Decl(['典'], Dict(kvs))]
    else:
        keys = ['k%d' % i for i in range(1, n + 1)]
        keyexpr = MCall(Str('k'), [('拼接', [Prop(Var('数'), '文本')])])
        if build == 'index-assign':
            put = ExprS(Assign(Index(Var('典'), keyexpr), val(Var('数'))))
        else:
            put = ExprS(MCall(Var('典'), [('写入', [keyexpr, val(Var('数'))])]))
        body += [Decl(['典'], Dict([])), Decl(['数'], Num('0')),
                 While(Bin('lt', Var('数'), Num(str(n))), [ExprS(Assign(Var('数'), Bin('+', Var('数'), Num('1')))), put])]
    for k in keys:
        t.write(k)
    target = Var('典')
    before = rng.random() < 0.35
    if before:
        body.append(Decl(['前副'], Var('典')))
        tags.add('copy-before')
    nested = ENABLED['nested'] and rng.random() < 0.25
    if nested:
        # the big dictionary lives under a key of another one and is shrunk THERE
        body.append(Decl(['外'], Dict([(Str('左'), Num('1')), (Str('内'), Var('典')), (Str('右'), Arr([Var('典')]))])))
        target = Index(Var('外'), Str('内'))
        tags.add('nested')
    # ---- shrinking -----------------------------------------------------------------------------------------------------
    if kind == 'queue':
        # write one, remove the oldest: the store never holds more than `width` keys after the first wave
        width = rng.randint(2, 12)
        gone = keys[:n - width]
        body += remove_stmts(rng, target, gone, t, mixed_absent=False)
        m = rng.randint(20, 120)
        body += [Decl(['头'], Num(str(n - width))), Decl(['尾'], Num(str(n))),
                 While(Bin('lt', Var('尾'), Num(str(n + m))), [
                     ExprS(Assign(Var('尾'), Bin('+', Var('尾'), Num('1')))),
                     ExprS(Assign(Var('头'), Bin('+', Var('头'), Num('1')))),
                     ExprS(MCall(target, [('写入', [MCall(Str('k'), [('拼接', [Prop(Var('尾'), '文本')])]), Var('尾')])])),
                     ExprS(MCall(target, [('移除', [MCall(Str('k'), [('拼接', [Prop(Var('头'), '文本')])])])]))])]
        # (keys of a nested-iter build are not k‹number›: there the loop removes nothing and the dictionary only grows)
        for i in range(1, m + 1):
            t.write('k%d' % (n + i))
            t.remove('k%d' % (n - width + i))
    else:
        body += remove_stmts(rng, target, removal(rng, keys, kind), t)
    body += observe(rng, target, tags, json_ok, bool(t.keys))
    # ---- afterwards ----------------------------------------------------------------------------------------------------
    if rng.random() < 0.4:
        body.append(Decl(['后副'], target))
        tags.add('copy-after')
    after = rng.sample(['regrow', 'second-wave', 'rewrite', 'one-more'], rng.randint(0, 3))
    for a in after:
        tags.add('then-' + a)
        if a == 'regrow':
            m = rng.randint(3, 90)
            fresh = ['新%d' % i for i in range(m)]
            old = rng.sample(keys, min(len(keys), rng.randint(0, 6)))     # removed keys come back at the END, surviving ones keep their place
            ws = fresh + old
            rng.shuffle(ws)
            body.append(Iter(['添'], keylist(ws), [ExprS(MCall(target, [('写入', [Var('添'), Str('再')])]))]))
            for k in ws:
                t.write(k)
        elif a == 'second-wave':
            if len(t.keys) > 3:
                body += remove_stmts(rng, target, rng.sample(t.keys, rng.randint(1, len(t.keys) - 2)), t)
        elif a == 'rewrite':
            if t.keys:
                ws = rng.sample(t.keys, min(len(t.keys), rng.randint(1, 5)))
                body.append(Iter(['添'], keylist(ws), [ExprS(MCall(target, [('写入', [Var('添'), Num('0')])]))]))
        else:
            if len(t.keys) > 2:
                body += remove_stmts(rng, target, [rng.choice(t.keys)], t, mixed_absent=False)
    if after:
        body += observe(rng, target, tags, json_ok, bool(t.keys))
    if before:
        body.append(ExprS(Call('显示', [Prop(Var('前副'), '数目'), Prop(Prop(Var('前副'), '所有索引'), '首项'),
                                       Prop(Prop(Var('前副'), '所有索引'), '末项'), Bin('xeq', Var('前副'), target)])))
    if 'copy-after' in tags:
        body.append(ExprS(Call('显示', [Prop(Var('后副'), '所有索引'), Bin('xeq', Var('后副'), target)])))
    if nested:
        body.append(ExprS(Call('显示', [Prop(Var('外'), '所有索引'), Prop(Var('典'), '数目'),
                                       Prop(Prop(Index(Var('外'), Str('右')), '首项'), '数目')])))
    expected = 'ok [' + ','.join('s:' + hx(k) for k in t.keys) + ']'
    ret = Ret(Prop(target, '所有索引'))
    if ENABLED['first-difference'] and len(t.keys) >= 2 and rng.random() < 0.3:
        # which differing member is met first decides: an object under one key (error 83), another value under another key (假)
        i, j = rng.sample(range(len(t.keys)), 2)
        body = [Class('物', [('甲', Num('1'))], []), Decl(['某'], New('物', []))] + body
        body += [ExprS(Call('显示', [Prop(target, '所有索引')])),
                 ExprS(MCall(target, [('写入', [Str(t.keys[i]), Var('某')])])),
                 Decl(['比'], target),
                 ExprS(MCall(Var('比'), [('写入', [Str(t.keys[j]), Str('≠')])]))]
        ret = Ret(Bin('xeq', target, Var('比')) if rng.random() < 0.5 else Bin('xeq', Var('比'), target))
        expected = None if i < j else 'ok b:0'
        tags.add('first-difference-' + ('error' if i < j else 'false'))
    body.append(ret)
    if t.quarter:
        tags.add('quarter-of-64+')
    return Program([], body, imports=imports), ' '.join(sorted(tags)), expected, t.quarter


def list_program(rng):
    n = pick_size(rng)
    front = rng.random() < 0.3
    tags = {'build-' + ('prepend' if front else 'append')}
    items = list(range(1, n + 1))
    if front:
        items.reverse()
    body = [Decl(['表'], Arr([])), Decl(['数'], Num('0')),
            While(Bin('lt', Var('数'), Num(str(n))), [
                ExprS(Assign(Var('数'), Bin('+', Var('数'), Num('1')))),
                ExprS(MCall(Var('表'), [('前增' if front else '后增', [Var('数')])]))])]
    if rng.random() < 0.3:
        body.append(Decl(['前副'], Var('表')))
        tags.add('copy-before')
    waves = rng.randint(1, 3)
    for w in range(waves):
        kind = rng.choice(['left', 'right', 'both'])
        tags.add('shift-' + kind)
        m = rng.randint(3 * len(items) // 4, len(items) + (2 if rng.random() < 0.15 else -1)) if len(items) > 4 else len(items)
        loop = []
        if kind in ('left', 'both'):
            loop.append(ExprS(MCall(Var('表'), [('左移', [])])))
        if kind in ('right', 'both'):
            loop.append(ExprS(MCall(Var('表'), [('右移', [])])))
        passes = m // len(loop)
        body += [Decl(['次%d' % w], Num('0')),
                 While(Bin('lt', Var('次%d' % w), Num(str(passes))),
                       [ExprS(Assign(Var('次%d' % w), Bin('+', Var('次%d' % w), Num('1'))))] + loop)]
        for _ in range(passes):
            if kind in ('left', 'both'):
                items = items[1:]
            if kind in ('right', 'both'):
                items = items[:-1]
        body.append(ExprS(Call('显示', [Var('表'), Prop(Var('表'), '数目')])))
        if items:
            body.append(ExprS(Call('显示', [Prop(Var('表'), '首项'), Prop(Var('表'), '末项')])))
        if w + 1 < waves or rng.random() < 0.5:
            g = rng.randint(2, 70)
            body.append(Iter(['添'], Arr([Num(str(1000 + i)) for i in range(g)]),
                             [ExprS(MCall(Var('表'), [('后增', [Var('添')])]))]))
            items = items + [1000 + i for i in range(g)]
            tags.add('regrow')
    body.append(Iter(['项'], Var('表'), [ExprS(Call('显示', [Var('项')]))]))
    if 'copy-before' in tags:
        body.append(ExprS(Call('显示', [Prop(Var('前副'), '数目'), Prop(Var('前副'), '首项'), Prop(Var('前副'), '末项')])))
    body.append(Ret(Var('表')))
    return Program([], body), ' '.join(sorted(tags)), None, True


def json_cases(rng, count, reps):
    """raw programs (导入《@JSON》 is outside the modelled fragment): 生成JSON of a shrunk big dictionary, judged by the generator's ground
    truth — members in insertion order. → [(tag, protocol line, expected answer of a single run)]"""
    out = []
    for _ in range(count):
        n = pick_size(rng)
        kind = rng.choice(REMOVALS[:6])
        keys = ['k%d' % i for i in range(1, n + 1)]
        t = Truth()
        for k in keys:
            t.write(k)
        gone = removal(rng, keys, kind)
        for k in gone:
            t.remove(k)
        back = rng.sample(gone, rng.randint(0, 3))
        for k in back:
            t.write(k)
        src = '导入《@JSON》\n令典设为【=】\n令数设为0\n每当数 < %d：\n    数 = 数 + 1\n    以典（写入：{以“k”（拼接：数之文本）}、数）\n' % n
        src += '以去遍历【%s】：\n    以典（移除：去）\n' % '，'.join('“%s”' % k for k in gone)
        if back:
            src += '以添遍历【%s】：\n    以典（写入：添、0）\n' % '，'.join('“%s”' % k for k in back)
        nested = rng.random() < 0.4
        src += '令文设为（生成JSON：%s）\n（显示：文）\n输出文\n' % ('【“外” = 典，“列” = 【典】】' if nested else '典')
        inner = '{' + ','.join('"%s":%s' % (k, '0' if k in back else k[1:]) for k in t.keys) + '}'
        doc = '{"外":%s,"列":[%s]}' % (inner, inner) if nested else inner
        out.append(('remove-' + kind + (' nested' if nested else ''), 'repeat %d %s' % (reps, cps(src)), 'ok s:%s | %s' % (hx(doc), hx(doc))))
    return out


def run_c11(ctx, N, scale, par_go):
    """a handful of big cases per quick run (they are deterministic in what they exercise): three-way + ground truth + repetition"""
    rng = ctx.rng
    groups = []
    if ENABLED['dict']:
        groups.append(('big-dict', dict_program, 10 * scale))
    if ENABLED['list']:
        groups.append(('big-list', list_program, 3 * scale))
    for name, fn, count in groups:
        made = []
        while len(made) < count:
            c = fn(rng)
            # most cases must reach the interesting region (≤ a quarter of a ≥ 64-slot store in use, ≥ 2 survivors)
            if c[3] or len(made) % 4 == 3:
                made.append(c)
        srcs, go, model, spec = progs.run_stream(ctx, 'c11:' + name, [(c[0], {}) for c in made], nontrivial=lambda s, g_: True)
        reps = min(N, 30)
        lines = ['repeat %d %s' % (reps, cps(s)) for s in srcs]
        ans = par_go(ctx, lines)
        for (p, tag, expected, quarter), line, a, g1 in zip(made, lines, ans, go):
            ctx.evaluations += 1
            ctx.nontriv(line)
            for t in tag.split(' '):
                ctx.count('rep:%s:%s' % (name, t))
            # generator ground truth: the returned 所有索引 is the insertion-ordered survivor list
            if expected is not None and g1.split(' | ')[0] != expected:
                ctx.violation('c11:%s:ground-truth' % name, 'run ' + line.split(' ', 2)[2], g1[:1500], expected[:1500] + ' | …')
            if not a.startswith('rep 1 '):
                ctx.violation('rep:' + name, line, a[:2000], 'rep 1 ' + (expected or '<one outcome>'))
            elif a[len('rep 1 '):] != g1:
                ctx.violation('rep:%s:differs-from-run' % name, line, a[:1500], g1[:1500])
        ctx.streams.append({'stream': 'rep:' + name, 'cases': len(lines), 'repetitions': reps})
        ctx.sample({'stream': 'rep:' + name, 'source': srcs[0][:600], 'answer': ans[0][:300]})
    if ENABLED['json']:
        jc = json_cases(rng, 3 * scale, min(N, 40))
        ans = par_go(ctx, [line for _, line, _ in jc])
        for (tag, line, expected), a in zip(jc, ans):
            ctx.evaluations += 1
            ctx.nontriv(line)
            for t in tag.split(' '):
                ctx.count('rep:big-json:' + t)
            if a != 'rep 1 ' + expected:
                ctx.violation('rep:big-json', line, a[:2000], 'rep 1 ' + expected[:1500])
        ctx.streams.append({'stream': 'rep:big-json', 'cases': len(jc), 'repetitions': min(N, 40)})


# ---- C12: the same shapes as deterministic histories on ONE real value.HashMap / value.Array (protocol `coll D` / `coll L`) --------

def c12_histories(rng):
    """(dictionary histories, list histories): big growth, most removed, some growth again; observed after every step"""
    dicts, lists = [], []
    for n, kind in ((80, 'first'), (70, 'three-of-four'), (130, 'random-three-quarters'), (100, 'last'), (66, 'all-but-few'),
                    (rng.randint(33, 140), rng.choice(REMOVALS[:6]))):
        keys = ['k%d' % i for i in range(1, n + 1)]
        ops = ['m:set:t%s:n%d' % (hx(k), i % 9) if i % 3 else 'w:t%s:n%d' % (hx(k), i % 9) for i, k in enumerate(keys)]
        gone = removal(rng, keys, kind)
        ops += ['m:del:t' + hx(k) for k in gone]
        ops += ['g:keys', 'g:vals']
        ops += ['m:set:t%s:n1' % hx(k) for k in gone[:5] + ['新']]
        ops += ['m:del:t' + hx(k) for k in keys if k not in gone][:-1]
        ops += ['g:keys', 'g:len']
        dicts.append('coll D - ' + ' '.join(ops))
    for n, op in ((80, 'm:shl'), (100, 'm:shr'), (rng.randint(40, 140), 'both')):
        ops = ['m:app:n%d' % (i % 9) if i % 5 else 'm:pre:n%d' % (i % 9) for i in range(n)]
        m = n - 3
        ops += [('m:shl' if i % 2 else 'm:shr') if op == 'both' else op for i in range(m)]
        ops += ['m:app:n7'] * 6 + ['m:shl'] * 8 + ['m:shl', 'm:shr', 'g:rev']
        lists.append('coll L - ' + ' '.join(ops))
    return dicts, lists
