"""Lexer correspondence: op `lex <cps>` on the real lexer (harness/ops_lex.go) and on the Lean model
(lean/ZnVerif/Model/Lexer.lean via Ops/Lex.lean): every token (type, start, end, literal), the first error
(code + cursor) and, when the text lexes to EOF, the whole Lines table (indents, start index, line text).

Reusable: `gen_sources(rng, n, kind, maxlen)` → list of code-point tuples, `cps(t)`, `ALPHABETS`.
`run_lex_stream(ctx)` is called from props/c04.py; `lex_compare(ctx, stream, sources)` by other properties."""
import itertools

# ---- alphabets ------------------------------------------------------------------------------------
KEYWORDS = ['令', '为', '以', '其', '或', '且', '之', '的', '设为', '恒为', '新建', '何为', '不为', '如果', '再如', '输出', '如何',
            '拦截', '导入', '定义', '得到', '输入', '否则', '每当', '遍历', '等于', '大于', '小于', '抛出', '不等于', '不大于',
            '不小于', '继续循环', '结束循环']
KW_GLYPHS = sorted({ord(c) for k in KEYWORDS for c in k})
LETTERS = [ord(c) for c in '甲乙丙天地人数值AbcXyzαβγΩあいアカ가한글éß']
DIGITS = [ord(c) for c in '0123456789']
OPS = [ord(c) for c in '+-*/.%_=<>#&@|^']
BACKTICK = [0x60]
QUOTES = [0x300A, 0x300B, 0x300C, 0x300D, 0x201C, 0x201D, 0x300E, 0x300F, 0x2018, 0x2019]
SPACES = [0x20, 0x20, 0x09, 0x0D, 0x0A, 0x0A, 0x3000, 0xA0, 0x0B]
PUNCT = [ord(c) for c in '，、：；？！【】（）{},:;?![]()']
NOTE = [0x6CE8, 0xFF1A]            # 注 ：
ODD = [0x3002, 0x1F600, 0x22, 0x27, 0x5C, 0x7E, 0]   # 。 emoji " ' \ ~ NUL (= RuneEOF inside the text)
ESC_LETTERS = [ord(c) for c in 'CRLFTABSPKU']

ALPHABETS = {
    'kw': KW_GLYPHS, 'letters': LETTERS, 'digits': DIGITS, 'ops': OPS, 'backtick': BACKTICK, 'quotes': QUOTES,
    'spaces': SPACES, 'punct': PUNCT, 'note': NOTE, 'odd': ODD, 'esc': ESC_LETTERS,
}
# the 9-glyph sub-alphabet that spells overlapping keywords: 不 为 等 于 大 如 果 何 + one letter
SUB9 = [ord(c) for c in '不为等于大如果何甲']

_W_RANDOM = [('kw', 30), ('letters', 22), ('digits', 8), ('ops', 12), ('backtick', 4), ('quotes', 8), ('spaces', 9),
             ('punct', 8), ('note', 3), ('odd', 2), ('esc', 3)]


def cps(s):
    return '.'.join('%x' % c for c in s) if len(s) else '-'


def _pick(rng, weights):
    tot = sum(w for _, w in weights)
    x = rng.random() * tot
    for k, w in weights:
        x -= w
        if x < 0:
            return rng.choice(ALPHABETS[k])
    return rng.choice(ALPHABETS[weights[-1][0]])


def _word(rng, lo=1, hi=4):
    return [rng.choice(LETTERS + DIGITS) for _ in range(rng.randint(lo, hi))]


def _kw(rng):
    return [ord(c) for c in rng.choice(KEYWORDS)]


def _linebreak(rng):
    return rng.choice([[0x0A], [0x0A], [0x0D], [0x0D, 0x0A], [0x0A, 0x0D], [0x0A, 0x0A], [0x0D, 0x0D, 0x0A]])


def _string_body(rng, n):
    out = []
    for _ in range(n):
        k = rng.random()
        if k < 0.35:
            out += _word(rng, 1, 3)
        elif k < 0.5:
            out += _linebreak(rng)
        elif k < 0.62:
            out.append(rng.choice(QUOTES))
        elif k < 0.8:
            esc = rng.choice(['CR', 'LF', 'CRLF', 'TAB', 'SP', 'BK', 'U+41', 'U+1F600', 'U+D800', 'U+110000', 'U+FFFFFFFF',
                              'U+0', 'U+123456789', 'U+', 'U', 'C', 'CRL', 'TA', 'X', '', 'U+4g', 'BKK'])
            out += [0x60] + [ord(c) for c in esc] + ([0x60] if rng.random() < 0.85 else [])
        elif k < 0.88:
            out += [0x60, rng.choice(QUOTES)] + ([0x60] if rng.random() < 0.8 else [])
        elif k < 0.94:
            out.append(rng.choice(SPACES + PUNCT))
        else:
            out.append(0x60)
    return out


def _string(rng):
    op = rng.choice([0x201C, 0x300C, 0x2018, 0x300E, 0x300A])
    cl = {0x201C: 0x201D, 0x300C: 0x300D, 0x2018: 0x2019, 0x300E: 0x300F, 0x300A: 0x300B}[op]
    body = _string_body(rng, rng.randint(0, 6))
    return [op] + body + ([cl] if rng.random() < 0.9 else [])


def _comment(rng):
    k = rng.randint(1, 4)
    body = []
    for _ in range(rng.randint(0, 5)):
        r = rng.random()
        if r < 0.5:
            body += _word(rng)
        elif r < 0.65:
            body += _linebreak(rng)
        elif r < 0.8:
            body.append(rng.choice([0x300C, 0x300D, 0x201C, 0x201D, 0x2A, 0x2F]))
        else:
            body.append(rng.choice(SPACES + PUNCT + KW_GLYPHS))
    digits = [rng.choice(DIGITS) for _ in range(rng.choice([0, 0, 1, 3]))]
    if k == 1:      # 注：…  single line
        return [0x6CE8] + digits + [0xFF1A] + [c for c in body if c not in (0x0A, 0x0D)] + _linebreak(rng)
    if k == 2:      # // …
        return [0x2F, 0x2F] + [c for c in body if c not in (0x0A, 0x0D)] + _linebreak(rng)
    if k == 3:      # /* … */
        return [0x2F, 0x2A] + body + ([0x2A, 0x2F] if rng.random() < 0.9 else [])
    q = rng.choice([(0x300C, 0x300D), (0x201C, 0x201D)])
    return [0x6CE8] + digits + [0xFF1A, q[0]] + body + ([q[1]] if rng.random() < 0.9 else [])


def _indent(rng, style):
    if style == 'tab':
        return [0x09] * rng.randint(0, 3)
    if style == 'sp':
        return [0x20] * (4 * rng.randint(0, 3))
    return rng.choice([[0x09] * rng.randint(0, 2), [0x20] * rng.randint(0, 9), [0x09, 0x20], [0x20] * 4 + [0x09], []])


def _line(rng):
    out = []
    for _ in range(rng.randint(0, 5)):
        r = rng.random()
        if r < 0.3:
            out += _kw(rng)
        elif r < 0.55:
            out += _word(rng)
        elif r < 0.65:
            out += [rng.choice(OPS)] + ([0x20] if rng.random() < 0.5 else [])
        elif r < 0.75:
            out.append(rng.choice(PUNCT))
        elif r < 0.83:
            out += _string(rng)
        elif r < 0.9:
            out += _comment(rng)
        elif r < 0.95:
            out += [0x60] + _word(rng) + [0x60]
        else:
            out.append(rng.choice([0x20, 0x20, 0x3000, 0x09]))
    return out


def gen_one(rng, kind, maxlen):
    if kind == 'random':
        n = rng.randint(0, maxlen)
        return tuple(_pick(rng, _W_RANDOM) for _ in range(n))
    if kind == 'segment':       # keyword glyphs and plain letters only (C04 greedy segmentation)
        n = rng.randint(0, maxlen)
        return tuple(rng.choice(KW_GLYPHS) if rng.random() < 0.6 else rng.choice(LETTERS) for _ in range(n))
    if kind == 'comments':
        out = []
        for _ in range(rng.randint(1, 3)):
            out += rng.choice([[], _word(rng), _kw(rng), [0x20]]) + _comment(rng) + rng.choice([[], _word(rng), _linebreak(rng)])
        return tuple(out)
    if kind == 'strings':
        out = []
        for _ in range(rng.randint(1, 3)):
            out += rng.choice([[], _kw(rng), _linebreak(rng)]) + _string(rng) + rng.choice([[], _word(rng), _linebreak(rng)])
        return tuple(out)
    if kind == 'indent':
        style = rng.choice(['tab', 'sp', 'mixed', 'mixed'])
        out = []
        for _ in range(rng.randint(1, 5)):
            out += _indent(rng, style if rng.random() < 0.85 else 'mixed') + _line(rng) + _linebreak(rng)
        if rng.random() < 0.5:
            out += _indent(rng, style) + _line(rng)
        return tuple(out)
    raise ValueError(kind)


# marks that continue a name: `.` `*` `/` `%` (IDContinue, not name characters themselves) and the name characters that
# double as operators / sit at the end of a table range (`-` `+` `_` `$` `^`)
NAME_MARKS = [ord(c) for c in '.*/%-+_$^']


def _sep(rng):
    """1-3 marks; never `//` `/*` `/=` (comment / operator starts end a name), never ending in `/`+nothing"""
    while True:
        t = [rng.choice(NAME_MARKS) for _ in range(rng.choice([1, 1, 2, 2, 3]))]
        if any(t[i] == 0x2F and t[i + 1] in (0x2F, 0x2A) for i in range(len(t) - 1)):
            continue
        return t


def _marked_name(rng, kwglyphs=False):
    """letters joined by marks: 进价.-折扣  a/-b  甲_乙%丙 ; optionally led by a mark that may start a name"""
    pool = LETTERS + DIGITS + (KW_GLYPHS if kwglyphs else [])
    out = [rng.choice([0x2D, 0x2B, 0x5F, 0x24])] if rng.random() < 0.15 else []
    out += [rng.choice(LETTERS)] + [rng.choice(pool) for _ in range(rng.randint(0, 2))]
    for _ in range(rng.randint(1, 3)):
        out += _sep(rng) + [rng.choice(pool) for _ in range(rng.randint(0, 2))] + [rng.choice(LETTERS)]
    return out


def gen_marked(rng):
    """a text of names with marks inside (bare, or between back-ticks — then keyword glyphs are name characters too),
    separated by keywords; every piece starts and ends with a letter, so the documented segmentation (spec:segmentq) is
    defined on it"""
    out = []
    if rng.random() < 0.4:
        out += _kw(rng)
    for i in range(rng.randint(1, 3)):
        if i:
            out += _kw(rng)
        if rng.random() < 0.35:
            out += [0x60] + _marked_name(rng, kwglyphs=rng.random() < 0.5) + [0x60]
        else:
            out += _marked_name(rng)
    if rng.random() < 0.3:
        out += _kw(rng)
    return tuple(out)


def marked_exhaustive():
    """every name  L m1 [m2] L  and its back-ticked form, alone and after a keyword"""
    out = []
    seps = [[a] for a in NAME_MARKS] + [[a, b] for a in NAME_MARKS for b in NAME_MARKS if not (a == 0x2F and b in (0x2F, 0x2A))]
    for sp in seps:
        core = [0x7532] + sp + [0x4E59]
        out += [tuple(core), tuple([0x60] + core + [0x60]), tuple([0x4EE4] + core + [0x8BBE, 0x4E3A, 0x31]),
                tuple([0x4EE4, 0x60] + core + [0x60, 0x8BBE, 0x4E3A, 0x31])]
    return out


def gen_sources(rng, n, kind, maxlen=12):
    """n generated sources (tuples of code points) of the given kind:
    random | segment | comments | strings | indent | mixed (an even mix of all)"""
    kinds = ['random', 'segment', 'comments', 'strings', 'indent']
    return [gen_one(rng, kind if kind != 'mixed' else kinds[i % len(kinds)], maxlen) for i in range(n)]


def exhaustive(alphabet, maxlen):
    for n in range(0, maxlen + 1):
        for t in itertools.product(alphabet, repeat=n):
            yield t


# ---- comparison ---------------------------------------------------------------------------------------

def classify(ans):
    if ans.startswith('panic'):
        return 'panic'
    if ' err syn ' in ans:
        return 'err' + ans.split(' err syn ')[1].split(' ')[0]
    if ans.endswith('nonterminating'):
        return 'nonterminating'
    return 'eof'


def ntokens(ans):
    head = ans.split(' |')[0].split(' err ')[0]
    return max(0, len(head.split(' ')) - 1)


def run_go_retry(ctx, cases):
    """ctx.run_go, then every case answered `timeout` / `crash …` (the 4 s watchdog under load) is re-run alone, once
    with a longer watchdog; a second timeout stands"""
    go = ctx.run_go(cases)
    bad = [i for i, a in enumerate(go) if a.startswith('timeout') or a.startswith('crash')]
    again = 0
    for i in bad[:50]:
        go[i] = ctx.run_go([cases[i]], timeout_ms=20000, parallel=False)[0]
        ctx.count('go_answers_rerun_after_timeout')
        if go[i].startswith('timeout'):
            again += 1
            if again >= 3:     # not load: the code hangs on these inputs; the remaining ones keep their first answer
                break
    return go


def lex_compare(ctx, stream, sources, sample=2, segment_spec=False, spec_op='spec:segment'):
    """runs `lex` on Go and on the model for every source; records disagreements; returns (cases, go answers).
    segment_spec: the sources are over keyword glyphs and plain name characters only — the token part of Go's answer
    must equal the documented greedy segmentation (`spec:segment`, Spec/Segment.lean)"""
    cases = ['lex ' + cps(t) for t in sources]
    go = run_go_retry(ctx, cases)
    model = ctx.run_lean(cases)
    spec = ctx.run_lean([spec_op + ' ' + cps(t) for t in sources]) if segment_spec else None
    for i, (c, g, m) in enumerate(zip(cases, go, model)):
        ctx.evaluations += 1
        cl = classify(g)
        ctx.count('lex_' + cl)
        if g != m:
            ctx.disagreement(stream, c, g, m)
        if g.endswith(' SRC-CHANGED') or g.endswith(' RELEX-DIFFERS'):
            ctx.violation(stream + ':text-rewritten', c, g, 'lexing leaves the program text as it was, and the same text lexes the same way again')
        if spec is not None and g.split(' |')[0] != spec[i]:
            ctx.violation(stream, c, g, spec[i])
        if ntokens(g) >= 3 or cl.startswith('err'):
            ctx.nontriv(c)
        if cl == 'eof' and ' |' in g and g.count(':', g.index(' |')) >= 4:
            ctx.count('lex_multiline')
    for i in range(min(sample, len(cases))):
        j = (i * 7919 + 13) % len(cases)
        ctx.sample({'op': cases[j], 'go': go[j][:160], 'model': model[j][:160]})
    return cases, go


def load_corpus(pid, name):
    """corpus/<pid>/<name>: one source per line as dot-separated hex code points, `#` starts a comment"""
    import os
    path = os.path.join(os.path.dirname(os.path.dirname(os.path.dirname(os.path.abspath(__file__)))), 'corpus', pid, name)
    out = []
    if os.path.exists(path):
        for ln in open(path, encoding='utf-8'):
            ln = ln.split('#', 1)[0].strip()
            if ln:
                out.append(tuple(int(x, 16) for x in ln.split('.')) if ln != '-' else ())
    return out


def run_lex_stream(ctx):
    rng = ctx.rng
    corpus = load_corpus('C04', 'lex.txt') + load_corpus('C13', 'witnesses.txt')
    if corpus:
        lex_compare(ctx, 'lex-corpus', corpus)
        ctx.streams.append({'stream': 'lex-corpus', 'cases': len(corpus)})
    quick = ctx.quick() and not getattr(ctx, 'escalated', False)
    maxlen = 12 if quick else 40
    n = 20000 if quick else 500000
    # exhaustive: every string of length ≤ 4 / ≤ 5 over the 9-glyph sub-alphabet of overlapping keywords
    L = 4 if quick else 5
    ex = list(exhaustive(SUB9, L))
    lex_compare(ctx, 'lex-exhaustive-sub9', ex, segment_spec=True)
    ctx.count('lex_exhaustive_sub9_len_le_%d' % L, len(ex))
    ctx.streams.append({'stream': 'lex-exhaustive-sub9', 'cases': len(ex), 'exhaustive_upto_len': L})
    # keyword near-misses: every keyword with one glyph replaced by every other keyword glyph (and with one glyph
    # dropped / doubled), alone and embedded between letters — a recogniser that accepts a sequence which is not a
    # documented keyword (merged switch arms, a lost look-ahead test) shows up here
    near = set()
    for kw in KEYWORDS:
        g = [ord(c) for c in kw]
        for i in range(len(g)):
            for r in KW_GLYPHS:
                if r != g[i]:
                    near.add(tuple(g[:i] + [r] + g[i + 1:]))
            near.add(tuple(g[:i] + g[i + 1:]))
            near.add(tuple(g[:i] + [g[i]] + g[i:]))
    near = [list(t) for t in sorted(near) if t]
    near_all = near + [[0x7532] + t + [0x4E59] for t in near] + [t + [0x6B21, 0x6570] for t in near]
    lex_compare(ctx, 'lex-keyword-near-miss', near_all, segment_spec=True)
    ctx.streams.append({'stream': 'lex-keyword-near-miss', 'cases': len(near_all)})
    # names with marks inside (`.` `*` `/` `%` continue a name; `-` `+` `_` are name characters when not followed by a space):
    # bare and back-ticked, exhaustive over one and two marks between two letters, then random
    marked = marked_exhaustive()
    marked += list(dict.fromkeys(gen_marked(rng) for _ in range(n // 10)))
    lex_compare(ctx, 'lex-marked-names', marked, segment_spec=True, spec_op='spec:segmentq')
    ctx.streams.append({'stream': 'lex-marked-names', 'cases': len(marked)})
    run_lex_pairs(ctx, marked, n // 10)
    run_lex_alphabet(ctx)
    # 注 starts a comment only as 注： / 注<digits>：; any other text that begins with 注 is an ordinary name — 注1, 注12甲, 注册 —
    # one identifier token covering all of it (the look-ahead for the comment form must leave nothing consumed)
    note = []
    tails = [[], [0x7532], [0x53F7], [0x61, 0x62], [0x518C], [0x5F55, 0x8868]]
    for digits in ([], [0x31], [0x37], [0x31, 0x32], [0x30], [0x39, 0x39, 0x39], [0x32, 0x30, 0x32, 0x34]):
        for tail in tails:
            if not digits and not tail:
                continue
            note.append([0x6CE8] + digits + tail)
    go_note = run_go_retry(ctx, ['lex ' + cps(t) for t in note])
    model_note = ctx.run_lean(['lex ' + cps(t) for t in note])
    for t, g, m in zip(note, go_note, model_note):
        ctx.evaluations += 1
        want = 'ok 5:0:%d:%s 0:%d:%d:-' % (len(t), cps(t), len(t), len(t))
        if g != m:
            ctx.disagreement('lex-note-names', 'lex ' + cps(t), g, m)
        if not g.startswith(want + ' |'):
            ctx.violation('lex-note-names', 'lex ' + cps(t), g, want + ' | …   (one name: no ： follows the digits)')
        ctx.nontriv('lex ' + cps(t))
    ctx.streams.append({'stream': 'lex-note-names', 'cases': len(note)})
    # random over the whole alphabet, and the structured kinds
    plan = [('random', n * 5 // 10), ('segment', n // 10), ('comments', n // 10), ('strings', n * 15 // 100),
            ('indent', n * 15 // 100)]
    for kind, k in plan:
        srcs = gen_sources(rng, k, kind, maxlen)
        srcs = list(dict.fromkeys(srcs))
        lex_compare(ctx, 'lex-' + kind, srcs, segment_spec=(kind == 'segment'))
        ctx.streams.append({'stream': 'lex-' + kind, 'cases': len(srcs), 'maxlen': maxlen})



# ---- the identifier alphabet, asked in every place of the lexer ---------------------------------------------------------

_X, _Y = 0x7532, 0x4E59          # 甲 乙: name characters that are no keyword glyphs
_BT = 0x60
# the positions the manual distinguishes (name, back-ticked name) times what may stand before / after the character
ALPHA_CORE = [
    ('alone', lambda c: [c]), ('first', lambda c: [c, _X]), ('last', lambda c: [_X, c]), ('mid', lambda c: [_X, c, _Y]),
    ('q-alone', lambda c: [_BT, c, _BT]), ('q-first', lambda c: [_BT, c, _X, _BT]),
    ('q-mid', lambda c: [_BT, _X, c, _Y, _BT]), ('q-last', lambda c: [_BT, _X, c, _BT]),
]
ALPHA_AFTER = (
    [('after-%s' % chr(m), (lambda m: lambda c: [m, c, _X])(m)) for m in (0x26, 0x40, 0x23, 0x3D, 0x3C, 0x3E, 0x7C, 0x25)]
    + [('after-+', lambda c: [0x2B, c]), ('after--', lambda c: [0x2D, c, _X]), ('after-*', lambda c: [0x2A, c]),
       ('after-/', lambda c: [0x2F, c, _X]),
       ('after-kw', lambda c: [0x4EE4, c, _X]), ('name-kw-cp', lambda c: [_X, 0x4E3A, c]),
       ('after-digit', lambda c: [0x31, c]), ('between-digits', lambda c: [0x31, c, 0x32])])
ALPHA_MORE = [
    ('after-==', lambda c: [0x3D, 0x3D, c, _X]), ('after-<=', lambda c: [0x3C, 0x3D, c]), ('after->=', lambda c: [0x3E, 0x3D, c, _X]),
    ('name=cp', lambda c: [_X, 0x3D, c]), ('name+cp', lambda c: [_X, 0x2B, c]), ('name-cp', lambda c: [_X, 0x2D, c, _Y]),
    ('name*cp', lambda c: [_X, 0x2A, c]), ('name/cp', lambda c: [_X, 0x2F, c, _Y]), ('name.cp', lambda c: [_X, 0x2E, c]),
    ('name%cp', lambda c: [_X, 0x25, c]),
    ('spaced+', lambda c: [_X, 0x20, 0x2B, 0x20, c]), ('spaced-', lambda c: [_X, 0x20, 0x2D, 0x20, c, _Y]),
    ('spaced*', lambda c: [_X, 0x20, 0x2A, 0x20, c]), ('spaced/', lambda c: [_X, 0x20, 0x2F, 0x20, c]),
    ('after-blank', lambda c: [_X, 0x20, c]), ('after-blank-first', lambda c: [_X, 0x20, c, _Y]),
    ('kw-cp', lambda c: [0x4EE4, c]), ('kw-name-cp', lambda c: [0x4EE4, _X, c]), ('kw2-cp', lambda c: [0x8BBE, 0x4E3A, c, _Y]),
    ('cp-kw', lambda c: [c, 0x4E3A, _X]), ('name-cp-kw', lambda c: [_X, c, 0x4E3A]),
    ('kwglyph-cp', lambda c: [0x4E0D, c]), ('kwglyph-cp-kwglyph', lambda c: [0x5982, c, 0x679C]),
    ('number.cp', lambda c: [0x31, 0x32, 0x2E, c]), ('latin-cp', lambda c: [0x61, c]), ('_cp', lambda c: [0x5F, c]),
    ('$cp', lambda c: [0x24, c, _X]),
    ('q-kwglyphs', lambda c: [_BT, 0x4E3A, c, 0x7684, _BT]), ('q-in-stmt', lambda c: [0x4EE4, _BT, _X, c, _BT, 0x4E3A, 0x31]),
    ('twice', lambda c: [_X, c, c]), ('twice-first', lambda c: [c, c]),
]


def alphabet_points(bits, rng, nrandom):
    """code points at which a second way of answering `is this a name character?` can differ from the table: both ends of
    every range and the three code points outside each end (`edge`; `tight` = the ends and the first one outside), the
    marks that continue a name and their surroundings, the edges of the 16 / 256 / 4096-aligned blocks that hold a range end
    (`block`: where a block-shaped shortcut parts from the table; also the second / last-but-one member of every range), the same offsets one and sixteen planes up (`far`:
    a narrowed integer), and random members / non-members."""
    N = len(bits)
    starts = [c for c in range(1, N) if bits[c] == '1' and bits[c - 1] == '0']
    ends = [c for c in range(N - 1) if bits[c] == '1' and bits[c + 1] == '0']
    tight, edge, block, far = set(), set(), set(), set()
    for a in starts:
        tight.update((a, a - 1))
        edge.update((a - 2, a - 3))
        block.add(a + 1)
        for m in (0xF, 0xFF, 0xFFF):
            block.update((a & ~m, (a & ~m) - 1))
        far.update((a + 0x10000, a + 0x100000))
    for b in ends:
        tight.update((b, b + 1))
        edge.update((b + 2, b + 3))
        block.add(b - 1)
        for m in (0xF, 0xFF, 0xFFF):
            block.update((b | m, (b | m) + 1))
        far.update((b + 0x10000, b + 1 + 0x10000))
    for c in (0x2E, 0x2A, 0x2F, 0x25):
        tight.update((c - 1, c, c + 1))
        edge.update((c - 3, c - 2, c + 2, c + 3))
    tight.update((0xFFFF, 0x10000))
    edge.update((0xFFFD, 0xFFFE, 0x10001, 0x10002, 0x10FFFF))
    ok = lambda s: {c for c in s if 0 < c <= 0x10FFFF}
    tight = ok(tight)
    edge = ok(edge) - tight
    block = ok(block) - tight - edge
    far = ok(far) - tight - edge - block
    members = [c for c in range(N) if bits[c] == '1']
    rnd = set(rng.sample(members, nrandom)) | {rng.randrange(1, 0x10000) for _ in range(nrandom)} | {rng.randrange(0x10000, 0x110000) for _ in range(nrandom // 4)}
    rnd = rnd - tight - edge - block - far
    return sorted(tight), sorted(edge), sorted(block), sorted(far), sorted(rnd)


# switch: code points the unchanged tree is known to treat differently from the documented alphabet in some position
# (none at present). A code point listed here is kept out of the lex-alphabet stream and reported in the evidence.
ALPHABET_EXCLUDED = set()


def run_lex_alphabet(ctx):
    """`lex-alphabet`: ONE code point in every place where the lexer asks whether it is a name character — first
    character of a name, later character (end / middle), between back-ticks (alone / start / middle / end), right after
    every operator mark, after a keyword, after a digit — for every boundary of the regenerated identifier table.
    Judged by `spec:lexalpha` (Spec/NameChars.lean over `linearMember` of the table): the same code point must be a name
    character in all of these places or in none, and one that is none and has no other documented meaning is refused
    where it stands. Exhaustive over the boundaries; the further contexts (ALPHA_MORE) rotate over the tight boundary
    points by ctx.rng."""
    rng = ctx.rng
    big = not ctx.quick()                                             # thorough tier: every place for every point
    mid = ctx.quick() and getattr(ctx, 'escalated', False)            # quick tier after a broken obligation: wider, still seconds
    bits = ''.join(a[3:] for a in ctx.run_lean(['spec:idrange %d %d' % (lo, lo + 8192) for lo in range(0, 0x10000, 8192)]))
    tight, edge, block, far, rnd = alphabet_points(bits, rng, 2000 if big else 300 if mid else 150)
    full = ALPHA_CORE + ALPHA_AFTER
    plan = []           # (template name, code point, text)
    k_more = len(ALPHA_MORE) if big else 10 if mid else 4
    for c in tight:
        for name, f in full + rng.sample(ALPHA_MORE, k_more):
            plan.append((name, c, f(c)))
    for c in edge:
        for name, f in full + (ALPHA_MORE if big else []):
            plan.append((name, c, f(c)))
    for c in block + rnd:
        for name, f in ALPHA_CORE + (ALPHA_AFTER if (big or mid) else rng.sample(ALPHA_AFTER, 2)):
            plan.append((name, c, f(c)))
    for c in far:
        for name, f in ALPHA_CORE if (big or mid) else (ALPHA_CORE[1], ALPHA_CORE[3], ALPHA_CORE[6]):
            plan.append((name, c, f(c)))
    plan = [p for p in plan if p[1] not in ALPHABET_EXCLUDED]
    for key, pts in (('tight', tight), ('edge', edge), ('block', block), ('far', far), ('random', rnd)):
        ctx.count('lex_alphabet_points_' + key, len(pts))
    if ALPHABET_EXCLUDED:
        ctx.count('lex_alphabet_points_excluded', len(ALPHABET_EXCLUDED))
    cases = ['lex ' + cps(t) for _, _, t in plan]
    go = run_go_retry(ctx, cases)
    model = ctx.run_lean(cases)
    spec = ctx.run_lean(['spec:lexalpha ' + cps(t) for _, _, t in plan])
    judged = 0
    verdicts = {}       # code point -> set of (accepted as a later character of a name?) over the judged places
    for (name, c, t), case, g, m, sp in zip(plan, cases, go, model, spec):
        ctx.evaluations += 1
        if g != m:
            ctx.disagreement('lex-alphabet', case, g, m)
        if g.endswith(' SRC-CHANGED') or g.endswith(' RELEX-DIFFERS'):
            ctx.violation('lex-alphabet:text-rewritten', case, g, 'lexing leaves the program text as it was, and the same text lexes the same way again')
        if sp == 'undefined':
            ctx.count('lex_alphabet_other_meaning_not_judged')
            continue
        judged += 1
        ctx.nontriv(case)
        ctx.count('lex_alphabet_' + ('refused' if ' err ' in sp else 'accepted'))
        if g.split(' |')[0] != sp:
            ctx.violation('lex-alphabet:' + name, case, g, sp)
        if name in ('mid', 'q-alone', 'q-first', 'q-mid', 'q-last'):
            verdicts.setdefault(c, set()).add(' err ' not in g)
    ctx.count('lex_alphabet_judged_by_spec', judged)
    ctx.count('lex_alphabet_verdict_depends_on_place', sum(1 for v in verdicts.values() if len(v) > 1))
    for i in (0, len(cases) // 3, len(cases) - 1):
        ctx.sample({'op': cases[i], 'go': go[i][:120], 'model': model[i][:120], 'spec': spec[i][:120]})
    ctx.streams.append({'stream': 'lex-alphabet', 'cases': len(cases), 'judged_by_spec': judged,
                        'code_points': len(tight) + len(edge) + len(block) + len(far) + len(rnd),
                        'exhaustive': 'every boundary of the identifier table (both ends, 3 outside each) x %d places' % len(full)})


def run_lex_pairs(ctx, marked, n):
    """two texts lexed one after the other in ONE process (`lex2`): the answer for the second must be the documented
    segmentation of the second alone — nothing the first text made the lexer look up may change it. First texts: a name
    followed by a stray character that is not a name character (rejected, or a mark) for every gap of the identifier table;
    second texts: begin with the name character just below that gap. Then random pairs of marked-name texts."""
    rng = ctx.rng
    bits = ''.join(a[3:] for a in ctx.run_lean(['spec:idrange %d %d' % (lo, min(lo + 8192, 0x10000)) for lo in range(0, 0x10000, 8192)]))
    ends = [c for c in range(0x21, 0xFFFF) if bits[c] == '1' and bits[c + 1] == '0']
    kwg = set(KW_GLYPHS)
    pairs = []
    for e in ends:
        if e == 0x6CE8 or 0x30 <= e <= 0x39:
            continue
        first = (0x7532, e + 1)
        for second in ((e, 0x7532), (0x4EE4, e, 0x8BBE, 0x4E3A, 0x37), (0x7532, e)):
            if e == 0x25 and second[0] != 0x7532:
                continue        # `%` is the remainder operator wherever a token starts
            pairs.append((first, second))
    ctx.count('lex_pairs_table_gaps', len(pairs))
    for _ in range(n):
        pairs.append((rng.choice(marked) + ((rng.choice([0x7E, 0x3002, 0x5C, 0x2E, 0x2F]),) if rng.random() < 0.5 else ()), rng.choice(marked)))
    pairs = list(dict.fromkeys(pairs))
    cases = ['lex2 %s %s' % (cps(a), cps(b)) for a, b in pairs]
    go = run_go_retry(ctx, cases)
    model = ctx.run_lean(cases)
    spec = ctx.run_lean(['spec:segmentq ' + cps(b) for _, b in pairs])
    for c, g, m, sp in zip(cases, go, model, spec):
        ctx.evaluations += 1
        if g != m:
            ctx.disagreement('lex-pairs', c, g, m)
        second = g.split(' ;; ')[1] if ' ;; ' in g else g
        if second.split(' |')[0] != sp:
            ctx.violation('lex-pairs', c, g, '… ;; ' + sp)
        ctx.nontriv(c)
    ctx.sample({'op': cases[0], 'go': go[0][:160], 'model': model[0][:160]})
    ctx.streams.append({'stream': 'lex-pairs', 'cases': len(cases)})
