"""C09 — program-level three-way comparison (Go interpreter, Lean model evaluator, Lean spec semantics)."""
from props import progs, sites
from props.progs import replay  # noqa

GEN = 'exc'
RULE = ("call chains of depth 1–5 with one fault planted at a generator-known depth (抛出异常, custom exception type, 1/0, index out of "
        "range, undefined name, unknown method), inside loops or branches, with a handler at depth 0…n or none, matching or "
        "mismatching class, second handler before it; handlers that themselves raise (抛出 of either class, 1/0, a failing call) with an "
        "outer handler 1…n levels further out or none; in half of the programs some levels are methods of objects (receiver 体i) that "
        "display 其名 and increment 其次 after the level below has returned; after the call the caller probes its own variables, "
        "redeclares a callee-local name, calls again, displays every object and (sometimes) reads 其 in the program body (error 48); "
        "three hand-written programs head the stream. Non-trivial = the fault was raised below the handler's depth or not handled at all.")
ASSUMPTIONS = ["the message text of runtime faults is the implementation's (model prints ‹rt:code›; compared modulo that)"]
PARTIAL = "reading 其内容 of a runtime fault is 'unspecified' in the spec semantics (message text is not part of the property)"


def run(ctx):
    sites.report(ctx)   # regenerated site inventory vs the modelled sites (diagnosis of a broken obligation; DESIGN §12)
    g = progs.G(ctx.rng)
    n = ctx.n(2000, 50000)
    ps = progs.hand_exc() + [g.exc_program() for _ in range(n)]
    progs.run_stream(ctx, 'exc', ps, nontrivial=lambda src, go: '层2' in src or '拦截' not in src)
