"""C09 — program-level three-way comparison (Go interpreter, Lean model evaluator, Lean spec semantics)."""
from props import progs
from props.progs import replay  # noqa

GEN = 'exc'
RULE = ("call chains of depth 1–4 with one fault planted at a generator-known depth (抛出异常, custom exception type, 1/0, index out of "
        "range, undefined name, unknown method), inside loops or branches, with a handler at depth 0…n or none, matching or "
        "mismatching class, second handler before it; after the call the caller probes its own variables, redeclares a callee-local "
        "name and calls again. Non-trivial = the fault was raised below the handler's depth or not handled at all.")
ASSUMPTIONS = ["the message text of runtime faults is the implementation's (model prints ‹rt:code›; compared modulo that)"]
PARTIAL = "reading 其内容 of a runtime fault is 'unspecified' in the spec semantics (message text is not part of the property)"


def run(ctx):
    g = progs.G(ctx.rng)
    n = ctx.n(2000, 50000)
    ps = [g.exc_program() for _ in range(n)]
    progs.run_stream(ctx, 'exc', ps, nontrivial=lambda src, go: '层2' in src or '拦截' not in src)
