"""C09 — program-level three-way comparison (Go interpreter, Lean model evaluator, Lean spec semantics)."""
from props import progs, sites
from props.progs import replay  # noqa
from zngen import *

LATE_MARK = '末尾记'

GEN = 'exc'
RULE = ("call chains of depth 1–5 with one fault planted at a generator-known depth (抛出异常, custom exception type, 1/0, index out of "
        "range, undefined name, unknown method), inside loops or branches, with a handler at depth 0…n or none, matching or "
        "mismatching class, second handler before it; handlers that themselves raise (抛出 of either class, 1/0, a failing call) with an "
        "outer handler 1…n levels further out or none; in half of the programs some levels are methods of objects (receiver 体i) that "
        "display 其名 and increment 其次 after the level below has returned; after the call the caller probes its own variables, "
        "redeclares a callee-local name, calls again, displays every object and (sometimes) reads 其 in the program body (error 48); "
        "three hand-written programs head the stream; a third of the programs end with one more, uncaught fault (1/0, undefined name, 抛出, "
        "a call of a failing method) after the display of a marker: when the spec says the marker was reached and the program failed, the "
        "chain of the rendered error must be the generator's ground truth (only the calls active THEN). stream exc-modules: further programs of the same kind with a closed set of their methods / types moved into an imported module file (two files through LoadFile; Go = evaluator model on the whole answer incl. the location chain with module names, Go = spec semantics of the one-file program on result and trace). Non-trivial = the fault was raised below the handler's depth or not handled at all. "
        "Stream `throw-edge` (props/edges.py, 150 programs of 2–4 probes): 抛出 of a name that holds a number / text / list / method / object / 空 / "
        "nothing, of a type without constructor and without 内容 (caught by its own name only), of 异常 with other arguments than one text; "
        "拦截 of a name that is undefined or holds something else (matches nothing), two to four handlers in any order, a numeral where the "
        "type's name belongs — before the matching handler (the run ends there) and after it (never looked at).")
ASSUMPTIONS = ["the message text of runtime faults is the implementation's (model prints ‹rt:code›; compared modulo that)"]
PARTIAL = "reading 其内容 of a runtime fault is 'unspecified' in the spec semantics (message text is not part of the property)"


def run(ctx):
    sites.report(ctx)   # regenerated site inventory vs the modelled sites (diagnosis of a broken obligation; DESIGN §12)
    g = progs.G(ctx.rng)
    n = ctx.n(2000, 50000)
    hand = progs.hand_exc()
    ps = hand + [g.exc_program() for _ in range(n)]
    # "unwind cleanly", seen from a LATER error: a third of the programs end with one more fault after everything else (right after
    # the display of a marker). Whenever the spec says that the program got as far as the marker and then failed, the error is that
    # fault, and its chain is the generator's ground truth: the line of the statement in the program body (plus the line of the 抛出
    # inside 必败 when the fault is a call of it) — none of the calls that failed and were handled before may appear
    rng = ctx.rng
    late = {}
    for k in range(len(hand), len(ps)):
        if rng.random() < 0.35:
            p = ps[k][0]
            kind = rng.choice(['div', 'name', 'throw', 'call', 'call'])
            if kind == 'div':
                st = ExprS(Call('显示', [Bin('/', Num('1'), Num('0'))]))
            elif kind == 'name':
                st = ExprS(Call('显示', [Var('未定名末')]))
            elif kind == 'throw':
                st = Throw('异常', [Str('末')])
            else:
                st = ExprS(Call('显示', [Call('必败', [])]))
                for d in p.body:
                    if isinstance(d, Func) and d.name == '必败':
                        d.body[0].tag = 'late_inner'
            st.tag = 'late_fault'
            p.body += [ExprS(Call('显示', [Str(LATE_MARK)])), st]
            late[k] = kind
    srcs, go, model, spec = progs.run_stream(ctx, 'exc', ps, nontrivial=lambda src, go: '层2' in src or '拦截' not in src)
    mark = LATE_MARK.encode().hex()
    for k, kind in late.items():
        s = spec[k]
        if not (s.startswith('err') and s.endswith(mark)):
            ctx.count('late-fault:not-reached-or-handled')
            continue
        tags = ps[k][0].tags
        exp = 'main:%d' % (tags['late_fault'] + 1) + ('>main:%d' % (tags['late_inner'] + 1) if kind == 'call' else '')
        f = go[k].split(' ')
        got = f[3] if go[k].startswith('err') and len(f) > 3 else go[k]
        ctx.count('late-fault:chain-compared')
        ctx.evaluations += 1
        if got != exp:
            ctx.violation('exc:late-fault-chain', 'run ' + cps(srcs[k]), go[k], 'expected chain ' + exp)
    # the same kind of programs with some of the levels (and what they call) in an imported module: the exception crosses the module
    # boundary on its way to the handler, the caller's module is current again afterwards
    more = [g.exc_program() for _ in range(ctx.n(700, 20000))]
    progs.run_split_stream(ctx, 'exc-modules', more, nontrivial=lambda src, go: '层2' in src or '拦截' not in src)
    # 抛出 / 拦截 of names that are no types, no names at all; order of handlers — props/edges.py
    from props import edges
    st = {}
    ts = edges.throw_programs(ctx.rng, ctx.n(150, 6000), st)
    progs.run_stream(ctx, 'throw-edge', ts, nontrivial=lambda src, go: True)
    for k, v in sorted(st.items()):
        ctx.count('throw-edge:gen:' + k, v)
