"""C11 — Execution is deterministic.

Streams:
  inventory   the regenerated facts (map-range sites, rand/clock/%p/identity/goroutine uses) vs the Lean classification
              (the obligation itself is the theorem `sites_all_classified`; here the sites are counted into the evidence
              and the fingerprints of the modelled functions are compared with the recorded ones)
  xeqtree     dictionary / list pairs (same contents in other key orders, or one difference somewhere): the real
              compareLogicXEQ through `输出 左 为 右` = Model.MapSites.xeq (the pure-tree model the theorem is about) = an
              order-free spec equality
  rep:*       repetition: the SAME program N times in ONE harness process (Go re-randomises every `range` over a map);
              the property demands exactly one outcome (result, displayed lines, error class/code/line AND error text);
              programs that the evaluator model covers also go through progs.run_stream (Go = model = spec)
  http        a wire-format request with ≥ 5 headers and ≥ 5 query parameters through the real ZnHttpHandler.ServeHTTP
  exprinput   exec.ExecExpressionInputText on Go maps with ≥ 4 entries
  rep:handler every branch of the real handlers (harness op `hrep`): ZnHttpHandler request bodies (JSON object / non-object /
              malformed / form / text / empty / unreadable / nil), every kind of result sendHTTPResponse writes (text, number,
              dictionary and list → JSON, HTTP响应 object with status / headers / content, error → 500, 空, other objects), the
              playground handler (result text, VarInput dictionaries, refusals); beside "one outcome" the ORDER is prescribed:
              JSON documents in document order, dictionaries in insertion order, values of one response header in insertion order
  big-*       (props/bigcoll.py) dictionaries of 30…300 keys written in a loop, most of them removed (first / last / three of four /
              random three quarters / all but a few / as a queue), grown again, copied before / after, nested; lists of 30…300 items
              shrunk by 左移 / 右移; observed by 显示, 所有索引, 所有值, 遍历, 生成JSON, the first differing member of a comparison:
              Go = model = spec semantics (insertion order) = the generator's ground truth, and N repetitions give that ONE outcome
  ext:*       (props/extdata.py) external data that repeats names — JSON objects with a key two or three times at any depth
              (解析JSON in programs, the application/json request body, the library called directly), header lines / query
              parameters repeated or differing in letter case or spelling, form bodies — observed by 显示, 所有索引, 所有值, 遍历,
              #key, copies, 写入/移除 afterwards, 生成JSON / the JSON response: N repetitions give ONE outcome and it is the
              outcome the spec semantics gives the same observations on a literal of the documented value
"""
import json, os, re
import framework as fw
from zngen import *
from props import progs
from props import extdata

RULE = ("every program is executed N=50 (quick) / 1000 (thorough) times inside one harness process and all N canonical outcomes "
        "(value, displayed lines, error class/code/line, plus the full error text) must coincide; generated programs pass through every "
        "classified map-range site: dictionary literals with 3–7 keys compared (为/不为/==//=) with a copy in another key order, with "
        "one value changed at each position, one key renamed, one key more/less, nested dictionaries and lists, lists of "
        "dictionaries with 包含/寻找, non-comparable values under a key (error 83 inside the loop); dictionaries displayed, "
        "所有索引/所有值/遍历 after 写入/移除; big dictionaries (30–300 keys written in a loop, three quarters or more removed, grown again, "
        "copied, nested) and big lists shrunk by 左移/右移, observed in insertion order; classes with 4–9 properties and 5–10 methods instantiated with and without "
        "constructor arguments, every property displayed, list properties mutated on one instance; import-all of @JSON/@文件 "
        "(once, twice = clash), of custom modules with 4–8 exports, of two modules sharing ≥ 2 names, selective imports; "
        "解析JSON of objects with 4–8 keys then 所有索引 (owned by C19); HTTP requests with 5–9 headers and 5–8 query parameters "
        "(request dictionaries displayed, response object with header names differing only in case); "
        "ExecExpressionInputText with 4–6 expressions of which 0–3 fail; external data repeating names (JSON objects with a key "
        "two or three times among ≥ 2 distinct keys, first/middle/last, at any depth, below shadowed values, \\u-spelt; through "
        "解析JSON, the application/json body and the library directly; header lines and query parameters repeated, in other letter "
        "cases, percent-encoded; form bodies): one outcome over N repetitions AND equal to the spec semantics' outcome of the same "
        "observations on a literal of the documented value (first place / last value; names ascending, first value). Non-trivial = the program reaches at least one site "
        "with ≥ 3 map entries. Modelled programs additionally: Go run = Lean model run = Lean spec run.")
ASSUMPTIONS = [
    "Go map iteration is modelled as an arbitrary permutation of the entries (the runtime in fact picks a random start bucket/offset); "
    "N repetitions in one process sample those choices, they do not enumerate them",
    "the Go scheduler, the address space and timing are not modelled; the inventory (`no_other_sources`) shows no goroutine, clock, "
    "%p or address comparison in the execution path, repetition stands in for the rest",
    "dictionary equality is proved content-only on a pure tree type mirroring Model/Interp.lean compareXEQ, not on the heap model",
    "sites owned by other properties are only listed: JSON encoder/decoder (C19), module-graph DFS (C15), process manager (C20)",
]
PARTIAL = ("no whole-run theorem `run π₁ = run π₂`: the evaluator model has no oracle parameter; per-site theorems + complete inventory + "
           "repetition runs stand in (see Properties/C11.lean, last section)")
TRUSTED_EXTRA = ["go/types (type-checks the interpreter packages from source to find every range over a map)"]

KEYPOOL = ['A', 'B', 'C', 'D', 'E', 'F', 'G', '甲', '乙', '丙', 'k1', 'k2', '名', 'x-y']
FP_FILE = os.path.join(os.path.dirname(os.path.abspath(__file__)), 'c11_fingerprints.json')


def scalar(rng):
    r = rng.random()
    if r < 0.5:
        return Num(rng.choice(['0', '1', '2', '3', '7', '10', '-1', '0.5', '2.5', '100']))
    if r < 0.8:
        return Str(rng.choice(['', 'a', 'ab', '甲', '你好', 'x y']))
    return Var(rng.choice(['真', '假', '空']))


def value(rng, depth):
    r = rng.random()
    if depth <= 0 or r < 0.6:
        return scalar(rng)
    if r < 0.8:
        return Arr([value(rng, depth - 1) for _ in range(rng.randint(0, 3))])
    ks = rng.sample(KEYPOOL, rng.randint(1, 4))
    return Dict([(Str(k), value(rng, depth - 1)) for k in ks])


def different(rng, v):
    """a value certainly different from the literal v"""
    if isinstance(v, Num):
        return Num(v.lit + '1') if not v.lit.startswith('-') else Num('5')
    if isinstance(v, Str):
        return Str(v.s + 'z')
    if isinstance(v, Var):
        return Num('42')
    return Str('≠')


class Gen:
    def __init__(self, rng):
        self.rng = rng
        self.n = 0

    def fresh(self):
        self.n += 1
        return self.n

    # ---- dictionary comparison ---------------------------------------------------------------------
    def variant(self, kvs):
        """(kind, kvs') — a dictionary related to kvs"""
        rng = self.rng
        kind = rng.choice(['same', 'perm', 'perm', 'value', 'value', 'value', 'key', 'less', 'more', 'nested-perm'])
        kv = list(kvs)
        if kind == 'same':
            return kind, kv
        if kind == 'perm':
            rng.shuffle(kv)
            return kind, kv
        if kind == 'value':
            i = rng.randrange(len(kv))
            kv[i] = (kv[i][0], different(rng, kv[i][1]))
            if rng.random() < 0.5:
                rng.shuffle(kv)
            return kind + ':%d/%d' % (i + 1, len(kv)), kv
        if kind == 'key':
            i = rng.randrange(len(kv))
            kv[i] = (Str(kv[i][0].s + '′'), kv[i][1])
            return kind, kv
        if kind == 'less':
            del kv[rng.randrange(len(kv))]
            return kind, kv
        if kind == 'more':
            kv.insert(rng.randrange(len(kv) + 1), (Str('新'), scalar(rng)))
            return kind, kv
        # nested-perm: permute inside nested dictionaries too
        def deep(v):
            if isinstance(v, Dict):
                inner = [(k, deep(x)) for k, x in v.kvs]
                rng.shuffle(inner)
                return Dict(inner)
            if isinstance(v, Arr):
                return Arr([deep(x) for x in v.items])
            return v
        kv = [(k, deep(v)) for k, v in kv]
        rng.shuffle(kv)
        return kind, kv

    def dictcmp_program(self):
        rng = self.rng
        nk = rng.randint(3, 7)
        keys = rng.sample(KEYPOOL, nk)
        kvs = [(Str(k), value(rng, 2)) for k in keys]
        body = [Decl(['甲典'], Dict(kvs))]
        names = ['甲典']
        kinds = []
        for i in range(rng.randint(1, 4)):
            kind, kv = self.variant(kvs)
            kinds.append(kind)
            nm = '典%d' % self.fresh()
            body.append(Decl([nm], Dict(kv)))
            names.append(nm)
        for nm in names[1:]:
            op = rng.choice(['xeq', 'xne', 'eq', 'ne'])
            l, r = (Var('甲典'), Var(nm)) if rng.random() < 0.7 else (Var(nm), Var('甲典'))
            body.append(ExprS(Call('显示', [Bin(op, l, r)])))
        # lists of dictionaries
        lst = [Var(n) for n in names]
        rng.shuffle(lst)
        body.append(Decl(['表'], Arr(lst[:max(1, len(lst) - 1)])))
        for nm in rng.sample(names, min(2, len(names))):
            body.append(ExprS(Call('显示', [MCall(Var('表'), [('包含', [Var(nm)])])])))
            body.append(ExprS(Call('显示', [MCall(Var('表'), [('寻找', [Var(nm)])])])))
        body.append(Ret(Bin('xeq', Var('甲典'), Var(names[-1]))))
        return Program([], body), {}, 'dictcmp ' + ','.join(kinds)

    def dicterr_program(self):
        """a non-comparable value (an object) under a key: error 83 raised inside the comparison loop"""
        rng = self.rng
        nk = rng.randint(3, 5)
        keys = rng.sample(KEYPOOL[:7], nk)
        pos = rng.randrange(nk)
        body = [Class('物', [('甲', Num('1'))], []), Decl(['某'], New('物', []))]
        kv1 = [(Str(k), (Var('某') if i == pos else Num(str(i)))) for i, k in enumerate(keys)]
        kv2 = list(kv1)
        j = rng.randrange(nk)
        if j != pos:
            kv2[j] = (kv2[j][0], Num('77'))
        body.append(Decl(['左'], Dict(kv1)))
        body.append(Decl(['右'], Dict(kv2)))
        body.append(ExprS(Call('显示', [Str('前')])))
        k = rng.random()
        if k < 0.5:
            cmp_ = ExprS(Call('显示', [Bin(rng.choice(['xeq', 'xne']), Var('左'), Var('右'))]))
        else:
            # the same comparison reached through a list method (包含 / 寻找 use the value comparison of the list's items)
            cmp_ = ExprS(Call('显示', [MCall(Arr([Var('左'), Var('右')] if rng.random() < 0.5 else [Num('0'), Var('左')]),
                                             [(rng.choice(['包含', '寻找']), [Var('右')])])]))
        catches = []
        body.append(cmp_)
        body.append(ExprS(Call('显示', [Str('后')])))
        return Program([], body, catches), {}, 'dicterr'

    # ---- dictionaries displayed and iterated -------------------------------------------------------
    def dictiter_program(self):
        rng = self.rng
        nk = rng.randint(4, 8)
        keys = rng.sample(KEYPOOL, nk)
        kvs = [(Str(k), value(rng, 1)) for k in keys]
        if rng.random() < 0.35:
            # a literal that names a key again: the key keeps its first place and takes the last value, whatever the map does
            for _ in range(rng.randint(1, 2)):
                kvs.insert(rng.randint(1, len(kvs)), (Str(rng.choice(keys)), value(rng, 1)))
        body = [Decl(['典'], Dict(kvs))]
        for _ in range(rng.randint(0, 4)):
            if rng.random() < 0.6:
                body.append(ExprS(MCall(Var('典'), [('写入', [Str(rng.choice(KEYPOOL)), scalar(rng)])])))
            else:
                body.append(ExprS(MCall(Var('典'), [('移除', [Str(rng.choice(keys))])])))
        body.append(ExprS(Call('显示', [Var('典')])))
        body.append(ExprS(Call('显示', [Prop(Var('典'), '所有索引'), Prop(Var('典'), '所有值'), Prop(Var('典'), '数目')])))
        body.append(Iter(['键', '值'], Var('典'), [ExprS(Call('显示', [Var('键'), Var('值')]))]))
        body.append(Decl(['副'], Var('典')))
        body.append(ExprS(Call('显示', [Bin('xeq', Var('副'), Var('典')), Prop(Var('副'), '所有索引')])))
        body.append(Ret(Prop(Var('典'), '所有索引')))
        return Program([], body), {}, 'dictiter'

    # ---- objects -----------------------------------------------------------------------------------
    def object_program(self):
        rng = self.rng
        np_ = rng.randint(4, 9)
        props = ['性%d' % i for i in range(np_)]
        defaults = []
        for p in props:
            r = rng.random()
            if r < 0.5:
                defaults.append((p, scalar(rng)))
            elif r < 0.8:
                defaults.append((p, Arr([Num(str(rng.randint(0, 9))) for _ in range(rng.randint(0, 3))])))
            else:
                defaults.append((p, Dict([(Str(k), scalar(rng)) for k in rng.sample(KEYPOOL, rng.randint(1, 4))])))
        methods = []
        nm = rng.randint(5, 10)
        for i in range(nm):
            p = rng.choice(props)
            methods.append(Func('法%d' % i, [], [ExprS(Call('显示', [Str('法%d' % i), This(p)])), Ret(This(p))]))
        listprops = [p for p, d in defaults if isinstance(d, Arr)]
        if listprops:
            methods.append(Func('增', ['物'], [ExprS(MCall(This(listprops[0]), [('后增', [Var('物')])])), Ret(This(listprops[0]))]))
        body = [Class('类', defaults, methods)]
        ctor = rng.random() < 0.6
        if ctor:
            k = rng.randint(1, min(3, np_))
            cps_ = rng.sample(props, k)
            body.append(Func('类', ['参%d' % i for i in range(k)],
                             [ExprS(Assign(This(p), Var('参%d' % i))) for i, p in enumerate(cps_)], ctor=True))
        objs = []
        for j in range(rng.randint(2, 3)):
            o = '体%d' % j
            args = [scalar(rng) for _ in range(k)] if ctor else []
            body.append(Decl([o], New('类', args)))
            objs.append(o)
        for o in objs:
            body.append(ExprS(Call('显示', [Prop(Var(o), p) for p in props])))
        if listprops:
            body.append(ExprS(Call('显示', [MCall(Var(objs[0]), [('增', [Num('99')])])])))
        for o in objs:
            for i in rng.sample(range(nm), min(3, nm)):
                body.append(ExprS(MCall(Var(o), [('法%d' % i, [])])))
            body.append(ExprS(Call('显示', [Prop(Var(o), p) for p in props])))
        if rng.random() < 0.2:
            body.append(ExprS(Call('显示', [Prop(Var(objs[0]), '无此性')])))
        body.append(Ret(Prop(Var(objs[-1]), props[0])))
        return Program([], body), {}, 'object'


# ---- raw-source programs (not covered by the evaluator model: imports, JSON) ---------------------------------------

def module_source(rng, names, tag):
    out = []
    for n in names:
        if rng.random() < 0.75:
            out.append('如何%s？\n    输出“%s·%s”\n' % (n, tag, n))
        else:
            out.append('定义%s：\n    其值设为“%s·%s”\n' % (n, tag, n))
    return '\n'.join(out)


EXPORT_POOL = ['甲', '乙', '丙', '丁', '戊', '己', '庚', '辛', '壬', '癸']


def import_cases(rng, n_each, N):
    """(kind, protocol line, expects_error)"""
    cases = []
    for lib, fns in (('@JSON', ['解析JSON', '生成JSON']), ('@文件', ['读取文件', '写入文件', '读取目录'])):
        cases.append(('std-once', 'repeat %d %s' % (N, cps('导入《%s》\n输出1' % lib))))
        cases.append(('std-twice', 'repeat %d %s' % (N, cps('导入《%s》\n导入《%s》\n输出1' % (lib, lib)))))
        cases.append(('std-select', 'repeat %d %s' % (N, cps('导入《%s》之%s\n导入《%s》\n输出1' % (lib, fns[-1], lib)))))
    cases.append(('std-both', 'repeat %d %s' % (N, cps('导入《@JSON》\n导入《@文件》\n导入《@JSON》\n输出1'))))
    # a generation that fails (non-finite number, caught) and a good one after it: what the second one yields must not depend on what the
    # first one left behind, nor on when the collector ran
    cases.append(('std-use-after-failure', 'repeat %d %s' % (N, cps('导入《@JSON》\n如何试？\n    输出（生成JSON：【“x” = 【“a” = 1，“坏” = 1*10^308 * 10】】）\n    拦截异常：\n        输出 “败”\n令甲设为（试）\n（显示：甲）\n（显示：（生成JSON：【“a” = 1，“b” = 【2，3】】））\n输出（试）'))))
    cases.append(('std-use', 'repeat %d %s' % (N, cps('导入《@JSON》\n令典设为【“b” = 1，“a” = 2，“d” = 【3，4】，“c” = “x”】\n（显示：（生成JSON：典））\n输出（生成JSON：典）'))))

    def files(fs, main):
        return 'repeatfiles %d %d %s %s' % (N, len(fs), ' '.join(hx(k) + ' ' + cps(v) for k, v in fs), hx(main))

    for _ in range(n_each):
        na = rng.randint(4, 8)
        a = rng.sample(EXPORT_POOL, na)
        funcs_a = a
        src_a = module_source(rng, a, 'A')
        use = rng.sample(a, 3)
        calls = '\n'.join('（显示：“%s”）' % u for u in use)
        kind = rng.choice(['once', 'twice', 'two-clash', 'two-disjoint', 'select-then-all', 'nested'])
        if kind == 'once':
            main = '导入《A》\n%s\n输出%d' % (calls, na)
            fs = [('A.zn', src_a), ('main.zn', main)]
        elif kind == 'twice':
            fs = [('A.zn', src_a), ('main.zn', '导入《A》\n导入《A》\n输出1')]
        elif kind == 'two-clash':
            shared = rng.sample(a, rng.randint(2, min(4, na)))
            b = shared + [x + '二' for x in rng.sample(EXPORT_POOL, 2)]
            rng.shuffle(b)
            fs = [('A.zn', src_a), ('B.zn', module_source(rng, b, 'B')), ('main.zn', '导入《A》\n导入《B》\n输出1')]
        elif kind == 'two-disjoint':
            b = [x + '二' for x in rng.sample(EXPORT_POOL, rng.randint(4, 6))]
            fs = [('A.zn', src_a), ('B.zn', module_source(rng, b, 'B')), ('main.zn', '导入《A》\n导入《B》\n输出2')]
        elif kind == 'select-then-all':
            sel = rng.sample(a, 2)
            fs = [('A.zn', src_a), ('main.zn', '导入《A》之%s\n导入《A》\n输出1' % '、'.join(sel))]
        else:
            # B imports A (import-all) and re-exports nothing; main imports both
            b = [x + '二' for x in rng.sample(EXPORT_POOL, 4)]
            fs = [('A.zn', src_a), ('B.zn', '导入《A》\n' + module_source(rng, b, 'B')), ('main.zn', '导入《B》\n导入《A》\n输出3')]
        cases.append(('mod-' + kind, files(fs, 'main.zn')))
    return cases


def json_cases(rng, n, N):
    cases = []
    for _ in range(n):
        nk = rng.randint(4, 8)
        keys = rng.sample(['a', 'b', 'c', 'd', 'e', 'f', 'g', 'h', 'zz', 'k1', 'k2'], nk)
        obj = '{' + ','.join('"%s":%s' % (k, rng.choice(['1', '"x"', 'true', 'null', '[1,2]', '{"p":1,"q":2,"r":3,"s":4}'])) for k in keys) + '}'
        src = '导入《@JSON》\n令典设为（解析JSON：「%s」）\n（显示：典之所有索引）\n输出典之所有索引' % obj
        cases.append(('json-parse', 'repeat %d %s' % (N, cps(src))))
    return cases


def http_cases(rng, n, N):
    cases = []
    hpool = ['X-A', 'X-B', 'X-C', 'X-D', 'X-E', 'Accept', 'User-Agent', 'x-lower', 'Cookie', 'Referer', 'X-Trace-Id']
    # names that differ only in letter case, or repeat: any ordering rule that is not total over the distinct names leaves
    # their relative order to the map
    qpool = ['a', 'b', 'c', 'd', 'e', 'f', 'page', 'q', '名', 'A', 'Page', 'PAGE', 'Q', 'tag', 'Tag', 'TAG']
    progs_ = [
        '输入当前请求\n（显示：当前请求之头部之所有索引）\n输出当前请求之头部之所有索引',
        '输入当前请求\n（显示：当前请求之查询参数之所有索引）\n输出当前请求之查询参数之所有值',
        '输入当前请求\n（显示：当前请求之头部）\n（显示：当前请求之查询参数）\n输出当前请求之路径',
        '输入当前请求\n以键、值遍历当前请求之头部：\n    （显示：键、值）\n输出当前请求之方法',
        '导入《@验证HTTP》\n输入当前请求\n令头设为【“x-a” = “1”，“X-A” = “2”，“x-A” = “3”，“X-a” = “4”，“K” = “5”】\n输出（新建HTTP响应：201、“好”、头）',
    ]
    for i in range(n):
        hs = rng.sample(hpool, rng.randint(5, 9))
        qs = rng.sample(qpool, rng.randint(5, 8))
        target = '/路?' + '&'.join('%s=%d' % (q, j) for j, q in enumerate(qs))
        from urllib.parse import quote
        target = quote(target, safe='/?&=')
        src = progs_[i % len(progs_)]
        line = 'httpreq %d %s %s %d %s %s %s' % (N, hx('GET'), hx(target), len(hs),
                                                 ' '.join(hx(h) + ' ' + hx('v%d' % j) for j, h in enumerate(hs)), hx(''), cps(src))
        cases.append(('http-%d' % (i % len(progs_)), line))
    return cases


def exprinput_cases(rng, n, N):
    cases = []
    good = ['1 + 2', '【1，2】', '“文”', '3 * 3', '真', '【“a” = 1】']
    bad = ['1 / 0', '“x” + 1', '甲', '（', '1 +']
    for _ in range(n):
        k = rng.randint(4, 6)
        nb = rng.randint(0, 3)
        exprs = [rng.choice(bad) for _ in range(nb)] + [rng.choice(good) for _ in range(k - nb)]
        rng.shuffle(exprs)
        names = rng.sample(KEYPOOL, k)
        cases.append(('exprinput-%dbad' % nb, 'exprinput %d %s' % (N, ' '.join(hx(nm) + ' ' + hx(e) for nm, e in zip(names, exprs)))))
    return cases


# ---- pure-tree dictionary equality: Go compareLogicXEQ vs Model.MapSites.xeq vs order-free spec --------------------

def tree(rng, depth):
    r = rng.random()
    if depth <= 0 or r < 0.45:
        k = rng.random()
        if k < 0.5:
            return ('n', rng.choice([0, 1, 2, 3, 7, 10, -1, 100]))
        if k < 0.8:
            return ('s', rng.choice(['', 'a', 'ab', '甲', '你好']))
        if k < 0.93:
            return ('b', rng.random() < 0.5)
        return ('z',)
    if r < 0.65:
        return ('a', [tree(rng, depth - 1) for _ in range(rng.randint(0, 3))])
    ks = rng.sample(KEYPOOL, rng.randint(0, 5))
    return ('h', [(k, tree(rng, depth - 1)) for k in ks])


def tree_variant(rng, t):
    """same contents in other key orders, or one small difference somewhere"""
    kind = t[0]
    if kind == 'h':
        kv = [(k, tree_variant(rng, v) if rng.random() < 0.25 else reorder(rng, v)) for k, v in t[1]]
        r = rng.random()
        if r < 0.55:
            rng.shuffle(kv)
        elif r < 0.65 and kv:
            i = rng.randrange(len(kv))
            kv[i] = (kv[i][0] + '′', kv[i][1])
        elif r < 0.75 and kv:
            del kv[rng.randrange(len(kv))]
        elif r < 0.85:
            kv.insert(rng.randrange(len(kv) + 1), ('新', ('n', 5)))
        elif kv:
            i = rng.randrange(len(kv))
            kv[i] = (kv[i][0], ('s', '≠'))
        return ('h', kv)
    if kind == 'a':
        items = [tree_variant(rng, x) if rng.random() < 0.3 else reorder(rng, x) for x in t[1]]
        if rng.random() < 0.15:
            items = items[:-1] if items else [('z',)]
        return ('a', items)
    if rng.random() < 0.2:
        return ('n', 41)
    return t


def reorder(rng, t):
    if t[0] == 'h':
        kv = [(k, reorder(rng, v)) for k, v in t[1]]
        rng.shuffle(kv)
        return ('h', kv)
    if t[0] == 'a':
        return ('a', [reorder(rng, x) for x in t[1]])
    return t


def tree_zn(t):
    k = t[0]
    if k == 'n':
        return str(t[1])
    if k == 's':
        return '“%s”' % t[1]
    if k == 'b':
        return '真' if t[1] else '假'
    if k == 'z':
        return '空'
    if k == 'a':
        return '【' + '，'.join(tree_zn(x) for x in t[1]) + '】'
    if not t[1]:
        return '【=】'
    return '【' + '，'.join('“%s” = %s' % (kk, tree_zn(v)) for kk, v in t[1]) + '】'


def tree_sx(t):
    k = t[0]
    if k == 'n':
        return '(n %d)' % t[1]
    if k == 's':
        return '(s %s)' % hx(t[1])
    if k == 'b':
        return '(b %d)' % (1 if t[1] else 0)
    if k == 'z':
        return '(z)'
    if k == 'a':
        return '(a' + ''.join(' ' + tree_sx(x) for x in t[1]) + ')'
    return '(h' + ''.join(' (%s %s)' % (hx(kk), tree_sx(v)) for kk, v in t[1]) + ')'


def xeqtree_stream(ctx, n):
    rng = ctx.rng
    go_lines, m_lines, s_lines = [], [], []
    for _ in range(n):
        l = tree(rng, 3)
        if l[0] not in ('h', 'a') and rng.random() < 0.8:
            l = ('h', [(k, tree(rng, 2)) for k in rng.sample(KEYPOOL, rng.randint(3, 6))])
        r = reorder(rng, l) if rng.random() < 0.4 else tree_variant(rng, l)
        if rng.random() < 0.5:
            l, r = r, l
        neg = rng.random() < 0.3
        go_lines.append('run %s' % cps('令左设为%s\n令右设为%s\n输出 左 %s 右' % (tree_zn(l), tree_zn(r), '不为' if neg else '为')))
        m_lines.append(('-' if neg else '+') + 'xeqtree 64 ( %s %s )' % (tree_sx(l), tree_sx(r)))
    go = ctx.run_go(go_lines)
    model = ctx.run_lean([m[1:] for m in m_lines])
    spec = ctx.run_lean(['spec:' + m[1:] for m in m_lines])
    for gl, ml, g, m, s in zip(go_lines, m_lines, go, model, spec):
        ctx.evaluations += 1
        neg = ml[0] == '-'

        def want(ans):
            if ans in ('ok 1', 'ok 0'):
                v = (ans == 'ok 1') != neg
                return 'ok b:%d | -' % (1 if v else 0)
            return ans
        if want(m) != g:
            ctx.disagreement('xeqtree', gl, g, m + (' (negated)' if neg else ''))
        if s != 'unspecified' and want(s) != g:
            ctx.violation('xeqtree', gl, g, s + (' (negated)' if neg else ''))
        ctx.count('xeqtree:' + g.split(' |')[0])
        ctx.nontriv(gl)
    ctx.streams.append({'stream': 'xeqtree', 'cases': n})
    ctx.sample({'stream': 'xeqtree', 'go_case': go_lines[0][:300], 'lean_case': m_lines[0][1:300], 'go': go[0], 'model': model[0], 'spec': spec[0]})


def par_go(ctx, lines, timeout_ms=120000, ways=8):
    """repetition lines are slow (N executions each): spread them over several harness processes"""
    if len(lines) < 2 * ways:
        return ctx.run_go(lines, timeout_ms=timeout_ms)
    from concurrent.futures import ThreadPoolExecutor
    size = (len(lines) + ways - 1) // ways
    chunks = [lines[i:i + size] for i in range(0, len(lines), size)]
    with ThreadPoolExecutor(max_workers=ways) as ex:
        parts = list(ex.map(lambda c: ctx.run_go(c, timeout_ms=timeout_ms, parallel=False), chunks))
    return [a for part in parts for a in part]


# ---- the real handlers of pkg/server, every branch (harness op `hrep`: the same request N times through one handler) ----
# A case: (kind, step, oracle) — oracle(status, headers, body bytes, trace) → None | what is wrong. Beside "one outcome in N
# repetitions" the order oracles say WHICH order: the members of a JSON document in document order, the keys of a dictionary
# in insertion order, the values given to one response header in insertion order.

def _json_pairs(text):
    return json.loads(text, object_pairs_hook=lambda ps: ('obj', [(k, v) for k, v in ps]))


def _rand_json_obj(rng, depth=0):
    nk = rng.randint(4, 8)
    keys = rng.sample(['a', 'b', 'c', 'd', 'e', 'f', 'g', 'h', 'zz', 'k1', 'k2', '名', '10', '9', 'A', 'B'], nk)
    parts = []
    for k in keys:
        r = rng.random()
        if depth < 2 and r < 0.3:
            v = _rand_json_obj(rng, depth + 1)
        elif r < 0.45:
            v = '[%s]' % ','.join((_rand_json_obj(rng, depth + 1) if depth < 2 and rng.random() < 0.3 else rng.choice(['1', '"x"']))
                                  for _ in range(rng.randint(0, 3)))
        else:
            v = rng.choice(['1', '2.5', '"x"', 'true', 'null', '"文"', '-3'])
        parts.append('%s:%s' % (json.dumps(k, ensure_ascii=False), v))
    return '{' + ','.join(parts) + '}'


def _zn_dict(rng, depth=0):
    """a dictionary literal and the JSON-pairs value it denotes"""
    nk = rng.randint(4, 8)
    keys = rng.sample(['a', 'b', 'c', 'd', 'e', 'f', 'g', 'h', 'zz', 'k1', 'k2', '名', 'A', 'B'], nk)
    items, pairs = [], []
    for k in keys:
        r = rng.random()
        if depth < 2 and r < 0.3:
            lit, val = _zn_dict(rng, depth + 1)
        elif r < 0.45:
            lit, val = '【1，“x”】', [1, 'x']
        else:
            lit, val = rng.choice([('1', 1), ('2.5', 2.5), ('“x”', 'x'), ('真', True), ('空', None), ('“文”', '文')])
        items.append('“%s” = %s' % (k, lit))
        pairs.append((k, val))
    return '【' + '，'.join(items) + '】', ('obj', pairs)


def _expect_json(want):
    def oracle(status, hdrs, body, trace):
        if status != 200:
            return 'status %d, expected 200' % status
        try:
            got = _json_pairs(body.decode('utf-8'))
        except ValueError:
            return 'the body is not JSON'
        if got != want:
            return 'JSON members are not in the order (or not the values) of the source: expected %s' % json.dumps(want, ensure_ascii=False)[:300]
    return oracle


def _expect_status(code, body=None, ctype=None):
    def oracle(status, hdrs, b, trace):
        if status != code:
            return 'status %d, expected %d' % (status, code)
        if body is not None and b.decode('utf-8', 'replace') != body:
            return 'body %r, expected %r' % (b.decode('utf-8', 'replace')[:80], body)
        if ctype is not None and not (hdrs.get('Content-Type') or [''])[0].startswith(ctype):
            return 'content type %r, expected %s' % (hdrs.get('Content-Type'), ctype)
    return oracle


def _expect_trace(lines):
    want = ','.join(hx(l) for l in lines)

    def oracle(status, hdrs, b, trace):
        if trace != want:
            return 'displayed lines are not in the order of the source: expected %s' % lines
    return oracle


def handler_cases(rng, scale):
    from props import srvgen as sg
    cases = []
    IN = '输入当前请求\n'
    J = [('Content-Type', 'application/json')]
    web = lambda name, entry, oracle, **kw: cases.append((name, sg.http_step(entry, **kw), oracle))
    # -- buildIncomingRequestBody: JSON object (document order), JSON non-object, malformed, other content types, empty, unreadable, nil
    for _ in range(4 * scale):
        doc = _rand_json_obj(rng)
        tree = _json_pairs(doc)
        keys = [k for k, _ in tree[1]]
        web('body-json-keys', IN + '输出当前请求之内容之所有索引\n', _expect_json(keys), method='POST', target='/a?x=1', headers=J, body=doc)
        web('body-json-echo', IN + '输出当前请求之内容\n', _expect_json(tree), method='POST', target='/a', headers=J, body=doc)
        web('body-json-iterate', IN + '以键、值遍历当前请求之内容：\n    （显示：键）\n输出“完”\n', _expect_trace(keys), method='PUT', target='/a', headers=J, body=doc)
    for doc in ('[3,1,2]', '"文"', '12.5', 'null', 'true', '{"a":', '', '{"a":1} x', '{"a":1,"a":2,"b":3,"a":4}'):
        web('body-json-other', IN + '输出当前请求之内容\n', None, method='POST', target='/a', headers=J, body=doc)
    for ct, body in (('application/json; charset=utf-8', '{"b":1,"a":2}'), ('application/x-www-form-urlencoded', 'b=1&a=2&c=%E5%90%8D'),
                     ('text/plain', '文本 体'), ('multipart/form-data; boundary=x', '--x\r\nContent-Disposition: form-data; name="a"\r\n\r\n1\r\n--x--\r\n')):
        web('body-text', IN + '输出当前请求之内容\n', _expect_status(200, body, 'text/plain'), method='POST', target='/a', headers=[('Content-Type', ct)], body=body)
    web('body-empty', IN + '输出【当前请求之内容，当前请求之方法】\n', _expect_json(['', 'GET']), method='GET', target='/a')
    web('body-unreadable', IN + '输出当前请求之内容\n', _expect_status(500), method='POST', target='/a', headers=J, body='{"a":1}', kind='httpT')
    web('body-nil', IN + '输出当前请求之内容\n', _expect_status(200, ''), method='POST', target='/a', headers=J, body='{"a":1}', kind='httpN')
    web('request-object', IN + '（显示：当前请求之URL、当前请求之路径、当前请求之方法）\n输出当前请求之查询参数\n', _expect_json(('obj', [('a', '2'), ('k', '名'), ('z', '1')])),
        method='DELETE', target='/路/b?z=1&k=%E5%90%8D&a=2&k=3')
    # -- sendHTTPResponse: text, number, dictionary / list → JSON (insertion order), HTTP响应 object, error → 500, 空, others
    web('resp-text', IN + '输出“文 本”\n', _expect_status(200, '文 本', 'text/plain'))
    web('resp-number', IN + '输出 3.5\n', _expect_status(200, '3.5', 'text/plain'))
    web('resp-number', IN + '输出 1 / 3\n', _expect_status(200, '0.3333333333333333'))
    web('resp-number', IN + '输出 10\n', _expect_status(200, '10'))
    for _ in range(5 * scale):
        lit, tree = _zn_dict(rng)
        web('resp-dict', IN + '输出%s\n' % lit, _expect_json(tree))
        web('resp-dict-grown', IN + '令典设为%s\n典#“新” = 1\n典#“%s” = 0\n输出典\n' % (lit, tree[1][1][0]),
            _expect_json(('obj', [(k, 0 if k == tree[1][1][0] else v) for k, v in tree[1]] + [('新', 1)])))
        web('resp-list-of-dicts', IN + '输出【%s，1，%s】\n' % (lit, lit), _expect_json([tree, 1, tree]))
        web('resp-object-dict-content', '导入《@验证HTTP》\n' + IN + '输出（新建HTTP响应：201、%s）\n' % lit,
            lambda st, h, b, t, tree=tree: (_expect_status(201, None, 'application/json')(st, h, b, t) or _expect_json(tree)(200, h, b, t)))
        web('resp-object-content-replaced', '导入《@验证HTTP》\n' + IN + '令答设为（新建HTTP响应：202、“好”）\n答之内容 = %s\n输出答\n' % lit,
            lambda st, h, b, t, tree=tree: (_expect_status(202)(st, h, b, t) or _expect_json(tree)(200, h, b, t)))
    web('resp-dict-unjsonable', IN + '如何f？\n    输出 1\n输出【b = f，a = 1】\n', None)
    # a number JSON cannot write (the literal 1*10^999 is +Inf): the two refusals of ElementToJSONString inside sendHTTPResponse
    web('resp-dict-unjsonable', IN + '输出【b = 1，a = 1*10^999】\n', _expect_status(500))
    web('resp-dict-unjsonable', IN + '输出【1，1*10^999】\n', _expect_status(500))
    web('resp-dict-unjsonable', '导入《@验证HTTP》\n' + IN + '令答设为（新建HTTP响应：202、“好”）\n答之内容 = 【a = 1*10^999】\n输出答\n', _expect_status(500))
    web('resp-dict-unjsonable', '导入《@验证HTTP》\n' + IN + '输出（新建HTTP响应：202、【a = 1*10^999】）\n', _expect_status(500))
    web('resp-number', IN + '输出 1*10^999\n', _expect_status(200, '+Inf'))
    names = ['X-A', 'x-a', 'X-a', 'x-A', 'K', 'Set-Cookie', 'set-cookie', 'Content-Type']
    for _ in range(3 * scale):
        hs = rng.sample(names, rng.randint(5, 8))
        lit = '【' + '，'.join('“%s” = “v%d”' % (h, i) for i, h in enumerate(hs)) + '】'

        def hdr_oracle(st, h, b, t, hs=hs):
            if st != 404:
                return 'status %d, expected 404' % st
            want = {}
            for i, n in enumerate(hs):
                want.setdefault('-'.join(w.capitalize() for w in n.split('-')), []).append('v%d' % i)
            if h != want:
                return 'response header values are not in insertion order: expected %s' % want
        web('resp-object-headers', '导入《@验证HTTP》\n' + IN + '输出（新建HTTP响应：404、“无”、%s）\n' % lit, hdr_oracle)
    if os.environ.get('VERIF_C11_HANDLER_PANICS', '0') == '1':
        # a response object whose 状态码 is no number / whose 头部 is no dictionary: sendHTTPResponse panics on a type assertion (a C10
        # matter, DESIGN §12.9) — generated only on request
        web('resp-object-status-not-number', '导入《@验证HTTP》\n' + IN + '令答设为（新建HTTP响应：200、“好”）\n答之状态码 = “二百”\n输出答\n', _expect_status(500))
        web('resp-object-headers-not-dict', '导入《@验证HTTP》\n' + IN + '令答设为（新建HTTP响应：200、“好”）\n答之头部 = 5\n输出答\n', _expect_status(500))
    web('resp-error', IN + '输出 1 / 0\n', _expect_status(500, None, 'text/plain'))
    web('resp-error', '令令令\n', _expect_status(500))
    web('resp-error', IN + '如何坏？\n    抛出异常：“坏”！\n（坏）\n', _expect_status(500))
    web('resp-error', '输入当前请求、乙\n输出 1\n', _expect_status(500))
    web('resp-null', IN + '输出 空\n', _expect_status(200, '空'))
    web('resp-null', IN + '令甲设为1\n', _expect_status(200))
    web('resp-bool', IN + '输出 真\n', _expect_status(200, '真'))
    web('resp-other-object', IN + '定义狗：\n    其名设为“旺”\n输出（新建狗）\n', _expect_status(200, ''))
    web('resp-function', IN + '如何f？\n    输出 1\n输出 f\n', _expect_status(200))
    web('resp-request-object', IN + '输出当前请求\n', _expect_status(200, ''))
    # -- the playground handler: result text of dictionaries (insertion order), VarInput dictionaries, refusals
    pg = lambda name, oracle, **kw: cases.append((name, sg.pg_step(**kw), oracle))
    for _ in range(3 * scale):
        lit, tree = _zn_dict(rng)
        keys = [k for k, _ in tree[1]]
        pg('pg-dict-keys', _expect_status(200, '[' + '，'.join(keys) + ']'), source='输出%s之所有索引\n' % lit)
        pg('pg-varinput-dict-keys', _expect_status(200, '[' + '，'.join(keys) + ']'), source='输入典\n输出典之所有索引\n', varinput='典 = %s' % lit)
        pg('pg-json', lambda st, h, b, t, tree=tree: _expect_json(tree)(st, h, b, t), source='导入《@JSON》\n输出（生成JSON：%s）\n' % lit)
        pg('pg-dict-shown', None, source='（显示：%s）\n输出%s\n' % (lit, lit))
    many = '\n'.join('%s = %d' % (n, i) for i, n in enumerate(['丁', '甲', '丙', '乙', '戊', '己']))
    pg('pg-varinput-many', _expect_status(200, '[0，1，2，3，4，5]'), source='输入丁、甲、丙、乙、戊、己\n输出【丁，甲，丙，乙，戊，己】\n', varinput=many)
    pg('pg-varinput-many-missing', _expect_status(500), source='输入丁、甲、庚、辛\n输出 1\n', varinput=many)
    pg('pg-varinput-two-errors', _expect_status(500), source='输出 1\n', varinput='甲 = 子\n乙 = 丑\n丙 = 寅\n丁 = 卯')
    pg('pg-refused', _expect_status(500), raw=b'{')
    pg('pg-refused', _expect_status(500), raw=b'[1,2]')
    pg('pg-refused', _expect_status(500), raw='{"SourceCode":"输出 1"}'.encode(), truncated=True)
    pg('pg-error', _expect_status(500), source='输出 1 / 0\n')
    pg('pg-error', _expect_status(500), source='令令令\n')
    pg('pg-null', _expect_status(200, ''), source='令甲设为1\n')
    pg('pg-text', _expect_status(200, '文'), source='输出“文”\n')
    return cases


def handler_stream(ctx, N, scale):
    from props import srvgen as sg
    cases = handler_cases(ctx.rng, scale)
    lines = ['hrep %d %s' % (N, st) for _, st, _ in cases]
    ans = par_go(ctx, lines)
    if ans and all(a == 'bad-op' for a in ans):
        ctx.count('handlers:unavailable', len(ans))
        return
    for (kind, st, oracle), line, a in zip(cases, lines, ans):
        ok = judge_rep(ctx, 'rep:handler:' + kind, line, a)
        ctx.nontriv(line)
        ctx.count('rep:handler:' + kind)
        if not ok:
            continue
        p = sg.parse_resp(a[len('rep 1 '):])
        if p is None:
            if os.environ.get('VERIF_C11_HANDLER_PANICS', '0') == '1' or not a.startswith('rep 1 panic'):
                ctx.violation('rep:handler:' + kind + ':no-response', line, a[:300], 'an HTTP response')
            continue
        ctx.count('rep:handler:status:%d' % p[0])
        if oracle is not None:
            ctx.evaluations += 1
            bad = oracle(*p)
            if bad:
                ctx.violation('rep:handler:' + kind + ':order', line, sg.show(a[len('rep 1 '):]) + ' ' + json.dumps({k: v for k, v in p[1].items() if k != 'Content-Type'}, ensure_ascii=False)[:200] + ' | ' + p[3][:120], bad)
    ctx.streams.append({'stream': 'rep:handler', 'cases': len(lines), 'repetitions': N,
                        'kinds': sorted(set(k for k, _, _ in cases))})
    ctx.sample({'stream': 'rep:handler', 'kind': cases[1][0], 'answer': sg.show(ans[1][len('rep 1 '):])})


# ---- judging a repetition answer ----------------------------------------------------------------------------------

def judge_rep(ctx, stream, case, ans, known_pred=None):
    """`rep <k> <outcome> [## …]`: the property demands k = 1"""
    ctx.evaluations += 1
    if ans.startswith('rep 1 '):
        return True
    want = 'rep 1 <one outcome>'
    if known_pred is not None:
        k = known_pred(case)
        if k is not None:
            if k not in ctx.known_hit:
                ctx.known_hit.append(k)
            ctx.count(stream + ':known-finding')
            return False
    ctx.violation(stream, case, ans[:2000], want)
    return False


def inventory(ctx):
    path = fw.B + '/facts.json'
    if not os.path.exists(path):
        ctx.notes.append('facts.json missing (extractor failed?)')
        return {}
    facts = json.load(open(path))
    for k in ('mapRangeSites', 'randUses', 'timeUses', 'percentP', 'ptrCompares', 'goStmts', 'selectStmts'):
        ctx.count('inventory:' + k, len(facts.get(k) or []))
    ctx.count('inventory:rangeStmtTotal', facts.get('rangeStmtTotal', 0))
    for s in facts.get('mapRangeSites') or []:
        ctx.sample({'site': '%s %s range %s ×%d [%s]' % (s['file'], s['func'], s['expr'], s['n'], s['shape'])}) if False else None
    ctx.notes.append('map-range sites: ' + '; '.join('%s:%s:%s×%d[%s]' % (s['file'], s['func'], s['expr'], s['n'], s['shape'])
                                                      for s in facts.get('mapRangeSites') or []))
    if facts.get('typeErrors'):
        ctx.notes.append('type errors tolerated by the scan: ' + json.dumps(facts['typeErrors'], ensure_ascii=False)[:600])
    # which regenerated sites are not in the Lean classification (diagnosis of a failed `sites_all_classified`; the verdict is Lean's)
    try:
        lean_src = open(fw.LEAN + '/ZnVerif/Model/MapSites.lean', encoding='utf-8').read()
        cls = set(re.findall(r'\(⟨"([^"]*)", "([^"]*)", "([^"]*)", (\d+), "([^"]*)"⟩', lean_src))
        missing = [s for s in facts.get('mapRangeSites') or []
                   if (s['file'], s['func'], s['expr'], str(s['n']), s['shape']) not in cls]
        for s in missing:
            msg = 'unclassified map-range site: %s %s `range %s` ×%d [%s] (line %d)' % (s['file'], s['func'], s['expr'], s['n'], s['shape'], s['line'])
            ctx.notes.append(msg)
            if getattr(ctx, 'broken_obligations', None) is not None:
                ctx.broken_obligations.append(msg)
        ctx.count('inventory:unclassified', len(missing))
    except OSError:
        pass
    # fingerprints of modelled functions: evidence only, and a larger repetition budget
    if os.path.exists(FP_FILE):
        base = json.load(open(FP_FILE))
        for k, v in (facts.get('fingerprints') or {}).items():
            if k in base and base[k] != v:
                ctx.fingerprints_changed.append(k)
        for k in base:
            if k not in (facts.get('fingerprints') or {}):
                ctx.fingerprints_changed.append(k + ' (gone)')
    ctx.streams.append({'stream': 'inventory', 'cases': len(facts.get('mapRangeSites') or [])})
    return facts


def c19_owner(ctx, facts):
    """the JSON decoder site is C19's: while it is still a map range, key-order nondeterminism of 解析JSON is listed as
    a known finding of C19 (entry in known_findings.json with property C11, id C11-json-key-order)."""
    site_present = any(s['file'] == 'pkg/common/elem2json.go' and s['func'] == 'buildElementFromPlainValue'
                       for s in facts.get('mapRangeSites') or [])
    entry = None
    for k in ctx.known:
        if k.get('id') == 'C11-json-key-order' and k.get('status') != 'fixed':
            entry = k
    if entry is None or not site_present:
        return None
    return lambda case: entry


def run(ctx):
    rng = ctx.rng
    facts = inventory(ctx)
    N = ctx.n(50, 1000)
    scale = ctx.n(1, 3)
    if ctx.quick() and getattr(ctx, 'escalated', False):
        # a broken obligation: search harder for a failing input
        N, scale = 100, 2
        ctx.notes.append('escalated search: N=%d, %d× programs (broken obligation)' % (N, scale))
    elif ctx.quick() and ctx.fingerprints_changed:
        N = 150
        ctx.notes.append('modelled functions edited since the model was written (%s): N raised to %d' % (', '.join(ctx.fingerprints_changed), N))
    g = Gen(rng)

    # ---- modelled programs: three-way + repetition ---------------------------------------------------
    groups = [('dictcmp', g.dictcmp_program, 120 * scale), ('dicterr', g.dicterr_program, 40 * scale),
              ('dictiter', g.dictiter_program, 60 * scale), ('object', g.object_program, 60 * scale)]
    for name, fn, count in groups:
        ps, tags = [], []
        for _ in range(count):
            p, ins, tag = fn()
            ps.append((p, ins))
            tags.append(tag)
        srcs, go, model, spec = progs.run_stream(ctx, 'c11:' + name, ps, nontrivial=lambda s, g_: True)
        lines = ['repeat %d %s' % (N, cps(s)) for s in srcs]
        ans = par_go(ctx, lines)
        for line, a, s, g1, tag in zip(lines, ans, srcs, go, tags):
            ok = judge_rep(ctx, 'rep:' + name, line, a)
            ctx.nontriv(line)
            for t in tag.split(' ')[-1].split(','):
                ctx.count('rep:%s:%s' % (name, t.split(':')[0]))
            # the single outcome must be the outcome of the plain `run`
            if ok and a[len('rep 1 '):] != g1:
                ctx.violation('rep:%s:differs-from-run' % name, line, a[:1500], g1[:1500])
        ctx.streams.append({'stream': 'rep:' + name, 'cases': len(lines), 'repetitions': N})
        ctx.sample({'stream': 'rep:' + name, 'source': srcs[0], 'answer': ans[0][:400]})

    # ---- BIG dictionaries / lists that grow and then shrink (props/bigcoll.py): three-way + ground truth + repetition ----
    from props import bigcoll
    bigcoll.run_c11(ctx, N, scale, par_go)

    xeqtree_stream(ctx, ctx.n(600, 20000))

    # ---- raw programs: imports, JSON ----------------------------------------------------------------------
    cases = import_cases(rng, 40 * scale, N)
    ans = par_go(ctx, [c for _, c in cases])
    for (kind, line), a in zip(cases, ans):
        judge_rep(ctx, 'rep:import', line, a)
        ctx.count('rep:import:' + kind + (':err' if ' err ' in a[:12] else ':ok'))
        ctx.nontriv(line)
    ctx.streams.append({'stream': 'rep:import', 'cases': len(cases), 'repetitions': N})
    ctx.sample({'stream': 'rep:import', 'case': cases[-1][1][:300], 'answer': ans[-1][:300]})

    jc = json_cases(rng, 12 * scale, N)
    known_json = c19_owner(ctx, facts)
    ans = par_go(ctx, [c for _, c in jc])
    for (kind, line), a in zip(jc, ans):
        judge_rep(ctx, 'rep:json', line, a, known_pred=known_json)
        ctx.nontriv(line)
    ctx.streams.append({'stream': 'rep:json', 'cases': len(jc), 'repetitions': N,
                        'owner': 'C19' + (' (site still a map range: nondeterminism listed as known finding)' if known_json else '')})

    # ---- values built from external data that REPEATS names: one outcome AND the documented order ---------------
    extdata.run(ctx, N, scale, par_go)

    # ---- HTTP handler ---------------------------------------------------------------------------------------
    hc = http_cases(rng, 15 * scale, N)
    ans = par_go(ctx, [c for _, c in hc])
    if ans and all(a == 'bad-op' for a in ans):
        ctx.notes.append('httpreq unavailable: pkg/server does not link (verif pipe hook pkg/server/name_pipe_linux.go absent from the tree); '
                         'the handler sites are covered by the inventory obligation and requestDict_order_independent only')
        ctx.count('http:unavailable', len(ans))
    else:
        for (kind, line), a in zip(hc, ans):
            judge_rep(ctx, 'rep:' + kind, line, a)
            ctx.nontriv(line)
            ctx.count('rep:http:' + a.split(' ')[3] if a.startswith('rep ') and len(a.split(' ')) > 3 else 'rep:http:?')
        ctx.sample({'stream': 'rep:http', 'case': hc[0][1][:200], 'answer': ans[0][:400]})
    ctx.streams.append({'stream': 'rep:http', 'cases': len(hc), 'repetitions': N})

    if os.environ.get('VERIF_C11_HANDLERS', '1') != '0':
        handler_stream(ctx, N, scale)

    ec = exprinput_cases(rng, 20 * scale, N)
    ans = par_go(ctx, [c for _, c in ec])
    for (kind, line), a in zip(ec, ans):
        judge_rep(ctx, 'rep:exprinput', line, a)
        ctx.count('rep:' + kind)
        ctx.nontriv(line)
    ctx.streams.append({'stream': 'rep:exprinput', 'cases': len(ec), 'repetitions': N})


def replay(ctx, data):
    case = data['case']
    f = case.split(' ')
    if f[0] in ('repeat', 'repeatfiles', 'httpreq', 'exprinput', 'hrep'):
        # re-run with at least 1000 repetitions
        f[1] = str(max(1000, int(f[1])))
        a = ctx.run_go([' '.join(f)], timeout_ms=120000)[0]
        print('go   (N=%s):' % f[1], a[:3000])
        parts = a.split(' ## ')
        if len(parts) >= 3:
            for h in parts[2].split(' '):
                try:
                    print('error text:', bytes.fromhex(h).decode('utf-8', 'replace'))
                except ValueError:
                    pass
        print('spec :', str(data.get('spec'))[:3000] if str(data.get('stream', '')).startswith('ext:') else 'rep 1 <one outcome>')
        if f[0] == 'repeat':
            progs.replay(ctx, {'case': ('run ' + ' '.join(f[2:])).strip()})
    else:
        progs.replay(ctx, dict(data, case=case.strip()))
