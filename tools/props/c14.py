"""C14 — text operations count characters; % formatting follows the directives.

Streams
  text-slice   取样 on texts of ASCII / 2-byte / CJK / astral / combining characters: every index pair in
               −(n+2)…n+2 for lengths ≤ 6, random pairs (also fractional and far-out indices) for longer texts
  text-len, text-chars, text-split   the same texts; separators are mostly pieces of the text, also empty
  textrun      a sample of the above through one-line programs (member/method dispatch of the evaluator)
  text-methods 替换 匹配 匹配开头 匹配结尾 去除空格 转小写-英文 转大写-英文 拼接 格式化 转换数值 (and 取样 / 分隔 with ill-typed arguments):
               the real method (`tm`) and a one-line program (`tmrun`) against the EVALUATOR model (`builtinMethod` of
               Model/Interp.lean over Model/TextMethods.lean, bytes) and the spec (Spec/Sem.lean over Spec/TextMethods.lean,
               characters); `unicode-tables`: the model's caseless ranges and white-space set against Go's unicode tables
  fmt          templates from a grammar (80 % well-formed) × argument lists × doubles × precisions
  mod          the % dispatch on arbitrary operand pairs (number % number, text % list, anything else)

Three answers per case: the real code (harness), the Lean model, the Lean spec oracle.  For `fmt` the Lean
sides leave the runtime parameters symbolic (markers); they are replaced here by an independent reference:
Python's % float formatting for Go's %f / %E / %.6g, and a re-implementation of Go's %v for display forms.
"""
import math, struct
from decimal import Decimal

RULE = ("text: texts over a 22-character alphabet (1-, 2-, 3-, 4-byte code points, combining marks, U+FFFD, range borders); "
        "all index pairs in -(n+2)..n+2 for every generated text of length <= 6, random/fractional/far-out pairs for longer ones; "
        "non-trivial = the text has a multi-byte character and at least two characters. "
        "text-methods: 替换 (patterns cut from the text, empty, overlapping), 匹配 / 匹配开头 / 匹配结尾 (prefixes, suffixes, pieces, near misses), 去除空格 "
        "(every White_Space character and look-alikes that are not), 转小写-英文 / 转大写-英文 (letters, their neighbours in the code table, caseless and "
        "cased non-English characters), 拼接, 格式化 ({#k} for k around the argument count, damaged placeholders, values holding placeholders), 转换数值 "
        "(numerals in every spelling, at the range borders, damaged, the special spellings of strconv), each with 4-8 % ill-typed or miscounted "
        "arguments, directly and through one-line programs; textprog: whole programs chaining these members over variables, inputs and literals. "
        "fmt: grammar-generated templates (literal runs, {} and {#directive} placeholders, 20 % damaged by a random edit), "
        "argument lists matching in number 90 % of the time, numbers from a boundary pool (0, -0, 0.5, 1e21, 1e-7, 123456.789, "
        "2^53, 1e308, 5e-324, +-inf, nan, halves that need rounding) and random doubles, precisions 0..20, 400, the limit "
        "1000000 +- 1 and values beyond int32/int64/uint64; non-trivial = at least one placeholder and (a literal run or an error)")
ASSUMPTIONS = [
    "texts are sequences of Unicode scalar values (what the lexer and []rune→string produce); invalid UTF-8 inside a text is outside the theorems",
    "indices reach 取样 as int(float64) of a finite double of magnitude below 2^40; Go's conversion of NaN/huge doubles is implementation-specific and not modelled",
    "rendering of a double by fmt (%f, %E, %.6g, %v) and x*100 are runtime: parameters of model and spec, compared here with Python's formatting on every case",
    "display forms (String()) of 文本/逻辑/空/列表/字典 are parameters of model and spec; compared here with a reference for flat lists and dictionaries",
]
PARTIAL = ("float rendering and display forms are parameters of the theorems (runtime); strings.Split / unicode/utf8 are modelled, not verified; "
           "utf-8 level theorems assume valid scalar values")
TRUSTED_EXTRA = ["Python float % formatting and repr as the independent rendering reference"]

ALPHABET = [0x61, 0x62, 0x2C, 0x20, 0x7F, 0x80, 0xE9, 0x7FF, 0x800, 0x4F60, 0x597D, 0xFF0C, 0xD7FF, 0xE000, 0xFFFD, 0xFFFF,
            0x10000, 0x1F600, 0x10FFFF, 0x301, 0x65, 0x200D]


def cps(s):
    return '.'.join('%x' % c for c in s) if s else '-'


def bits_of(x):
    if x != x:
        return 'nan'
    return '%016x' % struct.unpack('>Q', struct.pack('>d', x))[0]


# ---- reference renderings -----------------------------------------------------------------------

def go_fmt_float(verb, prec, plus, x):
    """Go's fmt.Sprintf("%[+][.prec](f|E|g)", x); verb 0 = f, 1 = E, 2 = g (always .6g in the code)"""
    if x != x:
        return '+NaN' if plus else 'NaN'
    if x == math.inf:
        return '+Inf'
    if x == -math.inf:
        return '-Inf'
    flag = '+' if plus else ''
    if prec is not None and prec > 2000000:
        return '<precision %d is beyond the reference renderer>' % prec
    if verb == 0:
        return ('%' + flag + ('.%df' % prec if prec is not None else 'f')) % x
    if verb == 1:
        return ('%' + flag + ('.%dE' % prec if prec is not None else 'E')) % x
    return ('%' + flag + '.%dg' % (6 if prec is None else prec)) % x


def go_v(x):
    """Go's %v of a float64: shortest digits that round-trip (strconv %g, precision -1), %e form when exp < -4 or exp >= 6"""
    if x != x:
        return 'NaN'
    if x == math.inf:
        return '+Inf'
    if x == -math.inf:
        return '-Inf'
    sign = '-' if math.copysign(1.0, x) < 0 else ''
    if x == 0:
        return sign + '0'
    t = Decimal(repr(abs(x))).as_tuple()
    digits = ''.join(map(str, t.digits)).lstrip('0')
    e = t.exponent
    stripped = digits.rstrip('0')
    e += len(digits) - len(stripped)
    digits = stripped
    exp10 = len(digits) - 1 + e           # decimal exponent of the first digit
    if exp10 < -4 or exp10 >= 6:
        m = digits[0] + ('.' + digits[1:] if len(digits) > 1 else '')
        return '%s%se%s%02d' % (sign, m, '-' if exp10 < 0 else '+', abs(exp10))
    if e >= 0:
        return sign + digits + '0' * e
    if -e < len(digits):
        return sign + digits[:e] + '.' + digits[e:]
    return sign + '0.' + '0' * (-e - len(digits)) + digits


class A:
    """an argument: kind n/s/b/z/x/a/h with python payload"""
    def __init__(self, kind, val=None):
        self.kind, self.val = kind, val

    def field(self):
        k, v = self.kind, self.val
        if k == 'n':
            return 'n' + bits_of(v)
        if k == 's':
            return 's' + cps(v)
        if k == 'b':
            return 'b1' if v else 'b0'
        if k in 'zx':
            return k
        if k == 'a':
            return 'a' + ','.join(i.field() for i in v)
        if k == 'h':
            return 'h' + ','.join(cps(key) + '=' + i.field() for key, i in v)

    def display(self):
        k, v = self.kind, self.val
        if k == 'n':
            return go_v(v)
        if k == 's':
            return ''.join(map(chr, v))
        if k == 'b':
            return '真' if v else '假'
        if k == 'z':
            return '空'
        if k == 'a':
            return '[' + '，'.join(i.display() for i in v) + ']'
        if k == 'h':
            return '[' + '，'.join(''.join(map(chr, key)) + '=' + i.display() for key, i in v) + ']'
        return '?'


def resolve(answer, args):
    """replace the markers of a Lean `ok …` answer by reference renderings → list of code points, or None"""
    if not answer.startswith('ok'):
        return None
    f = answer.split(' ')
    if len(f) < 2 or f[1] == '-':
        return []
    xs = [int(h, 16) for h in f[1].split('.')]
    out = []
    i = 0
    while i < len(xs):
        c = xs[i]
        if c == 0x110001:
            verb, hasp, prec, plus, scaled, k = xs[i + 1:i + 7]
            x = args[k].val
            if scaled:
                x = x * 100.0
            out.extend(map(ord, go_fmt_float(verb, prec if hasp else None, bool(plus), x)))
            i += 7
        elif c == 0x110002:
            out.extend(map(ord, args[xs[i + 1]].display()))
            i += 2
        else:
            out.append(c)
            i += 1
    return out


def go_text(answer):
    """`ok <cps>` of the harness → list of code points; anything else → the answer itself"""
    f = answer.split(' ')
    if f[0] != 'ok' or len(f) != 2:
        return answer
    return [] if f[1] == '-' else [int(h, 16) for h in f[1].split('.')]


# ---- generators ---------------------------------------------------------------------------------

POOL = [0.0, -0.0, 0.5, 1.5, 2.5, -0.5, 0.125, 1e21, 1e-7, 123456.789, -123456.789, 2.0 ** 53, 1e308, -1e308, 5e-324, math.inf,
        -math.inf, math.nan, 1.0, -1.0, 9.5, 0.045, 1.005, 99.995, 999999.5, 1e5, 1e6, 0.0001, 0.00001, 1e15, 1e16, 1e20, 3.14159, 0.876,
        12345.0, 1.7976931348623157e308, 2.2250738585072014e-308, 0.3, 1 / 3, 2 / 3, 1e22, 1e23, 8.41e21, 5e-5, 123456789.0, 1234567.0]
PRECS = list(range(0, 21)) * 6 + [400, 400, 100, 1074, 1100, 17, 30, 50]
ABSURD = [1000001, 2147483647, 2147483648, 4294967296, 9223372036854775807, 9223372036854775808, 18446744073709551616,
          99999999999999999999, 10 ** 40, 1844674407370955161600]
RARE_BIG = [999999, 1000000]


def gen_text(rng, n):
    r = rng.random()
    if r < 0.15:
        al = [0x61, 0x62, 0x2C]
    elif r < 0.3:
        al = [0x4F60, 0x597D, 0xFF0C, 0x61]
    else:
        al = ALPHABET
    return [rng.choice(al) for _ in range(n)]


def gen_number(rng):
    r = rng.random()
    if r < 0.55:
        return rng.choice(POOL)
    if r < 0.7:
        return struct.unpack('>d', struct.pack('>Q', rng.getrandbits(64)))[0]
    if r < 0.85:
        return round(rng.uniform(-1000, 1000), rng.randint(0, 6))
    return rng.choice([1, -1]) * rng.random() * 10.0 ** rng.randint(-12, 25)


def gen_scalar(rng):
    r = rng.random()
    if r < 0.4:
        return A('s', gen_text(rng, rng.randint(0, 4)))
    if r < 0.7:
        return A('n', gen_number(rng))
    if r < 0.85:
        return A('b', rng.random() < 0.5)
    return A('z')


def gen_arg(rng, numeric):
    r = rng.random()
    if numeric and r < 0.92:
        return A('n', gen_number(rng))
    if r < 0.8:
        return gen_scalar(rng)
    if r < 0.88:
        return A('a', [gen_scalar(rng) for _ in range(rng.randint(0, 3))])
    if r < 0.95:
        keys = []
        for _ in range(rng.randint(0, 3)):
            k = [rng.choice([0x61, 0x62, 0x4F60, 0x1F600]) for _ in range(rng.randint(1, 2))]
            if k not in keys:
                keys.append(k)
        return A('h', [(k, gen_scalar(rng)) for k in keys])
    return A('x')


def gen_directive(rng, big):
    d = ''
    if rng.random() < 0.35:
        d += '+'
    if rng.random() < 0.65:
        r = rng.random()
        if big is not None:
            p = big
        elif r < 0.9:
            p = rng.choice(PRECS)
        else:
            p = rng.choice(ABSURD)
        s = str(p)
        if rng.random() < 0.05:
            s = '0' * rng.randint(1, 3) + s
        d += '.' + s
    r = rng.random()
    if r < 0.25:
        d += 'E'
    elif r < 0.5:
        d += '%'
    return d


BAD_DIRECTIVES = ['E.2', '.', '.E', '.%', '+.', '++', '+-', '-', '.2.3', '.2EE', '.2E%', '%E', 'E+', '.2+', ' ', '.2 ', 'e', '.1e', 'x', '#', '.-1',
                  '+.E', '.+2', '２', '.٣', '.2f', 'g', '.6g', '%%', '+E+', 'Ｅ']
LIT_CHARS = [ord(c) for c in 'ab #.+%E09-:=,'] + [0x4F60, 0x597D, 0xFF0C, 0x1F600, 0x301, 0x5B, 0x5D, 0x10FFFF, 0xFF5B, 0xFF5D, 0x300C]


def gen_template(rng, big=None):
    """returns (code points, [is-numeric per placeholder]) for a well-formed template"""
    t = []
    kinds = []
    nseg = rng.randint(0, 5)
    prev_lit = False
    for _ in range(nseg):
        if not prev_lit and rng.random() < 0.45:
            t += [rng.choice(LIT_CHARS) for _ in range(rng.randint(1, 4))]
            prev_lit = True
        else:
            prev_lit = False
            r = rng.random()
            if r < 0.35:
                t += [0x7B, 0x7D]
                kinds.append(False)
            elif r < 0.92:
                t += [0x7B, 0x23] + [ord(c) for c in gen_directive(rng, big)] + [0x7D]
                kinds.append(True)
            else:
                bad = rng.choice(BAD_DIRECTIVES)
                t += [0x7B] + ([0x23] if rng.random() < 0.8 else []) + [ord(c) for c in bad] + [0x7D]
                kinds.append(rng.random() < 0.8)
    return t, kinds


def damage(rng, t):
    t = list(t)
    pos = rng.randint(0, len(t))
    r = rng.random()
    ch = rng.choice([0x7B, 0x7D, 0x7B, 0x7D, 0x23, 0x2E, 0x2B, 0x45, 0x25, 0x30, 0x61, 0x4F60])
    if r < 0.45 or not t:
        t.insert(pos, ch)
    elif r < 0.75:
        del t[min(pos, len(t) - 1)]
    else:
        t[min(pos, len(t) - 1)] = ch
    return t


def gen_fmt_case(rng, big=None):
    t, kinds = gen_template(rng, big)
    if big is None and rng.random() < 0.2:
        t = damage(rng, t)
        if rng.random() < 0.3:
            t = damage(rng, t)
    n = len(kinds)
    r = rng.random()
    if r < 0.05:
        n += 1
    elif r < 0.1 and n > 0:
        n -= 1
    args = []
    for k in range(n):
        args.append(gen_arg(rng, kinds[k] if k < len(kinds) else rng.random() < 0.5))
    return t, args


# ---- the run ------------------------------------------------------------------------------------

def three(ctx, cases):
    go = ctx.run_go(cases, timeout_ms=20000)
    # an op that timed out or was lost with its process (machine under load) is run again alone before it counts
    redo = [i for i, g in enumerate(go) if g == 'timeout' or g.startswith('crash')]
    for i in redo[:50]:
        go[i] = ctx.run_go([cases[i]], timeout_ms=60000, parallel=False)[0]
    if redo:
        ctx.count('go_ops_rerun_alone', len(redo[:50]))
    model = ctx.run_lean(cases)
    spec = ctx.run_lean(['spec:' + c for c in cases])
    return go, model, spec


def canon_err(g):
    """Go answers compared with the spec on ok/err only (the spec does not say which error)"""
    return 'err' if g.startswith('err') else g


def run_text(ctx):
    rng = ctx.rng
    texts = []
    per_len = ctx.n(10, 260)
    for n in range(0, 7):
        seen = set()
        for _ in range(per_len if n > 0 else 1):
            t = tuple(gen_text(rng, n))
            if t not in seen:
                seen.add(t)
                texts.append(list(t))
    texts += [[0x4F60, 0x597D], [0x61, 0x301, 0x62], [0x1F600, 0x200D, 0x1F600], [0x10FFFF], [0xFFFD, 0x61]]
    # slice: all index pairs for short texts
    cases = []
    for t in texts:
        n = len(t)
        for i in range(-(n + 2), n + 3):
            for j in range(-(n + 2), n + 3):
                cases.append('text slice %s %d %d' % (cps(t), 4 * i, 4 * j))
    ctx.count('slice_all_pairs_texts', len(texts))
    longs = []
    for _ in range(ctx.n(600, 20000)):
        t = gen_text(rng, rng.randint(7, 40))
        longs.append(t)
        n = len(t)
        for _ in range(3):
            r = rng.random()
            if r < 0.7:
                i, j = 4 * rng.randint(-(n + 2), n + 2), 4 * rng.randint(-(n + 2), n + 2)
            elif r < 0.9:
                i, j = rng.randint(-4 * (n + 2), 4 * (n + 2)), rng.randint(-4 * (n + 2), 4 * (n + 2))   # quarters: fractional
            else:
                i, j = rng.choice([1, -1]) * 2 ** rng.randint(3, 42), rng.choice([1, -1]) * 2 ** rng.randint(3, 42)
            cases.append('text slice %s %d %d' % (cps(t), i, j))
    go, model, spec = three(ctx, cases)
    for c, g, m, s in zip(cases, go, model, spec):
        ctx.evaluations += 1
        if g != m:
            ctx.disagreement('text-slice', c, g, m)
        if g != s:
            ctx.violation('text-slice', c, g, s)
        ctx.count('slice_' + g.split(' ')[0] + ('_empty' if g == 'ok -' else ''))
        f = c.split(' ')
        if '.' in f[2] and any(len(h) > 2 for h in f[2].split('.')):
            ctx.nontriv(c)
    ctx.sample({'op': cases[len(cases) // 3], 'go': go[len(cases) // 3], 'model': model[len(cases) // 3], 'spec': spec[len(cases) // 3]})
    ctx.streams.append({'stream': 'text-slice', 'cases': len(cases), 'all_index_pairs_for_len_le': 6})

    # len / chars / split, and consistency of the three observables on the real code
    alltexts = texts + longs
    cases = []
    for t in alltexts:
        cases.append('text len ' + cps(t))
        cases.append('text chars ' + cps(t))
    nsplit = ctx.n(3000, 80000)
    for _ in range(nsplit):
        t = rng.choice(alltexts)
        r = rng.random()
        if r < 0.12:
            sep = []
        elif r < 0.7 and t:
            a = rng.randrange(len(t))
            sep = t[a:a + rng.randint(1, 3)]
        else:
            sep = gen_text(rng, rng.randint(1, 3))
        cases.append('text split %s %s' % (cps(t), cps(sep)))
    go, model, spec = three(ctx, cases)
    for c, g, m, s in zip(cases, go, model, spec):
        ctx.evaluations += 1
        if g != m:
            ctx.disagreement('text-' + c.split(' ')[1], c, g, m)
        if g != s:
            ctx.violation('text-' + c.split(' ')[1], c, g, s)
        f = c.split(' ')
        ctx.count('text_' + f[1])
        if '.' in f[2] and any(len(h) > 2 for h in f[2].split('.')):
            ctx.nontriv(c)
    k = len(cases) - 5
    ctx.sample({'op': cases[k], 'go': go[k], 'model': model[k], 'spec': spec[k]})
    ctx.streams.append({'stream': 'text-len-chars-split', 'cases': len(cases)})

    # through programs
    cases = []
    for _ in range(ctx.n(400, 6000)):
        t = rng.choice(alltexts)
        n = len(t)
        w = rng.choice(['len', 'chars', 'slice', 'slice', 'split'])
        if w == 'slice':
            cases.append('textrun slice %s %d %d' % (cps(t), 4 * rng.randint(-(n + 2), n + 2), 4 * rng.randint(-(n + 2), n + 2)))
        elif w == 'split':
            a = rng.randrange(len(t)) if t else 0
            cases.append('textrun split %s %s' % (cps(t), cps(t[a:a + rng.randint(0, 2)])))
        else:
            cases.append('textrun %s %s' % (w, cps(t)))
    go, model, spec = three(ctx, cases)
    for c, g, m, s in zip(cases, go, model, spec):
        ctx.evaluations += 1
        if g != m:
            ctx.disagreement('textrun', c, g, m)
        if g != s:
            ctx.violation('textrun', c, g, s)
        ctx.nontriv(c)
    ctx.streams.append({'stream': 'textrun', 'cases': len(cases)})

    # one text VALUE over a history: observables before and after 转换数值 (the one operation that rewrites its receiver),
    # and self-consistency of what the real code reports at every moment: 长度 = |字符组|, 取样 = that range of 字符组
    cases = []
    marks = [[0x2A, 0x5E], [0x2A, 0x31, 0x30, 0x5E]]
    for _ in range(ctx.n(500, 8000)):
        r = rng.random()
        if r < 0.5:
            t = list(rng.choice(['1', '2.5', '-3', '12', '6.02', '0', '多', '1e', ''])).copy()
            t = [ord(c) for c in t] + rng.choice(marks) + [ord(c) for c in rng.choice(['3', '-2', '23', '', '字', '+1'])]
            if rng.random() < 0.3:
                t += rng.choice(marks) + [ord(rng.choice('12'))]
        elif r < 0.8:
            t = list(rng.choice(alltexts))
            k = rng.randint(0, len(t))
            t = t[:k] + rng.choice(marks) + t[k:]
        else:
            t = list(rng.choice(alltexts))
        n = len(t)
        steps = ''.join(rng.choice('lcsv') for _ in range(rng.randint(1, 3))) + 'n' + ''.join(rng.choice('lcsvn') for _ in range(rng.randint(1, 4)))
        steps += 'lcv'
        cases.append('texthist %s %d %d %s' % (cps(t), 4 * rng.randint(-(n + 1), n + 1), 4 * rng.randint(-(n + 1), n + 1), steps))
    go, model, spec = three(ctx, cases)
    rewritten = 0
    for c, g, m, s in zip(cases, go, model, spec):
        ctx.evaluations += 1
        if g != m:
            ctx.disagreement('texthist', c, g, m)
        if g != s:
            ctx.violation('texthist', c, g, s)
        # self-consistency of the real code's own reports (no model involved)
        steps = c.split(' ')[4]
        fields = g.split(' | ')
        if len(fields) == len(steps):
            cur_len = cur_chars = None
            for st, fv in zip(steps, fields):
                if st == 'n':
                    cur_len = cur_chars = None
                elif st == 'l' and fv.startswith('ok '):
                    cur_len = int(fv[3:])
                    if cur_chars is not None and cur_chars != cur_len:
                        ctx.violation('texthist-selfconsistent', c, g, 'length %d but %d characters in the character array' % (cur_len, cur_chars))
                elif st == 'c' and fv.startswith('ok '):
                    cur_chars = int(fv.split(' ')[1])
                    if cur_len is not None and cur_chars != cur_len:
                        ctx.violation('texthist-selfconsistent', c, g, 'length %d but %d characters in the character array' % (cur_len, cur_chars))
        tail = g.split(' | ')
        if len(tail) >= 2 and tail[0] != tail[-1]:
            rewritten += 1
        ctx.nontriv(c)
    ctx.count('texthist_text_rewritten', rewritten)
    ctx.sample({'op': cases[0], 'go': go[0], 'model': model[0], 'spec': spec[0]})
    ctx.streams.append({'stream': 'texthist', 'cases': len(cases), 'rewritten': rewritten})


# ---- the other text methods ------------------------------------------------------------------------

SPACES = [0x20, 0x20, 0x9, 0xA, 0xD, 0xB, 0xC, 0x3000, 0xA0, 0x85, 0x2003, 0x200A, 0x1680, 0x2028, 0x2029, 0x202F, 0x205F]
NEAR_SPACES = [0x200B, 0xFEFF, 0x180E, 0x1C, 0x1F, 0x8, 0xE, 0x2060, 0x84, 0x86, 0x9F, 0xA1, 0x1FFF, 0x200C, 0x3001]
# no character with a case mapping outside ASCII (the model says `unmodelled`, the spec `unspecified` there)
PLAIN = [0x61, 0x62, 0x7A, 0x41, 0x42, 0x5A, 0x40, 0x5B, 0x60, 0x7B, 0x30, 0x2C, 0x20, 0x4F60, 0x597D, 0xFF0C, 0x1F600, 0x301,
         0x7FF, 0x800, 0xFFFD, 0x10000, 0x10FFFF, 0x200D, 0x80, 0xB4, 0x2B0, 0xA63F, 0xFF20, 0xFF5B, 0x2125]
CASED = [0xE9, 0xC9, 0x3A3, 0x3C3, 0x416, 0xFF21, 0xFF41, 0x131, 0x17F, 0x212A, 0xDF, 0xB5, 0x345, 0x1E943, 0x10400, 0x24B6]
NUMERALS = ['0', '1', '12', '-3', '+4', '2.5', '.5', '5.', '-0', '007', '1e3', '1E3', '1e+3', '2.5e-3', '1e308', '1e309', '9' * 308, '9' * 309,
            '0.' + '0' * 400 + '1', '1e-400', '1e400', '-1e400', '0e999', '1e9999', '1e10000', '1e99999999999', '1' + '0' * 30, '179769313486231570' + '0' * 291,
            '179769313486231580' + '0' * 291, '4.9e-324', '2.4e-324', '1.7976931348623157e308', '1.7976931348623159e308']
ODD_NUMERALS = ['', '+', '-', '.', 'e', 'e5', '1e', '1e+', '1e-', '1.2.3', '1..2', '--1', '+-1', '1-', '1 ', ' 1', '1e5x', '1x', 'x1', '１２', '1,5', '1e5.5', '1ee5',
                'inf', 'Inf', '+inf', '-INF', 'infinity', '-Infinity', 'infinit', 'info', 'nan', 'NaN', '+nan', '-nan', 'nano', 'n', 'i', 'in',
                '0x10', '0X1p4', '0x1p-2', '0x', '0x1', '-0x1p1', '1_0', '1_000.5', '_1', '1_', '1__0', '1e1_0', '0_1', '1*^3', '1*10^3', '2.5*^-2', '1*^', '*^3',
                '1*^3*^2', '1*10^3*10^2', '1*^3*10^2', '甲*^乙', '1*10^', '1*1', '1*^+3', '6.02*10^23', '1*10^400', '1*^309']


def canon_tm(g):
    """Go answers as the spec can say them: which error is not the spec's business"""
    import re
    return re.sub(r'^err [a-z]+ \d+', 'err', g)


def gen_plain(rng, n, cased=0.0):
    return [rng.choice(CASED) if rng.random() < cased else rng.choice(PLAIN) for _ in range(n)]


def tm_cases(rng, n):
    out = []
    S = lambda t: 's' + cps(t)
    def piece(t):
        if not t:
            return []
        a = rng.randrange(len(t))
        return t[a:a + rng.randint(1, 3)]
    def bad_arg():
        return rng.choice(['n3ff0000000000000', 'b1', 'z', 'nnan'])
    for _ in range(n):
        w = rng.choice(['replace', 'replace', 'match', 'prefix', 'suffix', 'trim', 'trim', 'lower', 'upper', 'join', 'format', 'format',
                        'tonum', 'tonum', 'tonum', 'slice', 'split'])
        r = rng.random()
        t = gen_text(rng, rng.randint(0, 12)) if r < 0.35 else gen_plain(rng, rng.randint(0, 12))
        if w == 'replace':
            if rng.random() < 0.3:
                # few distinct characters: overlapping and adjacent occurrences
                al = rng.sample(PLAIN, 2)
                t = [rng.choice(al) for _ in range(rng.randint(0, 10))]
            k = rng.random()
            old = [] if k < 0.15 else (piece(t) if k < 0.8 else gen_plain(rng, rng.randint(1, 2)))
            k = rng.random()
            new = [] if k < 0.2 else (list(old) if k < 0.3 else (old + old if k < 0.4 else gen_plain(rng, rng.randint(1, 3))))
            args = [S(old), S(new)]
            k = rng.random()
            if k < 0.04:
                args[rng.randrange(2)] = bad_arg()
            elif k < 0.08:
                args = args[:rng.choice([0, 1])] if rng.random() < 0.5 else args + [S([0x61])]
            out.append('replace %s %s' % (cps(t), ' '.join(args)))
        elif w in ('match', 'prefix', 'suffix'):
            k = rng.random()
            if k < 0.1:
                u = []
            elif k < 0.35:
                u = t[:rng.randint(0, len(t))]
            elif k < 0.6:
                u = t[rng.randint(0, len(t)):]
            elif k < 0.8:
                u = piece(t)
            elif k < 0.9:
                u = t + gen_plain(rng, 1)
            else:
                u = gen_plain(rng, rng.randint(1, 3))
            if rng.random() < 0.15 and u:
                u = list(u)
                u[rng.randrange(len(u))] = rng.choice(PLAIN)
            args = [S(u)]
            k = rng.random()
            if k < 0.04:
                args = [bad_arg()]
            elif k < 0.08:
                args = [] if rng.random() < 0.5 else args + [S([])]
            out.append('%s %s %s' % (w, cps(t), ' '.join(args)))
        elif w == 'trim':
            sp = lambda m: [rng.choice(SPACES if rng.random() < 0.8 else NEAR_SPACES) for _ in range(rng.randint(0, m))]
            mid = t[:6]
            if mid and rng.random() < 0.5:
                k = rng.randrange(len(mid))
                mid = mid[:k] + sp(2) + mid[k:]
            t = sp(3) + mid + sp(3)
            extra = [S([0x20])] if rng.random() < 0.05 else []
            out.append('trim %s %s' % (cps(t), ' '.join(extra)))
        elif w in ('lower', 'upper'):
            letters = [rng.choice([0x41, 0x5A, 0x61, 0x7A, 0x4D, 0x6D, 0x40, 0x5B, 0x60, 0x7B]) for _ in range(rng.randint(0, 5))]
            t = gen_plain(rng, rng.randint(0, 6), cased=0.0 if rng.random() < 0.85 else 0.3) + letters
            rng.shuffle(t)
            out.append('%s %s' % (w, cps(t)))
        elif w == 'join':
            args = [S(gen_plain(rng, rng.randint(0, 3))) for _ in range(rng.randint(0, 4))]
            if args and rng.random() < 0.1:
                args[rng.randrange(len(args))] = bad_arg()
            out.append('join %s %s' % (cps(t), ' '.join(args)))
        elif w == 'format':
            nargs = rng.randint(0, 12)
            vals = []
            for _ in range(nargs):
                k = rng.random()
                vals.append([0x7B, 0x23, 0x30 + rng.randint(0, 9), 0x7D] if k < 0.15 else gen_plain(rng, rng.randint(0, 3)))
            tpl = []
            for _ in range(rng.randint(0, 6)):
                k = rng.random()
                if k < 0.55:
                    tpl += [ord(c) for c in '{#%d}' % rng.randint(0, nargs + 2)]
                elif k < 0.75:
                    tpl += [ord(c) for c in rng.choice(['{#', '{#}', '{#01}', '{#1', '#1}', '{1}', '{#1}}', '{{#1}', '{#１}', '{#-1}', '{#+1}', '{# 1}', '{#1 }', '{#10}', '{#11}', '{#1}{#1}'])]
                else:
                    tpl += gen_plain(rng, rng.randint(1, 3))
            args = [S(v) for v in vals]
            if args and rng.random() < 0.06:
                args[rng.randrange(len(args))] = bad_arg()
            out.append('format %s %s' % (cps(tpl), ' '.join(args)))
        elif w == 'tonum':
            k = rng.random()
            if k < 0.3:
                txt = rng.choice(NUMERALS)
            elif k < 0.6:
                txt = rng.choice(ODD_NUMERALS)
            else:
                sign = rng.choice(['', '', '-', '+'])
                ip = ''.join(rng.choice('0123456789') for _ in range(rng.randint(0, 4)))
                fp = rng.choice(['', '', '.', '.' + ''.join(rng.choice('0123456789') for _ in range(rng.randint(0, 3)))])
                ex = rng.choice(['', '', 'e', 'E', '*^', '*10^'])
                if ex:
                    ex += rng.choice(['', '', '-', '+']) + ''.join(rng.choice('0123456789') for _ in range(rng.randint(0, 3)))
                txt = sign + ip + fp + ex
                if rng.random() < 0.2 and txt:
                    j = rng.randrange(len(txt) + 1)
                    txt = txt[:j] + rng.choice([' ', 'e', '.', '-', '_', 'x', '*^', '*10^', '甲', 'i', '0x']) + txt[j:]
            extra = [S([0x31])] if rng.random() < 0.05 else []
            out.append('tonum %s %s' % (cps([ord(c) for c in txt]), ' '.join(extra)))
        elif w == 'slice':
            # C14's own stream covers the index pairs; here: ill-typed and miscounted arguments
            args = rng.choice([[], ['n3ff0000000000000'], [S([0x31]), 'n3ff0000000000000'], ['n3ff0000000000000', 'z'],
                               ['n3ff0000000000000', 'n4000000000000000', 'n4000000000000000'], ['n3ff0000000000000', 'n4000000000000000'],
                               ['nnan', 'n7ff0000000000000'], ['nfff0000000000000', 'n43e0000000000000']])
            out.append('slice %s %s' % (cps(t), ' '.join(args)))
        else:
            args = rng.choice([[], [bad_arg()], [S(piece(t)), S([])], [S(piece(t))], [S([])]])
            out.append('split %s %s' % (cps(t), ' '.join(args)))
    return [c.rstrip() for c in out]


def run_methods(ctx):
    rng = ctx.rng
    # the tables first: the caseless ranges and the white-space set of the model (and the spec's set) against Go's unicode package
    ranges = ctx.run_lean(['unitab ranges'], parallel=False)[0].split(' ')
    if ranges[0] != 'ok' or len(ranges) < 2:
        raise RuntimeError('driver: unitab ranges -> %r' % ranges)
    tab = ['unitab caseless %s %s' % tuple(x.split('-')) for x in ranges[1:]]
    for c, g in zip(tab, ctx.run_go(tab, timeout_ms=20000)):
        ctx.evaluations += 1
        ctx.nontriv(c)
        if g != 'ok':
            ctx.disagreement('unicode-tables', c, g, 'ok (the model treats every code point of the range as caseless)')
    g = ctx.run_go(['unitab spaces'], timeout_ms=20000)[0]
    m = ctx.run_lean(['unitab spaces'], parallel=False)[0].split(' ')
    ctx.evaluations += 1
    if len(m) != 3 or 'ok ' + m[1] != g:
        ctx.disagreement('unicode-tables', 'unitab spaces', g, ' '.join(m[:2]))
    if len(m) == 3 and 'ok ' + m[2] != g:
        ctx.violation('unicode-tables', 'unitab spaces', g, 'ok ' + m[2])
    ctx.streams.append({'stream': 'unicode-tables', 'cases': len(tab) + 1})

    base = tm_cases(rng, ctx.n(3500, 90000))
    cases = ['tm ' + c for c in base] + ['tmrun ' + c for c in rng.sample(base, min(len(base), ctx.n(500, 9000)))]
    go, model, spec = three(ctx, cases)
    n_unmod = n_unspec = 0
    for c, g, m, s in zip(cases, go, model, spec):
        ctx.evaluations += 1
        f = c.split(' ')
        stream = 'text-methods' if f[0] == 'tm' else 'text-methods-run'
        if m == 'unmodelled':
            n_unmod += 1
        elif g != m:
            ctx.disagreement(stream, c, g, m)
        if s == 'unspecified':
            n_unspec += 1
        elif canon_tm(g) != s:
            ctx.violation(stream, c, g, s)
        ctx.count('tm_' + f[1] + ('_err' if g.startswith('err') else ''))
        if m != 'unmodelled' and s != 'unspecified' and f[2] != '-':
            ctx.nontriv(c)
    ctx.count('tm_model_unmodelled', n_unmod)
    ctx.count('tm_spec_unspecified', n_unspec)
    k = len(base) // 2
    ctx.sample({'op': cases[k], 'go': go[k], 'model': model[k], 'spec': spec[k]})
    ctx.streams.append({'stream': 'text-methods', 'cases': len(cases), 'model_unmodelled': n_unmod, 'spec_unspecified': n_unspec})


def judge_fmt(ctx, stream, case, args, g, m, s):
    """returns (model_ok, spec_ok) after recording"""
    ctx.evaluations += 1
    gt = go_text(g)
    # Go vs model: same error class, or same text after substituting the reference renderings
    if isinstance(gt, list):
        mr = resolve(m, args)
        if mr != gt:
            ctx.disagreement(stream, case, g, m if mr is None else 'ok ' + cps(mr))
    elif g != m:
        ctx.disagreement(stream, case, g, m)
    # Go vs spec: ok-text or error
    if isinstance(gt, list):
        sr = resolve(s, args)
        if sr != gt:
            ctx.violation(stream, case, g, s if sr is None else 'ok ' + cps(sr))
    elif canon_err(g) != s:
        sr = resolve(s, args)
        ctx.violation(stream, case, g, s if sr is None else ('ok ' + cps(sr))[:2000])


def run_fmt(ctx):
    rng = ctx.rng
    total = ctx.n(14000, 800000)
    chunk = 50000
    done = 0
    first = True
    while done < total:
        n = min(chunk, total - done)
        items = [gen_fmt_case(rng) for _ in range(n)]
        if first:
            # hand-picked: the documented examples, the two witnesses of §7, the limit
            def T(s):
                return [ord(c) for c in s]
            items += [
                (T('A{}'), [A('s', T('BCD'))]),
                (T('{}年{}月{}日'), [A('n', 2025.0), A('n', 7.0), A('n', 3.0)]),
                (T('数值为{#}'), [A('n', 123.456789)]),
                (T('保留两位小数：{#.2}'), [A('n', 3.14159)]),
                (T('变化：{#+}'), [A('n', 5.0)]), (T('变化：{#+}'), [A('n', -3.0)]), (T('变化：{#+}'), [A('n', 0.0)]),
                (T('完成率：{#.1%}'), [A('n', 0.876)]),
                (T('科学计数：{#.2E}'), [A('n', 12345.0)]),
                (T('姓名：{}，分数：{#.1}'), [A('s', T('张三')), A('n', 98.765)]),
                (T('{#}'), [A('s', T('x'))]), (T('{}{}'), [A('n', 1.0)]),
                (T('{#.99999999999999999999}'), [A('n', 1.5)]),
                (T('{#.}'), [A('n', 1.5)]), (T('{#.E}'), [A('n', 1.5)]), (T('{#E.2}'), [A('n', 1.5)]),
                (T('{{}'), [A('n', 1.5)]), (T('{{}}'), [A('n', 1.5)]), (T('}{'), []), (T('{#+}'), [A('n', -0.0)]),
            ]
            for big in RARE_BIG + [1000001]:
                for _ in range(ctx.n(1, 4)):
                    t, kinds = [], []
                    while True not in kinds:
                        t, kinds = gen_template(rng, big)
                    items.append((t, [gen_arg(rng, k) for k in kinds]))
            first = False
        cases = ['fmt ' + cps(t) + ''.join(' ' + a.field() for a in args) for t, args in items]
        go, model, spec = three(ctx, cases)
        for (t, args), c, g, m, s in zip(items, cases, go, model, spec):
            judge_fmt(ctx, 'fmt', c, args, g, m, s)
            ctx.count('fmt_' + ('ok' if g.startswith('ok') else g.replace(' ', '_')))
            nph = t.count(0x7B)
            if nph >= 1 and (not g.startswith('ok') or len(t) > 2 * nph + sum(1 for x in t if x == 0x23)):
                ctx.nontriv(c)
        for k in (0, 1, len(cases) - 8, len(cases) - 20):
            if len(go[k]) < 300:
                ctx.sample({'op': cases[k], 'go': go[k], 'model': model[k], 'spec': spec[k]})
        done += n
    ctx.streams.append({'stream': 'fmt', 'cases': total})


def gen_operand(rng):
    r = rng.random()
    if r < 0.3:
        return A('n', rng.choice([0.0, 1.0, 2.5, -3.0, math.inf, math.nan, 7.0]))
    if r < 0.55:
        return A('s', gen_template(rng)[0])
    if r < 0.8:
        return A('a', [gen_scalar(rng) if rng.random() < 0.9 else A('x') for _ in range(rng.randint(0, 3))])
    return rng.choice([A('b', True), A('z'), A('x'), A('h', [([0x61], A('n', 1.0))])])


def run_mod(ctx):
    """the % dispatch: number % number, text % list, anything else"""
    rng = ctx.rng
    items = []
    for _ in range(ctx.n(1500, 40000)):
        if rng.random() < 0.5:
            t, kinds = gen_template(rng)
            if rng.random() < 0.15:
                t = damage(rng, t)
            args = []
            for k in kinds:
                a = gen_arg(rng, k)
                while a.kind in 'ah':
                    a = gen_arg(rng, k)
                args.append(a)
            if rng.random() < 0.1:
                args = args[:-1]
            items.append((A('s', t), A('a', args)))
        else:
            items.append((gen_operand(rng), gen_operand(rng)))
    cases = ['mod %s %s' % (l.field(), r.field()) for l, r in items]
    go, model, spec = three(ctx, cases)
    for (l, r), c, g, m, s in zip(items, cases, go, model, spec):
        args = r.val if r.kind == 'a' else []
        if g == 'arith' or m == 'arith' or s == 'arith':
            ctx.evaluations += 1
            if g != m:
                ctx.disagreement('mod', c, g, m)
            if g != s:
                ctx.violation('mod', c, g, s)
        else:
            judge_fmt(ctx, 'mod', c, args, g, m, s)
        ctx.count('mod_' + l.kind + '_' + r.kind)
        if l.kind != 's' or r.kind != 'a' or len(args) > 0:
            ctx.nontriv(c)
    ctx.sample({'op': cases[3], 'go': go[3], 'model': model[3], 'spec': spec[3]})
    ctx.streams.append({'stream': 'mod', 'cases': len(cases)})


def fmt_fails(ctx, items):
    """for (template, args) candidates: does the real code still contradict the spec? (batch)"""
    cases = ['fmt ' + cps(t) + ''.join(' ' + a.field() for a in args) for t, args in items]
    go = ctx.run_go(cases, timeout_ms=20000)
    spec = ctx.run_lean(['spec:' + c for c in cases])
    out = []
    for (t, args), g, s in zip(items, go, spec):
        gt = go_text(g)
        if isinstance(gt, list):
            out.append(resolve(s, args) != gt)
        else:
            out.append(canon_err(g) != s and (g.startswith('err') or g == 'panic'))
    return out, cases, go, spec


def shrink_fmt(ctx):
    """smaller failing input for the first fmt violation: drop single characters / single arguments while it still fails"""
    idx = next((i for i, v in enumerate(ctx.violations) if v[0] == 'fmt'), None)
    if idx is None:
        return
    f = ctx.violations[idx][1].split(' ')
    t = [] if f[1] == '-' else [int(h, 16) for h in f[1].split('.')]
    args = [parse_arg(a) for a in f[2:]]
    for _ in range(12):
        cands = [(t[:i] + t[i + 1:], args) for i in range(len(t))]
        cands += [(t, args[:i] + args[i + 1:]) for i in range(len(args))]
        # a placeholder together with its argument
        opens = [i for i, c in enumerate(t) if c == 0x7B]
        for k, i in enumerate(opens):
            if k < len(args) and 0x7D in t[i:]:
                j = t.index(0x7D, i)
                cands.append((t[:i] + t[j + 1:], args[:k] + args[k + 1:]))
        if not cands:
            break
        fails, cases, go, spec = fmt_fails(ctx, cands)
        pick = next((k for k in range(len(cands) - 1, -1, -1) if fails[k]), None)
        if pick is None:
            break
        t, args = cands[pick]
        sr = resolve(spec[pick], args)
        ctx.violations[idx] = ('fmt', cases[pick], go[pick], spec[pick] if sr is None else 'ok ' + cps(sr))
    ctx.notes.append('first fmt violation shrunk to: ' + ctx.violations[idx][1][:300])


def run_textprog(ctx):
    """whole programs over the text members, three-way through the evaluator model and the spec semantics (progs.text_program)"""
    from props import progs
    g = progs.G(ctx.rng)
    ps = [g.text_program(ctx.rng.randint(2, 9)) for _ in range(ctx.n(700, 20000))]
    progs.run_stream(ctx, 'textprog', ps, nontrivial=lambda src, go: '以' in src or '之' in src)


def run(ctx):
    run_text(ctx)
    from props import c14fam
    c14fam.run_textfam(ctx, gen_text, three)
    run_methods(ctx)
    run_textprog(ctx)
    run_fmt(ctx)
    run_mod(ctx)
    if ctx.violations:
        ctx.violations.sort(key=lambda v: len(v[1]))     # report the shortest failing input first
        shrink_fmt(ctx)
        ctx.violations.sort(key=lambda v: len(v[1]))


def replay(ctx, data):
    case = data['case']
    f = case.split(' ')
    if f[0] == 'run':
        from props import progs
        return progs.replay(ctx, data)
    g = ctx.run_go([case])[0]
    m = ctx.run_lean([case])[0]
    s = ctx.run_lean(['spec:' + case])[0]
    if f[0] == 'mod':
        r = parse_arg(f[2])
        args = r.val if r.kind == 'a' else []
        mr, sr = resolve(m, args), resolve(s, args)
        print('go   :', g[:400])
        print('model:', m[:400], '=>', ('ok ' + cps(mr))[:400] if mr is not None else '')
        print('spec :', s[:400], '=>', ('ok ' + cps(sr))[:400] if sr is not None else '')
    elif f[0] == 'fmt':
        args = [parse_arg(a) for a in f[2:]]
        mr, sr = resolve(m, args), resolve(s, args)
        print('go   :', g[:400])
        print('model:', m[:400], '=>', ('ok ' + cps(mr))[:400] if mr is not None else '')
        print('spec :', s[:400], '=>', ('ok ' + cps(sr))[:400] if sr is not None else '')
        if isinstance(go_text(g), list):
            print('go text  :', ''.join(map(chr, go_text(g)))[:200])
            if sr is not None:
                print('spec text:', ''.join(map(chr, sr))[:200])
    else:
        print('go   :', g)
        print('model:', m)
        print('spec :', s)


def parse_scalar(a):
    if a[0] == 'n':
        return A('n', math.nan if a[1:] == 'nan' else struct.unpack('>d', struct.pack('>Q', int(a[1:], 16)))[0])
    if a[0] == 's':
        return A('s', [] if a[1:] == '-' else [int(h, 16) for h in a[1:].split('.')])
    if a[0] == 'b':
        return A('b', a[1:] == '1')
    return A(a[0])


def parse_arg(a):
    if a[0] == 'a':
        return A('a', [parse_scalar(x) for x in a[1:].split(',')] if len(a) > 1 else [])
    if a[0] == 'h':
        out = []
        if len(a) > 1:
            for it in a[1:].split(','):
                k, v = it.split('=', 1)
                out.append(([int(h, 16) for h in k.split('.')], parse_scalar(v)))
        return A('h', out)
    return parse_scalar(a)
