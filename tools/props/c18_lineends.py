"""C18 — mixed line ends: "line numbers count physical source lines (multi-line literals and comments included)" when the
line ends of ONE text are a mixture of LF, CR, CR LF and LF CR.

`run_mixed(ctx, g, cases)` takes planted-fault programs (zngen trees with tags on the call sites and on the fault) and
  1. re-lays them out: every structural line break gets its own line end (style per program: independent / mostly one kind /
     one kind throughout, CR-only and LF CR-only included), runs of 1–4 empty / indent-only / blank-only lines (each with its own
     line end) are put after statements, after block headers, inside multi-line comments and inside multi-line text literals, at
     the very beginning of the text and at its end (which may also lack a final line break);
  2. runs them three-way like every program stream (Go = model = spec result/trace, parsed tree = intended tree — blank lines
     of any indentation must not change the block structure);
  3. judges the location lines of the rendered error by the SPEC: the generator knows the OFFSET of every tagged statement in
     the final text, `spec:lineof` (lean/ZnVerif/Ops/Lines.lean over Spec/Lines.lean: CR LF and LF CR are one break, recognised
     greedily left to right) turns offsets into physical line numbers; the generator's own greedy count must agree with the
     spec's (a disagreement of the two is reported as a broken correspondence, never silently repaired);
  4. plants syntax errors (a stray ） at a known offset: on a line of its own after wide characters, on the LAST physical line of
     a multi-line comment / text literal, inside an indented block) and compares line and caret with `spec:lineof` /
     `spec:errline`;
  5. compares the whole Lines table of the real lexer (`lex`) with the model and with `spec:linestarts` (theorem lines_table).

A sequence such as "CR-terminated line, empty line terminated by LF" is ONE CR LF break by the rule; the generator does not avoid
such sequences — it never counts lines by intention, only by the rule applied to the final text.
All randomness comes from ctx.rng."""
import bisect
from zngen import R, Str, Raw, Decl, Func, Program, E, S, emit_exec, cps
from props import progs

RULE_MIXED = ("mixed stream: the planted-fault programs of the chain stream re-laid out with per-line line ends (LF, CR, CR LF, LF CR: independent / "
              "mostly one kind / one kind throughout) and runs of 1–4 empty, indent-only or blank-only lines after statements and block headers, "
              "inside multi-line comments and text literals, before the first and after the last statement (final line break optional); expected "
              "chain lines, syntax-error line + caret (stray ） on its own line, on the last physical line of a multi-line comment / literal, inside "
              "an indented block) and the lexer's whole Lines table are judged by spec:lineof / spec:errline / spec:linestarts (Spec/Lines.lean)")
BREAKS = ['\n', '\r', '\r\n', '\n\r']
BREAK_NAME = {'\n': 'lf', '\r': 'cr', '\r\n': 'crlf', '\n\r': 'lfcr'}
OPENERS = '“「『‘《'
# Blank-only lines (outside comments / literals) whose leading spaces are not a multiple of four, or that begin with a TAB in a
# space-indented program, are REJECTED by the unchanged lexer (syntax error 24 / 23: the indentation of a line is checked even when
# nothing follows it, e.g. 令甲设为1 LF SP SP LF （显示：甲） → error 24). That is a layout question (C03), not a wrong location, and
# no program could then reach its planted fault, so the stream leaves them out; switch on to see them.
ODD_INDENT_BLANK_LINES = False
BLANKS_INSIDE = ' \t　\xa0'


# ---- the documented rule, in Python (cross-checked against the Lean spec on every case) -----------------------------------

def phys_starts(s):
    """start offsets of the physical lines of s: CR LF / LF CR pair greedily left to right (Spec/Lines.lean physicalLineStarts)"""
    if not s:
        return []
    out = [0]
    i, n = 0, len(s)
    while i < n:
        c = s[i]
        if c in '\r\n':
            if i + 1 < n and s[i + 1] in '\r\n' and s[i + 1] != c:
                i += 2
            else:
                i += 1
            out.append(i)
        else:
            i += 1
    return out


def line_of(starts, off):
    return bisect.bisect_right(starts, off)


def break_runs(s, blanks=' \t\u3000\xa0'):
    """maximal runs of line breaks separated only by `blanks`: list of (offset, [break strings])"""
    out = []
    i, n = 0, len(s)
    cur = None
    while i < n:
        c = s[i]
        if c in '\r\n':
            b = s[i:i + 2] if (i + 1 < n and s[i + 1] in '\r\n' and s[i + 1] != c) else c
            if cur is None:
                cur = (i, [])
                out.append(cur)
            cur[1].append(b)
            i += len(b)
        elif c in blanks and cur is not None:
            i += 1
        else:
            cur = None
            i += 1
    return out


def context_sensitive(brs):
    """a run of breaks (separated by nothing but indentation) in which some later break begins with a character different from the
    run's first character and is directly followed by another break character (its own second one, or the next break's first):
    whether it pairs can only be decided by looking at the CURRENT character, not at the one the run began with"""
    c0 = brs[0][0]
    for j in range(1, len(brs)):
        if brs[j][0] != c0 and (len(brs[j]) == 2 or j + 1 < len(brs)):
            return True
    return False


# ---- line-end styles ------------------------------------------------------------------------------------------------------

class Style:
    def __init__(self, rng):
        self.rng = rng
        k = rng.random()
        if k < 0.55:
            self.kind, self.main = 'independent', None
        elif k < 0.75:
            self.kind, self.main = 'mostly', rng.choice(BREAKS)
        else:
            self.kind, self.main = 'uniform', rng.choice(BREAKS)
        self.p_run = rng.choice([0.15, 0.3, 0.3, 0.5])

    def brk(self):
        if self.kind == 'independent':
            return self.rng.choice(BREAKS)
        if self.kind == 'mostly' and self.rng.random() < 0.3:
            return self.rng.choice(BREAKS)
        return self.main

    def blank_line(self, inside):
        """content of one blank line. Outside literals/comments a line's leading spaces are an indentation (a multiple of four),
        so a blank-only line there starts with 4k spaces or with a blank that is not an indent character"""
        rng = self.rng
        k = rng.random()
        if k < 0.5:
            return ''
        if inside:
            return ''.join(rng.choice(BLANKS_INSIDE) for _ in range(rng.randint(1, 5)))
        if ODD_INDENT_BLANK_LINES and k < 0.6:
            return rng.choice([' ', '  ', '   ', '     ', '\t', '\t\t'])
        if k < 0.8:
            return '    ' * rng.randint(1, 3)
        tail = ''.join(rng.choice(' \t　') for _ in range(rng.randint(0, 3)))
        if k < 0.9:
            return '    ' * rng.randint(1, 2) + '\t' + tail
        return '　' + tail

    def run(self, inside=False, force=False):
        """zero or more blank lines, each with its own line end"""
        if not force and self.rng.random() >= self.p_run:
            return ''
        n = self.rng.choice([1, 1, 2, 2, 3, 4])
        return ''.join(self.blank_line(inside) + self.brk() for _ in range(n))

    def subst(self, part, inside=False):
        """every LF of a structural part (or of a literal's text) becomes a line end of this style, possibly followed by blank lines"""
        if '\n' not in part:
            return part
        out = []
        for ch in part:
            out.append(self.brk() + self.run(inside) if ch == '\n' else ch)
        return ''.join(out)


# ---- program surgery: literals get mixed ends, extra multi-line comments / literals with blank lines inside ------------------

class LitRaw(Raw):
    """verbatim source (already laid out): the renderer must not touch its line ends"""

    def emit(self, r, indent):
        if hasattr(r, 'lit'):
            r.lit.add(len(r.parts))
        r.w(self.text)
        return self.sx


def _walk(node, fn, seen):
    if id(node) in seen:
        return
    if isinstance(node, (list, tuple)):
        for x in node:
            _walk(x, fn, seen)
    elif isinstance(node, (E, S, Program)):
        seen.add(id(node))
        fn(node)
        for v in vars(node).values():
            _walk(v, fn, seen)


def mix_literals(p, style):
    """every multi-line text literal of the program: its LFs become line ends of the style, blank lines are put inside.
    The tree IS the intended tree: the text value changes with it (the lexer keeps a literal's line ends verbatim)."""
    def fn(node):
        if isinstance(node, Str) and '\n' in node.s and '\r' not in node.s:
            node.s = style.subst(node.s, inside=True)
    _walk(p, fn, set())


def extra_filler(g, style):
    rng = style.rng
    k = rng.random()
    a, b = '甲%d' % g.fresh(), '乙%d' % g.fresh()
    mid = style.brk() + style.run(inside=True, force=rng.random() < 0.6)
    if rng.random() < 0.3:
        mid += '丙' + style.brk() + style.run(inside=True)
    if k < 0.25:
        return LitRaw('/* ' + a + mid + b + ' */')
    if k < 0.4:
        return LitRaw('注：“' + a + mid + b + '”')
    if k < 0.5:
        return LitRaw('注：「' + a + mid + b + '」')
    if k < 0.6:
        return LitRaw('注%d：“' % rng.randint(0, 99) + a + mid + '”')
    # a text literal whose value spans lines; mix_literals lays its line ends out
    return Decl(['文%d' % g.fresh()], Str(a + '\n' + b + ('\n' if rng.random() < 0.3 else '')))


def add_fillers(p, g, style):
    rng = style.rng
    bodies = [p.body] + [s.body for s in p.body if isinstance(s, Func)]
    for body in bodies:
        for _ in range(rng.choice([0, 0, 1, 1, 2]) if body is p.body else rng.choice([0, 0, 1])):
            body.insert(rng.randint(0, max(0, len(body) - 1)), extra_filler(g, style))


# ---- rendering ------------------------------------------------------------------------------------------------------------

class _Tags(dict):
    def __init__(self, r):
        dict.__init__(self)
        self.r = r

    def __setitem__(self, k, v):
        dict.__setitem__(self, k, v)
        self.r.tagpart[k] = len(self.r.parts)     # the statement's first token is the next part written


class MixedR(R):
    def __init__(self, rng):
        R.__init__(self, rng)
        self.tagpart = {}
        self.lit = set()
        self.tags = _Tags(self)


class Mixed:
    """a program plus its line-end style; quacks like zngen.Program for progs.run_stream"""

    def __init__(self, p, style, chain_tags, tail):
        self.p, self.style, self.chain_tags, self.tail = p, style, chain_tags, tail

    def render(self, rng=None):
        st = self.style
        r = MixedR(rng)
        ex = emit_exec(self.p.inputs, self.p.body, self.p.catches, r, 0)
        lead = st.run(force=True) if st.rng.random() < 0.25 else ''
        out, offs, pos = [lead], [], len(lead)
        for i, part in enumerate(r.parts):
            offs.append(pos)
            piece = part if (i in r.lit or part[:1] in OPENERS) else st.subst(part)
            out.append(piece)
            pos += len(piece)
        offs.append(pos)
        text = ''.join(out)
        if st.rng.random() < 0.2:
            text = text.rstrip('\r\n \t　')          # no line break after the last statement (nothing tagged lives there)
        self.text = text
        self.parts = r.parts
        self.part_off = offs
        self.tagpart = dict(r.tagpart)
        self.tag_off = {t: offs[i] for t, i in r.tagpart.items()}
        # offsets of the top-level statements (an empty indent part precedes each of them)
        self.top = [offs[i + 1] for i, part in enumerate(r.parts) if part == '' and i + 1 < len(r.parts)]
        return text, '(prog () %s)' % ex


# ---- planted syntax errors ------------------------------------------------------------------------------------------------

PRE = ['', '甲乙丙 ', 'ab ', '数甲 ', '“~” ', '“a~~b”  ', '“甲~” ']


def plant_syntax(m, g):
    """returns (text, cursor of the stray ）, variant) or None"""
    st, rng = m.style, m.style.rng
    text = m.text
    starts = set(phys_starts(text))
    v = rng.random()
    # where: the start of a line that begins a top-level statement (not a definition, not a comment) …
    cands = []
    for off in m.top[1:]:
        if off < len(text) and text[off] not in '如何定注/ \t\r\n' and off in starts:
            cands.append((off, ''))
    # … or of a tagged statement inside a method body (indented)
    if v > 0.75:
        inner = []
        for t, i in m.tagpart.items():
            ind = m.parts[i - 1] if i > 0 else ''
            off = m.part_off[i - 1] if i > 0 else 0
            if ind and not ind.strip(' ') and off in starts and off + len(ind) == m.part_off[i]:
                inner.append((off, ind))
        if inner:
            cands = inner
    if not cands:
        return None
    off, ind = rng.choice(cands)
    a, b = '甲%d' % g.fresh(), '乙%d' % g.fresh()
    mid = st.brk() + st.run(inside=True, force=rng.random() < 0.5)
    k = rng.random()
    if k < 0.5:
        head, variant = rng.choice(PRE), 'own-line'
    elif k < 0.65:
        head, variant = '/* ' + a + mid + b + ' */ ', 'after-comment'
    elif k < 0.75:
        head, variant = '注：“' + a + mid + b + '” ', 'after-comment'
    elif k < 0.9:
        head, variant = '令文%d设为“' % g.fresh() + a + mid + b + '” ', 'after-literal'
    else:
        head, variant = '“' + a + mid + b + '” ', 'after-literal'
    line = ind + head + '）' + st.brk()
    if rng.random() < 0.3:
        # a blank run between the planted line's predecessor and the planted line itself
        line = st.run(force=True) + line
    new = text[:off] + line + text[off:]
    cursor = off + line.rindex('）')
    return new, cursor, variant + ('-indented' if ind else '')


# ---- the stream -----------------------------------------------------------------------------------------------------------

def _lex_starts(ans):
    """start indices of the Lines table in a `lex` answer, or None when the text did not lex to the end"""
    if not ans.startswith('ok') or ' |' not in ans:
        return None
    tail = ans.split(' |', 1)[1].split()
    return [int(f.split(':')[1]) for f in tail]


def run_mixed(ctx, g, cases):
    """cases: list of (zngen.Program, chain_tags, tail) — chain_tags = tags of the active call sites, outermost first, the fault
    last; tail = extra last element of the expected chain ('native' for a failing built-in) or None"""
    ctx.notes.append(RULE_MIXED)
    ms = []
    for p, chain_tags, tail in cases:
        st = Style(ctx.rng)
        add_fillers(p, g, st)
        mix_literals(p, st)
        ms.append(Mixed(p, st, chain_tags, tail))
    srcs, go, model, spec = progs.run_stream(
        ctx, 'mixed', [(m, {}) for m in ms],
        nontrivial=lambda src, go: any(len(b) >= 2 and len(set(b)) >= 2 for _, b in break_runs(src)))
    # ---- runtime faults: chain judged by the spec's physical lines -----------------------------------------------------
    q = ['spec:lineof %s %s' % (cps(m.text), ' '.join(str(m.tag_off[t]) for t in m.chain_tags)) for m in ms]
    sp = ctx.run_lean(q)
    for m, src, g_out, s_out in zip(ms, srcs, go, sp):
        case = 'run ' + cps(src)
        ctx.evaluations += 1
        starts = phys_starts(src)
        own = [line_of(starts, m.tag_off[t]) for t in m.chain_tags]
        if s_out != 'ok ' + ' '.join(map(str, own)) and s_out != 'notrun':
            ctx.disagreement('mixed:generator-count-vs-spec', 'spec:lineof ' + cps(src), 'generator ' + ' '.join(map(str, own)), s_out)
            continue
        exp = ['main:%d' % n for n in own] + ([m.tail] if m.tail else [])
        f = g_out.split(' ')
        got = f[3] if g_out.startswith('err') and len(f) > 3 else g_out
        if got != '>'.join(exp):
            ctx.violation('mixed:chain-ground-truth', case, g_out, 'expected chain ' + '>'.join(exp) + ' (spec:lineof ' + s_out + ')')
        # what the text contains, for the evidence
        fault_off = m.tag_off[m.chain_tags[-1]]
        runs = [b for o, b in break_runs(src) if o < fault_off]
        ctx.count('mixed:style-' + m.style.kind + ('' if m.style.main is None else '-' + BREAK_NAME[m.style.main]))
        ctx.count('mixed:kinds-of-line-end-%d' % len({b for r_ in runs for b in r_}))
        if any(len(b) >= 2 for b in runs):
            ctx.count('mixed:blank-run-before-fault')
        if any(len(b) >= 2 and len(set(b)) >= 2 for b in runs):
            ctx.count('mixed:blank-run-with-different-ends-before-fault')
        if any(context_sensitive(b) for o, b in break_runs(src, ' ') if o < fault_off):
            ctx.count('mixed:run-whose-pairing-depends-on-current-char-before-fault')
        if len(starts) != src.count('\n') + 1 and '\r' in src:
            ctx.count('mixed:physical-lines-differ-from-LF-count')
    # ---- planted syntax errors --------------------------------------------------------------------------------------
    syn = []
    for m in ms[: ctx.n(300, 6000)]:
        pl = plant_syntax(m, g)
        if pl:
            syn.append(pl)
    syn_lines = ['run ' + cps(t) for t, _, _ in syn]
    syn_go = ctx.run_go(syn_lines)
    syn_l = ctx.run_lean(['spec:lineof %s %d' % (cps(t), c) for t, c, _ in syn])
    syn_c = ctx.run_lean(['spec:errline %s %d' % (cps(t), c) for t, c, _ in syn])
    for (t, c, variant), line, g_out, sl, sc in zip(syn, syn_lines, syn_go, syn_l, syn_c):
        ctx.evaluations += 1
        ctx.count('mixed:syntax-' + variant)
        own = line_of(phys_starts(t), c)
        fl, fc = sl.split(' '), sc.split(' ')
        if 'notrun' in (sl, sc):
            continue
        if sl != 'ok %d' % own or len(fc) != 4 or fc[0] != 'ok':
            ctx.disagreement('mixed:generator-count-vs-spec', 'spec:lineof %s %d' % (cps(t), c), 'generator %d' % own, sl + ' / ' + sc)
            continue
        exp = 'main:%s caret=%s' % (fl[1], fc[3])
        f = g_out.split(' ')
        got = ' '.join(f[3:5]) if g_out.startswith('err syn') and len(f) >= 5 else g_out
        if got != exp:
            ctx.violation('mixed:syntax-ground-truth', line, g_out, 'expected syntax error at ' + exp + ' (spec:lineof, spec:errline)')
        ctx.nontriv(line)
    ctx.streams.append({'stream': 'mixed-syntax-planted', 'cases': len(syn)})
    # ---- the Lines table of the lexer: Go = model = physical line starts ----------------------------------------------
    texts = srcs[: ctx.n(400, 8000)] + [t for t, _, _ in syn[: ctx.n(150, 3000)]]
    lex_lines = ['lex ' + cps(t) for t in texts]
    lg = ctx.run_go(lex_lines)
    lm = ctx.run_lean(lex_lines)
    ls = ctx.run_lean(['spec:linestarts ' + cps(t) for t in texts])
    for t, line, a, b, c in zip(texts, lex_lines, lg, lm, ls):
        ctx.evaluations += 1
        if 'notrun' in (a, b, c):
            continue
        if a != b:
            ctx.disagreement('mixed:line-table', line, a[-300:], b[-300:])
        got = _lex_starts(a)
        own = 'ok ' + ('.'.join(map(str, phys_starts(t))) or '-')
        if c != own:
            ctx.disagreement('mixed:generator-count-vs-spec', 'spec:linestarts ' + cps(t), own[:300], c[:300])
            continue
        if got is None or 'ok ' + ('.'.join(map(str, got)) or '-') != c:
            ctx.violation('mixed:line-table', line, a[-400:], 'Lines start indices must be ' + c[:400] + ' (spec:linestarts)')
    ctx.streams.append({'stream': 'mixed-line-table', 'cases': len(texts)})
