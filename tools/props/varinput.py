"""varinput stream (C05): the text of the input variables is program text — "for every finite sequence of Unicode characters given
as program source OR AS INPUT-VARIABLE TEXT, compilation yields either a syntax tree or a single syntax error … never a half-built tree".

The SAME texts go to the compiler (`compile`, judged like every other C05 stream, and compared with the parser model) and to the
entry points that take input-variable text:

  varinput <cps>            exec.ExecVarInputText  and  Interpreter.ExecuteVarInputText     (a block of `name = value` lines)
  exprin <cps> [<cps>…]     exec.ExecExpressionInputText({甲, 乙, 丙})                          (one expression per entry)

Oracle (Lean `Spec/VarInput.lean`, driver ops `spec:varinput[-ast]`, `spec:exprin[-ast]`):
  the entry point binds names  ⇔  the compiler accepts the WHOLE text and the tree is nothing but a block of plain assignments
  (resp. exactly one expression); when it binds, the names are those of ALL assignments of the text (a later one wins) and the values
  are those of the expression semantics (`Spec.evalE`); otherwise it answers with an error and binds nothing.
  For texts rendered from a generator tree the oracle runs on the INTENDED tree (no parser involved) and Go's tree must be that tree;
  for damaged texts it runs on what the compiler model (Model/Parser over Model/Lexer — the object of the C03/C05 theorems) makes of
  the text, and independently the real compiler's own answer for the same text is put beside the entry point's:
  bound names although `compile` rejected the text (or its tree is no assignment block) is a violation without any model involved.

  Go ≠ model (Model/VarInput.lean: exec_varinput.go as written)  → ctx.disagreement
  Go ≠ spec                                                      → ctx.violation

Texts: valid assignment blocks (1–5 assignments; `=` / 设为; line breaks LF / CRLF / CR, blank lines, `；` between and after
statements, several statements per line, comments of all kinds between / after statements, the whole block indented, trailing
indentation; repeated names; values from the C01 expression generator incl. faults), re-laid-out renderings (znlayout), and of each:
indentation anomalies AFTER complete assignments (one later line over-indented by TAB / 4 / 8 / odd blanks, first lines indented and a
later one not, an over-indented trailing name or comment), every truncation (a few texts), character-level corruptions, two
assignments on one line without `；`, non-assignment statements among the assignments (call, 令, 输出, 如果, 每当, 遍历, 抛出, 如何, 定义,
bare name, comparison), targets that are not names; blank-only / comment-only / `；`-only texts.  Expression entries the same way
(one expression; several; over-indented second line; statements; assignments; truncations and corruptions).

Switch IGNORED_PARTS (env VERIF_C05_VARINPUT_IGNORED_PARTS=1): texts whose tree carries an import line, an 输入 line or 拦截 handlers
beside the assignments.  The unchanged tree binds the assignments and silently drops those parts (see the final report / DESIGN);
the class is generated and judged only with the switch on; a damaged text that happens to land in it is counted, not judged.
"""
import os
import re
from zngen import R, Var, Num, Str, Arr, Dict, Bin, Brace, Index, This, Assign, Call, MCall, cps, hx
import znlayout
from props import parsecommon as pc
from props import progs

IGNORED_PARTS = os.environ.get('VERIF_C05_VARINPUT_IGNORED_PARTS', '0') == '1'

RULE_VARINPUT = ("varinput: input-variable texts — valid assignment blocks (1–5 assignments, every separator/comment/indent layout, repeated "
                 "names, values from the expression generator incl. faults) three-way against the intended tree; of each: indentation anomalies "
                 "after complete assignments, every truncation (a few), corruptions, statements without `；`, non-assignment statements among "
                 "the assignments, non-name targets; blank / comment / `；`-only texts — each compiled (`compile`) AND fed to ExecVarInputText / "
                 "Interpreter.ExecuteVarInputText; exprin: 1–3 expression entries for ExecExpressionInputText, valid and damaged the same way. "
                 "Oracle Spec/VarInput.lean: binds ⇔ the whole text compiles to a block of plain assignments (one expression), bound names = all "
                 "assignments in order, values = Spec.evalE")
ASSUMPTIONS_VARINPUT = ["input-variable texts are handed over as Go strings: the harness passes no surrogates",
                        "a text without any statement (blank / comments only) may bind nothing or be rejected (both are accepted)",
                        "a target spelled like a number (`1 = 2`) is left open by the oracle",
                        "import lines, an 输入 line and 拦截 handlers beside the assignments: judged only with VERIF_C05_VARINPUT_IGNORED_PARTS=1"]

NAMES = ['甲', '乙', '丙', '丁', '客单价', '销量', 'X', 'y1', '数_1', '甲乙']
COMMENTS = ['注：说明', '// x = 1', '/* 乙 = 2 */', '注：“多\n行”', '注1：「甲 = 1」', '/* a\n b */', '// 令', '注：']
FAULTS = [lambda: Bin('/', Num('1'), Num('0')), lambda: Var('未定'), lambda: This('a'), lambda: Index(Arr([Num('1')]), Num('9')),
          lambda: Bin('+', Num('1'), Str('a')), lambda: Bin('and', Num('1'), Var('真')), lambda: Call('未定法', [Num('1')]),
          lambda: Index(Dict([(Var('a'), Num('1'))]), Str('b'))]
# statements that are no assignment (each compiles on its own line at top level)
OTHER_STMTS = ['（显示：1）', '令丁 = 1', '令丁设为1', '输出 1', '输出 甲', '如果真：\n    丁 = 1', '每当假：\n    丁 = 1', '以丁遍历【1】：\n    戊 = 丁',
               '抛出异常：“x”！', '如何f？\n    输出 1', '定义T：\n    其a设为1', '丁', '1', '1 + 2', '丁 为 1', '丁 == 1', '“文”', '【1，2】', '结束循环',
               '继续循环', '以丁（加：1）', '（新建异常：“x”）', '{丁 = 1}', '丁 = 1 为 1', '令：\n    丁 设为 1']
NON_NAME_TARGETS = ['甲之a', '甲#1', '其a', '甲#“k”', '【1】#1', '甲之a之b']
NUMERIC_TARGETS = ['1', '-2', '0.5', '1*10^3']
BLANKS = ['', ' ', '\t', '    ', '\n', '\r\n', '\n\n', '    \n', '\n    ', '注：x', '// x', '/* x */', '注：“a\nb”', '\n注：x\n', '    注：x', '；', '；；',
          '\n；\n', '； 注：x', '注：x\n；', '　', '﻿']
PART_HEADS = ['导入《@JSON》\n', '输入戊\n', '输入戊、己\n', '导入《@JSON》\n输入戊\n']
PART_TAILS = ['\n拦截异常：\n    输出 1', '\n拦截异常：\n    丁 = 1', '\n拦截异常：\n    （显示：1）\n拦截异常：\n    丁 = 2']
EOLS = ['\n', '\n', '\n', '\r\n', '\r', '\n\r']
BAD_INDENTS = ['    ', '\t', '        ', '\t\t', '     ', ' \t', '\t ', '  ', ' ', '   ', '      ']


def _split_lines(text):
    """[(line, eol)] keeping the line ends"""
    parts = re.split('(\r\n|\n\r|\r|\n)', text)
    return [(parts[i], parts[i + 1] if i + 1 < len(parts) else '') for i in range(0, len(parts), 2)]


def _join_lines(ls):
    return ''.join(l + e for l, e in ls)


class Gen:
    def __init__(self, rng):
        self.rng = rng
        self.g = progs.G(rng)

    def value(self, fault=0.0):
        rng = self.rng
        if rng.random() < fault:
            return rng.choice(FAULTS)()
        k = rng.random()
        if k < 0.1:
            return Str(rng.choice(progs.ML_TEXTS))
        if k < 0.2:
            return Arr([self.g.any_leaf({}) for _ in range(rng.randint(0, 3))] + ([Str(rng.choice(progs.ML_TEXTS))] if rng.random() < 0.3 else []))
        self.g.textm = rng.choice([0.0, 0.0, 0.15])
        try:
            return self.g.expr(rng.choice(['num', 'num', 'bool', 'other', 'any']), rng.randint(0, 3), {}, rng.choice([0.0, 0.0, 0.0, 0.1]), marks=False)
        finally:
            self.g.textm = 0.0

    def pairs(self, n=None, fault=0.06):
        rng = self.rng
        n = n or rng.choice([1, 1, 2, 2, 3, 3, 4, 5])
        names = [rng.choice(NAMES) for _ in range(n)] if rng.random() < 0.3 else rng.sample(NAMES, n)
        return [(nm, self.value(fault)) for nm in names]

    # ---- rendering an assignment block ---------------------------------------------------------------------------------------
    def render(self, items, plain=False):
        """items: (name, E) assignments or raw statement texts.  → (text, intended tree or None when a raw item is inside)"""
        rng = self.rng
        r = R(rng)
        eol = '\n' if plain else rng.choice(EOLS)
        ind = '' if plain or rng.random() < 0.8 else rng.choice(['    ', '\t'])
        unit = ind or rng.choice(['    ', '\t'])      # one kind of indentation per text (TAB and blanks do not mix, even on blank lines)
        cm = lambda: rng.choice(COMMENTS).replace('\n', eol)
        sx, known = [], True
        if not plain:
            for _ in range(rng.choice([0, 0, 0, 1, 2])):
                r.w(rng.choice([eol, ind + cm() + eol, unit + eol, eol + eol]))
        at_start = True
        for k, it in enumerate(items):
            if at_start:
                r.w(ind)
            if isinstance(it, str):
                known = False
                r.w(it.replace('\n', eol + ind))
            else:
                line0 = r.line
                sx.append(Assign(Var(it[0]), it[1], '=' if plain else rng.choice(['=', '=', '设为'])).emit(r))
            last = k == len(items) - 1
            q = 0.0 if plain else rng.random()
            if ind and not isinstance(it, str) and r.line != line0:
                # observed on the unchanged tree (not a C05 matter: the answer is a clean syntax error 20): inside an INDENTED block a
                # statement that ends in a multi-line text literal cannot be followed by `；` — the `；` sits on the literal's last
                # physical line, whose recorded indentation is 0, and ends the block (cf. KF-C03-multiline-header).  Stay grammatical.
                q = 0.0
                if last:
                    r.w(eol)
                    break
            if last:
                sep = '' if plain else rng.choice(['', '', eol, eol, '；', '；' + eol, ' ' + cm(), eol + cm(), eol + unit, eol + unit + eol, eol + eol,
                                                   eol + ind + cm() + eol, '； ' + cm()])
            elif q < 0.55:
                sep = eol
            elif q < 0.65:
                sep = eol + rng.choice(['', unit]) + eol
            elif q < 0.73:
                sep = rng.choice(['；', ' ； ', '； ', '；；'])
            elif q < 0.80:
                sep = '；' + eol
            elif q < 0.87:
                sep = ' ' + cm() + eol
            elif q < 0.95:
                sep = eol + rng.choice([ind, '', ind + unit]) + cm() + eol
            else:
                sep = eol + eol + eol
            for _ in range(sep.count('；')):
                sx.append('(empty %d)' % r.line)
            r.w(sep)
            at_start = sep.endswith(('\n', '\r'))
            # an inline /* … */ or quoted comment does not end the line: what follows it is on the same line — only `；` or a line end
            # may precede the next statement
            if not at_start and not last and '；' not in sep:
                r.w(eol)
                at_start = True
        tree = '(prog () (exec () (block%s) ()))' % ''.join(' ' + x for x in sx) if known else None
        return r.text(), tree

    # ---- damage ------------------------------------------------------------------------------------------------------------------
    def indent_anomaly(self, text):
        """indentation that changes AFTER a complete statement (the top-level block loop ends before the end of the text)"""
        rng = self.rng
        ls = _split_lines(text)
        idx = [i for i, (l, _) in enumerate(ls) if l.strip(' \t')]
        k = rng.random()
        if len(idx) >= 2 and k < 0.55:
            i = rng.choice(idx[1:])                      # a later line over-indented
            ls[i] = (rng.choice(BAD_INDENTS) + ls[i][0], ls[i][1])
        elif len(idx) >= 2 and k < 0.8:
            j = rng.randint(1, len(idx) - 1)             # the first j lines indented, the rest not
            unit = rng.choice(['    ', '\t', '        '])
            for i in idx[:j]:
                ls[i] = (unit + ls[i][0].lstrip(' \t'), ls[i][1])
        elif k < 0.9:
            e = ls[-1][1] or '\n'                        # an over-indented trailing name / statement / comment
            if not ls[-1][1]:
                ls[-1] = (ls[-1][0], e)
            ls.append((rng.choice(BAD_INDENTS[:4]) + rng.choice(['乙', '戊 = 5', '注：x', '（显示：1）', '；', '戊 = ']), ''))
        else:
            for i in idx:                                # every line its own indentation
                ls[i] = (rng.choice(['', '', '    ', '\t', '  ', '        ']) + ls[i][0].lstrip(' \t'), ls[i][1])
        return _join_lines(ls)

    def glue(self, pairs):
        """two assignments on one line without `；` (or with a comma / a 、)"""
        rng = self.rng
        items = list(pairs) + self.pairs(1)
        texts = [self.render([it], plain=True)[0] for it in items]
        j = rng.randrange(len(texts) - 1)
        texts[j:j + 2] = [texts[j] + rng.choice([' ', '  ', '，', '、', ' ， ', '\t']) + texts[j + 1]]
        return '\n'.join(texts)

    def with_other_statement(self, pairs):
        rng = self.rng
        items = list(pairs)
        items.insert(rng.randint(0, len(items)), rng.choice(OTHER_STMTS))
        return self.render(items)[0]

    def with_bad_target(self, pairs):
        rng = self.rng
        items = list(pairs)
        t = rng.choice(NON_NAME_TARGETS if rng.random() < 0.8 else NUMERIC_TARGETS)
        items.insert(rng.randint(0, len(items)), '%s %s %s' % (t, rng.choice(['=', '设为']), rng.choice(['1', '“a”', '【1】'])))
        return self.render(items)[0]

    def with_parts(self, pairs):
        rng = self.rng
        text = self.render(pairs, plain=True)[0]
        k = rng.random()
        if k < 0.5:
            return rng.choice(PART_HEADS) + text
        if k < 0.85:
            return text + rng.choice(PART_TAILS)
        return rng.choice(PART_HEADS) + text + rng.choice(PART_TAILS)

    # ---- expression entries --------------------------------------------------------------------------------------------------------
    def expr_entry(self):
        """(text, intended tree) of a text that is exactly one expression"""
        rng = self.rng
        r = R(rng)
        eol = rng.choice(EOLS)
        for _ in range(rng.choice([0, 0, 0, 1, 2])):
            r.w(rng.choice([eol, rng.choice(COMMENTS).replace('\n', eol) + eol]))
        e = self.value(0.05)
        probe = R(rng)
        e.emit(probe)
        if probe.text().startswith('以') and not isinstance(e, MCall):
            e = Brace(e)        # a statement that STARTS with 以 is a method-call statement: an operator cannot follow the chain unbraced
        sx = e.emit(r)
        r.w(rng.choice(['', '', '', eol, ' ' + rng.choice(COMMENTS).replace('\n', eol), eol + rng.choice(COMMENTS).replace('\n', eol), eol + '    ']))
        return r.text(), '(prog () (exec () (block %s) ()))' % sx

    def bad_expr_entry(self):
        rng = self.rng
        a, b = self.expr_entry()[0], self.expr_entry()[0]
        k = rng.random()
        if k < 0.2:
            return a.rstrip('\r\n \t') + '\n' + rng.choice(BAD_INDENTS) + rng.choice(['2', '乙', b.lstrip('\r\n')])
        if k < 0.3:
            return rng.choice(['    ', '\t']) + self.render(self.pairs(1), plain=True)[0].split(' = ', 1)[1] + '\n3'
        if k < 0.45:
            return a + rng.choice(['\n', '；', ' ', '，', '；\n']) + b
        if k < 0.55:
            return rng.choice(BLANKS)
        if k < 0.7:
            return rng.choice(OTHER_STMTS[:11] + ['甲 = 1', '甲 设为 1', '1；', '；1'])
        if k < 0.85:
            return a[:rng.randint(0, len(a))]
        return pc.corruptions(rng, a, [], 1)[0]


# ---- judging -----------------------------------------------------------------------------------------------------------------------

def _no_surrogates(s):
    return ''.join(c for c in s if not 0xD800 <= ord(c) <= 0xDFFF)


def tree_facts(tree_sx):
    """of a dumped REAL tree: (is an assignment block in the reading of the entry point — None: no statement block at all —,
    target names in order, carries other parts)"""
    try:
        x = pc.sx_parse(tree_sx)
    except Exception:
        return False, [], False
    if not (isinstance(x, list) and len(x) == 3 and x[0] == 'prog'):
        return False, [], False
    ex = x[2]
    if ex == 'nil' or not isinstance(ex, list) or len(ex) != 4:
        return None, [], bool(x[1])
    parts = bool(x[1]) or bool(ex[1]) or bool(ex[3])
    blk = ex[2]
    if blk == 'nil':
        return None, [], parts
    names = []
    for s in blk[1:]:
        if isinstance(s, list) and s and s[0] == 'empty':
            continue
        if isinstance(s, list) and s and s[0] == 'assign' and isinstance(s[2], list) and s[2][0] == 'id':
            names.append(s[2][2])
            continue
        return False, [], parts
    return True, names, parts


def _bound_names(ans):
    """name fields of `ok {a=…,b=…}`"""
    body = ans[4:-1]
    out, depth, cur = [], 0, ''
    for c in body:
        if c in '[{':
            depth += 1
        elif c in ']}':
            depth -= 1
        if c == ',' and depth == 0:
            out.append(cur)
            cur = ''
        else:
            cur += c
    if cur:
        out.append(cur)
    return sorted(f.split('=', 1)[0] for f in out)


def judge_entry(ctx, stream, case, who, got, spec, model, compiled, text):
    """one entry point's answer `got` (`ok {…}` | `err c k` | panic | timeout) against the oracle, the model and the real compiler"""
    cls = got.split(' ')[0]
    if cls not in ('ok', 'err'):
        ctx.violation(stream + ':' + who + '-' + cls, case, got, 'bindings or an error (spec: %s)' % spec)
        return
    # the real compiler's own answer for the same text, no model involved
    if compiled is not None and cls == 'ok' and text != '':
        head = compiled.split(' | ')[0]
        if not head.startswith('ok '):
            ctx.violation(stream + ':' + who + '-bound-what-the-compiler-rejects', case, got, 'rejected: compile says ' + compiled[:120])
            return
        else:
            is_blk, names, _ = tree_facts(head[3:])
            if is_blk is None:
                if got != 'ok {}':
                    ctx.violation(stream + ':' + who + '-bound-from-a-tree-without-statements', case, got, 'nothing bound: tree ' + head[3:200])
                    return
            elif not is_blk:
                ctx.violation(stream + ':' + who + '-bound-a-tree-that-is-no-assignment-block', case, got, 'rejected: tree ' + head[3:200])
                return
            if sorted(set(names)) != _bound_names(got):
                ctx.violation(stream + ':' + who + '-bound-names-differ-from-the-tree', case, got, 'names ' + ' '.join(sorted(set(names))))
                return
    # the oracle
    if spec is not None:
        if spec.startswith('ok '):
            if got != spec and not progs.model_matches(got + ' | -', spec + ' | -'):
                ctx.violation(stream + ':' + who + ('-rejected-valid-text' if cls == 'err' else '-bound-differs'), case, got, spec)
        elif spec in ('reject', 'err') or (spec == 'reject-parts' and IGNORED_PARTS):
            if cls != 'err':
                ctx.violation(stream + ':' + who + '-accepted-' + spec, case, got, spec + ': an error, nothing bound')
        elif spec == 'empty-or-reject':
            if cls == 'ok' and got != 'ok {}':
                ctx.violation(stream + ':' + who + '-bound-from-nothing', case, got, spec)
        elif spec == 'reject-parts':
            ctx.count(stream + ':ignored-parts-not-judged')
        elif spec == 'unspecified':
            ctx.count(stream + ':spec-unspecified')
        else:
            raise RuntimeError('unexpected spec answer %r for %s' % (spec, case))
    # the model (a thrown exception is compared by its class only)
    if model is not None and model not in ('fuel', 'unmodelled'):
        if got.startswith('err sigexc') and model == 'err sigexc':
            pass
        elif got != model and not progs.model_matches(got + ' | -', model + ' | -'):
            ctx.disagreement(stream + ':' + who + '-model', case, got, model)
    elif model is not None:
        ctx.count(stream + ':model-' + model)


def stream(ctx, check, n_base):
    """check = c05.check (compile + the C05 predicates + parser-model correspondence)"""
    rng = ctx.rng
    gen = Gen(rng)
    texts, kinds, intended = [], [], []

    def add(kind, text, tree=None):
        texts.append(_no_surrogates(text))
        kinds.append(kind)
        intended.append(tree)

    # the hand-written heads of the stream: the shapes named in the property's clause
    for t in ('甲 = 1\n    乙 = 2', '甲 = 1\n\t乙 = 2', '甲 = 1\n        乙 = 2\n丙 = 3', '    甲 = 1\n乙 = 2', '甲 = 【1，2】\n    乙', '甲 = 1\n乙 = 2；丙 = “x”\n',
              '甲 = 1\n（显示：1）\n乙 = 2', '甲 = 1\n乙 = ）', '甲 = ', '甲 = 1 乙 = 2', '甲 = 1\n乙 = 1 / 0\n丙 = 3', '甲 = 1\n甲 = 2', '甲 = 1；；\n；乙 = 2'):
        add('hand', t)
    bases = []
    for _ in range(n_base):
        pairs = gen.pairs()
        text, tree = gen.render(pairs)
        bases.append((pairs, text))
        add('valid', text, tree)
    # the same trees in other layouts (token-level re-rendering with the REAL token spans of a plain rendering)
    plains = [gen.render(p, plain=True) for p, _ in bases[:max(1, n_base // 3)]]
    tk = ctx.run_go(['tokens ' + cps(t) for t, _ in plains], timeout_ms=4000)
    for (t, tree), tl in zip(plains, tk):
        sp = pc.token_spans(tl)
        if sp:
            add('valid-relayout', znlayout.relayout(rng, t, sp), tree)
    for pairs, text in bases:
        for _ in range(3):
            add('indent-after-statement', gen.indent_anomaly(text))
        if rng.random() < 0.5:
            add('indent-after-statement', gen.indent_anomaly(gen.render(pairs, plain=True)[0]))
        for c in pc.corruptions(rng, text, [], 3):
            add('corrupt', c)
        add('other-statement', gen.with_other_statement(pairs))
        if rng.random() < 0.5:
            add('glued', gen.glue(pairs))
        if rng.random() < 0.4:
            add('bad-target', gen.with_bad_target(pairs))
        if IGNORED_PARTS and rng.random() < 0.5:
            add('ignored-parts', gen.with_parts(pairs))
    for pairs, text in sorted(bases, key=lambda b: len(b[1]))[:ctx.n(3, 40)] + rng.sample(bases, ctx.n(3, 40)):
        for t in pc.truncations(text):
            add('trunc', t)
    for b in BLANKS:
        add('blank', b)
        add('blank', b + rng.choice(['', '\n', ' ']) + rng.choice(BLANKS))
    # ---- the compiler on every text (C05's own predicates + parser model), then the entry points -------------------------------------
    go_c, model_c = check(ctx, 'varinput-compile', texts)
    lines = ['varinput ' + cps(t) for t in texts]
    go_v = ctx.run_go(lines, timeout_ms=4000)
    model_v = ctx.run_lean(lines)
    spec_v = ctx.run_lean([('spec:varinput-ast ' + tr) if tr else ('spec:varinput ' + cps(t)) for t, tr in zip(texts, intended)])
    for k, t in enumerate(texts):
        ctx.evaluations += 1
        case, g, kind = lines[k], go_v[k], kinds[k]
        head = go_c[k].split(' | ')[0]
        parser_agrees = head == model_c[k]
        spec = spec_v[k]
        if intended[k]:
            # the real tree must be the intended tree (the oracle ran on the intended one)
            if not head.startswith('ok '):
                ctx.violation('varinput:valid-text-rejected-by-compiler', 'compile ' + cps(t), go_c[k][:300], intended[k][:300])
            elif progs.strip_lines(head[3:]) != progs.strip_lines(intended[k]):
                ctx.violation('varinput:parse-tree', 'compile ' + cps(t), progs.strip_lines(head[3:])[:500], progs.strip_lines(intended[k])[:500])
        elif not parser_agrees:
            spec = None            # the compiler model is in question for this text (reported by `check`): only the model-free predicate
        f = g.split(' | ')
        if len(f) != 2 or not f[0].startswith('vi ') or not f[1].startswith('it '):
            ctx.violation('varinput:' + g.split(' ')[0], case, g, 'vi <outcome> | it <outcome>  (spec: %s)' % spec)
            continue
        for who, got in (('vi', f[0][3:]), ('it', f[1][3:])):
            judge_entry(ctx, 'varinput', case, who, got, spec, model_v[k], go_c[k], t)
        ctx.count('varinput:%s:%s' % (kind, 'bound' if f[0].startswith('vi ok') else 'rejected'))
        if kind != 'valid' or '\n' in t or '；' in t:
            ctx.nontriv(case)
    ctx.streams.append({'stream': 'varinput', 'cases': len(texts), 'kinds': {k: kinds.count(k) for k in sorted(set(kinds))}})
    for k in (0, len(texts) // 2):
        ctx.sample({'stream': 'varinput', 'kind': kinds[k], 'source': texts[k], 'compile': go_c[k][:200], 'go': go_v[k][:200], 'model': model_v[k][:200],
                    'spec': spec_v[k][:200]})

    # ---- expression entries ------------------------------------------------------------------------------------------------------------
    entries, ekinds, etrees = [], [], []
    for t in ('1\n    2', '1 + 2\n\t乙', '    1\n2', '1\n2', '1；', '', '甲 = 1', '令甲 = 1', '1 +', '（显示：1）\n    2'):
        entries.append([t])
        etrees.append(None)
        ekinds.append('hand')
    for _ in range(ctx.n(220, 6000)):
        m = rng.choice([1, 1, 2, 3])
        good = [gen.expr_entry() for _ in range(m)]
        if rng.random() < 0.45:
            entries.append([t for t, _ in good])
            etrees.append([tr for _, tr in good])
            ekinds.append('valid')
        else:
            j = rng.randrange(m)
            es = [t for t, _ in good]
            es[j] = gen.bad_expr_entry()
            entries.append(es)
            etrees.append(None)
            ekinds.append('damaged')
    if IGNORED_PARTS:
        for _ in range(ctx.n(40, 400)):
            t = gen.expr_entry()[0]
            entries.append([rng.choice(PART_HEADS) + t.lstrip('\r\n') if rng.random() < 0.5 else t.rstrip('\r\n \t') + rng.choice(PART_TAILS)])
            etrees.append(None)
            ekinds.append('ignored-parts')
    entries = [[_no_surrogates(t) for t in es] for es in entries]
    flat = [t for es in entries for t in es]
    go_c, model_c = check(ctx, 'exprin-compile', flat)
    agree = {t: (g.split(' | ')[0] == m) for t, g, m in zip(flat, go_c, model_c)}
    comp = {t: g for t, g in zip(flat, go_c)}
    lines = ['exprin ' + ' '.join(cps(t) for t in es) for es in entries]
    go_e = ctx.run_go(lines, timeout_ms=4000)
    model_e = ctx.run_lean(lines)
    spec_e = ctx.run_lean([('spec:exprin-ast ' + ' | '.join(tr)) if tr else ('spec:exprin ' + ' '.join(cps(t) for t in es)) for es, tr in zip(entries, etrees)])
    for k, es in enumerate(entries):
        ctx.evaluations += 1
        case, g = lines[k], go_e[k]
        spec = spec_e[k]
        if etrees[k]:
            for t, tr in zip(es, etrees[k]):
                head = comp[t].split(' | ')[0]
                if not head.startswith('ok '):
                    ctx.violation('exprin:valid-text-rejected-by-compiler', 'compile ' + cps(t), comp[t][:300], tr[:300])
                elif progs.strip_lines(head[3:]) != progs.strip_lines(tr):
                    ctx.violation('exprin:parse-tree', 'compile ' + cps(t), progs.strip_lines(head[3:])[:500], progs.strip_lines(tr)[:500])
        elif not all(agree[t] for t in es):
            spec = None
        if not g.startswith('ei '):
            ctx.violation('exprin:' + g.split(' ')[0], case, g, 'ei <outcome>  (spec: %s)' % spec)
            continue
        got = g[3:]
        # model-free: bindings although the compiler rejects one of the entries
        if got.startswith('ok') and any(not comp[t].startswith('ok ') for t in es):
            ctx.violation('exprin:bound-what-the-compiler-rejects', case, got, 'rejected: ' + ' ; '.join(comp[t][:60] for t in es))
            continue
        judge_entry(ctx, 'exprin', case, 'ei', got, spec, model_e[k], None, None)
        ctx.count('exprin:%s:%s' % (ekinds[k], 'bound' if got.startswith('ok') else 'rejected'))
        if ekinds[k] != 'valid' or len(es) > 1:
            ctx.nontriv(case)
    ctx.streams.append({'stream': 'exprin', 'cases': len(entries), 'kinds': {k: ekinds.count(k) for k in sorted(set(ekinds))}})
    ctx.sample({'stream': 'exprin', 'entries': entries[0], 'go': go_e[0][:200], 'model': model_e[0][:200], 'spec': spec_e[0][:200]})


def replay(ctx, case):
    f = case.split(' ')
    print('go   :', ctx.run_go([case], timeout_ms=4000)[0][:3000])
    print('model:', ctx.run_lean([case])[0][:3000])
    print('spec (on what the compiler model makes of the text):', ctx.run_lean(['spec:' + case])[0][:3000])
    for x in f[1:]:
        print('compile:', ctx.run_go(['compile ' + x], timeout_ms=2000)[0][:600])
        print('text:\n' + (''.join(chr(int(c, 16)) for c in x.split('.')) if x != '-' else ''))
