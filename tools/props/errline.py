"""errline stream (C05 display_total / C18 caret_under_offender): the two lines a syntax error prints under
its head line — the quoted source line and the caret column — for ANY cursor.

`stream(ctx, n)` generates n cases `errline <cps> <cursor>`; the Go side runs the real
`exec.DisplayError(exec.WrapSyntaxError(parser, …, &SyntaxError{Cursor: cursor}))` and parses the printed text back,
the Lean side answers from the model of the (repaired) printer (`errline`) and from the spec oracle (`spec:errline`).

  Go ≠ model                → ctx.disagreement('errline', case, go, model)
  Go = panic / Go ≠ spec    → ctx.violation('errline', case, go, spec)

The line number (field 2 of the Go answer) is not modelled here (`_` on the Lean side) and is ignored.
"""

RULE_ERRLINE = ("errline: sources of 0..14 code points drawn from ASCII, CJK, full-width, combining/zero-width, "
                "control characters (incl. U+000E/U+000F/NUL), SP, TAB, CR, LF, CRLF, with leading/trailing/"
                "consecutive newlines and TAB/space/mixed indentation, plus 1-in-6 rendered Zn program lines; every "
                "cursor in -1..len+2 of each source (exhaustive per source); non-trivial = the quoted line is "
                "non-empty or the cursor is outside 0..len-1 or on a break/indent character")
ASSUMPTIONS_ERRLINE = ["source code points are Unicode scalar values (a decoded []rune); the harness passes no surrogates "
                       "and nothing above U+10FFFF, for which string(runes) would substitute U+FFFD",
                       "the printed text is parsed back by position: head line, 4 spaces + quoted line, 4 spaces + caret pad + '^'"]

# character classes --------------------------------------------------------------------------------------------
ASCII = [0x61, 0x62, 0x7A, 0x41, 0x30, 0x39, 0x2B, 0x3D, 0x7E, 0x7F, 0x21]
CJK = [0x8F93, 0x51FA, 0x4EE4, 0x4E3A, 0x5982, 0x679C, 0x201C, 0x201D, 0xFF1A, 0xFF0C, 0x3002, 0x300A, 0x3000, 0xFF01]
WIDE = [0x1100, 0x115F, 0x2329, 0x232A, 0x2E80, 0x303E, 0x3041, 0xAC00, 0xD7A3, 0xF900, 0xFE30, 0xFF60, 0xFFE0, 0x1F600,
        0x20000, 0x3FFFD]
ZERO = [0x300, 0x36F, 0x483, 0x489, 0x200B, 0x200F, 0x20D0, 0xFE00, 0xFE0F, 0xFE20, 0x302A, 0x3099, 0x309A, 0x1D167,
        0x80, 0x9F, 0x2B0, 0x2C6, 0x2C7, 0x2D7, 0x2DD, 0x1160, 0x11FF, 0x1D2B, 0x1D61]
CTRL = [0x0, 0x1, 0x7, 0x8, 0xB, 0xC, 0xE, 0xF, 0x1B, 0x1F]
EDGE = [0x7E, 0x7F, 0x9F, 0xA0, 0x2AF, 0x4DB5, 0x4DB6, 0x4DFF, 0x4E00, 0xD7A3, 0xD7A4, 0xE000, 0xF8FF, 0xFFFD, 0xFFFE,
        0x1D7FF, 0x1D800, 0x3FFFD, 0x3FFFE, 0x10FFFD, 0x10FFFE, 0x10FFFF]
SP, TAB, CR, LF = 0x20, 0x9, 0xD, 0xA
PROGRAM_LINES = ["令甲为1", "输出“你好”", "如果甲大于1：", "（显示：甲、乙）", "注：说明", "每当真：", "如何求和？", "已知甲、乙",
                 "以甲（运行）", "令A = 【1，2】", "抛出异常：“x”"]


def cps(s):
    return '.'.join('%x' % c for c in s) if s else '-'


def _chars(rng, k):
    out = []
    for _ in range(k):
        r = rng.random()
        pool = (ASCII if r < .3 else CJK if r < .55 else WIDE if r < .67 else ZERO if r < .79 else CTRL if r < .87
                else EDGE if r < .95 else [SP, TAB])
        out.append(rng.choice(pool))
    return out


def _break(rng):
    r = rng.random()
    return [LF] if r < .45 else [CR, LF] if r < .7 else [CR] if r < .85 else [LF, CR] if r < .9 else [LF, LF] if r < .96 else [CR, CR, LF]


def _indent(rng):
    r = rng.random()
    if r < .4:
        return []
    if r < .6:
        return [TAB] * rng.randint(1, 3)
    if r < .8:
        return [SP] * rng.choice([1, 2, 4, 8])
    return [rng.choice([SP, TAB]) for _ in range(rng.randint(1, 5))]   # mixed


def gen_source(rng):
    """0..~14 code points: a few physical lines with all the layouts the printer's index arithmetic meets"""
    r = rng.random()
    if r < .04:
        return [rng.choice([CR, LF]) for _ in range(rng.randint(0, 4))]          # only breaks (or empty)
    if r < .08:
        return [rng.choice([SP, TAB, LF, CR]) for _ in range(rng.randint(1, 6))]  # only blanks
    src = []
    if rng.random() < .25:
        for _ in range(rng.randint(1, 3)):
            src += _break(rng)                                                   # leading newlines
    nlines = rng.choice([1, 1, 2, 2, 3, 4])
    for i in range(nlines):
        src += _indent(rng)
        if rng.random() < 1 / 6:
            src += [ord(ch) for ch in rng.choice(PROGRAM_LINES)][:rng.randint(1, 8)]
        else:
            src += _chars(rng, rng.choice([0, 1, 1, 2, 3, 4, 5]))
        if i + 1 < nlines or rng.random() < .4:
            src += _break(rng)                                                   # trailing newline sometimes
    return src[:rng.choice([6, 10, 14, 14, 18])]


def proj(ans):
    """observables: outcome class, quoted line, caret column (line number dropped)"""
    f = ans.split(' ')
    if f[0] == 'ok' and len(f) == 4:
        return ('ok', f[2], f[3])
    return (ans,)


def classify(src, cursor):
    n = len(src)
    if cursor < 0:
        return 'cursor_negative'
    if cursor > n:
        return 'cursor_past_end'
    if cursor == n:
        return 'cursor_at_end'
    c = src[cursor]
    if c in (CR, LF):
        return 'cursor_on_break'
    if c in (SP, TAB):
        return 'cursor_on_blank'
    return 'cursor_on_char'


def cases_for(src):
    return [(src, cur) for cur in range(-1, len(src) + 3)]


def line_of(src, cursor):
    return 'errline %s %d' % (cps(src), cursor)


def judge(ctx, items, go, model, spec, what='errline'):
    for (src, cur), g, m, s in zip(items, go, model, spec):
        case = line_of(src, cur)
        ctx.evaluations += 1
        cls = classify(src, cur)
        ctx.count('errline_' + cls)
        pg = proj(g)
        ctx.count('errline_go_' + pg[0].split(' ')[0])
        if pg != proj(m):
            ctx.disagreement(what, case, g, m)
        if pg[0] != 'ok' or pg != proj(s):
            ctx.violation(what, case, g, s)
        if cls != 'cursor_on_char' or (pg[0] == 'ok' and pg[1] != '-'):
            ctx.nontriv(case)


def stream(ctx, n):
    """n cases (rounded up to whole sources: every cursor -1..len+2 of each generated source)"""
    items = []
    fixed = [
        [0x8F93, 0x51FA, 0x201C, 0x5C, 0x60],                       # 输出“\`   lexer cursor = len+1
        [LF, LF],                                                  # every char up to the cursor is a break
        [0x61, LF, TAB, 0x62, LF, SP, SP, SP, SP, TAB, 0x63],       # mixed indentation, cursor inside the indent
        [0x61, 0x62, 0x63],                                        # last line without newline (sentinel)
        [LF, 0x61, 0x62, 0x63],                                    # break at index 0
        [0x61, 0x62, 0x63, CR, LF],                                # cursor on the LF of CRLF
        [SP, SP, 0x61, 0x62],                                      # indented first line
        [],
    ]
    for src in fixed:
        items += cases_for(src)
    while len(items) < n:
        items += cases_for(gen_source(ctx.rng))
    lines = [line_of(s, c) for s, c in items]
    go = ctx.run_go(lines, timeout_ms=2000)
    model = ctx.run_lean(lines)
    spec = ctx.run_lean(['spec:' + ln for ln in lines])
    judge(ctx, items, go, model, spec)
    for i in (2, len(items) // 2, len(items) - 3):
        ctx.sample({'op': lines[i], 'go': go[i], 'model': model[i], 'spec': spec[i]})
    ctx.streams.append({'stream': 'errline', 'cases': len(items), 'sources': len(set(l.split(' ')[1] for l in lines)),
                        'cursors_per_source': 'every offset -1..len+2'})
    return len(items)


def replay_case(ctx, case):
    """re-run one recorded case line; returns (go, model, spec)"""
    go = ctx.run_go([case], timeout_ms=2000, parallel=False)[0]
    model = ctx.run_lean([case], parallel=False)[0]
    spec = ctx.run_lean(['spec:' + case], parallel=False)[0]
    return go, model, spec
