"""C01 — program-level three-way comparison (Go interpreter, Lean model evaluator, Lean spec semantics)."""
from props import progs
from props.progs import replay  # noqa

GEN = 'expr'
RULE = ("one-statement programs 输出‹expr› after a 令/输入 prelude (one in five evaluates the expression two or three times in a loop "
        "body and yields the list of results: the same expression evaluated again yields its documented value again); type-directed expression trees of depth 1–6 over + − * / | %, "
        "the ten comparison spellings, 为/不为, 且/或, braces; operands from a boundary pool (±0, fractions, 2^53+1, 5E-324, 1E+308, "
        "±inf via 1*10^999, NaN/inf inputs, texts, bools, 空, lists, dictionaries incl. equal-keys-different-values pairs; number literals "
        "changed in place where they stand: receiver of 自增/自减, argument of a callee that bumps its input, item of a list/dictionary literal; in half of "
        "the programs 10–25 % of the leaves are members of texts: 长度 / 字数 and 转换数值 as numbers, 匹配 / 匹配开头 / 匹配结尾 as truth values, 替换 分隔 取样 去除空格 "
        "转小写-英文 转大写-英文 拼接 格式化 as other values); planted "
        "display calls in operands (order, short-circuit); 0–15 % deliberately ill-typed operands. Non-trivial = at least two operators "
        "in the source. The generator's intended tree (minimal braces ⇒ precedence/associativity) is compared with the real parser's tree.")
ASSUMPTIONS = ["IEEE-754 arithmetic, floor, comparisons of float64: Go runtime vs Lean Float, compared bit-for-bit per case, not proved",
               "strconv.ParseFloat / fmt %v: reimplemented in Ops/FloatNum.lean for the driver, compared per case"]
PARTIAL = "arithmetic itself and decimal→double rounding are the runtime's (NumOps is abstract in every theorem)"


def run(ctx):
    g = progs.G(ctx.rng)
    n = ctx.n(2500, 60000)
    ps = [g.expr_program(ctx.rng.choice([1, 2, 3, 3, 4, 5, 6])) for _ in range(n)]
    ops = '+-*/|%且或为于<>='

    def expr_text(src):
        if '以果（后增：' in src:
            return src.split('以果（后增：')[-1].rsplit('输出', 1)[0]
        return src.split('输出')[-1]
    progs.run_stream(ctx, 'expr', ps, nontrivial=lambda src, go: sum(expr_text(src).count(c) for c in ops) >= 2)
