"""C01 — program-level three-way comparison (Go interpreter, Lean model evaluator, Lean spec semantics)."""
from props import progs, sites
from props.progs import replay  # noqa

GEN = 'expr'
RULE = ("one-statement programs 输出‹expr› after a 令/输入 prelude (one in five evaluates the expression two or three times in a loop "
        "body and yields the list of results: the same expression evaluated again yields its documented value again); type-directed expression trees of depth 1–6 over + − * / | %, "
        "the ten comparison spellings, 为/不为, 且/或, braces; operands from a boundary pool (±0, fractions, 2^53+1, 5E-324, 1E+308, "
        "±inf via 1*10^999, NaN/inf inputs, texts, bools, 空, lists, dictionaries incl. equal-keys-different-values pairs; number literals "
        "changed in place where they stand: receiver of 自增/自减, argument of a callee that bumps its input, item of a list/dictionary literal; in half of "
        "the programs 10–25 % of the leaves are members of texts: 长度 / 字数 and 转换数值 as numbers, 匹配 / 匹配开头 / 匹配结尾 as truth values, 替换 分隔 取样 去除空格 "
        "转小写-英文 转大写-英文 拼接 格式化 as other values); planted "
        "display calls in operands (order, short-circuit); 0–15 % deliberately ill-typed operands. Non-trivial = at least two operators "
        "in the source. The generator's intended tree (minimal braces ⇒ precedence/associativity) is compared with the real parser's tree. "
        "Stream `cmp` (120 programs, 4–8 comparisons each, props/edges.py): 为 / 不为 / == / /= and the ordering operators on lists and dictionaries of "
        "unequal length, with other key sets / key orders, with an item that cannot be compared (object, method, type, exception value) at "
        "every position before and after a differing item, one or two levels down, through 包含 / 寻找; every pair of value types.")
ASSUMPTIONS = ["IEEE-754 arithmetic, floor, comparisons of float64: Go runtime vs Lean Float, compared bit-for-bit per case, not proved",
               "strconv.ParseFloat / fmt %v: reimplemented in Ops/FloatNum.lean for the driver, compared per case"]
PARTIAL = "arithmetic itself and decimal→double rounding are the runtime's (NumOps is abstract in every theorem)"


def run(ctx):
    sites.report(ctx)   # regenerated site inventory vs the modelled sites (diagnosis of a broken obligation; DESIGN §12)
    g = progs.G(ctx.rng)
    n = ctx.n(2500, 60000)
    ps = [g.expr_program(ctx.rng.choice([1, 2, 3, 3, 4, 5, 6])) for _ in range(n)]
    ops = '+-*/|%且或为于<>='

    def expr_text(src):
        if '以果（后增：' in src:
            return src.split('以果（后增：')[-1].rsplit('输出', 1)[0]
        return src.split('输出')[-1]
    progs.run_stream(ctx, 'expr', ps, nontrivial=lambda src, go: sum(expr_text(src).count(c) for c in ops) >= 2)
    # soak: the value of an expression does not depend on how many expressions were evaluated — or failed and were handled —
    # before it in the same run
    from zngen import Program, Func, Decl, While, ExprS, Assign, Ret, Bin, Num, Var, Call, Str
    soak = []
    for n_faults, nest in ((300, 1), (2500, 1), (3500, 1), (400, 8), (2200, 3)):   # the model evaluator has fuel for 4000 passes
        bad = Bin('/', Num('1'), Var('数'))
        for _ in range(nest - 1):
            bad = Bin('+', Num('1'), bad)
        kinds = [bad, Bin('+', Str('文'), Var('数')), Bin('gt', Var('数'), Str('文')), Bin('and', Var('数'), Var('真'))]
        for k in kinds[:2 if ctx.quick() else 4]:
            body = [Func('试', ['数'], [Ret(k)], [('异常', [Ret(Num('0'))])]),
                    Decl(['计'], Num('0')), Decl(['和'], Num('0')),
                    While(Bin('lt', Var('计'), Num(str(n_faults))),
                          [ExprS(Assign(Var('计'), Bin('+', Var('计'), Num('1')))),
                           ExprS(Assign(Var('和'), Bin('+', Var('和'), Call('试', [Num('0')]))))]),
                    Ret(Bin('|', Bin('-', Bin('*', Bin('+', Var('和'), Num('1')), Num('2')), Var('计')), Num('3')))]
            soak.append((Program([], body), {}))
    progs.run_stream(ctx, 'soak', soak, nontrivial=lambda src, go: True)
    # comparisons of collections (after the other streams, so that those are what they were for a given seed): unequal lengths, other
    # key sets, items that cannot be compared at every position, nested — props/edges.py
    from props import edges
    st = {}
    cs = edges.cmp_programs(ctx.rng, ctx.n(120, 6000), st)
    progs.run_stream(ctx, 'cmp', cs, nontrivial=lambda src, go: True)
    for k, v in sorted(st.items()):
        ctx.count('cmp:gen:' + k, v)
