"""C17 — source files are decoded losslessly or rejected.

Streams (all three-way: real pkg/io through the harness, Lean model of the repaired pkg/io, Lean spec oracle):
  boundary   valid UTF-8 with 1–4-byte characters at every offset relative to the read block, block sizes 1…8
             (scripted reader) and 4095/4096/4097 (scripted reader) and the real os.File path (4096-byte reads)
  chunks     random read scripts (empty reads, last block delivered with io.EOF or not) over valid and invalid text
  corrupt    every position of the corpus programs × replacement bytes (all 255 in the thorough tier), single-byte
             deletions and insertions, every truncation point
  crafted    BOM at the start / twice / in the middle / split by reads, lone continuation bytes, overlong forms,
             surrogates, 0xF5.. and 0xF8.. lead bytes, values above U+10FFFF, U+FFFD, GBK text — at every position
             of a carrier text and under every small block size
  bytestream the same material through ByteStream.ReadAll and ByteStream.Read(n) sequences
  e2e        files run by exec.NewInterpreter.LoadFile(path).Execute: the outcome and everything displayed must be
             those of the program the spec decodes (run through LoadScript), or an IOError with nothing displayed
"""
import codecs

RULE = ("decode: byte strings = corpus programs (Chinese, Latin, Greek, emoji, U+FFFD, U+FEFF inside), padded so that "
        "1–4-byte characters sit at every offset of block sizes 1..8 and 4095..4097; every single-byte replacement/"
        "deletion/insertion/truncation of the corpus; GBK encodings; crafted invalid forms inserted at every position; "
        "random read scripts with empty reads. non-trivial = the bytes contain a non-ASCII byte (a multi-byte or an "
        "invalid sequence reaches the decoder) and, for scripted readers, at least two reads")
ASSUMPTIONS = ["unicode/utf8 (DecodeRune, FullRune) behaves as modelled in Model/Utf8.lean (runtime; compared on every case)",
               "the reader follows the io.Reader contract: finitely many (n, nil) reads, then io.EOF; read errors other "
               "than EOF are passed through unchanged and not modelled",
               "os.File.Read on a regular file returns full 4096-byte blocks (checked: `file` and `fsb 4096` agree)",
               "e2e compares LoadFile(file) with LoadScript(spec-decoded text) on the same interpreter: the interpreter "
               "itself is a black box here"]
PARTIAL = ""
TRUSTED_EXTRA = ["Python codecs (utf-8, gbk) used only to build inputs"]

BOMB = b'\xef\xbb\xbf'

CORPUS = [
    '（显示：“你好，世界”）\n（显示：123）\n',
    '令甲 = 10\n令乙 = 甲 * 2\n（显示：乙）\n（显示：“完成😀”）\n',
    '如何换算温度？\n    输入温度、单位\n    如果单位 为 “摄氏度”：\n        输出32 + 1.8 * 温度\n    否则：\n'
    '        输出{温度 - 32} / 1.8\n\n（显示：（换算温度：24、“摄氏度”））\n（显示：“café ¿ñ? Ωμέγα”）\n',
    '注：“含有替换符�的注释”\n（显示：“A�B”）\n（显示：“后面的语句”）\n',
    '令总和 = 0\n以数遍历【1，2，3，4，5，6，7，8，9，10】：\n    总和 = 总和 + 数\n（显示：“总和为{#}” % 【总和】）\n'
    '（显示：“﻿在中间𝄞”）\n',
]
CHARS = {1: ['A', '\n', '\x7f', '\x00'], 2: ['é', '\u0080', '߿', 'Ω'], 3: ['中', 'ࠀ', '￿', '�', '﻿', '퟿', ''],
         4: ['😀', '\U00010000', '\U0010ffff', '𝄞']}
INVALID = [b'\x80', b'\xbf', b'\xc0\x80', b'\xc1\xbf', b'\xe0\x80\x80', b'\xe0\x9f\xbf', b'\xf0\x80\x80\x80', b'\xf0\x8f\xbf\xbf',
           b'\xed\xa0\x80', b'\xed\xbf\xbf', b'\xf4\x90\x80\x80', b'\xf5\x80\x80\x80', b'\xf8\x88\x80\x80\x80', b'\xfc\x84\x80\x80\x80\x80',
           b'\xfe', b'\xff', b'\xc2', b'\xe4\xb8', b'\xf0\x9f\x98', b'\xe4\x41', b'\xf0\x9f\x41', b'\xc2\xc2', b'\xef\xbf', b'\xef\xbb']


def hx(b):
    return b.hex() if b else '-'


def cps_of(s):
    return '.'.join('%x' % ord(c) for c in s) if s else '-'


def proj_spec(line):
    """observables the property names: the decoded text, or the fact of rejection"""
    return 'err' if line.startswith('err') else line


class Gen:
    def __init__(self, ctx):
        self.ctx = ctx
        self.rng = ctx.rng
        self.cases = []      # (stream, line)
        self.seen = set()

    def add(self, stream, line):
        if line in self.seen:
            return
        self.seen.add(line)
        self.cases.append((stream, line))

    def rand_text(self, n):
        r = self.rng
        out = []
        for _ in range(n):
            L = r.choice([1, 1, 2, 3, 3, 3, 4])
            if r.random() < 0.6:
                out.append(r.choice(CHARS[L]))
            else:
                lo, hi = {1: (0, 0x7f), 2: (0x80, 0x7ff), 3: (0x800, 0xffff), 4: (0x10000, 0x10ffff)}[L]
                c = r.randint(lo, hi)
                if 0xd800 <= c <= 0xdfff:
                    c = 0x4e2d
                out.append(chr(c))
        return ''.join(out)

    def rand_chunks(self, b):
        r = self.rng
        chunks = []
        i = 0
        while i < len(b):
            if r.random() < 0.15:
                chunks.append(b'')
                continue
            n = r.choice([1, 1, 2, 3, 4, 5, 7, 16])
            chunks.append(b[i:i + n])
            i += n
        if r.random() < 0.2:
            chunks.append(b'')
        return chunks

    def decoders(self, stream, b, blocks=(1, 2, 3), with_file=False, with_bs=True):
        h = hx(b)
        for n in blocks:
            self.add(stream, 'decode fsb %d %s' % (n, h))
        if with_file:
            self.add(stream, 'decode file %s' % h)
        if with_bs:
            self.add('bytestream', 'decode bs %s' % h)


def make_cases(ctx, block):
    g = Gen(ctx)
    rng = ctx.rng
    corpus = [p.encode('utf-8') for p in CORPUS]

    # ---- boundary: characters of every length at every offset of every small block size ------------------------
    for n in range(1, 9):
        for pad in range(0, n):
            for L in (1, 2, 3, 4):
                for ch in CHARS[L][:ctx.n(2, 4)]:
                    for tail in ('', 'Z', '中'):
                        b = ('a' * pad + ch + tail).encode('utf-8', 'surrogatepass')
                        g.add('boundary', 'decode fsb %d %s' % (n, hx(b)))
                        g.add('bytestream', 'decode bsn %d %s' % (n, hx(b)))
    for _ in range(ctx.n(300, 4000)):
        b = g.rand_text(rng.randint(1, 24)).encode('utf-8')
        n = rng.randint(1, 8)
        g.add('boundary', 'decode fsb %d %s' % (n, hx(b)))
        if rng.random() < 0.3:
            g.add('boundary', 'decode fsb %d %s' % (n, hx(BOMB + b)))
        g.add('bytestream', 'decode bsn %d %s' % (n, hx(b)))
    # around the real block size: a character straddling byte offset k*block at each inner position
    filler = '字'.encode('utf-8')
    for k in (1, 2):
        for L in (1, 2, 3, 4):
            for j in range(0, L + 1):
                for ch in CHARS[L][:ctx.n(1, 3)]:
                    for bom in ((False, True) if ctx.quick() else (False, True)):
                        want = k * block - j - (3 if bom else 0)
                        body = filler * (want // 3) + b'x' * (want % 3)
                        b = (BOMB if bom else b'') + body + ch.encode('utf-8') + '尾\n'.encode('utf-8')
                        g.add('boundary', 'decode file %s' % hx(b))
                        for n in (block - 1, block, block + 1):
                            if ctx.quick() and (L + j + n) % 3 and k == 2:
                                continue
                            g.add('boundary', 'decode fsb %d %s' % (n, hx(b)))
                        # the same file with the straddling character damaged or cut off
                        if L > 1:
                            bad = (BOMB if bom else b'') + body + ch.encode('utf-8')[:-1]
                            g.add('boundary', 'decode file %s' % hx(bad))
                            g.add('boundary', 'decode file %s' % hx(bad + b'A'))
                            g.add('boundary', 'decode fsb %d %s' % (block, hx(bad + b'A')))
    for _ in range(ctx.n(10, 150)):
        b = g.rand_text(rng.randint(1300, 3500)).encode('utf-8')
        g.add('boundary', 'decode file %s' % hx(b))
        g.add('boundary', 'decode fsb %d %s' % (rng.choice([block - 1, block, block + 1]), hx(b)))

    # ---- chunks: random read scripts ----------------------------------------------------------------------------
    for _ in range(ctx.n(2500, 40000)):
        kind = rng.random()
        if kind < 0.5:
            b = g.rand_text(rng.randint(0, 12)).encode('utf-8')
        elif kind < 0.65:
            b = BOMB * rng.choice([1, 1, 2]) + g.rand_text(rng.randint(0, 8)).encode('utf-8')
        elif kind < 0.75:
            t = g.rand_text(rng.randint(1, 8)).encode('utf-8')
            i = rng.randint(0, len(t))
            b = t[:i] + BOMB + t[i:]          # may fall inside a character: then it is simply invalid
        else:
            t = g.rand_text(rng.randint(0, 8)).encode('utf-8')
            i = rng.randint(0, len(t))
            b = t[:i] + rng.choice(INVALID) + t[i:]
        chunks = g.rand_chunks(b)
        e = rng.choice(['0', '0', '1'])
        g.add('chunks', 'decode fs %s %s' % (e, ' '.join(hx(c) for c in chunks)) if chunks else 'decode fs %s' % e)

    # ---- corrupt: the corpus programs damaged in one byte ---------------------------------------------------------
    for pi, p in enumerate(corpus):
        for i in range(len(p)):
            if ctx.quick():
                repl = {0x80, 0xbf, 0xc0, 0xe4, 0xf0, 0xff, p[i] ^ 0x80, p[i] ^ 0x01, p[i] ^ 0x40, 0x41} - {p[i]}
            else:
                repl = set(range(256)) - {p[i]}
            for v in sorted(repl):
                b = p[:i] + bytes([v]) + p[i + 1:]
                g.decoders('corrupt', b, blocks=(3,) if not ctx.quick() else (1 + (i + v) % 5,), with_bs=ctx.quick() or v % 4 == 0)
            g.decoders('corrupt', p[:i] + p[i + 1:], blocks=(2,), with_file=True)                  # deletion
            g.decoders('corrupt', p[:i], blocks=(4,), with_file=True)                               # truncation
            for v in (0x80, 0xe4, 0xff):
                g.decoders('corrupt', p[:i] + bytes([v]) + p[i:], blocks=(1 + i % 7,))               # insertion
        g.decoders('corrupt', p, blocks=range(1, 9), with_file=True)
        g.decoders('corrupt', BOMB + p, blocks=range(1, 9), with_file=True)

    # ---- crafted -------------------------------------------------------------------------------------------------
    carriers = ['甲=1\n'.encode('utf-8'), 'ab😀é'.encode('utf-8'), corpus[0][:40]]
    specials = INVALID + [BOMB, BOMB + BOMB, b'\xef\xbf\xbd', b'\xef\xbf\xbd\xef\xbf\xbd', '中文'.encode('gbk'), '编码'.encode('gbk'),
                          '퟿'.encode('utf-8', 'surrogatepass'), b'\xf4\x8f\xbf\xbf', b'\x00']
    for car in carriers:
        for sp in specials:
            for i in range(len(car) + 1):
                b = car[:i] + sp + car[i:]
                g.decoders('crafted', b, blocks=range(1, ctx.n(5, 9)), with_file=(i % 3 == 0))
                g.decoders('crafted', BOMB + b, blocks=(1, 2, 3), with_bs=False)
    gbk_texts = ['中文', '令甲 = 10', '（显示：“你好，世界”）', '编码错误的文件', '锟斤拷', '烫烫烫屯屯屯'] + CORPUS[:3]
    for t in gbk_texts:
        for enc in ('gbk', 'gb18030', 'big5', 'utf-16-le', 'utf-16', 'latin-1'):
            try:
                b = t.encode(enc)
            except UnicodeEncodeError:
                continue
            g.decoders('crafted', b, blocks=range(1, 9), with_file=True)
    for sp in specials:
        g.decoders('crafted', sp, blocks=range(1, 6), with_file=True)
    g.decoders('crafted', b'', blocks=(1, 4096), with_file=True)

    # ---- e2e ---------------------------------------------------------------------------------------------------------
    e2e = []
    pad_comment = ('注：“' + '填充文字，用来把程序推过第一个读取块的边界。' * 190 + '”\n').encode('utf-8')   # > 4096 bytes
    for p in corpus:      # damaged behind the first displayed line: simplest witnesses first
        i = p.rindex(b'\n', 0, len(p) - 1) + 1        # start of the last line
        e2e += [p[:i] + b'\xff' + p[i:], p[:i] + b'\xef\xbf\xbd' + p[i:], p.decode('utf-8').encode('gbk', 'replace')]
    for p in corpus:
        e2e += [p, BOMB + p, BOMB + BOMB + p, pad_comment + p, BOMB + pad_comment + p]
        for j in range(0, 4):
            f = block - j - 13
            body = '注：“'.encode('utf-8') + '字'.encode('utf-8') * (f // 3) + b'x' * (f % 3) + '”\n'.encode('utf-8')
            e2e.append(body + p)                          # program text starts exactly j bytes before the block border
        # damage behind a displayed statement: a truncating decoder would still run and show the first lines
        for frac in (0.5, 0.8, 1.0):
            i = int(len(p) * frac)
            for sp in (b'\xff', b'\x80', b'\xe4\xb8', '中'.encode('gbk'), b'\xef\xbf\xbd', b'\xc0\x80', b'\xed\xa0\x80'):
                e2e.append(p[:i] + sp + p[i:])
                e2e.append(pad_comment + p[:i] + sp + p[i:])
        for t in (p.decode('utf-8'),):
            for enc in ('gbk', 'gb18030', 'utf-16'):
                try:
                    e2e.append(t.encode(enc))
                except UnicodeEncodeError:
                    pass
        idx = list(range(len(p)))
        rng.shuffle(idx)
        for i in idx[:ctx.n(25, 400)]:
            v = rng.choice([0x80, 0xbf, 0xc0, 0xe4, 0xff, p[i] ^ 0x80, p[i] ^ 0x01, 0x20])
            e2e.append(p[:i] + bytes([v]) + p[i + 1:])
        for i in idx[:ctx.n(10, 120)]:
            e2e.append(p[:i])
    for b in e2e:
        g.add('e2e', 'decode e2e %s' % hx(b))
    return g.cases


def is_nontrivial(line):
    f = line.split(' ')
    mode = f[1]
    if mode == 'fs':
        data = ''.join(x for x in f[3:] if x != '-')
        reads = len(f) - 3
    else:
        data = f[-1] if f[-1] != '-' else ''
        reads = 2
    nonascii = any(data[i] in '89abcdef' for i in range(0, len(data), 2))
    return nonascii and reads >= 2


def run(ctx):
    blk = ctx.run_go(['decode blocksize'])[0]
    if not blk.startswith('ok '):
        ctx.disagreement('blocksize', 'decode blocksize', blk, 'ok 4096')
        block = 4096
    else:
        block = int(blk.split(' ')[1])
        if block != 4096:
            ctx.notes.append('defaultReadBlock is %d (model constant 4096; irrelevant by chunking_irrelevant)' % block)
    ctx.count('defaultReadBlock', block)
    cases = make_cases(ctx, block)
    # ---- never a silently truncated program: a character the front end cannot digest (NUL, lone controls) between two
    # statements must end in an error or let the LAST statement run — whatever the decoder did right
    from zngen import cps as _cps
    tail_marker = '（显示：“终”）'
    probes = []
    bases = ['（显示：1）\n（显示：2）\n', '令甲设为【1，2】\n以项遍历甲：\n    （显示：项）\n', '如何f？\n    输出 1\n（显示：（f））\n']
    for b in bases:
        lines_ = b.split('\n')
        for i in range(len(lines_)):
            for ch in ('\x00', '\x00\x00', '\x01', '\x7f', '\ufeff', '\u200b'):
                if lines_[i].startswith(' '):
                    continue
                t = '\n'.join(lines_[:i] + [ch + lines_[i]] + lines_[i + 1:]) + tail_marker + '\n'
                probes.append(t)
                probes.append('\n'.join(lines_[:i] + [lines_[i] + ch] + lines_[i + 1:]) + tail_marker + '\n')
    plines = ['run ' + _cps(t) for t in probes]
    pgot = ctx.run_go(plines)
    for line, gout in zip(plines, pgot):
        ctx.evaluations += 1
        ctx.count('truncation-probe')
        if gout.startswith('ok') and 'e7bb88' not in gout:      # 终 never displayed although the run "succeeded"
            ctx.violation('truncated-program', line, gout, 'an error, or a run that reaches the final statement （显示：“终”）')
        ctx.nontriv(line)
    ctx.streams.append({'stream': 'truncation-probe', 'cases': len(plines)})
    # ---- e2e: LoadFile(...).Execute against the spec-decoded program --------------------------------------------------
    e2e = [c for s, c in cases if s == 'e2e']
    got = ctx.run_go(e2e, timeout_ms=8000)
    sp = ctx.run_lean(['spec:' + c for c in e2e])
    ref_lines = ['decode runsrc ' + x.split(' ', 1)[1] for x in sp if x.startswith('ok ')]
    ref = iter(ctx.run_go(ref_lines, timeout_ms=8000))
    for c, g, s in zip(e2e, got, sp):
        ctx.evaluations += 1
        if s.startswith('ok '):
            want = next(ref)
            ctx.count('e2e_ran')
            if g != want:
                ctx.violation('e2e', c, g, 'runs as ' + want)
        else:
            want = 'err io'
            ctx.count('e2e_rejected')
            res, _, shown = g.partition(' | ')
            if not res.startswith('err io') or shown != '-':
                ctx.violation('e2e', c, g, 'err io <code> | -   (nothing executed)')
        ctx.nontriv(c)
    ctx.streams.append({'stream': 'e2e', 'cases': len(e2e)})
    for i in (0, len(e2e) // 2, len(e2e) - 1):
        ctx.sample({'op': e2e[i][:120], 'go': got[i][:160], 'spec': sp[i][:100]})

    # ---- decoders: Go vs model vs spec ----------------------------------------------------------------------------
    dec = [(s, c) for s, c in cases if s != 'e2e']
    lines = [c for _, c in dec]
    go = ctx.run_go(lines)
    model = ctx.run_lean(lines)
    spec = ctx.run_lean(['spec:' + c for c in lines])
    per = {}
    for (s, c), g, m, sp in zip(dec, go, model, spec):
        ctx.evaluations += 1
        per[s] = per.get(s, 0) + 1
        if g != m:
            ctx.disagreement(s, c, g, m)
        if proj_spec(g) != proj_spec(sp) or g in ('panic', 'timeout') or g.startswith('crash'):
            ctx.violation(s, c, g, sp)
        ctx.count(s + ('_rejected' if g.startswith('err') else '_decoded'))
        if is_nontrivial(c):
            ctx.nontriv(c)
    for s, n in per.items():
        ctx.streams.append({'stream': s, 'cases': n})
    for i in (0, len(lines) // 3, 2 * len(lines) // 3, len(lines) - 1):
        ctx.sample({'op': lines[i][:160], 'go': go[i][:120], 'model': model[i][:120], 'spec': spec[i][:120]})


def replay(ctx, data):
    case = data['case']
    print('case :', case if len(case) < 400 else case[:400] + '…')
    g = ctx.run_go([case], timeout_ms=8000)[0]
    print('go   :', g)
    if case.startswith('decode e2e'):
        s = ctx.run_lean(['spec:' + case])[0]
        print('spec :', s if len(s) < 400 else s[:400] + '…')
        if s.startswith('ok '):
            print('want :', ctx.run_go(['decode runsrc ' + s.split(' ', 1)[1]], timeout_ms=8000)[0], '  (LoadScript of the spec-decoded text)')
        else:
            print('want : err io <code> | -')
        try:
            shown = g.partition(' | ')[2]
            if shown and shown != '-':
                print('shown:', repr(bytes.fromhex(shown).decode('utf-8', 'replace')))
        except ValueError:
            pass
    else:
        print('model:', ctx.run_lean([case])[0])
        print('spec :', ctx.run_lean(['spec:' + case])[0])
