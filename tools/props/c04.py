"""C04 — keywords/names/numbers tokenisation. Streams: idrange (all 0x110000 code points, ascending), idorder (the same
membership asked in other orders: descending sweep, every range end right after the non-member above it, random short
sequences), numfmt (exhaustive short strings over the numeric alphabet + grammar-derived long strings and their
single-character mutations), numname (the same spellings where only a NAME is allowed: MatchIDName), namepos (the
spellings in every name-only position of a real program), lex (keyword/identifier segmentation; see lexgen),
lex-alphabet (every boundary code point of the identifier table in every place where the lexer asks whether a character
is a name character; lexgen.run_lex_alphabet, judged by spec:lexalpha)."""
import itertools, struct
from fractions import Fraction

RULE = ("idrange: every code point 0..0x10FFFF (exhaustive, ascending); idorder: every code point descending, every range "
        "boundary approached from the other side, random sequences of 2-6 lookups. numname/namepos: numeric-alphabet strings "
        "(exhaustive to length 4 / 3) in the 19 name-only positions of a program (declaration, 恒为, method, callee, parameter, loop variables, 得到 after a call "
        "and after a chain, type, program input, 新建 / 如何新建 / 抛出 / 拦截, method of 以…（…）): accepted iff not of number form and not starting like a number. numfmt: all strings up to length L over the alphabet "
        "{0,1,7,+,-,.,e,E,*,^,x} plus generated documented-form numbers and all their single-character edits; "
        "non-trivial = the recogniser consumed at least one character (not immediately a name). "
        "lex-alphabet: both ends of every range of the identifier table, the 3 code points outside each end, the continuation marks "
        "and their neighbours, block-aligned edges and plane aliases, each as first / later / last character of a name, between "
        "back-ticks, after every operator mark, after a keyword, after a digit: accepted iff in the table (or a continuation mark "
        "after the first character), else refused where it stands (Spec/NameChars.lean). "
        "lex: random and exhaustive-short unspaced strings over keyword glyphs, letters, digits, operators, back-ticks; "
        "non-trivial = at least two tokens or an error")
ASSUMPTIONS = ["strconv.ParseFloat rounds correctly (checked per case against exact rational arithmetic, not proved)",
               "harness passes only non-negative runes"]
PARTIAL = ("correct rounding of the decimal is strconv's (runtime); compared against exact rational arithmetic on every generated case. "
           "lex_is_greedy_segmentation is proved for texts over identifier characters (all keyword glyphs included) except 注 and the "
           "operator marks; white space, operators, punctuation, quotes, back-ticks and comments are covered by their own theorems "
           "and by the lex correspondence (every token, error and the Lines table)")
TRUSTED_EXTRA = ["Python fractions/float for the exact nearest-double reference"]

ALPHA = [0x30, 0x31, 0x37, 0x2B, 0x2D, 0x2E, 0x65, 0x45, 0x2A, 0x5E, 0x78]


def cps(s):
    return '.'.join('%x' % c for c in s) if s else '-'


def bits_of(x):
    if x != x:
        return 'nan'
    return '%016x' % struct.unpack('>Q', struct.pack('>d', x))[0]


def exact_value_bits(text):
    """documented value of a numeric identifier: sign int frac exponent (exact), correctly rounded"""
    s = text
    sign = 1
    if s and s[0] in '+-':
        sign = -1 if s[0] == '-' else 1
        s = s[1:]
    exp = 0
    for mark in ('*10^', '*^', 'e', 'E'):
        if mark in s:
            s, e = s.split(mark, 1)
            exp = int(e)
            break
    if '.' in s:
        ip, fp = s.split('.', 1)
    else:
        ip, fp = s, ''
    mant = int(ip + fp)
    e10 = exp - len(fp)
    if mant == 0:
        return bits_of(-0.0 if sign < 0 else 0.0)
    if e10 > 400:
        return bits_of(float('inf') * sign)
    if e10 < -800 - len(ip + fp):
        return bits_of(-0.0 if sign < 0 else 0.0)
    v = Fraction(mant) * (Fraction(10) ** e10)
    try:
        f = float(v)
    except OverflowError:
        f = float('inf')
    return bits_of(sign * f)


def gen_number(rng):
    sg = rng.choice(['', '', '+', '-'])
    ip = ''.join(rng.choice('0123456789') for _ in range(rng.randint(1, rng.choice([1, 3, 8, 20]))))
    fp = ''
    if rng.random() < 0.5:
        fp = '.' + ''.join(rng.choice('0123456789') for _ in range(rng.randint(1, rng.choice([1, 3, 17]))))
    ex = ''
    k = rng.random()
    ed = ''.join(rng.choice('0123456789') for _ in range(rng.randint(1, 3)))
    if k < 0.25:
        ex = rng.choice('eE') + rng.choice('+-') + ed
    elif k < 0.45:
        ex = '*10^' + rng.choice(['', '+', '-']) + ed
    elif k < 0.6:
        ex = '*^' + rng.choice(['', '+', '-']) + ed
    return sg + ip + fp + ex


def run(ctx):
    # ---- idrange: exhaustive ------------------------------------------------------------------
    step = 8192
    cases = ['idrange %d %d' % (lo, min(lo + step, 0x110000)) for lo in range(0, 0x110000, step)]
    go = ctx.run_go(cases)
    model = ctx.run_lean(cases)
    spec = ctx.run_lean(['spec:' + c for c in cases])
    ncp = 0
    for c, g, m, s in zip(cases, go, model, spec):
        ctx.evaluations += 1
        if g != m:
            ctx.disagreement('idrange', first_diff(c, g, m), g[:80], m[:80])
        if g != s:
            ctx.violation('idrange', first_diff(c, g, s), g[:80], s[:80])
        if '1' in g[3:]:
            ctx.nontriv(c)
        ncp += len(g) - 3
    ctx.count('idrange_code_points', ncp)
    ctx.sample({'op': cases[2], 'go': go[2][:60] + '…'})
    ctx.streams.append({'stream': 'idrange', 'cases': len(cases), 'code_points': ncp, 'exhaustive': True})
    run_idorder(ctx, ''.join(x[3:] for x in spec))

    # ---- numfmt --------------------------------------------------------------------------------
    L = 5 if (ctx.quick() and not ctx.escalated) else 6
    strs = []
    for n in range(1, L + 1):
        for t in itertools.product(ALPHA, repeat=n):
            strs.append(t)
    ctx.count('numfmt_exhaustive_len_le_%d' % L, len(strs))
    # grammar-derived long numbers and their single-character edits
    extra = set()
    nnum = ctx.n(300, 6000)
    for _ in range(nnum):
        t = gen_number(ctx.rng)
        extra.add(t)
        for i in range(len(t) + 1):
            for ch in 'e.+-*^1x0':
                extra.add(t[:i] + ch + t[i:])
                if i < len(t):
                    extra.add(t[:i] + ch + t[i + 1:])
            if i < len(t):
                extra.add(t[:i] + t[i + 1:])
    extra.discard('')
    extra = sorted(extra)
    ctx.count('numfmt_grammar_and_edits', len(extra))
    allstr = [tuple(ord(c) for c in e) for e in extra] + strs
    cases = ['numfmt ' + cps(t) for t in allstr]
    go = ctx.run_go(cases)
    model = ctx.run_lean(cases)
    spec = ctx.run_lean(['spec:' + c for c in cases])
    for t, c, g, m, s in zip(allstr, cases, go, model, spec):
        ctx.evaluations += 1
        gcls = g.split(' ')[0] if not g.startswith('err') else g
        mcls = m.split(' ')[0] if not m.startswith('err') else m
        ctx.count('numfmt_' + gcls.replace(' ', '_'))
        if gcls != mcls:
            ctx.disagreement('numfmt', c, g, m)
        elif gcls == 'num':
            mt = ''.join(chr(int(x, 16)) for x in m.split(' ')[1].split('.'))
            try:
                mb = bits_of(float(mt))
            except ValueError:
                mb = 'unparseable:' + mt
            if mb != g.split(' ')[1]:
                ctx.disagreement('numfmt-value', c, g, 'num ' + mb)
        scls = s
        if gcls != scls:
            ctx.violation('numfmt-class', c, g, s)
        elif gcls == 'num':
            text = ''.join(chr(x) for x in t)
            want = exact_value_bits(text)
            if want != g.split(' ')[1]:
                ctx.violation('numfmt-rounding', c, g, 'num ' + want)
        if gcls != 'name' or (t and t[0] in (0x2B, 0x2D)):
            ctx.nontriv(c)
    for i in (0, len(extra) // 2, len(extra) - 1, len(extra) + 7, len(cases) - 3):
        ctx.sample({'op': cases[i], 'go': go[i], 'model': model[i], 'spec': spec[i]})
    ctx.streams.append({'stream': 'numfmt', 'cases': len(cases), 'exhaustive_upto_len': L})
    ctx.exhaustive = True
    run_name_side(ctx, extra)
    try:
        from props import lexgen
        lexgen.run_lex_stream(ctx)
    except ImportError:
        pass


# ---- idorder: membership must not depend on what was looked up before --------------------------------------------

def run_idorder(ctx, member):
    """member: the documented membership of every code point ('0'/'1' string, from the spec's answers to the ascending
    sweep). The same question in other orders: (1) every code point, descending; (2) for every boundary of the table,
    the code point on one side right after the one on the other side (both directions), and there-and-back triples;
    (3) random sequences of 2-6 lookups, drawn mostly from the boundaries. A cache, a moving search window or any other
    memory of earlier lookups shows here; the failing input is the shortest sequence that still gives the wrong answer."""
    rng = ctx.rng
    N = 0x110000
    step = 8192
    # (1) descending: chunks submitted from the top, each chunk swept downwards
    cases = ['idrangedesc %d %d' % (lo, min(lo + step, N)) for lo in range(0, N, step)][::-1]
    go = ctx.run_go(cases)
    model = ctx.run_lean(cases)
    spec = ctx.run_lean(['spec:' + c for c in cases])
    nviol = 0
    for c, g, m, sp in zip(cases, go, model, spec):
        ctx.evaluations += 1
        if g != m:
            ctx.disagreement('idorder-desc', c, g[:80], m[:80])
        if g != sp:
            # shrink: the wrong answer for code point x came right after the lookup of x+1
            lo = int(c.split(' ')[1])
            x = next((lo + i for i, (a, b) in enumerate(zip(g[3:], sp[3:])) if a != b), None)
            small = None
            if x is not None and nviol < 3:
                pair = 'idseq %x.%x' % (x + 1, x)
                pg = ctx.run_go([pair], parallel=False)[0]
                ps = ctx.run_lean(['spec:' + pair], parallel=False)[0]
                if pg != ps:
                    small = (pair, pg, ps)
            nviol += 1
            if small:
                ctx.violation('idorder-desc', *small)
            else:
                ctx.violation('idorder-desc', c, g[:80], sp[:80])
        if '1' in g[3:]:
            ctx.nontriv(c)
    ctx.streams.append({'stream': 'idorder-desc', 'cases': len(cases), 'code_points': N, 'exhaustive': True})
    # (2) boundaries of the documented table
    ends = [c for c in range(N - 1) if member[c] == '1' and member[c + 1] == '0']
    starts = [c for c in range(1, N) if member[c] == '1' and member[c - 1] == '0']
    seqs = []
    for e in ends:
        seqs += [(e + 1, e), (e, e + 1), (e + 1, e, e + 1), (e, e + 1, e)]
    for b in starts:
        seqs += [(b - 1, b), (b, b - 1), (b - 1, b, b - 1)]
    ctx.count('idorder_range_ends', len(ends))
    ctx.count('idorder_range_starts', len(starts))
    nb = len(seqs)
    # (3) random short sequences, mostly around boundaries
    near = sorted({x for c in ends + starts for x in (c - 1, c, c + 1, c + 2) if 0 <= x < N})
    for _ in range(ctx.n(4000, 200000)):
        k = rng.randint(2, 6)
        seqs.append(tuple(rng.choice(near) if rng.random() < 0.8 else rng.randrange(N) for _ in range(k)))
    cases = ['idseq ' + '.'.join('%x' % c for c in t) for t in seqs]
    go = ctx.run_go(cases)
    model = ctx.run_lean(cases)
    spec = ctx.run_lean(['spec:' + c for c in cases])
    for i, (c, g, m, sp) in enumerate(zip(cases, go, model, spec)):
        ctx.evaluations += 1
        if g != m:
            ctx.disagreement('idorder-boundary' if i < nb else 'idorder-random', c, g, m)
        if g != sp:
            ctx.violation('idorder-boundary' if i < nb else 'idorder-random', c, g, sp)
        if '1' in g[3:] and '0' in g[3:]:
            ctx.nontriv(c)
    ctx.sample({'op': cases[0], 'go': go[0], 'model': model[0], 'spec': spec[0]})
    ctx.streams.append({'stream': 'idorder-boundary', 'cases': nb})
    ctx.streams.append({'stream': 'idorder-random', 'cases': len(cases) - nb})


# ---- the name-position side of the numeric form -----------------------------------------------------------------------

def run_name_side(ctx, extra):
    """`numname`: exec.MatchIDName itself on every string of length <= 4 (quick) over the numeric alphabet, plus the
    grammar-derived numbers and their single-character edits. `namepos`: the spellings that lex as ONE identifier, written
    into every position of a program where only a name is allowed (declaration target, method name, parameter, loop
    variable, 得到 name, type name, callee); Go = model = spec semantics on the program, and the accept/reject verdict of
    every position = the documented form (`spec:numname`, Spec/NumberForm.lean `classify`)."""
    from props import progs
    from zngen import Program, Decl, Func, Iter, Ret, ExprS, Call, Class, Num, Arr, New, Throw, Bin, MCall, Str, cps as zcps
    rng = ctx.rng
    Lq = 4 if (ctx.quick() and not ctx.escalated) else 5
    strs = [''.join(chr(c) for c in t) for n in range(1, Lq + 1) for t in itertools.product(ALPHA, repeat=n)]
    pool = strs + rng.sample(list(extra), min(len(extra), ctx.n(15000, 10 ** 9)))    # short ones first: the first failing input is small
    cases = ['numname ' + cps([ord(c) for c in t]) for t in pool]
    go = ctx.run_go(cases)
    model = ctx.run_lean(cases)
    spec = ctx.run_lean(['spec:' + c for c in cases])
    verdict = {}
    for t, c, g, m, sp in zip(pool, cases, go, model, spec):
        ctx.evaluations += 1
        verdict[t] = sp
        ctx.count('numname_' + g.replace(' ', '_'))
        if g != m:
            ctx.disagreement('numname', c, g, m)
        if (g == 'name') != (sp == 'name') or not (g == 'name' or g.startswith('err ')):
            ctx.violation('numname', c, g, sp)
        if g != 'name' or t[0] in '+-':
            ctx.nontriv(c)
    ctx.sample({'op': cases[-30], 'go': go[-30], 'model': model[-30], 'spec': spec[-30]})
    ctx.streams.append({'stream': 'numname', 'cases': len(cases), 'exhaustive_upto_len': Lq})

    # ---- in programs -------------------------------------------------------------------------------------------------------
    Lp = 3
    short = [''.join(chr(c) for c in t) for n in range(1, Lp + 1) for t in itertools.product(ALPHA, repeat=n)]
    longer = rng.sample(list(extra), min(len(extra), ctx.n(250, 5000)))
    # near-misses of the documented form that begin with a sign: the name-only positions must still reject them
    signed = [sg + b for sg in '+-' for b in ('5', '12.5', '3.5e+2', '2*10^3', '25*^-2', '2X', '1.', '1e5', '0x', '7..', '1*10^')]
    cand = list(dict.fromkeys(short + signed + longer))
    # only spellings the lexer reads as one identifier (alone, and before a keyword / a mark) take part
    lx = ctx.run_go(['lex ' + cps([ord(c) for c in (pre + t + post)]) for t in cand for pre, post in (('', ''), ('令', '设为'))])
    spell = []
    for i, t in enumerate(cand):
        one = 'ok 5:0:%d:%s 0:%d:%d:-' % (len(t), cps([ord(c) for c in t]), len(t), len(t))
        two = 'ok 40:0:1:- 5:1:%d:%s ' % (len(t) + 1, cps([ord(c) for c in t]))
        if lx[2 * i].split(' |')[0] == one and lx[2 * i + 1].startswith(two):
            spell.append(t)
    ctx.count('namepos_spellings', len(spell))
    ctx.count('namepos_spellings_not_one_identifier', len(cand) - len(spell))

    def programs(t):
        seven = [Ret(Num('7'))]
        return [
            ('decl', Program([], [Decl([t], Num('100'))] + seven)),
            ('decl2', Program([], [Decl(['甲', t], Num('100'))] + seven)),
            ('const', Program([], [Decl([t], Num('100'), const=True)] + seven)),
            ('method', Program([], [Func(t, [], [Ret(Num('7'))]), Ret(Num('8'))])),
            ('callee', Program([], [Func('算', [], [Ret(Num('7'))]), Ret(Call(t, []))])),
            ('param', Program([], [Func('算', [t], [Ret(Num('8'))]), Ret(Call('算', [Num('3')]))])),
            ('param2', Program([], [Func('算', ['甲', t], [Ret(Num('8'))]), Ret(Call('算', [Num('3'), Num('4')]))])),
            ('loopvar', Program([], [Iter([t], Arr([Num('1'), Num('2')]), [ExprS(Call('显示', [Num('1')]))])] + seven)),
            ('loopkv', Program([], [Iter(['键', t], Arr([Num('1'), Num('2')]), [ExprS(Call('显示', [Num('1')]))])] + seven)),
            ('yield', Program([], [Func('算', [], [Ret(Num('8'))]), ExprS(Call('算', [], yld=t))] + seven)),
            ('type', Program([], [Class(t, [('甲', Num('1'))], [])] + seven)),
            # the other places where the evaluator wants a NAME (found by block coverage: none of them was ever given a numeral):
            # a program input, the type after 新建 / 如何新建 / 抛出 / 拦截 (looked at when an exception reaches the handler), the method
            # of 以…（…）, 得到 after such a chain, the first of two loop variables; an accepted spelling there is an unknown name
            # (error 42), an unknown method (46), a handler that matches nothing (the fault 90 goes on) …
            ('input', Program([t], seven)),
            ('new', Program([], [Ret(New(t, []))])),
            ('ctor', Program([], [Func(t, [], [Ret(Num('7'))], ctor=True)] + seven)),
            ('throw', Program([], [Throw(t, [Str('话')])] + seven)),
            # (a fault that leaves a method is an exception without code: the program's own handler tells "matched nothing" — 9 — from
            # the uncatchable "no name")
            ('catch', Program([], [Func('算', [], [Ret(Bin('/', Num('1'), Num('0')))], [(t, [Ret(Num('8'))])]), Ret(Call('算', []))],
                              [('异常', [Ret(Num('9'))])])),
            ('mcall', Program([], [Ret(MCall(Num('5'), [(t, [Num('1')])]))])),
            ('myield', Program([], [ExprS(MCall(Num('5'), [('加', [Num('1')])], yld=t))] + seven)),
            ('loopkey', Program([], [Iter([t, '值'], Arr([Num('1'), Num('2')]), [ExprS(Call('显示', [Num('1')]))])] + seven)),
        ]
    plist, meta = [], []
    for t in spell:
        ps = programs(t)
        if len(t) > 2 and t not in signed and not (len(t) == 3 and t[0] in '+-'):
            ps = rng.sample(ps, 2)
        elif len(t) == 2:
            ps = rng.sample(ps, 13)     # (19 places since the eight above were added: two-character spellings visit 13 of them each)
        for pos, p in ps:
            plist.append((p, {}))
            meta.append((t, pos))
    # a program whose tree is not the intended one (the spelling met its neighbours in the lexer) is no name-position case
    rendered = [p.render(rng) for p, _ in plist]
    asts = ctx.run_go(['ast ' + zcps(src) for src, _ in rendered])
    keep = [i for i, (a, (src, sx)) in enumerate(zip(asts, rendered)) if a.startswith('ok ') and progs.strip_lines(a[3:]) == progs.strip_lines(sx)]
    ctx.count('namepos_programs_tree_not_intended', len(plist) - len(keep))
    plist = [plist[i] for i in keep]
    meta = [meta[i] for i in keep]
    srcs, go, model, spec = progs.run_stream(ctx, 'namepos', plist, nontrivial=lambda src, g: True)
    want = ctx.run_lean(['spec:numname ' + cps([ord(c) for c in t]) for t, _ in meta])
    by_spelling = {}
    for (t, pos), src, g, w in zip(meta, srcs, go, want):
        # a spelling that is no name ends the run with a semantic error (shown without a code: `err rt 0`); an accepted one
        # lets the program run on (to its result, or to `not defined` where the name is only used)
        acc = not g.startswith('err rt 0 ')
        by_spelling.setdefault(t, set()).add(acc)
        ctx.count('namepos_%s_%s' % (pos, 'accepted' if acc else 'rejected'))
        if acc != (w == 'name') or not (g.startswith('ok ') or g.startswith('err ')):
            ctx.violation('namepos:number-form', 'run %s ' % zcps(src), g, 'the spelling is %s where only a name is allowed (spec:numname)' % w)
    ctx.count('namepos_spellings_verdict_depends_on_position', sum(1 for v in by_spelling.values() if len(v) > 1))


def first_diff(case, a, b):
    lo = int(case.split(' ')[1])
    for i, (x, y) in enumerate(zip(a[3:], b[3:])):
        if x != y:
            return 'idrange %d %d' % (lo + i, lo + i + 1)
    return case


def replay(ctx, data):
    case = data['case']
    print('go   :', ctx.run_go([case])[0])
    print('model:', ctx.run_lean([case])[0])
    if case.startswith('run '):
        from props import progs
        return progs.replay(ctx, data)
    if case.startswith('lex2 '):
        print('spec :', ctx.run_lean(['spec:segmentq ' + case.split(' ')[2]])[0], '(documented segmentation of the second text)')
    elif case.startswith('lex ') and str(data.get('stream', '')).startswith('lex-alphabet'):
        print('spec :', ctx.run_lean(['spec:lexalpha ' + case.split(' ')[1]])[0], '(documented tokenisation over the identifier alphabet of the table, Spec/NameChars.lean)')
    elif case.startswith('lex '):
        print('spec :', ctx.run_lean(['spec:segmentq ' + case.split(' ')[1]])[0], '(documented segmentation; applies to texts of keyword glyphs, name characters and back-ticked names)')
    else:
        print('spec :', ctx.run_lean(['spec:' + case])[0])
