"""C04 — keywords/names/numbers tokenisation. Streams: idrange (all 0x110000 code points), numfmt
(exhaustive short strings over the numeric alphabet + grammar-derived long strings and their
single-character mutations), lex (keyword/identifier segmentation; see lexgen)."""
import itertools, struct
from fractions import Fraction

RULE = ("idrange: every code point 0..0x10FFFF (exhaustive). numfmt: all strings up to length L over the alphabet "
        "{0,1,7,+,-,.,e,E,*,^,x} plus generated documented-form numbers and all their single-character edits; "
        "non-trivial = the recogniser consumed at least one character (not immediately a name). "
        "lex: random and exhaustive-short unspaced strings over keyword glyphs, letters, digits, operators, back-ticks; "
        "non-trivial = at least two tokens or an error")
ASSUMPTIONS = ["strconv.ParseFloat rounds correctly (checked per case against exact rational arithmetic, not proved)",
               "harness passes only non-negative runes"]
PARTIAL = ("correct rounding of the decimal is strconv's (runtime); compared against exact rational arithmetic on every generated case. "
           "lex_is_greedy_segmentation is proved for texts over identifier characters (all keyword glyphs included) except 注 and the "
           "operator marks; white space, operators, punctuation, quotes, back-ticks and comments are covered by their own theorems "
           "and by the lex correspondence (every token, error and the Lines table)")
TRUSTED_EXTRA = ["Python fractions/float for the exact nearest-double reference"]

ALPHA = [0x30, 0x31, 0x37, 0x2B, 0x2D, 0x2E, 0x65, 0x45, 0x2A, 0x5E, 0x78]


def cps(s):
    return '.'.join('%x' % c for c in s) if s else '-'


def bits_of(x):
    if x != x:
        return 'nan'
    return '%016x' % struct.unpack('>Q', struct.pack('>d', x))[0]


def exact_value_bits(text):
    """documented value of a numeric identifier: sign int frac exponent (exact), correctly rounded"""
    s = text
    sign = 1
    if s and s[0] in '+-':
        sign = -1 if s[0] == '-' else 1
        s = s[1:]
    exp = 0
    for mark in ('*10^', '*^', 'e', 'E'):
        if mark in s:
            s, e = s.split(mark, 1)
            exp = int(e)
            break
    if '.' in s:
        ip, fp = s.split('.', 1)
    else:
        ip, fp = s, ''
    mant = int(ip + fp)
    e10 = exp - len(fp)
    if mant == 0:
        return bits_of(-0.0 if sign < 0 else 0.0)
    if e10 > 400:
        return bits_of(float('inf') * sign)
    if e10 < -800 - len(ip + fp):
        return bits_of(-0.0 if sign < 0 else 0.0)
    v = Fraction(mant) * (Fraction(10) ** e10)
    try:
        f = float(v)
    except OverflowError:
        f = float('inf')
    return bits_of(sign * f)


def gen_number(rng):
    sg = rng.choice(['', '', '+', '-'])
    ip = ''.join(rng.choice('0123456789') for _ in range(rng.randint(1, rng.choice([1, 3, 8, 20]))))
    fp = ''
    if rng.random() < 0.5:
        fp = '.' + ''.join(rng.choice('0123456789') for _ in range(rng.randint(1, rng.choice([1, 3, 17]))))
    ex = ''
    k = rng.random()
    ed = ''.join(rng.choice('0123456789') for _ in range(rng.randint(1, 3)))
    if k < 0.25:
        ex = rng.choice('eE') + rng.choice('+-') + ed
    elif k < 0.45:
        ex = '*10^' + rng.choice(['', '+', '-']) + ed
    elif k < 0.6:
        ex = '*^' + rng.choice(['', '+', '-']) + ed
    return sg + ip + fp + ex


def run(ctx):
    # ---- idrange: exhaustive ------------------------------------------------------------------
    step = 8192
    cases = ['idrange %d %d' % (lo, min(lo + step, 0x110000)) for lo in range(0, 0x110000, step)]
    go = ctx.run_go(cases)
    model = ctx.run_lean(cases)
    spec = ctx.run_lean(['spec:' + c for c in cases])
    ncp = 0
    for c, g, m, s in zip(cases, go, model, spec):
        ctx.evaluations += 1
        if g != m:
            ctx.disagreement('idrange', first_diff(c, g, m), g[:80], m[:80])
        if g != s:
            ctx.violation('idrange', first_diff(c, g, s), g[:80], s[:80])
        if '1' in g[3:]:
            ctx.nontriv(c)
        ncp += len(g) - 3
    ctx.count('idrange_code_points', ncp)
    ctx.sample({'op': cases[2], 'go': go[2][:60] + '…'})
    ctx.streams.append({'stream': 'idrange', 'cases': len(cases), 'code_points': ncp, 'exhaustive': True})

    # ---- numfmt --------------------------------------------------------------------------------
    L = 5 if (ctx.quick() and not ctx.escalated) else 6
    strs = []
    for n in range(1, L + 1):
        for t in itertools.product(ALPHA, repeat=n):
            strs.append(t)
    ctx.count('numfmt_exhaustive_len_le_%d' % L, len(strs))
    # grammar-derived long numbers and their single-character edits
    extra = set()
    nnum = ctx.n(300, 6000)
    for _ in range(nnum):
        t = gen_number(ctx.rng)
        extra.add(t)
        for i in range(len(t) + 1):
            for ch in 'e.+-*^1x0':
                extra.add(t[:i] + ch + t[i:])
                if i < len(t):
                    extra.add(t[:i] + ch + t[i + 1:])
            if i < len(t):
                extra.add(t[:i] + t[i + 1:])
    extra.discard('')
    extra = sorted(extra)
    ctx.count('numfmt_grammar_and_edits', len(extra))
    allstr = [tuple(ord(c) for c in e) for e in extra] + strs
    cases = ['numfmt ' + cps(t) for t in allstr]
    go = ctx.run_go(cases)
    model = ctx.run_lean(cases)
    spec = ctx.run_lean(['spec:' + c for c in cases])
    for t, c, g, m, s in zip(allstr, cases, go, model, spec):
        ctx.evaluations += 1
        gcls = g.split(' ')[0] if not g.startswith('err') else g
        mcls = m.split(' ')[0] if not m.startswith('err') else m
        ctx.count('numfmt_' + gcls.replace(' ', '_'))
        if gcls != mcls:
            ctx.disagreement('numfmt', c, g, m)
        elif gcls == 'num':
            mt = ''.join(chr(int(x, 16)) for x in m.split(' ')[1].split('.'))
            try:
                mb = bits_of(float(mt))
            except ValueError:
                mb = 'unparseable:' + mt
            if mb != g.split(' ')[1]:
                ctx.disagreement('numfmt-value', c, g, 'num ' + mb)
        scls = s
        if gcls != scls:
            ctx.violation('numfmt-class', c, g, s)
        elif gcls == 'num':
            text = ''.join(chr(x) for x in t)
            want = exact_value_bits(text)
            if want != g.split(' ')[1]:
                ctx.violation('numfmt-rounding', c, g, 'num ' + want)
        if gcls != 'name' or (t and t[0] in (0x2B, 0x2D)):
            ctx.nontriv(c)
    for i in (0, len(extra) // 2, len(extra) - 1, len(extra) + 7, len(cases) - 3):
        ctx.sample({'op': cases[i], 'go': go[i], 'model': model[i], 'spec': spec[i]})
    ctx.streams.append({'stream': 'numfmt', 'cases': len(cases), 'exhaustive_upto_len': L})
    ctx.exhaustive = True
    try:
        from props import lexgen
        lexgen.run_lex_stream(ctx)
    except ImportError:
        pass


def first_diff(case, a, b):
    lo = int(case.split(' ')[1])
    for i, (x, y) in enumerate(zip(a[3:], b[3:])):
        if x != y:
            return 'idrange %d %d' % (lo + i, lo + i + 1)
    return case


def replay(ctx, data):
    case = data['case']
    print('go   :', ctx.run_go([case])[0])
    print('model:', ctx.run_lean([case])[0])
    if case.startswith('lex '):
        print('spec :', ctx.run_lean(['spec:segment ' + case.split(' ')[1]])[0], '(documented segmentation; applies to texts of keyword glyphs and name characters)')
    else:
        print('spec :', ctx.run_lean(['spec:' + case])[0])
