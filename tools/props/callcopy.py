"""Stream `callcopy` (C07, C08): plain assignments whose right-hand side is a CALL that hands back a value somebody else holds.

"Assigning a variable from a list or dictionary stores an independent deep copy" (C07) and "property reads and writes on one
object never affect another object" (C08) hold for every right-hand side, also for one that is a call: most calls yield new
values, but a method that returns its argument / a part of its argument / an outer variable / `其属性` (a getter, also at the end
of a chain), 读取 (yields the stored item), 写入 (yields its argument) and 自增 / 自减 (yield their receiver) yield the very value
another holder has.  An episode of a program:

    target = ‹call yielding the value of source›      target: a name, a new name (令), 名#i, 名#“k” (also one level further down),
                                                      对象之属性, 对象之属性#i, 其属性 (inside a method, given the value or the other object)
    ‹in-place change of source or of target, at nesting level 0, 1 or 2›, then of the other one
                                                      numbers 自增 / 自减, lists 后增 / 前增 / # assignment, dictionaries 写入 / 移除 / # assignment
    display of every holder after each change

The spec semantics (lists / dictionaries / numbers are values, objects are references) judges every program on the intended
tree.  Not generated: a call result changed in place without having been assigned, callees that change their parameters, 得到
(DESIGN §12.8: no property fixes those); 后增 / 前增 / 新增 … as right-hand side (what they return is left open by the spec).
All randomness comes from the rng of the progs.G the stream is built with.
"""
import copy
from zngen import *

VARS = ['甲', '乙', '丙', '丁']
OBJS = ['件甲', '件乙']
PROPS = ['表', '典', '数']
KEYS = ['a', 'b', 'k1', 'k2']


def _show(*xs):
    return ExprS(Call('显示', list(xs)))


class CallCopy:
    def __init__(self, g):
        self.g, self.rng = g, g.rng
        self.n = 0

    def stat(self, key):
        self.g.stats[key] = self.g.stats.get(key, 0) + 1

    # ---- values and their shapes: 'N' | ['L', [shape…]] | ['D', {key: shape}] ------------------------
    def num(self):
        self.n += 1
        return Num(str(self.n))

    def value(self, depth):
        r = self.rng.random()
        if depth == 0 or r < 0.2:
            return self.num(), 'N'
        if r < 0.65:
            items = [self.value(depth - 1) for _ in range(self.rng.randint(1, 3))]
            return Arr([e for e, _ in items]), ['L', [s for _, s in items]]
        ks = self.rng.sample(KEYS[:3], self.rng.randint(1, 3))
        items = [(k, self.value(depth - 1)) for k in ks]
        return Dict([(Str(k), e) for k, (e, _) in items]), ['D', {k: s for k, (_, s) in items}]

    def container(self, depth=2):
        while True:
            e, s = self.value(depth)
            if s != 'N':
                return e, s

    @staticmethod
    def kids(sh):
        if sh == 'N':
            return []
        if sh[0] == 'L':
            return [(Num(str(i + 1)), i) for i in range(len(sh[1]))]
        return [(Str(k), k) for k in sh[1]]

    def walk(self, e, sh, maxdepth, go_on=0.6):
        """a random path of at most maxdepth steps below (e, sh): (expression, parent shape or None, step, shape, depth)"""
        parent, step, d = None, None, 0
        while d < maxdepth and sh != 'N' and self.kids(sh) and self.rng.random() < go_on:
            ix, st = self.rng.choice(self.kids(sh))
            e, parent, step, sh = Index(e, ix), sh, st, sh[1][st]
            d += 1
        return e, parent, step, sh, d

    # ---- the program -------------------------------------------------------------------------------
    def program(self):
        rng = self.rng
        self.n = 0
        body = []
        # prelude: methods that hand back what they are given / what they can see
        body += [Func('原样', ['物'], [Ret(Var('物'))]),
                 Func('择', ['物', '他', '号'], [If(Bin('eq', Var('号'), Num('1')), [Ret(Var('物'))]), Ret(Var('他'))]),
                 Func('取首', ['物'], [Ret(Index(Var('物'), Num('1')))])]
        # … or a part of what they are given (the position / key is written out: 物#2, 物#“a”)
        body += [Func('取第' + str(i), ['物'], [Ret(Index(Var('物'), Num(str(i))))]) for i in (2, 3)]
        body += [Func('取键' + k, ['物'], [Ret(Index(Var('物'), Str(k)))]) for k in KEYS]
        shapes = {}      # root name -> shape ; objects: (obj, prop) -> shape
        defaults = {}
        pdefs = []
        for p in PROPS:
            e, s = (self.num(), 'N') if p == '数' else self.container(2)
            if p == '典' and s[0] != 'D':
                e, s = Dict([(Str('a'), e)]), ['D', {'a': s}]
            pdefs.append((p, e))
            defaults[p] = s
        methods = [Func('己', [], [Ret(This('自身'))]), Func('经', ['物'], [Ret(Var('物'))])]
        for p in PROPS:
            methods += [Func('取' + p, [], [Ret(This(p))]),
                        Func('存' + p, ['物'], [ExprS(Assign(This(p), Call('原样', [Var('物')]))), Ret(Num('0'))]),
                        Func('收' + p, ['对方'], [ExprS(Assign(This(p), MCall(Var('对方'), [('取' + p, [])]))), Ret(Num('0'))])]
        body.append(Class('箱', pdefs, methods))
        names = VARS[:rng.randint(2, 4)]
        for v in names:
            e, s = self.value(2) if rng.random() < 0.85 else (self.num(), 'N')
            body.append(Decl([v], e))
            shapes[v] = s
        for v in names:
            body.append(Func('取' + v, [], [Ret(Var(v))]))
        objs = OBJS[:rng.randint(1, 2)]
        for o in objs:
            body.append(Decl([o], New('箱', [])))
            for p in PROPS:
                shapes[(o, p)] = copy.deepcopy(defaults[p])

        def root_expr(r):
            return Var(r) if isinstance(r, str) else Prop(Var(r[0]), r[1])

        def show_all():
            body.append(_show(*[root_expr(r) for r in shapes]))

        def set_shape(root, parent, step, newsh):
            if parent is None:
                shapes[root] = newsh
            elif parent[0] == 'L':
                parent[1][step] = newsh
            else:
                parent[1][step] = newsh

        def mutate(root, e, parent, step, sh, tag):
            """one in-place change of the value at e (shape sh), at a random nesting level below it"""
            e, parent2, step2, sh, d = self.walk(e, sh, 2, 0.4)
            if parent2 is not None:
                parent, step = parent2, step2
            self.stat('callcopy:change-%s-level%d' % (tag, d))
            k = Num(str(rng.randint(1, 9) * 100))
            if sh == 'N':
                body.append(ExprS(MCall(e, [(rng.choice(['自增', '自减']), [k])])))
                self.stat('callcopy:change-number')
            elif sh[0] == 'L':
                r = rng.random()
                if r < 0.4 or not sh[1]:
                    body.append(ExprS(MCall(e, [('后增', [k])])))
                    sh[1].append('N')
                elif r < 0.55:
                    body.append(ExprS(MCall(e, [('前增', [k])])))
                    sh[1].insert(0, 'N')
                else:
                    i = rng.randrange(len(sh[1]))
                    body.append(ExprS(Assign(Index(e, Num(str(i + 1))), k)))
                    sh[1][i] = 'N'
                self.stat('callcopy:change-list')
            else:
                r = rng.random()
                present = list(sh[1])
                if r < 0.35 and present:
                    kk = rng.choice(present)
                    body.append(ExprS(MCall(e, [('移除', [Str(kk)])])))
                    del sh[1][kk]
                elif r < 0.75:
                    kk = rng.choice(KEYS)
                    body.append(ExprS(MCall(e, [('写入', [Str(kk), k])])))
                    sh[1][kk] = 'N'
                else:
                    kk = rng.choice(KEYS)
                    body.append(ExprS(Assign(Index(e, Str(kk)), k)))
                    sh[1][kk] = 'N'
                self.stat('callcopy:change-dictionary')

        roots = lambda: list(shapes)
        for _ in range(rng.randint(1, 3)):
            # ---- the source: a holder (or a part of one) and a call that yields its value ----------------
            sroot = rng.choice(roots())
            se, sparent, sstep, ssh, sd = self.walk(root_expr(sroot), shapes[sroot], 2, 0.45)
            if ssh == 'N' and rng.random() < 0.6:      # containers more often than numbers
                sroot = rng.choice(roots())
                se, sparent, sstep, ssh, sd = self.walk(root_expr(sroot), shapes[sroot], 1, 0.3)
            forms = ['原样', '择1', '择2', '经']
            if ssh != 'N' and self.kids(ssh):
                forms += ['取首' if ssh[0] == 'L' else '取键', '读取' if ssh[0] == 'D' else '取首']
            if sd == 0 and sroot in names:
                forms += ['取外', '取外']
            if sd == 0 and not isinstance(sroot, str):
                forms += ['取属性', '取属性', '链']
            if ssh == 'N':
                forms += ['自增', '自增']
            dicts = [r for r in roots() if r != sroot and shapes[r] != 'N' and shapes[r][0] == 'D']
            if dicts:
                forms.append('写入')
            form = rng.choice(forms)
            other = root_expr(rng.choice(roots()))
            obj = Var(rng.choice(objs))
            busy = {sroot}       # roots the right-hand side touches: the target is taken elsewhere
            if form == '原样':
                rhs = Call('原样', [se])
            elif form == '择1':
                rhs = Call('择', [se, other, Num('1')])
            elif form == '择2':
                rhs = Call('择', [other, se, Num('2')])
            elif form == '经':
                rhs = MCall(obj, [('经', [se])])
            elif form in ('取首', '取键', '读取'):
                ix, st = rng.choice(self.kids(ssh))
                rhs = (MCall(se, [('读取', [ix])]) if form == '读取' else
                       Call('取首' if st == 0 else '取第%d' % (st + 1), [se]) if ssh[0] == 'L' else Call('取键' + st, [se]))
                se, sparent, sstep, ssh, sd = Index(se, ix), ssh, st, ssh[1][st], sd + 1
            elif form == '取外':
                rhs = Call('取' + sroot, [])
            elif form == '取属性':
                rhs = MCall(Var(sroot[0]), [('取' + sroot[1], [])])
            elif form == '链':
                rhs = MCall(Var(sroot[0]), [('己', []), ('取' + sroot[1], [])])
            elif form == '自增':
                rhs = MCall(se, [(rng.choice(['自增', '自减']), [Num(str(rng.randint(1, 9) * 10))])])
            else:  # 写入: yields its argument
                droot = rng.choice(dicts)
                kk = rng.choice(KEYS)
                rhs = MCall(root_expr(droot), [('写入', [Str(kk), se])])
                shapes[droot][1][kk] = copy.deepcopy(ssh)
                busy.add(droot)
            self.stat('callcopy:rhs-' + form)
            self.stat('callcopy:source-level%d-%s' % (sd, 'number' if ssh == 'N' else 'list' if ssh[0] == 'L' else 'dictionary'))
            # ---- the target ---------------------------------------------------------------------------
            newsh = copy.deepcopy(ssh)
            free = [r for r in roots() if r not in busy]
            r = rng.random()
            fresh = [v for v in VARS if v not in shapes]
            if (r < 0.12 and fresh) or not free:
                if not fresh:
                    continue
                troot = fresh[0]
                body.append(Decl([troot], rhs))          # the neighbour: a declaration from a call result
                shapes[troot] = newsh
                te, tparent, tstep = Var(troot), None, None
                self.stat('callcopy:target-declared-name')
            else:
                troot = rng.choice(free)
                via = rng.random()
                if not isinstance(troot, str) and via < 0.45 and form not in ('自增', '写入'):
                    # 其属性 = ‹call› inside a method of the target object
                    if form in ('取属性', '链') and sroot[1] == troot[1] and sroot[0] != troot[0] and rng.random() < 0.7:
                        body.append(ExprS(MCall(Var(troot[0]), [('收' + troot[1], [Var(sroot[0])])])))
                        self.stat('callcopy:target-其属性-from-getter')
                    else:
                        body.append(ExprS(MCall(Var(troot[0]), [('存' + troot[1], [se])])))
                        self.stat('callcopy:target-其属性')
                    shapes[troot] = newsh
                    te, tparent, tstep = root_expr(troot), None, None
                else:
                    te, tparent, tstep, tsh, td = self.walk(root_expr(troot), shapes[troot], 2)
                    if td == 0 and shapes[troot] != 'N' and shapes[troot][0] == 'D' and rng.random() < 0.3:
                        kk = rng.choice(KEYS)       # a key assignment that may add the key
                        te, tparent, tstep, td = Index(te, Str(kk)), shapes[troot], kk, 1
                    body.append(ExprS(Assign(te, rhs)))
                    set_shape(troot, tparent, tstep, newsh)
                    self.stat('callcopy:target-%s-level%d' % ('name' if isinstance(troot, str) else '对象之属性', td))
            show_all()
            # ---- in-place changes through the two holders, each followed by a display of everything --------
            order = [('source', sroot, se, sparent, sstep, ssh), ('target', troot, te, tparent, tstep, newsh)]
            if rng.random() < 0.5:
                order.reverse()
            for tag, root, e, parent, step, sh in order[:rng.choice([1, 2, 2])]:
                mutate(root, e, parent, step, sh, tag)
                show_all()
        return Program([], body), {}


def programs(g, count):
    cc = CallCopy(g)
    return [cc.program() for _ in range(count)]


def nontrivial(src, go):
    return ' = （' in src or ' = 以' in src
