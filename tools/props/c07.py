"""C07 — program-level three-way comparison (Go interpreter, Lean model evaluator, Lean spec semantics)."""
from props import progs, sites, callcopy
from props.progs import replay  # noqa

GEN = 'copy'
RULE = ("histories: build nested lists/dictionaries (dictionaries of 3–4 keys among them, also below a list / a key) and objects, copy them by "
        "令 / = / multi-declaration / element, key and property assignment / an argument stored by 后增 前增 新增 添加 写入 (also into the very "
        "variable it comes from) / loop variables / the defaults every new object gets; the source of a copy is a whole variable or a part "
        "of one (甲#1, 甲#“a”, 物之表); then interleave mutations through random names and paths (element and key assignment, 后增 前增 左移 右移, "
        "新增 at the first / an inner / the last place, past the end and counted from the end, 移除 of the first / a middle / the last / the "
        "only / an absent key, 写入 of a present / new / formerly removed key, 自增 自减 on numbers held by a variable / stored at any depth / "
        "handed out as loop item or position, property writes and mutating methods on objects, removal and writing through a loop "
        "variable), displaying every variable (and every object's 表) after each step and looking at some holder through an "
        "order-dependent view (所有索引 所有值 长度, 遍历 with one or two names, 首项 末项 逆序), at the end at the key order of the "
        "dictionaries of every holder; literals evaluated repeatedly (loop bodies, methods called several times): list / dictionary "
        "literals changed after being bound (also: bound, copied, a key removed through one of the two names), number literals changed "
        "in place where they stand (receiver of 自增/自减, literal argument of a callee that bumps its input, item of a list / dictionary "
        "literal). Non-trivial = at least one copy and one later mutation in the history.")
RULE += (" Stream `callcopy` (props/callcopy.py): a name / new name / element / key / 对象之属性 / 其属性 assigned the RESULT OF A CALL that "
         "yields a value another holder has (a method handing back its argument, a part of it, an outer variable, 其属性, also at the end "
         "of a chain; 读取, 写入, 自增 / 自减), then source and target changed in place at nesting level 0–2 (自增 自减 后增 前增 # 写入 移除), "
         "everything displayed after each step.")
ASSUMPTIONS = ["Go slice backing arrays are not modelled (the one sharing site, 合并, was repaired)",
               "method arguments and 得到 bind references in the real code; the property does not name them and generators do not mutate through them",
               "生成JSON is outside the evaluator model / spec semantics (imports): the order-dependent views used are display, 所有索引, 所有值 and 遍历"]
PARTIAL = "spec semantics treats lists/dictionaries as values; programs that depend on what a mutating built-in returns are 'unspecified' and skipped (counted)"


def run(ctx):
    sites.report(ctx)   # regenerated site inventory vs the modelled sites (diagnosis of a broken obligation; DESIGN §12)
    g = progs.G(ctx.rng)
    n = ctx.n(1250, 36000)
    ps = [g.copy_program(ctx.rng.randint(4, 14 if ctx.quick() else 40)) for _ in range(n)]
    for k, v in sorted(g.stats.items()):
        ctx.count('copy-gen:' + k, v)
    progs.run_stream(ctx, 'copy', ps, nontrivial=lambda src, go: src.count('设为量') + src.count(' = 量') >= 1 and ('后增' in src or '#' in src))
    # call results stored by plain assignment, then one of the two holders changed in place (props/callcopy.py); after the copy
    # stream, so that the copy stream of a given seed is what it was
    qs = callcopy.programs(g, ctx.n(300, 9000))
    for k, v in sorted(g.stats.items()):
        if k.startswith('callcopy:'):
            ctx.count('gen-' + k, v)
    progs.run_stream(ctx, 'callcopy', qs, nontrivial=callcopy.nontrivial)
