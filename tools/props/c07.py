"""C07 — program-level three-way comparison (Go interpreter, Lean model evaluator, Lean spec semantics)."""
from props import progs
from props.progs import replay  # noqa

GEN = 'copy'
RULE = ("histories: build nested lists/dictionaries and objects, copy them by 令 / = / multi-declaration / element assignment / loop "
        "variables, then interleave mutations through random names and paths (element and key assignment, 后增 前增 左移 右移, 自增 自减 on "
        "numbers held by a variable / stored at any depth / handed out as loop item or position, property writes and mutating methods "
        "on objects), displaying every variable after each step; literals evaluated repeatedly (loop bodies, methods called several "
        "times): list / dictionary literals changed after being bound, number literals changed in place where they stand (receiver of "
        "自增/自减, literal argument of a callee that bumps its input, item of a list / dictionary literal). "
        "Non-trivial = at least one copy and one later mutation in the history.")
ASSUMPTIONS = ["Go slice backing arrays are not modelled (the one sharing site, 合并, was repaired)",
               "method arguments and 得到 bind references in the real code; the property does not name them and generators do not mutate through them"]
PARTIAL = "spec semantics treats lists/dictionaries as values; programs that depend on what a mutating built-in returns are 'unspecified' and skipped (counted)"


def run(ctx):
    g = progs.G(ctx.rng)
    n = ctx.n(1500, 40000)
    ps = [g.copy_program(ctx.rng.randint(4, 14 if ctx.quick() else 40)) for _ in range(n)]
    progs.run_stream(ctx, 'copy', ps, nontrivial=lambda src, go: src.count('设为量') + src.count(' = 量') >= 1 and ('后增' in src or '#' in src))
