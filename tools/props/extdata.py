"""C11 — values built from EXTERNAL DATA have one, documented, order (streams `ext:*`, used by c11.py).

External data = a JSON text handed to 解析JSON (as a literal or through an input variable), the `application/json` body of a
request, the header lines and the query string of a request, a form body. The data REPEAT names: the same key two or three times
in one JSON object (among ≥ 2 distinct keys; the repeated key first / in the middle / last; its later occurrence adjacent, somewhere
later, or last; the occurrences hold values of different kinds — scalar, object, list of objects —, objects nested to any depth
repeat keys again, also below a value that a later occurrence shadows, one occurrence may be spelt with a \\u escape), the same
header name twice or in other letter cases, the same query parameter twice / percent-encoded / in other letter cases.

What the documentation says of each source (the ground truth the generator keeps):
  JSON object     members in document order; a repeated key keeps its FIRST place and takes its LAST value   (elem2json.go, C19)
  headers/query   one entry per name, names ascending (byte-wise), the value = the FIRST one on the wire      (buildFirstValueDict)
  other bodies    the text as it came

How a case is judged (three legs):
  twin     the same observations on a dictionary LITERAL spelling the documented value: a modelled program, run three-way by
           progs.run_stream (Go = Lean model = Lean spec semantics on the intended tree). The spec's answer for the twin
           (value, displayed lines) is the expected outcome of the real program: 显示, 所有索引, 所有值, 数目, 遍历, #key, copies,
           写入 / 移除 after the fact all have their meaning from Spec/Sem.lean, not from Go.
  real     `repeat N` / `httpreq N`: the N outcomes must be ONE (determinism) and that one must be the twin's spec outcome
           (documented order). 生成JSON results and JSON response bodies are read back by the reference JSON reader (order kept).
  model    Lean: `json parse` (Model/Json.lean FN_parseJson) / `reqdict` (Model/MapSites.firstValueDict) and `spec:reqdict`
           must give the generator's documented value; Go's direct `json parse N` must give it too.
All randomness comes from ctx.rng.
"""
import json as pyjson
import re
from urllib.parse import quote
from zngen import *
from props import progs
from props import c19

NUMS = ['0', '1', '2', '3', '7', '10', '-1', '0.5', '2.5', '100']
TEXTS = ['', 'a', 'ab', '甲', '你好', 'x y', 'w']
JKEYS = ['a', 'b', 'c', 'd', 'k', 'id', 'name', 'z', 'A', 'K', 'Id', '甲', '乙', 'k1', 'x-y', '']
PLANS = ['twice', 'twice', 'thrice', 'two-keys']

# a genuine defect of the unchanged tree found on one of these classes would be switched off HERE (and reported), never hidden:
ENABLED = {'json-prog': True, 'json-direct': True, 'http-json': True, 'http-head': True, 'http-query': True, 'http-form': True}


# ---- JSON values: ('n', lit) ('s', text) ('b', bool) ('z',) ('a', [v…]) ('o', [(key, v)…] — repeated keys kept) -------------

def jscalar(rng, avoid=None):
    v = ('z',)
    for _ in range(8):
        r = rng.random()
        if r < 0.4:
            v = ('n', rng.choice(NUMS))
        elif r < 0.7:
            v = ('s', rng.choice(TEXTS))
        elif r < 0.9:
            v = ('b', rng.random() < 0.5)
        else:
            v = ('z',)
        if v[0] != avoid:
            break
    return v


def jvalue(rng, depth, pdup, tags):
    r = rng.random()
    if depth <= 0 or r < 0.5:
        return jscalar(rng)
    if r < 0.72:
        return ('a', [jobject(rng, depth - 1, pdup, tags) if rng.random() < 0.5 else jvalue(rng, depth - 1, pdup, tags)
                      for _ in range(rng.randint(0, 3))])
    return jobject(rng, depth - 1, pdup, tags)


def other_value(rng, v0, depth, pdup, tags):
    """the value of a later occurrence: another kind than the occurrence before it, as a rule"""
    r = rng.random()
    if depth > 0 and r < 0.25:
        return jobject(rng, depth - 1, pdup, tags)
    if depth > 0 and r < 0.4:
        return ('a', [jobject(rng, depth - 1, pdup, tags)] + [jscalar(rng) for _ in range(rng.randint(0, 1))])
    return jscalar(rng, avoid=v0[0] if rng.random() < 0.85 else None)


def repeat_keys(rng, members, plan, depth, pdup, tags):
    n = len(members)
    where = rng.choice(['first', 'middle', 'last'])
    idx = 0 if where == 'first' else n - 1 if where == 'last' else (rng.randrange(1, n - 1) if n > 2 else rng.randrange(n))
    targets = [(members[idx][0], 2 if plan == 'thrice' else 1)]
    if plan == 'two-keys':
        targets.append((members[rng.choice([i for i in range(n) if i != idx])][0], 1))
    out = list(members)
    for k, times in targets:
        for _ in range(times):
            occ = [i for i, (kk, _) in enumerate(out) if kk == k]
            place = rng.choice(['adjacent', 'later', 'end'])
            pos = occ[-1] + 1 if place == 'adjacent' else len(out) if place == 'end' else rng.randint(occ[-1] + 1, len(out))
            out.insert(pos, (k, other_value(rng, out[occ[-1]][1], depth, pdup, tags)))
            tags.append('again-' + ('last' if pos == len(out) - 1 else 'inside'))
    tags.append('%s' % plan)
    tags.append('first-occurrence-' + where)
    return out


def jobject(rng, depth, pdup, tags, plan=None, nk=None):
    keys = rng.sample(JKEYS, nk or rng.randint(2, 5))
    members = [(k, jvalue(rng, depth, pdup, tags)) for k in keys]
    if plan is None:
        plan = rng.choice(PLANS) if rng.random() < pdup else 'none'
    if plan != 'none':
        members = repeat_keys(rng, members, plan, depth, pdup, tags)
    return ('o', members)


def put_child(rng, obj, child):
    ms = list(obj[1])
    i = rng.randrange(len(ms))
    ms[i] = (ms[i][0], child)
    return ('o', ms)


DOC_KINDS = ['top', 'top', 'nested', 'in-list', 'deep', 'everywhere', 'everywhere', 'shadowed', 'control']


def gen_doc(rng, kind=None):
    """(kind, tags, value) — a JSON object; `kind` says where keys are repeated"""
    kind = kind or rng.choice(DOC_KINDS)
    tags = []
    plan = rng.choice(PLANS)
    if kind == 'top':
        v = jobject(rng, 1, 0.3, tags, plan=plan)
    elif kind == 'nested':
        v = put_child(rng, jobject(rng, 0, 0, tags, plan='none'), jobject(rng, 1, 0.3, tags, plan=plan))
    elif kind == 'in-list':
        items = [jobject(rng, 0, 0, tags, plan=rng.choice(PLANS)) for _ in range(rng.randint(1, 3))]
        if rng.random() < 0.4:
            items.insert(rng.randint(0, len(items)), jscalar(rng))
        v = put_child(rng, jobject(rng, 0, 0, tags, plan='none'), ('a', items))
    elif kind == 'deep':
        inner = ('a', [jobject(rng, 0, 0, tags, plan=plan)] + [jscalar(rng) for _ in range(rng.randint(0, 1))])
        mid = put_child(rng, jobject(rng, 0, 0, tags, plan='none'), inner)
        v = put_child(rng, jobject(rng, 0, 0, tags, plan='none'), mid)
    elif kind == 'everywhere':
        v = jobject(rng, 2, 1.0, tags, plan=plan)
    elif kind == 'shadowed':
        # the repeated key holds an object (itself repeating keys) once and a scalar once: which of the two survives is the rule's
        base = jobject(rng, 0, 0, tags, plan='none')
        ms = list(base[1])
        k = ms[rng.randrange(len(ms))][0]
        sub = jobject(rng, 1, 0.5, tags, plan=plan)
        first, last = (sub, jscalar(rng)) if rng.random() < 0.5 else (jscalar(rng), sub)
        i = [kk for kk, _ in ms].index(k)
        ms[i] = (k, first)
        ms.insert(rng.randint(i + 1, len(ms)), (k, last))
        tags.append('shadowed-' + ('object' if first is sub else 'scalar'))
        v = ('o', ms)
    else:
        v = jobject(rng, 1, 0, tags, plan='none', nk=rng.randint(4, 8))
    return kind, tags, v


def resolve(v):
    """the documented value: document order, a repeated key keeps its first place and takes its last value"""
    if v[0] == 'a':
        return ('a', [resolve(x) for x in v[1]])
    if v[0] == 'o':
        order, last = [], {}
        for k, x in v[1]:
            if k not in last:
                order.append(k)
            last[k] = x
        return ('o', [(k, resolve(last[k])) for k in order])
    return v


def has_repeat(v):
    if v[0] == 'a':
        return any(has_repeat(x) for x in v[1])
    if v[0] == 'o':
        ks = [k for k, _ in v[1]]
        return len(set(ks)) < len(ks) or any(has_repeat(x) for _, x in v[1])
    return False


STYLES = [('', '', ''), ('', '', ''), (' ', ' ', ''), (' ', '', ' '), ('\n  ', ' ', '\n'), ('\t', '  ', '\r\n')]


def jtext(v, st, esc=False):
    """JSON text of v (repeated keys written as they are); st = (after a comma, after a colon, inside brackets);
    esc: a later occurrence of a key is spelt with a \\u escape for its first character"""
    ac, acol, ins = st
    t = v[0]
    if t == 'n':
        return v[1]
    if t == 's':
        return pyjson.dumps(v[1], ensure_ascii=False)
    if t == 'b':
        return 'true' if v[1] else 'false'
    if t == 'z':
        return 'null'
    if t == 'a':
        return '[' + ins + (',' + ac).join(jtext(x, st, esc) for x in v[1]) + ins + ']' if v[1] else '[]'
    seen, parts = set(), []
    for k, x in v[1]:
        ks = pyjson.dumps(k, ensure_ascii=False)
        if esc and k in seen and k and ord(k[0]) < 128:
            ks = '"\\u%04x%s' % (ord(k[0]), ks[2:])
        seen.add(k)
        parts.append(ks + ':' + acol + jtext(x, st, esc))
    return '{' + ins + (',' + ac).join(parts) + ins + '}' if parts else '{}'


def znlit(v):
    t = v[0]
    if t == 'n':
        return Num(v[1])
    if t == 's':
        return Str(v[1])
    if t == 'b':
        return Var('真' if v[1] else '假')
    if t == 'z':
        return Var('空')
    if t == 'a':
        return Arr([znlit(x) for x in v[1]])
    return Dict([(Str(k), znlit(x)) for k, x in v[1]])


def topy(v):
    t = v[0]
    if t == 'n':
        return float(v[1])
    if t in ('s', 'b'):
        return v[1]
    if t == 'z':
        return None
    if t == 'a':
        return [topy(x) for x in v[1]]
    return c19.D([(k, topy(x)) for k, x in v[1]])


def canon(v):
    return c19.canon(topy(v))


# ---- observations ------------------------------------------------------------------------------------------------

def observations(rng, E, raw, name='典'):
    """(statements, result mode) observing the value `name` whose documented content is E (raw: as the source listed it)"""
    X = Var(name)
    show = lambda *xs: ExprS(Call('显示', list(xs)))
    if E[0] != 'o':
        return [show(X)], 'list'
    keys = [k for k, _ in E[1]]
    rawkeys = [k for k, _ in raw[1]]
    rep = [k for k in keys if rawkeys.count(k) > 1]
    menu = ['show', 'keys', 'values', 'iter', 'get', 'copy', 'nested', 'write', 'remove-write']
    picks = set(rng.sample(menu, rng.randint(2, 5)))
    obs = []
    if 'show' in picks:
        obs.append(show(X))
    if 'keys' in picks:
        obs.append(show(Prop(X, '所有索引')))
    if 'values' in picks:
        obs.append(show(Prop(X, '所有值'), Prop(X, '数目')))
    if 'iter' in picks:
        obs.append(Iter(['键', '值'], X, [show(Var('键'), Var('值'))]))
    if 'get' in picks:
        for k in (rep or keys)[:2]:
            obs.append(show(Index(X, Str(k))))
    if 'nested' in picks:
        for k, x in E[1]:
            if x[0] == 'o' and x[1]:
                obs.append(show(Prop(Index(X, Str(k)), '所有索引')))
                obs.append(Iter(['子键', '子值'], Index(X, Str(k)), [show(Var('子键'), Var('子值'))]))
            elif x[0] == 'a':
                obs.append(Iter(['项'], Index(X, Str(k)), [show(Var('项'))]))
    if 'copy' in picks:
        obs.append(Decl(['副'], X))
        obs.append(show(Prop(Var('副'), '所有索引'), Bin('xeq', Var('副'), X)))
    cur = list(keys)
    if 'write' in picks:
        k = rng.choice(rep or keys)
        obs.append(ExprS(MCall(X, [('写入', [Str(k), jsc_lit(rng)])])))      # an existing key keeps its place
        obs.append(ExprS(MCall(X, [('写入', [Str('新'), jsc_lit(rng)])])))    # a new one goes last
        cur.append('新')
        obs.append(show(Prop(X, '所有索引')))
    if 'remove-write' in picks:
        k = rng.choice([k for k in (rep or keys)])
        obs.append(ExprS(MCall(X, [('移除', [Str(k)])])))
        if rng.random() < 0.7:
            obs.append(ExprS(MCall(X, [('写入', [Str(k), jsc_lit(rng)])])))   # comes back at the end
        obs.append(show(Prop(X, '所有索引'), Prop(X, '所有值')))
    if not rep or not (picks & {'show', 'keys', 'iter'}) or rng.random() < 0.5:
        obs.append(show(X))        # names repeated only further down: the whole value is displayed
    return obs, rng.choice(['keys', 'dict', 'values', 'gen', 'gen'])


def jsc_lit(rng):
    return znlit(jscalar(rng))


def result_stmt(mode, name='典', real=False):
    X = Var(name)
    if mode == 'keys':
        return Ret(Prop(X, '所有索引'))
    if mode == 'values':
        return Ret(Prop(X, '所有值'))
    if mode == 'list':
        return Ret(Arr([X]))
    if mode == 'gen' and real:
        return Ret(Call('生成JSON', [X]))
    return Ret(X)


# ---- requests ----------------------------------------------------------------------------------------------------

def canon_header(name):
    """textproto.CanonicalMIMEHeaderKey on a token"""
    out, up = [], True
    for c in name:
        out.append(c.upper() if up else c.lower())
        up = c == '-'
    return ''.join(out)


HNAMES = ['X-A', 'X-B', 'X-C', 'Accept', 'User-Agent', 'Cookie', 'Referer', 'X-Trace-Id', 'Accept-Language', 'X-Zn-1']


def case_variant(rng, name):
    return rng.choice([name, name.lower(), name.upper(), name[0].lower() + name[1:], name.title().swapcase()])


def gen_headers(rng, tags):
    """header lines in wire order with repeated names (same spelling or other letter cases)"""
    names = rng.sample(HNAMES, rng.randint(3, 6))
    lines = [(case_variant(rng, n) if rng.random() < 0.4 else n) for n in names]
    for _ in range(rng.randint(1, 3)):
        where = rng.choice(['first', 'middle', 'last'])
        base = lines[0] if where == 'first' else lines[-1] if where == 'last' else lines[rng.randrange(len(lines))]
        again = base if rng.random() < 0.4 else case_variant(rng, base)
        pos = rng.choice([lines.index(base) + 1, len(lines), rng.randint(1, len(lines))])
        lines.insert(pos, again)
        tags.append('header-again-' + ('same' if again == base else 'case'))
    vals = ['v%d' % i for i in range(len(lines))]
    rng.shuffle(vals)
    return list(zip(lines, vals))


QNAMES = ['a', 'b', 'c', 'page', 'q', '名', 'A', 'Page', 'PAGE', 'Q', 'tag', 'Tag', 'x y', 'k&v', '%']


def gen_query(rng, tags):
    """(decoded pairs in wire order, raw query string): repeated names, names differing in case (distinct!), percent-encoded aliases"""
    names = rng.sample(QNAMES, rng.randint(3, 6))
    pairs = list(names)
    for _ in range(rng.randint(1, 3)):
        k = rng.choice(names)
        pairs.insert(rng.choice([pairs.index(k) + 1, len(pairs), rng.randint(0, len(pairs))]), k)
        tags.append('param-again')
    vals = ['%d' % i for i in range(len(pairs))]
    rng.shuffle(vals)
    if rng.random() < 0.3:
        vals[rng.randrange(len(vals))] = ''
    raw, seen = [], set()
    for k, v in zip(pairs, vals):
        enc = quote(k, safe='')
        if k in seen and ord(k[0]) < 128 and rng.random() < 0.5:
            enc = '%%%02X' % ord(k[0]) + quote(k[1:], safe='')       # the same name, spelt otherwise
            tags.append('param-alias')
        elif ' ' in k and rng.random() < 0.5:
            enc = enc.replace('%20', '+')
        seen.add(k)
        raw.append(enc + '=' + v)
    return list(zip(pairs, vals)), '&'.join(raw)


def first_value_dict(pairs):
    """ground truth of buildFirstValueDict: names ascending byte-wise, first value"""
    first = {}
    for k, v in pairs:
        first.setdefault(k, v)
    return ('o', [(k, ('s', first[k])) for k in sorted(first, key=lambda s: s.encode('utf-8'))])


def reqdict_line(pairs):
    return 'reqdict %d %s' % (len(pairs), ' '.join(hx(k) + ' ' + hx(v) for k, v in pairs))


def http_line(N, method, target, headers, body, src):
    return 'httpreq %d %s %s %d %s %s %s' % (N, hx(method), hx(target), len(headers),
                                             ' '.join(hx(h) + ' ' + hx(v) for h, v in headers), hx(body), cps(src))


# ---- case construction -------------------------------------------------------------------------------------------

class Case:
    def __init__(self, stream, tags, E, raw):
        self.stream, self.tags, self.E, self.raw = stream, tags, E, raw
        self.twin = self.real = self.line = None
        self.mode = 'dict'
        self.extra = []          # (what, go line or None, lean model line or None, lean spec line or None, expected answer)


def build_programs(rng, c, real_decl, real_inputs=(), imports=()):
    obs, c.mode = observations(rng, c.E, c.raw)
    if c.stream.startswith('http') and c.mode == 'gen':
        c.mode = 'dict'                                   # a returned dictionary IS written as JSON by the handler
    c.twin = Program([], [Decl(['典'], znlit(c.E))] + obs + [result_stmt(c.mode)])
    c.real = Program(list(real_inputs), [Decl(['典'], real_decl)] + obs + [result_stmt(c.mode, real=True)], imports=list(imports))


def json_cases(rng, n, N):
    out = []
    for i in range(n):
        kind, tags, v = gen_doc(rng)
        E = resolve(v)
        esc = has_repeat(v) and rng.random() < 0.15
        doc = jtext(v, rng.choice(STYLES), esc)
        c = Case('json-prog', [kind] + tags + (['key-escaped'] if esc else []), E, v)
        via_input = esc or any(ch in doc for ch in '\n\r\t') or rng.random() < 0.3
        if via_input:
            build_programs(rng, c, Call('解析JSON', [Var('文本')]), ['文本'], [(1, '@JSON', [], '\n')])
            src, _ = c.real.render(rng)
            c.line = 'repeat %d %s %s' % (N, cps(src), input_spec('文本', doc))
            c.tags.append('via-input')
        else:
            build_programs(rng, c, Call('解析JSON', [Str(doc, q='「」')]), [], [(1, '@JSON', [], '\n')])
            src, _ = c.real.render(rng)
            c.line = 'repeat %d %s' % (N, cps(src))
            c.tags.append('via-literal')
        c.src = src
        pl = 'json parse %d s:%s' % (N, c19.hx(doc.encode('utf-8')))
        c.extra.append(('json-direct', pl, 'json parse 1 s:%s' % c19.hx(doc.encode('utf-8')), None, 'ok ' + canon(E)))
        out.append(c)
    return out


def http_cases(ctx, n_json, n_head, n_query, n_form, N):
    rng = ctx.rng
    out = []
    for i in range(n_json):
        kind, tags, v = gen_doc(rng)
        doc = jtext(v, rng.choice(STYLES), False)
        c = Case('http-json', [kind] + tags, resolve(v), v)
        ct = rng.choice(['Content-Type', 'content-type', 'CONTENT-TYPE', 'Content-type'])
        hs = [(h, 'x%d' % j) for j, h in enumerate(rng.sample(HNAMES, rng.randint(1, 3)))]
        hs.insert(rng.randint(0, len(hs)), (ct, 'application/json'))
        if rng.random() < 0.2:
            hs.append((rng.choice(['Content-Type', 'content-type']), 'text/plain'))     # the FIRST value of a repeated header counts
            c.tags.append('content-type-twice')
        build_programs(rng, c, Prop(Var('当前请求'), '内容'), ['当前请求'])
        c.src, _ = c.real.render(rng)
        c.line = http_line(N, rng.choice(['POST', 'PUT']), '/data', hs, doc, c.src)
        out.append(c)
    pend = []
    for i in range(n_head + n_query):
        tags = []
        if i < n_head:
            hs = gen_headers(rng, tags)
            body = rng.choice(['', 'x', '0123456789'])
            pairs = [(canon_header(h), v) for h, v in hs] + [('Content-Length', str(len(body)))]
            pend.append(('http-head', tags, pairs, hs, '/h', body))
        else:
            pairs, rawq = gen_query(rng, tags)
            hs = [(h, 'x%d' % j) for j, h in enumerate(rng.sample(HNAMES, 2))]
            pend.append(('http-query', tags, pairs, hs, quote('/路', safe='/') + '?' + rawq, ''))
    # the documented dictionary: Lean spec oracle (= Lean model = the generator's own reading, or the case is a disagreement)
    model = ctx.run_lean([reqdict_line(p[2]) for p in pend])
    spec = ctx.run_lean(['spec:' + reqdict_line(p[2]) for p in pend])
    for (stream, tags, pairs, hs, target, body), m, s in zip(pend, model, spec):
        E = first_value_dict(pairs)
        want = canon(E)
        if m != s or s != want:
            ctx.disagreement('ext:' + stream + ':reqdict-model-spec-generator', reqdict_line(pairs), 'model ' + m + ' ## generator ' + want, 'spec ' + s)
            continue
        c = Case(stream, tags, E, ('o', [(k, ('s', v)) for k, v in pairs]))
        build_programs(rng, c, Prop(Var('当前请求'), '头部' if stream == 'http-head' else '查询参数'), ['当前请求'])
        c.src, _ = c.real.render(rng)
        c.line = http_line(N, 'GET', target, hs, body, c.src)
        out.append(c)
    for i in range(n_form):
        fields = rng.sample(['a', 'b', 'c', 'tag'], rng.randint(2, 3))
        fields.insert(rng.randint(1, len(fields)), fields[0])
        body = '&'.join('%s=%d' % (f, j) for j, f in enumerate(fields))
        c = Case('http-form', ['field-again'], ('s', body), ('s', body))
        build_programs(rng, c, Prop(Var('当前请求'), '内容'), ['当前请求'])
        c.src, _ = c.real.render(rng)
        c.line = http_line(N, 'POST', '/form', [('Content-Type', 'application/x-www-form-urlencoded'), ('X-A', '1')], body, c.src)
        out.append(c)
    return out


# ---- judging -----------------------------------------------------------------------------------------------------

def read_back(text):
    """canonical form of a JSON text by the reference reader (member order kept), or None"""
    st, v = c19.reference_read(text)
    if st != 'ok':
        return None
    if isinstance(v, int) and not isinstance(v, bool):
        v = float(v)
    try:
        return c19.canon(v)
    except ValueError:
        return None


def unhex(h):
    return bytes.fromhex(h if h != '-' else '').decode('utf-8', 'replace')


def judge(ctx, c, ans, want):
    """ans: the answer of repeat / httpreq; want: the spec's answer for the twin (`ok <value> | <trace>`)"""
    what = 'ext:' + c.stream
    if not ans.startswith('rep 1 '):
        ctx.violation(what + ':more-than-one-outcome', c.line, ans[:2000], 'rep 1 ' + want)
        return False
    got = ans[len('rep 1 '):]
    if ' | ' not in want or not want.startswith('ok '):
        ctx.count(what + ':twin-not-ok')
        return True
    wv, wt = want[3:].rsplit(' | ', 1)
    if c.stream.startswith('http'):
        m = re.fullmatch(r'http (\d+) \[(.*?)\] (\S+) \| (.*)', got)
        if not m or m.group(1) != '200' or m.group(4) != wt or read_back(unhex(m.group(3))) != wv:
            ctx.violation(what + ':not-the-documented-order', c.line, ans[:2000],
                          'rep 1 http 200 […] <JSON text reading back as %s> | %s' % (wv, wt))
            return False
        return True
    if c.mode == 'gen':
        ok = False
        if got.startswith('ok s:') and ' | ' in got:
            gv, gt = got[5:].rsplit(' | ', 1)
            try:
                ok = gt == wt and read_back(unhex(gv)) == wv
            except ValueError:
                ok = False
        if not ok:
            ctx.violation(what + ':not-the-documented-order', c.line, ans[:2000], 'rep 1 ok s:<JSON text reading back as %s> | %s' % (wv, wt))
        return ok
    if got != want:
        ctx.violation(what + ':not-the-documented-order', c.line, ans[:2000], 'rep 1 ' + want)
        return False
    return True


def run(ctx, N, scale, par_go):
    rng = ctx.rng
    cases = []
    if ENABLED['json-prog']:
        cases += json_cases(rng, 70 * scale, N)
    http = http_cases(ctx, 24 * scale if ENABLED['http-json'] else 0, 12 * scale if ENABLED['http-head'] else 0,
                      10 * scale if ENABLED['http-query'] else 0, 4 * scale if ENABLED['http-form'] else 0, N)
    # the twins: modelled programs, three-way
    twins = [(c.twin, {}) for c in cases + http]
    _, _, _, spec = progs.run_stream(ctx, 'c11:ext-twin', twins, nontrivial=lambda s, g_: True)
    allc = cases + http
    ans = par_go(ctx, [c.line for c in allc])
    if http and all(a == 'bad-op' for a in ans[len(cases):]):
        ctx.count('ext:http:unavailable', len(http))
        allc, ans, spec = allc[:len(cases)], ans[:len(cases)], spec[:len(cases)]
    n_unspec = 0
    for c, a, s in zip(allc, ans, spec):
        ctx.evaluations += 1
        ctx.nontriv(c.line)
        ctx.count('ext:%s' % c.stream)
        for t in set(c.tags):
            ctx.count('ext:%s:%s' % (c.stream, t))
        ctx.count('ext:%s:result-%s' % (c.stream, c.mode))
        if s in ('unspecified', 'fuel') or s.startswith('fatal'):
            n_unspec += 1
            s = ''
        judge(ctx, c, a, s)
    ctx.count('ext:twin-spec-unspecified', n_unspec)
    # the library called directly, and the Lean model of it, against the documented value
    ex = [e for c in cases for e in c.extra] if ENABLED['json-direct'] else []
    if ex:
        go = par_go(ctx, [e[1] for e in ex])
        model = ctx.run_lean([e[2] for e in ex])
        for (what, gl, ml, _, want), g, m in zip(ex, go, model):
            ctx.evaluations += 1
            if m != want:
                ctx.disagreement('ext:' + what + ':model-vs-documented-value', ml, 'generator ' + want, m)
            if g != want:
                ctx.violation('ext:' + what, gl, g[:1500], want[:1500])
            elif g != m:
                ctx.disagreement('ext:' + what, gl, g, m)
            ctx.count('ext:' + what)
    for stream in sorted(set(c.stream for c in allc)):
        ctx.streams.append({'stream': 'ext:' + stream, 'cases': sum(1 for c in allc if c.stream == stream), 'repetitions': N})
    if ex:
        ctx.streams.append({'stream': 'ext:json-direct', 'cases': len(ex), 'repetitions': N})
    for c, a, s in list(zip(allc, ans, spec))[::max(1, len(allc) // 3)][:3]:
        ctx.sample({'stream': 'ext:' + c.stream, 'tags': c.tags, 'source': c.src, 'case': c.line[:200], 'answer': a[:300], 'twin_spec': s[:300]})
