"""C05 — compilation and error display terminate cleanly on every input.

Per case `compile <cps>` runs the real Parser.Compile under a 2 s watchdog and, for an error, the real
exec.DisplayError(exec.WrapSyntaxError(parser, "主模块", err)).
  correspondence : Go outcome (tree incl. line numbers | err syn code cursor | err other | timeout)  =  model `parse <cps>`
                   (Model/Parser over Model/Lexer; a mismatch is re-run on the real token stream to name the culprit)
  property (on the REAL output, no model involved):
     the outcome is a tree or a syntax error — never `err other` (recovered Go run-time panic), `panic`, `timeout`, `crash`;
     20 ≤ code ≤ 27;  0 ≤ cursor ≤ len(source);
     DisplayError returns, shows a line number that exists and quotes a physical line of the source (without its indentation);
     an accepted tree is complete (walker over the dumped tree).
Streams: trunc (EVERY prefix of corpus programs), corrupt (token deletion/duplication/swap, splices, noise, indentation and
line-break damage, on canonical and re-laid-out renderings), unicode (random code points incl. controls, surrogates, quotes,
brackets, back-ticks, keywords), indent (mixed TAB/space indentation, lone CR), errline (the printer alone, any cursor),
varinput / exprin (props/varinput.py: the text of input variables is program text — the same texts to the compiler and to
ExecVarInputText / Interpreter.ExecuteVarInputText / ExecExpressionInputText; oracle Spec/VarInput.lean)."""
import znlayout
from zngen import cps
from props import parsecommon as pc
from props import errline
from props import varinput

RULE = ("trunc: every prefix (each offset 0..len) of corpus programs from the six generators; corrupt: 10–16 damaged variants per program "
        "(token deletion, duplication, swap, random splices, insertion/replacement from a pool of controls, zero-width and astral characters, lone "
        "surrogates, every quote/bracket/back-tick/punctuation/operator, comment openers, line-break sequences, every keyword; indentation of "
        "one line changed; line breaks inserted) of canonical and randomly re-laid-out renderings; unicode: strings of 1–40 items of that pool "
        "mixed with identifiers and numbers; indent: programs whose lines get random TAB/space/mixed indentation and CR/LF/CRLF/LFCR/CR-CR "
        "breaks; overindent: valid programs with one line inserted after a complete statement (at any nesting depth, also right after a block, "
        "directly or after a blank / comment line) that is indented one or two steps deeper than that statement (or deeper than every line before it), with 4 spaces or with "
        "TABs throughout — expected: error 20 whose cursor is the first token of the inserted line, displayed with that line's number and "
        "caret column 0 (generator ground truth); afterinput: valid programs (corpus + six fixed shapes) whose exec block ends while still in its 输入 section — "
        "a line indented deeper, or less, than an 输入 line inserted right after it (directly or after a blank / comment line), or the text cut "
        "after the 输入 line (followed by nothing, line ends, blanks or a comment) — expected: error 20 at the first token of the inserted line "
        "(caret 0) / at the end of the text (its line, caret = width of that line), generator ground truth; " + varinput.RULE_VARINPUT + "; " + errline.RULE_ERRLINE + ". Non-trivial = the input is not accepted (an error path ran) or has ≥ 3 lines.")
ASSUMPTIONS = ["'promptly' is the harness watchdog's 2 s (a `timeout` answer is re-run alone twice before it counts: the machine may be busy)",
               "lone surrogates print as U+FFFD (Go's string conversion); the quoted-line check compares modulo that substitution"] + varinput.ASSUMPTIONS_VARINPUT + errline.ASSUMPTIONS_ERRLINE
PARTIAL = ("termination, cursor bound, absence of panics and completeness are proved for the parser over ANY lexer meeting LexOK (Proofs/ParserHoare); "
           "that Model/Lexer meets LexOK is the lexer worker's obligation (lex_total / its cursor bound) — here it is exercised by the end-to-end runs; "
           "'promptly' itself is a run-time notion")


def _norm(s):
    return ''.join('�' if 0xD800 <= ord(c) <= 0xDFFF else c for c in s)


def physical_lines(src):
    out, cur = [], []
    for c in src:
        if c in '\r\n':
            out.append(''.join(cur))
            cur = []
        else:
            cur.append(c)
    out.append(''.join(cur))
    return out


def judge_real(ctx, stream, line, src, g):
    """the property's predicates on the real answer"""
    f = g.split(' | ')
    head = f[0]
    if head.startswith('ok '):
        if not pc.complete(head[3:]):
            ctx.violation(stream + ':incomplete-tree', line, head[:400], 'a complete tree or a syntax error')
        return 'tree'
    hf = head.split(' ')
    if hf[:2] != ['err', 'syn']:
        ctx.violation(stream + ':' + '-'.join(hf[:2]), line, g[:300], 'tree | err syn 20..27 <cursor in source>')
        return head
    code, cur = int(hf[2]), int(hf[3])
    if not (20 <= code <= 27):
        ctx.violation(stream + ':code-out-of-range', line, g[:300], 'code in 20..27')
    if not (0 <= cur <= len(src)):
        ctx.violation(stream + ':cursor-out-of-range', line, g[:300], '0 <= cursor <= %d' % len(src))
    d = f[1].split(' ') if len(f) > 1 else ['disp', 'missing']
    if d[:2] != ['disp', 'ok'] or d[2] == '-':
        ctx.violation(stream + ':display-' + d[1], line, g[:300], 'DisplayError returns and quotes a source line')
    else:
        lines = physical_lines(src)
        quoted = '' if d[3] == '-' else ''.join(chr(int(x, 16)) for x in d[3].split('.'))
        ok_line = any(_norm(l.lstrip(' \t')) == quoted for l in lines)
        if not ok_line:
            ctx.violation(stream + ':quoted-line-not-in-source', line, g[:300], 'a physical line of the source')
        if not (1 <= int(d[2]) <= len(lines)):
            ctx.violation(stream + ':line-number-out-of-range', line, g[:300], '1..%d' % len(lines))
    return 'err syn %d' % code


def retry_timeouts(ctx, lines, answers):
    idx = [i for i, a in enumerate(answers) if a.startswith('timeout') or a.startswith('crash')]
    for i in idx[:60]:
        for _ in range(2):
            r = ctx.run_go([lines[i]], timeout_ms=2000, parallel=False)[0]
            if not (r.startswith('timeout') or r.startswith('crash')):
                answers[i] = r
                break
    return answers


def check(ctx, stream, srcs):
    lines = ['compile ' + cps(s) for s in srcs]
    go = retry_timeouts(ctx, lines, ctx.run_go(lines, timeout_ms=2000))
    model = ctx.run_lean(['parse ' + cps(s) for s in srcs])
    bad = []
    for k, src in enumerate(srcs):
        ctx.evaluations += 1
        g, m = go[k], model[k]
        cls = judge_real(ctx, stream, lines[k], src, g)
        ctx.count(stream + ':' + cls)
        if g.split(' | ')[0] != m:
            bad.append(k)
        if cls != 'tree' or src.count('\n') + src.count('\r') >= 2:
            ctx.nontriv(lines[k])
    if bad:
        ml, _ = pc.model_parse(ctx, [srcs[k] for k in bad])
        for k, mt in zip(bad, ml):
            gc = go[k].split(' | ')[0]
            ctx.disagreement(stream + (':parser-model' if mt != gc else ':lexer-model'), lines[k], go[k][:400], model[k][:400])
    ctx.streams.append({'stream': stream, 'cases': len(srcs)})
    return go, model


def unicode_strings(rng, n):
    out = []
    words = ['甲', '乙', 'x', '1', '-2', '0.5', '“a”', '量1', '（显示：甲）', '令甲为1', '【1，2】', '如果真：', '\n    ']
    for _ in range(n):
        k = rng.randint(1, 40)
        parts = []
        for _ in range(k):
            r = rng.random()
            if r < 0.55:
                parts.append(rng.choice(pc.NOISE))
            elif r < 0.85:
                parts.append(rng.choice(words))
            else:
                parts.append(chr(rng.choice([rng.randrange(0x20), rng.randrange(0x80, 0x3000), rng.randrange(0x3000, 0xA000),
                                             rng.randrange(0xE000, 0x10000), rng.randrange(0x10000, 0x110000)])))
        out.append(''.join(parts))
    # a NUL (or another character no token starts with) as the very FIRST character: the error is at position 0, before any line
    # has been recorded
    for first in ('\x00', '\x00\n', '\x00令甲设为1', '\x00\x00', '\x00    （显示：1）', '~', '\x7f令甲', '\ufeff\x00', '\r\x00'):
        out.append(first)
        out.append(first + rng.choice(words))
    return out


def indent_damage(rng, src):
    ls = src.split('\n')
    out = []
    for l in ls:
        body = l.lstrip(' ')
        k = (len(l) - len(body)) // 4
        r = rng.random()
        if r < 0.5:
            ind = ('\t' if rng.random() < 0.5 else '    ') * k
        elif r < 0.7:
            ind = rng.choice(['\t', '    ', ' ', '  ', '\t ', ' \t', '        ', '\t\t', '   \t']) * rng.choice([0, 1, 1, 2])
        else:
            ind = ''.join(rng.choice([' ', '\t']) for _ in range(rng.randint(0, 6)))
        out.append(ind + body)
    res = []
    for i, l in enumerate(out):
        res.append(l)
        if i + 1 < len(out):
            res.append(rng.choice(['\n', '\n', '\r', '\r\n', '\n\r', '\r\r', '\n\n']))
    return ''.join(res)


def run(ctx):
    rng = ctx.rng
    nprog = ctx.n(150, 4000)
    progs = pc.corpus(rng, nprog)
    canon = [p.render(rng)[0] for p in progs]
    tk = ctx.run_go(['tokens ' + cps(s) for s in canon], timeout_ms=4000)
    spans = [pc.token_spans(t) for t in tk]
    # trunc: every prefix of a few programs (short ones first so that the quick tier covers whole programs), canonical and laid out
    order = sorted(range(nprog), key=lambda i: len(canon[i]))
    pick = order[:ctx.n(6, 60)] + [order[len(order) // 2]] * 1 + rng.sample(order, ctx.n(3, 40))
    tr = []
    for i in pick:
        s = canon[i] if rng.random() < 0.5 or not spans[i] else znlayout.relayout(rng, canon[i], spans[i])
        tr += pc.truncations(s)
    go, model = check(ctx, 'trunc', tr)
    ctx.sample({'stream': 'trunc', 'source': _norm(tr[len(tr) // 2]), 'go': go[len(tr) // 2][:300], 'model': model[len(tr) // 2][:300]})
    # corrupt
    cor = []
    for s, sp in zip(canon, spans):
        if rng.random() < 0.4 and sp:
            lay = znlayout.relayout(rng, s, sp)
            cor += pc.corruptions(rng, lay, [], ctx.n(6, 10))
        cor += pc.corruptions(rng, s, sp, ctx.n(8, 14))
    go, model = check(ctx, 'corrupt', cor)
    for k in (0, len(cor) // 3, 2 * len(cor) // 3):
        ctx.sample({'stream': 'corrupt', 'source': _norm(cor[k]), 'go': go[k][:300], 'model': model[k][:300]})
    # unicode
    us = unicode_strings(rng, ctx.n(2500, 150000))
    go, model = check(ctx, 'unicode', us)
    ctx.sample({'stream': 'unicode', 'source': _norm(us[0]), 'go': go[0][:300], 'model': model[0][:300]})
    # indentation / line ends
    ind = [indent_damage(rng, s) for s in canon for _ in range(ctx.n(4, 8))]
    check(ctx, 'indent', ind)
    # texts the grammar does not derive (incl. the three witnesses of the parser defects): a clean syntax error, promptly
    check(ctx, 'ungrammatical', pc.ungrammatical(rng, ctx.n(3 * len(pc.UNGRAMMATICAL), 20 * len(pc.UNGRAMMATICAL))))
    # a complete statement followed by an over-indented line: error 20 ON that line, at its first token (generator ground truth)
    ov = []
    for s, sp in zip(canon, spans):
        ov += pc.overindented(rng, s, sp, ctx.n(2, 4))
    go, model = check(ctx, 'overindent', [t for t, _, _ in ov])
    for (t, cur, ln), g_out in zip(ov, go):
        f = g_out.split(' | ')
        d = f[1].split(' ') if len(f) > 1 else []
        ctx.count('overindent:' + ('tab' if '\t' in t else 'spaces'))
        if f[0] != 'err syn 20 %d' % cur or len(d) < 5 or d[:3] != ['disp', 'ok', str(ln + 1)] or d[4] != '0':
            ctx.violation('overindent:ground-truth', 'compile ' + cps(t), g_out[:300],
                          'err syn 20 %d | disp ok %d <the over-indented line> 0   (the first token of the over-indented line)' % (cur, ln + 1))
    if ov:
        k = len(ov) // 2
        ctx.sample({'stream': 'overindent', 'source': _norm(ov[k][0]), 'go': go[k][:300], 'model': model[k][:300]})
    # an exec block that ends while still in its 输入 section (over-indented / dedented line right after an 输入 line, 输入 line last in the
    # text): error 20 at the first token of that line / at the end of the text (generator ground truth; repair 07aabbd)
    bases = list(zip(canon, spans))
    btk = ctx.run_go(['tokens ' + cps(s) for s in pc.INPUT_BASES], timeout_ms=4000)
    bases += [(s, pc.token_spans(t)) for s, t in zip(pc.INPUT_BASES, btk)] * ctx.n(1, 30)
    ai = []
    for s, sp in bases:
        ai += pc.after_input_line(rng, s, sp, ctx.n(2, 6))
    go, model = check(ctx, 'afterinput', [t for t, _, _, _, _ in ai])
    for (t, cur, ln, caret, kind), g_out in zip(ai, go):
        f = g_out.split(' | ')
        d = f[1].split(' ') if len(f) > 1 else []
        ctx.count('afterinput:' + kind)
        if f[0] != 'err syn 20 %d' % cur or len(d) < 5 or d[:3] != ['disp', 'ok', str(ln + 1)] or d[4] != str(caret):
            ctx.violation('afterinput:ground-truth', 'compile ' + cps(t), g_out[:300],
                          'err syn 20 %d | disp ok %d <that line> %d   (%s: the token that ended the 输入 section, or the end of the text)' % (cur, ln + 1, caret, kind))
    for kind in ('over', 'dedent', 'last'):
        ks = [i for i, a in enumerate(ai) if a[4] == kind]
        if ks:
            ctx.sample({'stream': 'afterinput:' + kind, 'source': _norm(ai[ks[0]][0]), 'go': go[ks[0]][:300], 'model': model[ks[0]][:300]})
    # one Interpreter object used for two programs in a row: what the second compiles to (tree or syntax error, code, line, caret)
    # is a function of its own text — whatever was compiled before it (longer, shorter, rejected)
    pool = [('输出 0\n' + s) for s in canon] + [('输出 0\n' + s) for s in rng.sample(cor, min(len(cor), ctx.n(150, 3000)))]
    pairs = [(rng.choice(pool), rng.choice(pool)) for _ in range(ctx.n(400, 8000))]
    alone = ctx.run_go(['run ' + cps(b) for _, b in pairs])
    after = ctx.run_go(['runafter %s %s' % (cps(a), cps(b)) for a, b in pairs])
    for (a, b), g1, g2 in zip(pairs, alone, after):
        ctx.evaluations += 1
        if g1 != g2 and not (g1.startswith('timeout') or g2.startswith('timeout')):
            ctx.violation('after-another-program', 'runafter %s %s' % (cps(a), cps(b)), g2, g1 + '   (the second program alone)')
        if a.count('\n') > b.count('\n') > 1:
            ctx.nontriv(cps(b))       # (b may hold a lone surrogate: not encodable as it is)
    ctx.streams.append({'stream': 'after-another-program', 'cases': len(pairs)})
    # input-variable text: the same texts to the compiler and to ExecVarInputText / ExecuteVarInputText / ExecExpressionInputText
    varinput.stream(ctx, check, ctx.n(100, 3000))
    # the printer alone, any cursor
    errline.stream(ctx, ctx.n(4000, 200000))


def replay(ctx, data):
    case = data['case']
    if case.split(' ')[0] in ('varinput', 'exprin'):
        varinput.replay(ctx, case)
        if data.get('spec'):
            print('expected:', data['spec'][:3000])
        return
    print('go   :', ctx.run_go([case], timeout_ms=2000)[0][:3000])
    f = case.split(' ')
    if f[0] == 'compile':
        print('model:', ctx.run_lean(['parse ' + f[1]])[0][:3000])
        tk = ctx.run_go(['tokens ' + f[1]])[0]
        print('parser model on the real tokens:', ctx.run_lean(['parse-tokens' + tk[2:]])[0][:3000] if tk.startswith('ok') else tk)
        src = ''.join(chr(int(x, 16)) for x in f[1].split('.')) if f[1] != '-' else ''
        print('source:\n' + _norm(src))
    elif f[0] == 'errline':
        print('model:', ctx.run_lean([case])[0])
        print('spec :', ctx.run_lean(['spec:' + case])[0])
    if data.get('spec'):
        print('expected:', data['spec'][:3000])
