"""C14 — stream `textfam`: histories over a FAMILY of text values derived from each other.

One parent text (every length 1…12, multi-byte characters); a script of steps each of which derives a NEW member from
existing ones — 拼接 of literal texts / of other members (the SAME parent extended several times while the earlier results
are alive), copies by 令 and by =, 取样 results (joined again later), 分隔 pieces, 替换 results — or applies 转换数值 to a
member (the one operation that rewrites its receiver).  After EVERY step EVERY member is observed: 长度, the text itself,
字符组, and 取样 i..j for the pairs 1 ≤ i ≤ j ≤ n with j − i < 3 or i = 1 or j = n.

Oracle: Spec.TextFamily (each value is an immutable character sequence; only 转换数值 rewrites, and only its receiver).
The generator tracks the characters only to choose executable steps (valid indices, separators that occur); the judging is
done by the spec driver on the same protocol line.
"""

MARKS = [[0x2A, 0x5E], [0x2A, 0x31, 0x30, 0x5E]]


def cps(s):
    return '.'.join('%x' % c for c in s) if s else '-'


def _replace_first(t, pat, rep):
    for i in range(len(t) - len(pat) + 1):
        if t[i:i + len(pat)] == pat:
            return t[:i] + rep + t[i + len(pat):]
    return t


def _rewrite(t):
    return _replace_first(_replace_first(t, MARKS[0], [0x65]), MARKS[1], [0x65])


def _split(t, sep):
    if not sep:
        return [[c] for c in t]
    out, cur, i = [], [], 0
    while i < len(t):
        if t[i:i + len(sep)] == sep:
            out.append(cur)
            cur = []
            i += len(sep)
        else:
            cur.append(t[i])
            i += 1
    return out + [cur]


def _join(sep, ps):
    out = []
    for i, p in enumerate(ps):
        if i:
            out += sep
        out += p
    return out


def gen_family(rng, gen_text, n_parent):
    """(parent, steps, stats) — stats: names of the shapes this script contains"""
    parent = gen_text(rng, n_parent)
    if rng.random() < 0.12:
        k = rng.randint(0, len(parent))
        parent = parent[:k] + rng.choice(MARKS) + [0x33] + parent[k:]
    fam = [list(parent)]
    extended = {}           # member -> how many times it was the receiver of 拼接
    steps = []
    shapes = set()
    for _ in range(rng.randint(2, 6)):
        if sum(len(t) for t in fam) > 90 or len(fam) >= 7:
            break
        r = rng.random()
        if extended and rng.random() < 0.55:
            k = rng.choice(sorted(extended))        # a member that was already extended: extend it AGAIN
        else:
            k = rng.randrange(len(fam))
        t = fam[k]
        if r < 0.45:
            lits = [gen_text(rng, rng.choice([1, 1, 1, 2, 2, 3])) for _ in range(rng.choice([1, 1, 1, 2]))]
            if rng.random() < 0.08:
                lits.append([])
            steps.append('j%d:%s' % (k, ','.join(cps(x) for x in lits)))
            fam.append(t + [c for x in lits for c in x])
            extended[k] = extended.get(k, 0) + 1
            if extended[k] >= 2:
                shapes.add('same_parent_extended_twice')
        elif r < 0.57:
            ms = [rng.randrange(len(fam)) for _ in range(rng.choice([1, 1, 2]))]
            if len(t) + sum(len(fam[m]) for m in ms) > 30:      # members stay short: every one is observed at ~4n index pairs
                ms = ms[:1] if len(t) + len(fam[ms[0]]) <= 30 else []
            if not ms:
                continue
            steps.append('J%d:%s' % (k, ','.join(map(str, ms))))
            fam.append(t + [c for m in ms for c in fam[m]])
            extended[k] = extended.get(k, 0) + 1
            if extended[k] >= 2:
                shapes.add('same_parent_extended_twice')
            shapes.add('members_joined')
        elif r < 0.66:
            steps.append('c%d' % k)
            fam.append(list(t))
            shapes.add('copy')
        elif r < 0.72:
            steps.append('a%d' % k)
            fam.append(list(t))
            shapes.add('copy')
        elif r < 0.81 and t:
            i = rng.randint(1, len(t))
            j = rng.randint(i - 1, len(t)) if rng.random() < 0.9 else -1
            steps.append('s%d:%d:%d' % (k, i, j))
            fam.append(t[i - 1:] if j == -1 else t[i - 1:j])
            shapes.add('slice_member')
        elif r < 0.88 and t:
            a = rng.randrange(len(t))
            sep = t[a:a + rng.randint(0, 2)]
            ps = _split(t, sep)
            idx = rng.randrange(len(ps) + 2)
            steps.append('p%d:%s:%d' % (k, cps(sep), idx))
            fam.append(ps[idx % len(ps)])
            shapes.add('split_piece')
        elif r < 0.94 and t:
            a = rng.randrange(len(t))
            pat = t[a:a + rng.randint(1, 2)]
            rep = gen_text(rng, rng.randint(0, 2))
            steps.append('r%d:%s:%s' % (k, cps(pat), cps(rep)))
            fam.append(_join(rep, _split(t, pat)))
            shapes.add('replace')
        else:
            steps.append('n%d' % k)
            if _rewrite(t) != t:
                shapes.add('rewritten')
            fam[k] = _rewrite(t)
            shapes.add('to_number')
    if not steps:
        steps.append('c0')
    return parent, steps, shapes


def run_textfam(ctx, gen_text, three):
    rng = ctx.rng
    cases, shapes_of = [], []
    total = ctx.n(240, 6000)
    for q in range(total):
        n = 1 + q % 12                       # parents of every length 1…12
        parent, steps, shapes = gen_family(rng, gen_text, n)
        cases.append('textfam %s %s' % (cps(parent), ';'.join(steps)))
        shapes_of.append(shapes)
    # a family case is ~15 programs of up to 50 method calls each: the Go side is spread over worker processes by hand
    # (framework.run_lines only splits streams of 400+ lines)
    from concurrent.futures import ThreadPoolExecutor
    nw = 8
    size = (len(cases) + nw - 1) // nw
    chunks = [cases[i:i + size] for i in range(0, len(cases), size)]
    with ThreadPoolExecutor(max_workers=nw) as ex:
        go = [a for part in ex.map(lambda ch: ctx.run_go(ch, timeout_ms=30000, parallel=False), chunks) for a in part]
    for i, a in enumerate(go):
        if a == 'timeout' or a.startswith('crash'):
            go[i] = ctx.run_go([cases[i]], timeout_ms=60000, parallel=False)[0]
            ctx.count('go_ops_rerun_alone')
    model = ctx.run_lean(cases)
    spec = ctx.run_lean(['spec:' + c for c in cases])
    stuck = 0
    for c, g, m, s, sh in zip(cases, go, model, spec, shapes_of):
        ctx.evaluations += 1
        if g != m:
            ctx.disagreement('textfam', c, g, m)
        if g != s:
            ctx.violation('textfam', c, g, s)
        if s.endswith('stuck') or s == 'bad-op':
            stuck += 1
        else:
            ctx.nontriv(c)
        for name in sh:
            ctx.count('textfam_' + name)
        ctx.count('textfam_observations', s.count('L='))
    ctx.count('textfam_stuck', stuck)
    k = len(cases) // 2
    ctx.sample({'op': cases[k], 'go': go[k][:600], 'model': model[k][:600], 'spec': spec[k][:600]})
    ctx.streams.append({'stream': 'textfam', 'cases': len(cases), 'stuck': stuck})
