"""C03 — comment BODIES and comment PLACES that try to be noticed (clause: "comments … never change the tree").

znlayout's own pool (`COMMENT_BODIES`) holds harmless bodies.  Here a body is a random concatenation of fragments that every comment
scanner must walk over without reacting: quote characters of the OTHER style (unpaired and paired), single quotes, 《》, back-ticks, comment
openers of the other kinds, `*/` look-alikes, keywords, brackets, punctuation, digits, white space, line ends (block comments only).
Only what the grammar of the comment kind itself forbids is removed (`sanitize`):

  kind 0  注N：…        no line end; the character right after ： is not “ or 「 (that would open a block comment)
  kind 1  //…          no line end
  kind 2  /*…*/        no `*/`
  kind 3  注N：“…” / 注N：「…」   quotes of the comment's OWN style are balanced (they nest); quotes of the other style are plain text

Two ways in:  `rich(znlayout)` — context manager that swaps the pool of the layout renderer (all layouts: CR / CRLF / LFCR, TAB, … then
apply to the new bodies);  `decorate(rng, src, spans)` — comments put into the canonical text at chosen places: very start / very end of
the text (with and without a line end), two comments in a row, directly after a text literal or a back-tick name (no space), between any
two tokens, at line ends, on own lines (multi-line, with CR / LF / CRLF / LFCR inside).
The oracle is unchanged: tree of the text with comments = intended tree; the line of every 导入 node = the physical line it stands on.
All randomness comes from the rng passed in."""
import contextlib

T_STRING, T_ID, T_NUMBER = 2, 5, 3
ARITH_OPS = {27, 28, 36, 37, 38, 39}

QUOTES = ['「', '」', '“', '”', '「', '」', '“', '”', '「甲」', '“乙”', '」「', '”“', '「“', '”」', '“「”', '「“」', '「「', '””',
          '‘', '’', '『', '』', '‘丙’', '『丁』', '《', '》', '《戊》', '"', "'", '“‘己’”', '「『庚』」']
OPENERS = ['//', '/*', '注：', '注：“', '注：「', '注12：', '注1：「', '注', '注：：', '/**', '///', '/*/', '//*', '注:']
LOOKALIKES = ['* /', '*／', '＊/', '*\\/', '**', '*', '/', '* */'[:3], '×/', '*/']
BACKTICKS = ['`', '`名`', '``', '`令`']
KEYWORDS = ['令', '为', '如果', '否则', '每当', '如何', '以', '得到', '抛出', '拦截', '导入', '返回', '其', '此之', '成为', '何为', '定义', '遍历', '恒为',
            '设为', '等于', '之', '的', '或', '且', '结束循环']
PUNCT = ['，', '；', '：', '！', '？', '、', '。', '（', '）', '【', '】', '{', '}', '(', ')', '[', ']', '==', '/=', '=', '+', '-', '%', '|', '#', '&', '$',
         '@', '\\', ',', ';', ':', '!', '?', '）））', '【【', '】}', '——', '……']
DIGITS = ['12', '3.14', '-5', '1e3', '*10^2', '0', '１２']
PLAIN = ['说明', 'x = 1', '令甲为1', ' ', '  ', '　', '\t', '第二行', 'TODO', 'é', '\U0001F600', '']
LINE_ENDS = ['\n', '\n', '\r', '\r\n', '\n\r', '\n\n', '\n  ', '\n\t']
POOLS = [QUOTES, QUOTES, QUOTES, OPENERS, OPENERS, LOOKALIKES, BACKTICKS, KEYWORDS, PUNCT, DIGITS, PLAIN, PLAIN]
STYLES = [('“', '”'), ('「', '」')]
STATS = {}          # what the comments drawn so far contained (reported by the check)


def _stat(k):
    STATS[k] = STATS.get(k, 0) + 1


def _unbalanced(b, l, r):
    d = 0
    for c in b:
        if c == l:
            d += 1
        elif c == r:
            d -= 1
            if d < 0:
                return True
    return d != 0


def raw_body(rng, multiline):
    n = rng.choice([0, 1, 1, 2, 2, 3, 4])
    parts = []
    for i in range(n):
        parts.append(rng.choice(rng.choice(POOLS)))
        if multiline and rng.random() < 0.3:
            parts.append(rng.choice(LINE_ENDS))
    if multiline and not any('\n' in p or '\r' in p for p in parts):
        parts.insert(rng.randint(0, len(parts)), rng.choice(LINE_ENDS))
    return ''.join(parts)


def balance(body, left, right):
    """make the quotes of ONE style a well-nested sequence: drop a closer that has no opener, close what stays open"""
    out, depth = [], 0
    for c in body:
        if c == left:
            depth += 1
        elif c == right:
            if depth == 0:
                continue
            depth -= 1
        out.append(c)
    return ''.join(out) + right * depth


def sanitize(kind, body, style=None):
    if kind in (0, 1):
        body = body.replace('\n', '').replace('\r', '')
        if kind == 0 and body[:1] in ('“', '「'):
            body = ' ' + body                       # 注： “… is a line comment: only the character right after ： opens a block
        return body
    if kind == 2:
        while '*/' in body:
            body = body.replace('*/', '')
        return body
    return balance(body, *style)


def comment(rng, kind, multiline_ok):
    """same contract as znlayout.comment: kind 0 注：  1 //  2 /* */  3 注：“ ” / 注：「 」; a line end only if multiline_ok (written as LF:
    the layout renderer turns LF into its line end; raw CR / CRLF / LFCR inside the body stay)"""
    ml = multiline_ok and kind in (2, 3) and rng.random() < 0.4
    body = raw_body(rng, ml)
    if not multiline_ok:
        body = body.replace('\n', '').replace('\r', '')
    n = rng.choice(['', '', '', '1', '12', '007', '1234567890'])
    if kind in (0, 1):
        b = sanitize(kind, body)
        _stat('line-comment')
        if any(c in b for c in '“”「」'):
            _stat('line-comment:quote-inside')
        if any(o in b for o in ('//', '/*', '*/', '注：')):
            _stat('line-comment:other-comment-opener-inside')
        if '`' in b:
            _stat('line-comment:back-tick-inside')
        return ('注' + n + '：' + b) if kind == 0 else ('//' + rng.choice(['', ' ']) + b)
    if kind == 2:
        b = sanitize(2, body)
        if b.startswith('/') and rng.random() < 0.5:
            b = ' ' + b
        _stat('slash-block')
        if any(o in b for o in ('//', '/*', '注：')):
            _stat('slash-block:other-comment-opener-inside')
        if any(c in b for c in '“”「」'):
            _stat('slash-block:quote-inside')
        if '*' in b or '／' in b:
            _stat('slash-block:star-or-lookalike-inside')
        if '\n' in b or '\r' in b:
            _stat('slash-block:line-end-inside')
        return '/*' + b + '*/'
    style = rng.choice(STYLES)
    other = STYLES[1 - STYLES.index(style)]
    b = sanitize(3, body, style)
    _stat('quote-block')
    if _unbalanced(b, *other):
        _stat('quote-block:unpaired-quote-of-other-style')
    elif other[0] in b:
        _stat('quote-block:paired-quotes-of-other-style')
    if style[0] in b:
        _stat('quote-block:nested-own-style')
    if any(c in b for c in '‘’『』《》'):
        _stat('quote-block:single-quotes-or-《》')
    if '\n' in b or '\r' in b:
        _stat('quote-block:line-end-inside')
    if '\r' in b:
        _stat('quote-block:CR-inside')
    if any(o in b for o in ('//', '/*', '*/', '注')):
        _stat('quote-block:other-comment-opener-inside')
    return '注' + n + '：' + style[0] + b + style[1]


def inline(rng):
    """a single-line block comment (may stand between two tokens of a statement)"""
    return comment(rng, rng.choice([2, 3]), False)


@contextlib.contextmanager
def rich(znlayout):
    """inside the block the layout renderer draws its comments from this module"""
    old_comment, old_bodies = znlayout.comment, znlayout.COMMENT_BODIES
    znlayout.comment = comment
    znlayout.COMMENT_BODIES = _RichBodies()
    try:
        yield
    finally:
        znlayout.comment, znlayout.COMMENT_BODIES = old_comment, old_bodies


class _RichBodies:
    """sequence handed to rng.choice by the renderer's inline-comment line: indexing draws nothing itself, it maps the index the rng chose
    onto a body built from that index (deterministic in the rng's own stream)"""
    N = 4096

    def __len__(self):
        return self.N

    def __getitem__(self, i):
        import random
        r = random.Random(i)                      # i comes from ctx.rng: still one PRNG stream
        return sanitize(2, raw_body(r, False)).replace('\n', '').replace('\r', '')


def decorate(rng, src, spans, density=0.04, offsets=None):
    """src: canonical text (LF, 4-space indents, no comments); spans: its tokens.  Returns the text with comments inserted;
    `offsets` (a list) receives the offset of every token in it."""
    ins = {}                                      # position in src -> text inserted before src[position]

    def add(pos, s):
        ins[pos] = ins.get(pos, '') + s

    def line_no(pos):
        return src.count('\n', 0, pos)

    def glue(prev_ty, prev_text, c, next_ty):
        """spaces a comment needs so that it does not merge with its neighbours (not layout: `甲注` is a name, `+/*` is no operator)"""
        pre = post = ''
        if prev_ty in ARITH_OPS:
            pre = ' '
        if c.startswith('注') and prev_ty in (T_ID, T_NUMBER) and not prev_text.endswith('`'):
            pre = ' '
        if next_ty in ARITH_OPS:
            post = ' '
        return pre + c + post

    n = len(spans)
    special = rng.random()
    for i, (a, b, ty) in enumerate(spans):
        first = i == 0 or line_no(spans[i - 1][1] - 1) != line_no(a)
        last = i + 1 == n or line_no(b - 1) != line_no(spans[i + 1][0])
        if first:
            ls = src.rfind('\n', 0, a) + 1
            ind = src[ls:a]
            k = 0
            while rng.random() < (density if k == 0 else 0.35) and k < 3:          # own line(s); two or three in a row
                pad = rng.choice([ind, ind, '', ind + '    '])
                add(ls, pad + comment(rng, rng.randrange(4), True) + '\n')
                k += 1
            if rng.random() < density / 2 and ty not in ARITH_OPS:                  # between the indentation and the first token
                add(a, glue(None, '', inline(rng), ty))
        else:
            pa, pb, pty = spans[i - 1]
            ptext = src[pa:pb]
            boost = 3 if (pty == T_STRING or ptext.endswith('`')) else 1
            if rng.random() < density * boost:
                c = inline(rng)
                if rng.random() < 0.3:
                    c += rng.choice(['', ' ']) + inline(rng)                        # two in a row
                    _stat('place:two-inline-in-a-row')
                if boost == 3:
                    _stat('place:after-text-literal-or-back-tick-name')
                gap = src[pb:a]
                if rng.random() < 0.6:
                    ins[pb] = ins.get(pb, '') + glue(pty, ptext, c, ty if gap == '' else None)   # directly after the previous token
                else:
                    add(a, glue(pty if gap == '' else None, ptext, c, ty))                        # directly before this one
        if last and rng.random() < density * 1.5:
            c = comment(rng, rng.choice([0, 1]), False)
            if rng.random() < 0.3:
                c = inline(rng) + rng.choice(['', ' ']) + c                         # block comment, then a line comment
            add(b, glue(ty, src[a:b], c, None) if rng.random() < 0.4 else ' ' + c)
    if n:
        a0, bn, tyn = spans[0][0], spans[-1][1], spans[-1][2]
        if special < 0.5:
            _stat('place:text-starts-with-comment' if special < 0.25 else 'place:text-ends-with-comment')
        if special < 0.25:                        # the very first characters of the text are a comment
            ls = src.rfind('\n', 0, a0) + 1
            if ls == 0 and a0 == 0 and rng.random() < 0.5:
                ins[0] = glue(None, '', inline(rng), spans[0][2]) + ins.get(0, '')
            else:
                ins[0] = comment(rng, rng.randrange(4), True) + '\n' + ins.get(0, '')
        elif special < 0.5:                       # the very last characters of the text are a comment (no line end after it)
            tail = src[bn:]
            if tail.strip('\n ') != '':
                STATS['place:text-ends-with-comment'] -= 1
            else:
                c = comment(rng, rng.randrange(4), False)
                r = rng.random()
                if r < 0.4:
                    add(bn, glue(tyn, src[spans[-1][0]:bn], c, None))
                    src_end = bn
                elif r < 0.7:
                    add(bn, ' ' + c)
                    src_end = bn
                else:
                    add(bn, '\n' + comment(rng, rng.randrange(4), True))
                    src_end = bn
                src = src[:src_end]
    out, pos = [], 0
    cum = {}
    for p in sorted(ins):
        out.append(src[pos:p])
        out.append(ins[p])
        pos = p
        cum[p] = len(ins[p])
    out.append(src[pos:])
    if offsets is not None:
        keys = sorted(cum)
        for (a, b, ty) in spans:
            offsets.append(a + sum(cum[k] for k in keys if k <= a))
    return ''.join(out)
