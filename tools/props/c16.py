"""C16 — executions are isolated. Streams:
  iso   : P1;…;Pn;Q in one process (separate interpreters, and one shared interpreter) vs Q in a brand-new process
  race  : N goroutines × reps through one shared Interpreter (LoadScript(src).Execute), plain and under the Go race
          detector (a second harness binary built with -race)
The process model (what is shared) is tied to the source by regenerated facts (Generated/Process.lean)."""
import os, subprocess, itertools
from zngen import cps
import framework as fw

RULE = ("iso: every polluter (constructor redefinition of the predefined type and of user types, every mutating method applicable to a "
        "predefined value, failing calls that leave frames, library imports, declarations of the names the probes use, uncaught errors) × "
        "every probe, sequences of 1–3 polluters, with separate interpreters and with one shared interpreter; the probe's outcome must equal "
        "its outcome in a fresh process. race: 8/32 goroutines × 150/1500 requests of 6 distinct programs through one shared interpreter; any "
        "foreign result or race report fails. Non-trivial = the sequence contains a polluter that touches something the probe reads.")
ASSUMPTIONS = ["data-race freedom in the Go memory model is sampled by the race detector, not proved",
               "pkg/server's handlers call LoadFile/LoadScript(...).Execute on a shared interpreter exactly as the race op does (pkg/server itself needs the Linux pipe hook to compile)"]
PARTIAL = "the Lean model proves the logical part (nothing mutable is shared; a request runs its own source under every interleaving); scheduler behaviour is runtime"

POLLUTERS = {
    'redefine-exception-ctor': '如何新建异常？\n    输入话\n    其内容 = “劫持”\n抛出异常：“x”！\n拦截异常：\n    输出 1\n',
    'redefine-exception-ctor-noarg': '如何新建异常？\n    （显示：“劫持”）\n',
    'mutate-predefined-number': '以数值（自增：5）\n以数值（自减：2）\n',
    'mutate-number-in-method': '如何改？\n    以数值（自增：100）\n（改）\n',
    'failing-call-leaves-frames': '如何坏？\n    输出 1 / 0\n（坏）\n',
    'failing-nested-calls': '如何甲？\n    输出（乙）\n如何乙？\n    抛出异常：“深”！\n（甲）\n',
    'uncaught-break': '结束循环\n',
    'import-json': '导入《@JSON》\n令X设为（生成JSON：【a = 1】）\n',
    'import-file': '导入《@文件》\n',
    'declare-probe-names': '令探针设为99\n如何查？\n    输出 -1\n定义狗：\n    其名设为“劫持”\n',
    'user-type-ctor': '定义狗：\n    其名设为“甲”\n如何新建狗？\n    其名 = “劫持”\n令D设为（新建狗）\n',
    'display-redefine-attempt': '令显示设为1\n',
    'huge-heap': '令L设为【】\n令I设为0\n每当I < 200：\n    I = I + 1\n    以L（后增：【I，I】）\n',
    'syntax-error': '令令令\n',
    # in-place mutators applied to every kind of value the RUNTIME hands to a program (a value it might keep and hand out again)
    'mutate-loop-index': '以序、项遍历【5，6，7】：\n    以序（自增：100）\n',
    'mutate-loop-item': '以项遍历【5，6，7】：\n    以项（自增：100）\n',
    'mutate-dict-loop-key': '以键、值遍历【“1*^3” = 1，b = 2】：\n    如果键 == “1*^3”：\n        令N设为以键（转换数值）\n',
    'mutate-number-literal': '如何取？\n    输出 3\n令X设为（取）\n以X（自增：5）\n令Y设为7\n以Y（自减：7）\n',
    'mutate-text-literal': '如何文？\n    输出 “1*^3”\n令T设为（文）\n令N设为以T（转换数值）\n',
    'mutate-length-and-chars': '令L设为【1，2】之长度\n以L（自增：9）\n令C设为“ab”之字符组\n以C（后增：“z”）\n令K设为【a = 1】之所有索引\n以K（后增：“z”）\n',
    'syntax-error-late': '令甲设为1\n令乙设为【1，2\n令丙设为3\n',
    'syntax-error-in-block': '如何坏？\n    输出 1 +\n（坏）\n',
    'http-request-headers-in-place': '导入《@验证HTTP》\n令请求设为（新建HTTP请求：“POST”、“http://a.example/x”、【“用户” = “甲”】）\n请求之头部#“Authorization” = “令牌”\n令二设为（新建HTTP请求：“POST”、“http://a.example/y”、“文本体”）\n二之头部#“X” = “1”\n',
    'http-response-in-place': '导入《@验证HTTP》\n令答设为（新建HTTP响应：200、“好”、【“K” = “1”】）\n答之头部#“Set-Cookie” = “a=1”\n',
    'redefine-library-class-ctor': '导入《@验证HTTP》\n如何新建HTTP响应？\n    输入码\n    （显示：“劫持”）\n令答设为（新建HTTP响应：200）\n',
    # the same through an alias: the library class reaches a method as an argument and the constructor is declared for the parameter
    'redefine-library-class-ctor-through-alias': '导入《@验证HTTP》\n如何改造？\n    输入某类型\n    如何新建某类型？\n        输入码\n        （显示：“劫持”）\n（改造：HTTP响应）\n令答设为（新建HTTP响应：200）\n',
    'redefine-exception-ctor-through-alias': '如何改造？\n    输入某类型\n    如何新建某类型？\n        输入文\n        其内容 = “劫持”\n（改造：异常）\n',
    'json-parse-result-changed-unbound': '导入《@JSON》\n令文设为“{"a":[1,2],"b":{"c":1}}”\n令X设为以（解析JSON：文）（写入：“多”、99）\n令Y设为以（解析JSON：文）（移除：“a”）\n',
    'mutate-number-straight-from-literal': '如何升？\n    输入数\n    输出以数（自增：1）\n令甲设为（升：41）\n令乙设为以100（自减：30）\n令丙设为以【7，8】#1（自增：5）\n',
    'mutate-list-literal-in-method': '如何列？\n    输出【1，2】\n令A设为（列）\n以A（后增：3）\n',
}
PROBES = {
    'exception-content': '如何试？\n    抛出异常：“真话”！\n    拦截异常：\n        输出 其内容\n输出（试）\n',
    'exception-object': '输出（新建异常：“甲”）之内容\n',
    'predefined-number': '输出 数值\n',
    'predefined-number-arith': '令N设为数值\n输出 N + 1\n',
    'own-names': '令探针设为7\n如何查？\n    输出 探针\n定义狗：\n    其名设为“旺”\n输出【（查），（新建狗）之名】\n',
    'json': '导入《@JSON》\n输出（生成JSON：【b = 2，a = 【1，2】】）\n',
    'error-chain': '如何深？\n    输出 1 / 0\n（深）\n',
    'this-at-top': '输出 其名\n',
    'truth': '输出【真，假，空】\n',
    'http-request': '导入《@验证HTTP》\n令甲设为（新建HTTP请求：“POST”、“http://b.example/r”、【“数” = 1】）\n令乙设为（新建HTTP请求：“POST”、“http://b.example/t”、“体”）\n令丙设为（新建HTTP请求：“GET”、“http://b.example/g”）\n输出【甲之头部，乙之头部，丙之头部】\n',
    'http-response': '导入《@验证HTTP》\n令答设为（新建HTTP响应：201、“好”、【“K” = “1”】）\n输出【答之状态码，答之头部】\n',
    'json-parse': '导入《@JSON》\n令文设为“{"a":[1,2],"b":{"c":1}}”\n输出（解析JSON：文）\n',
    'number-literals': '如何升？\n    输入数\n    输出以数（自增：1）\n输出【41，100，7，（升：41），以100（自减：30），41 + 100】\n',
    'loop-indices': '令和设为0\n令出设为【】\n以序、项遍历【5，6，7】：\n    和 = 和 + 序\n    以出（后增：项）\n输出【和，出】\n',
    'dict-loop-keys': '令出设为【】\n以键、值遍历【“1*^3” = 1，b = 2】：\n    以出（后增：键）\n输出 出\n',
    'literals': '如何取？\n    输出 3\n如何文？\n    输出 “1*^3”\n如何列？\n    输出【1，2】\n输出【（取），7，（文），（列），【1，2】之长度，“ab”之字符组，【a = 1】之所有索引】\n',
}
# programs that change what they read: executed repeatedly from ONE loaded program object, every execution starts afresh
REEXEC = {
    'bump-predefined-number': '以数值（自增：5）\n输出 数值\n',
    'redefine-exception-ctor-then-throw': '如何新建异常？\n    输入话\n    其内容 = “劫持”\n如何试？\n    抛出异常：“真话”！\n    拦截异常：\n        输出 其内容\n输出（试）\n',
    'grow-list-literal': '令L设为【1】\n以L（后增：2）\n输出 L\n',
    'declare-and-count': '令N设为0\n每当N < 3：\n    N = N + 1\n输出 N\n',
    'bump-loop-index': '令和设为0\n以序、项遍历【5，6，7】：\n    以序（自增：10）\n    和 = 和 + 序\n输出 和\n',
    'literal-with-escapes': '令文设为“a`SP`b`U+4E2D`c`CRLF`d”\n令引设为“左`“`右”\n输出【文，引】\n',
    'object-default': '定义狗：\n    其名设为【1】\n令D设为（新建狗）\n以D之名（后增：2）\n输出 D之名\n',
}


def run(ctx):
    rng = ctx.rng
    # ---- iso ------------------------------------------------------------------------------------------
    pnames, qnames = list(POLLUTERS), list(PROBES)
    seqs = [[p] for p in pnames]
    extra = ctx.n(40, 600)
    for _ in range(extra):
        seqs.append([rng.choice(pnames) for _ in range(rng.randint(2, 3))])
    cases = []
    for sq in seqs:
        for q in qnames:
            for shared in (0, 1):
                cases.append((sq, q, shared))
    lines = ['seq %d %d %s %s' % (sh, len(sq) + 1, ' '.join(cps(POLLUTERS[p]) for p in sq), cps(PROBES[q])) for sq, q, sh in cases]
    fresh_lines = ['freshrun ' + cps(PROBES[q]) for q in qnames]
    fresh = dict(zip(qnames, ctx.run_go(fresh_lines, parallel=False)))
    go = ctx.run_go(lines)
    for (sq, q, sh), line, g in zip(cases, lines, go):
        ctx.evaluations += 1
        ctx.count('iso:' + q)
        if g != fresh[q]:
            ctx.violation('iso' + ('-shared' if sh else ''), line, g, fresh[q] + '   (probe %s alone in a fresh process; polluters %s)' % (q, '+'.join(sq)))
        ctx.nontriv(line)
    ctx.sample({'sequence': seqs[0] + ['exception-content'], 'line': lines[0][:200], 'go': go[0], 'fresh': fresh[qnames[0]]})
    ctx.streams.append({'stream': 'iso', 'cases': len(lines), 'polluters': len(pnames), 'probes': len(qnames)})
    # ---- reexec: one loaded program executed several times -----------------------------------------------
    rnames = list(REEXEC)
    rfresh = ctx.run_go(['freshrun ' + cps(REEXEC[r]) for r in rnames], parallel=False)
    rlines = ['reexec 3 ' + cps(REEXEC[r]) for r in rnames]
    rgo = ctx.run_go(rlines, parallel=False)
    for r, line, g, fr in zip(rnames, rlines, rgo, rfresh):
        ctx.evaluations += 1
        ctx.count('reexec:' + r)
        want = ' ;; '.join([fr] * 3)
        if g != want:
            ctx.violation('reexec', line, g, want + '   (the program %s alone in a fresh process, three times)' % r)
        ctx.nontriv(line)
    ctx.streams.append({'stream': 'reexec', 'cases': len(rlines)})
    # the spec side of iso is the probe alone on the model evaluator from its pristine initial state
    from props import progs
    # (model correspondence of the probes themselves)
    # ---- race -----------------------------------------------------------------------------------------
    progs6 = ['输出 %d + %d\n' % (i, i) for i in range(1, 4)] + \
             ['如何算？\n    输入N\n    如果N <= 0：\n        输出 0\n    输出 N + （算：N - 1）\n输出（算：%d）\n' % k for k in (5, 9)] + \
             ['令L设为【%d】\n以L（后增：1）\n输出 L\n' % 7]
    g, reps = ctx.n(8, 32), ctx.n(150, 1500)
    line = 'race %d %d %s' % (g, reps, ' '.join(cps(p) for p in progs6))
    out = ctx.run_go([line], timeout_ms=120000, parallel=False)[0]
    ctx.evaluations += g * reps
    ctx.count('race:requests', g * reps)
    if out != 'ok':
        ctx.violation('race', line, out, 'ok   (every request must get the result of its own program)')
    # under the race detector
    rb = fw.B + '/znharness-race'
    if os.path.exists(rb):
        p = subprocess.run([rb], input=('race %d %d %s\n' % (min(g, 8), min(reps, 100), ' '.join(cps(p) for p in progs6))),
                           stdout=subprocess.PIPE, stderr=subprocess.PIPE, text=True,
                           env=dict(os.environ, ZNH_TIMEOUT_MS='300000', GORACE='halt_on_error=0'))
        ctx.evaluations += 1
        races = p.stderr.count('WARNING: DATA RACE')
        ctx.count('race-detector:reports', races)
        if races or p.stdout.strip() != 'ok':
            first = p.stderr.split('WARNING: DATA RACE', 1)[1][:1200] if races else p.stdout[:300]
            ctx.violation('race-detector', 'race (under -race) ' + line[:120], 'DATA RACE ×%d: %s' % (races, first), 'no race report')
        ctx.streams.append({'stream': 'race-detector', 'cases': 1, 'reports': races})
    else:
        ctx.notes.append('race-detector binary not built (znharness-race missing); plain race stream only')
    ctx.streams.append({'stream': 'race', 'cases': 1, 'goroutines': g, 'reps': reps})


def replay(ctx, data):
    case = data['case']
    print('case:', case[:300])
    print('go  :', ctx.run_go([case], timeout_ms=120000)[0])
    print('want:', data.get('spec'))
